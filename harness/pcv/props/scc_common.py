"""shared by C05, C06, C15, C16: run the real SCCReader and the Lean model on a program"""
from fractions import Fraction
from pcv import core, capio, sccgen


def impl_read(text, offset=0, reader=None, lang=None):
    import pycaption, zlib
    from pycaption.exceptions import CaptionLineLengthError, CaptionReadTimingError, CaptionReadNoCaptions
    # the language code under which the captions are filed must not matter: every third document is read under another one
    if lang is None:
        lang = ["en-US", "fr-FR", "und"][zlib.crc32(text.encode("utf-8")) % 3] if zlib.crc32(text.encode("utf-8")) % 3 else "en-US"
    try:
        cs = (reader or core.POOL.get(pycaption.SCCReader)).read(text, lang=lang, offset=offset)
    except CaptionLineLengthError as e:
        return ("err", "lineLength", e.args[0])
    except CaptionReadTimingError as e:
        return ("err", "timingError", e.args[0])
    except CaptionReadNoCaptions as e:
        return ("err", "noCaptions", "")
    except Exception as e:
        return ("err", "pyError", repr(e))
    return ("ok", [sccgen.obs_caption(c) for c in cs.get_captions(lang)])


def dec_pos(t):
    a, b = t.split(".")
    return (int(a), int(b))


def dec_model(m):
    if m.startswith("err:lineLength:"):
        return ("err", "lineLength", core.dec(m[len("err:lineLength:"):]))
    if m.startswith("err:"):
        return ("err", m[4:], "")
    caps = []
    for c in core.dec_list(m[3:], lambda z: z):
        st, en, nodes, lay = c.split(";")
        ns = []
        for n in ([] if nodes == "_" else nodes.split(" ")):
            body, pos = n.rsplit("@", 1)
            if body[0] == "T":
                ns.append(("T", core.dec(body[1:]), dec_pos(pos)))
            elif body[0] == "B":
                ns.append(("B",))
            else:
                ns.append(("S", body[1] == "1"))
        caps.append((Fraction(st), Fraction(en), ns, None if lay == "N" else dec_pos(lay)))
    return ("ok", caps)


def compare_impl_model(I, M, tol=Fraction(1, 1024)):
    """None if they agree on the observables (times within 2^-10 us, nodes, positions), else a description"""
    if I[0] != M[0]:
        return "outcome differs: impl %s, model %s" % (I[:2], M[:2])
    if I[0] == "err":
        if I[1] != M[1]:
            return "error kind differs: impl %s, model %s" % (I[1], M[1])
        if I[1] == "lineLength":
            import re
            # the key is format_start() of a float time: the millisecond may differ by one from the exact model (DESIGN §2.6)
            stamp = re.compile(r"around \d\d:\d\d:\d\d\.\d\d\d")
            body = I[2].split("Lines longer than 32:\n", 1)[-1]
            if stamp.sub("around T", body) != stamp.sub("around T", M[2]):
                return "line-length message differs"
        return None
    if len(I[1]) != len(M[1]):
        return "caption count differs: impl %d, model %d" % (len(I[1]), len(M[1]))
    for k, (ci, cm) in enumerate(zip(I[1], M[1])):
        if abs(ci[0] - cm[0]) > tol or abs(ci[1] - cm[1]) > tol:
            return "times of caption %d differ: impl (%s, %s) model (%s, %s)" % (k, float(ci[0]), float(ci[1]), float(cm[0]), float(cm[1]))
        if ci[4] != cm[2]:
            return "nodes of caption %d differ: impl %s model %s" % (k, ci[4], cm[2])
        if cm[3] is not None:
            x = Fraction(80 * cm[3][1], 32) + 10; y = Fraction(90 * (cm[3][0] - 1), 15) + 5
            if ci[3] is None or abs(ci[3][0] - x) > Fraction(1, 10 ** 9) or abs(ci[3][1] - y) > Fraction(1, 10 ** 9):
                return "origin of caption %d differs" % k
    return None
