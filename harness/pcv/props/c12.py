"""C12 — positioning survives DFXP round trips and maps faithfully to WebVTT settings."""
import itertools, json, re
from fractions import Fraction
from pcv import core, capio, geo, setbuild
from pcv.props import c12_region

P = "PcVerif.Props.C12."
THEOREMS = [P + t for t in ["vtt_settings_arith", "vtt_settings_no_padding", "vtt_align_names", "vtt_settings_verbatim", "region_attrs_roundtrip", "region_attrs_roundtrip_exact", "alignment_attrs_roundtrip", "default_alignment_pinned", "layout_gets_own_region",
                            "vtt_settings_origin_only", "vtt_settings_no_origin", "vtt_settings_mixed_units_refused"]]
HAL = [None, "left", "center", "right", "start", "end"]
VAL = [None, "top", "center", "bottom"]
PCT = [0, 10, 12.5, 33.33, 50, 80, 16.1, 20.1, 66.1, 70.1]


def make(tier, seed):
    c = core.Check("C12", tier, seed, "PcVerif.Props.C12", THEOREMS)
    c.rule = ("percentage layouts over a grid: all horizontal x vertical alignment pairs incl. absent (exhaustive), padding arities via all-four values, origins / "
              "extents / paddings from {0,10,12.5,33.33,50,80}%, attached at language, caption and node level, relativize / fit_to_screen on and off; "
              "WebVTT: parsed cue settings vs position = x + left padding, line = y + top padding, size = w - horizontal paddings, align omitted iff centre, "
              "one cue per layout group with the same times, read settings written back verbatim; DFXP: write + read, effective layout per visible character; "
              "distinct = distinct (layouts, options); non-trivial = an origin or a non-default alignment is present")
    c.predicates = {"text_node_layout_differs_from_caption": pred_node_layout}
    return c


def pred_node_layout(case):
    """the character whose layout changed belongs to a TEXT node that carries its own layout without a styled span around it"""
    return case.get("text") is not None and case.get("text") in (case.get("bare_layout_texts") or [])


def mk_layout_desc(rng, with_origin=None):
    d = {}
    if with_origin or (with_origin is None and rng.random() < 0.75):
        d["origin"] = ["%s%%" % rng.choice(PCT), "%s%%" % rng.choice(PCT)]
    if rng.random() < 0.6:
        d["extent"] = ["%s%%" % rng.choice([20, 33.33, 50, 80, 100, 66.1, 70.1, 20.1]), "%s%%" % rng.choice([10, 15, 50, 90])]
    if rng.random() < 0.5:
        d["padding"] = ["%s%%" % rng.choice([0, 1, 2.5, 5, 6.1, 10.1]) for _ in range(4)]
    h, v = rng.choice(HAL), rng.choice(VAL)
    if h or v:
        d["align"] = [h, v]
    return d or None


def parse_settings(line):
    m = re.match(r"^\S+ --> \S+(.*)$", line)
    out = {}
    for tok in m.group(1).split():
        k, _, v = tok.partition(":")
        out[k] = v
    return out


def pct_str(q):
    """a percentage as WebVTT wants it: at most two decimals, no trailing zeros -- written out here from the exact value,
    not with the library's own formatter"""
    n = round(Fraction(q) * 100)
    whole, frac = divmod(abs(n), 100)
    t = "%d.%02d" % (whole, frac)
    t = t.rstrip("0")
    if t.endswith("."):
        t = t[:-1]
    return ("-" if n < 0 else "") + t + "%"


def explore(chk):
    import pycaption
    rng = chk.rng
    b = core.Batch()
    jobs = []
    # ---------------- WebVTT arithmetic: exhaustive alignment pairs + random values
    descs = []
    for h, v in itertools.product(HAL, VAL):
        d = mk_layout_desc(rng, with_origin=True) or {}
        d.pop("align", None)
        if h or v:
            d["align"] = [h, v]
        descs.append(d)
    for _ in range(250 if chk.tier == "quick" else 8000):
        descs.append(mk_layout_desc(rng))
    for d in descs:
        opts = rng.choice([{}, {}, {"fit_to_screen": False}, {"relativize": False}, {"relativize": False, "fit_to_screen": False}])
        L = setbuild.mk_layout(d)
        op = b.add("vtt.settings", core.enc_bool(opts.get("relativize", True)), core.enc_bool(opts.get("fit_to_screen", True)), "0", "0", geo.enc_layout(L))
        jobs.append((d, opts, op))
    out = b.run() if chk.driver_ok else None
    for (d, opts, op) in jobs:
        L = setbuild.mk_layout(d)
        cs = capio.build_set({"en-US": [(1000000, 2000000, capio.nodes_from_lines(["hello"]))]})
        cs.get_captions("en-US")[0].layout_info = L
        case = {"layout": d, "options": opts}
        chk.case(key=json.dumps(case, sort_keys=True), nontrivial=bool(d and ("origin" in d or "align" in d)), sample=case if chk.count_get("vtt") in (2, 30) else None)
        chk.count("vtt")
        try:
            doc = pycaption.WebVTTWriter(**opts).write(cs)
        except Exception as e:
            chk.property_failure(dict(case, error=repr(e)[:200]), "webvtt writer raised on a percentage layout"); continue
        line = [l for l in doc.split("\n") if "-->" in l][0]
        got = parse_settings(line)
        case["timing_line"] = line
        # S: from the property statement (after fit_to_screen if enabled: extent completed / clipped to 90/95)
        want = {}
        if d:
            x = y = w = None
            if d.get("origin"):
                x, y = (Fraction(d["origin"][0][:-1]), Fraction(d["origin"][1][:-1]))
            if d.get("extent"):
                w = Fraction(d["extent"][0][:-1])
            if opts.get("fit_to_screen", True) and x is not None:
                if w is None or x + w > 90:
                    w = 90 - x
            pad = [Fraction(p[:-1]) for p in d["padding"]] if d.get("padding") else None   # before, after, start, end
            h = (d.get("align") or [None, None])[0]
            al = h or "start"
            if al != "center":
                want["align"] = al
            if x is not None:
                want["position"] = pct_str(x + (pad[2] if pad else 0))
                want["line"] = pct_str(y + (pad[0] if pad else 0))
            if w is not None:
                ww = w
                if pad and x is not None:
                    ww -= pad[2]
                if pad:
                    ww -= pad[3]
                want["size"] = pct_str(ww)
        if got != want:
            chk.property_failure(dict(case, parsed=got, spec=want), "webvtt cue settings are not align / position = x + left padding / line = y + top padding / size = width - horizontal paddings")
        if any(not v.endswith("%") for k, v in got.items() if k in ("position", "line", "size")):
            chk.property_failure(dict(case, parsed=got), "webvtt output contains a non-percentage length")
        if out is not None:
            M = out[op]
            Mline = core.dec(M[3:]) if M.startswith("ok:") else M
            I = line.split(" --> ")[1].split(" ", 1)
            I = (" " + I[1]) if len(I) > 1 else ""
            if Mline != I:
                chk.correspondence_failure(dict(case, impl=I, model=Mline), "webvtt _convert_positioning: implementation and model differ")
    # ---------------- WebVTT: layout groups and verbatim settings
    for _ in range(80 if chk.tier == "quick" else 2000):
        la, lb = mk_layout_desc(rng, True), mk_layout_desc(rng, True)
        nodes = [("T", "one", la), ("B",), ("T", "two", la), ("B",), ("T", "three", lb)]
        cs = setbuild.build({"langs": [{"lang": "en-US", "caps": [{"start": 1000000, "end": 2000000, "nodes": [list(n) for n in nodes]}]}]})
        doc = pycaption.WebVTTWriter().write(cs)
        tl = [l for l in doc.split("\n") if "-->" in l]
        same = geo.obs_layout(setbuild.mk_layout(la)) == geo.obs_layout(setbuild.mk_layout(lb))
        chk.case(key=("groups", json.dumps([la, lb])), nontrivial=True); chk.count("vtt_groups")
        if len(tl) != (1 if same else 2) or len(set(l.split(" ")[0] + l.split(" ")[2] for l in tl)) != 1:
            chk.property_failure({"layouts": [la, lb], "output": doc}, "webvtt: nodes with different layouts are not written as separate cues with the same times")
        # a node with its own layout followed by a node without one: the second falls back to the caption's (or the language's) layout
        lc = mk_layout_desc(rng, True)
        level = rng.choice(["caption", "lang"])
        nodes2 = [["T", "one", la], ["B"], ["T", "two"]]
        d2 = {"langs": [{"lang": "en-US", "layout": lc if level == "lang" else None,
                         "caps": [{"start": 1000000, "end": 2000000, "nodes": nodes2, "layout": lc if level == "caption" else None}]}]}
        def ref_settings(layout_desc):
            one = {"langs": [{"lang": "en-US", "caps": [{"start": 1000000, "end": 2000000, "nodes": [["T", "x"]], "layout": layout_desc}]}]}
            return [l for l in pycaption.WebVTTWriter().write(setbuild.build(one)).split("\n") if "-->" in l][0].split(" ", 3)[3:]
        doc2 = pycaption.WebVTTWriter().write(setbuild.build(d2))
        tl2 = [l.split(" ", 3)[3:] for l in doc2.split("\n") if "-->" in l]
        chk.case(key=("fallback", json.dumps([la, lc, level])), nontrivial=True); chk.count("vtt_layout_fallback")
        if geo.obs_layout(setbuild.mk_layout(la)) != geo.obs_layout(setbuild.mk_layout(lc)):
            if tl2 != [ref_settings(la), ref_settings(lc)]:
                chk.property_failure({"set": d2, "output": doc2, "cue_settings": tl2, "spec": [ref_settings(la), ref_settings(lc)]},
                                     "webvtt: a text node without a layout of its own is not written with its caption's / language's layout")
        # one layout (with padding) shared by several cues -- inherited from the language, or one Layout object attached to
        # several captions: every cue gets the same settings, the first one's
        from pycaption import CaptionSet as _CS, CaptionList as _CL, Caption as _C, CaptionNode as _N
        sub_ = chk.sub("shared_layout")
        ld = {"origin": ["%d%%" % sub_.choice([5, 10, 20]), "%d%%" % sub_.choice([10, 40])], "extent": ["%d%%" % sub_.choice([50, 60]), "30%"],
              "padding": ["2%", "2%", "5%", "5%"], "align": [sub_.choice(["left", "right", "center"]), "top"]}
        L_ = setbuild.mk_layout(ld)
        how = sub_.choice(["language", "same_object"])
        caps_ = [_C((2 * i_ + 1) * 1000000, (2 * i_ + 2) * 1000000, [_N.create_text("cue %d" % i_)], layout_info=(L_ if how == "same_object" else None)) for i_ in range(3)]
        cs3 = _CS({"en-US": _CL(caps_, layout_info=(L_ if how == "language" else None))})
        doc3 = core.POOL.get(pycaption.WebVTTWriter).write(cs3)
        tl3 = [l.split(" ", 3)[3:] for l in doc3.split("\n") if "-->" in l]
        chk.case(key=("shared_layout", json.dumps(ld), how), nontrivial=True); chk.count("vtt_shared_layout")
        if len(tl3) != 3 or tl3[1] != tl3[0] or tl3[2] != tl3[0] or tl3[0] != ref_settings(ld):
            chk.property_failure({"layout": ld, "shared_through": how, "output": doc3, "spec_settings": ref_settings(ld)},
                                 "webvtt: cues that share one layout do not all get that layout's settings")
        raw = rng.choice(["line:10% align:left", "position:5%,line-left size:40%", "vertical:rl", "align:center line:-2"])
        src = "WEBVTT\n\n00:01.000 --> 00:02.000 %s\nhi\n" % raw
        back = pycaption.WebVTTWriter().write(pycaption.WebVTTReader().read(src))
        chk.case(key=("verbatim", raw), nontrivial=True); chk.count("vtt_verbatim")
        if ("00:01.000 --> 00:02.000 " + raw) not in back.split("\n"):
            chk.property_failure({"source": src, "output": back}, "webvtt: cue settings read from a file are not written back verbatim")
        # a file of several cues, some with settings and some without: every timing line comes back as it was
        SETS = ["line:10% align:left", "position:5%,line-left size:40%", "vertical:rl", "align:center line:-2", None, None]
        seq = [rng.choice(SETS) for _ in range(rng.randint(2, 4))]
        tls = ["00:%02d.000 --> 00:%02d.500" % (2 * i + 1, 2 * i + 2) + (" " + st if st else "") for i, st in enumerate(seq)]
        src = "WEBVTT\n\n" + "\n".join("%s\ncue %d\n" % (tl, i) for i, tl in enumerate(tls))
        back = core.POOL.get(pycaption.WebVTTWriter).write(core.POOL.get(pycaption.WebVTTReader).read(src))
        chk.case(key=("verbatim-seq", src), nontrivial=True); chk.count("vtt_verbatim_sequences")
        if [l for l in back.split("\n") if "-->" in l] != tls:
            chk.property_failure({"source": src, "output": back, "spec": tls}, "webvtt: the timing lines of a file whose cues partly carry settings are not written back verbatim")
    # ---------------- WebVTT: a writer object reused for several documents keeps nothing from the previous one
    shared = {}
    for k in range(60 if chk.tier == "quick" else 1500):
        lang_l = mk_layout_desc(rng, True) if k % 2 == 0 else None
        cap_l = mk_layout_desc(rng, True) if rng.random() < 0.3 else None
        desc = {"langs": [{"lang": "en-US", "layout": lang_l, "caps": [{"start": 1000000, "end": 2000000, "nodes": [["T", "hello"]], "layout": cap_l}]}]}
        opts = rng.choice([{}, {"fit_to_screen": False}])
        key = json.dumps(opts, sort_keys=True)
        w = shared.setdefault(key, pycaption.WebVTTWriter(**opts))
        got = [l for l in w.write(setbuild.build(desc)).split("\n") if "-->" in l]
        want = [l for l in pycaption.WebVTTWriter(**opts).write(setbuild.build(desc)).split("\n") if "-->" in l]
        chk.case(key=("vtt_reuse", k, json.dumps(desc, sort_keys=True)), nontrivial=True); chk.count("vtt_writer_reuse")
        if got != want:
            chk.property_failure({"set": desc, "options": opts, "reused_writer": got, "fresh_writer": want, "document_index_on_this_writer": k},
                                 "webvtt: cue settings written by a reused writer object differ from a fresh writer's (layout carried over from an earlier document)")
    # ---------------- one caption set written twice: what a writer makes of the layouts for its own document stays in that document
    tsub = chk.sub("same_set_two_writers")
    for k_ in range(24 if chk.tier == "quick" else 600):
        ld = {"origin": ["%d%%" % tsub.choice([5, 10, 40]), "%d%%" % tsub.choice([10, 20, 60])]}
        if tsub.random() < 0.4:
            ld["extent"] = ["%d%%" % tsub.choice([60, 95]), "%d%%" % tsub.choice([30, 90])]
        if tsub.random() < 0.5:
            ld["padding"] = ["1%", "2%", "3%", "4%"]
        ld["align"] = [tsub.choice(["left", "center", "right"]), None]
        level = ["caption", "node", "lang"][k_ % 3]
        nodes_ = [["S", True, {"italics": True}] + ([ld] if level == "node" else []), ["T", "hello"] + ([ld] if level == "node" else []),
                  ["S", False, {"italics": True}] + ([ld] if level == "node" else [])]
        desc_ = {"langs": [{"lang": "en-US", "layout": ld if level == "lang" else None,
                            "caps": [{"start": 1000000, "end": 2000000, "nodes": nodes_, "layout": ld if level == "caption" else None}]}]}
        first = tsub.choice([("dfxp", {"relativize": False}), ("dfxp", {}), ("webvtt", {}), ("dfxp", {"relativize": False, "video_width": 640, "video_height": 360})])
        second = tsub.choice([("webvtt", {"fit_to_screen": False}), ("dfxp", {"fit_to_screen": False}), ("webvtt", {"fit_to_screen": False, "relativize": False})])
        WR_ = {"dfxp": pycaption.DFXPWriter, "webvtt": pycaption.WebVTTWriter}
        case = {"layout": ld, "level": level, "first_write": list(first), "second_write": list(second)}
        chk.case(key=("two_writers", json.dumps(case, sort_keys=True)), nontrivial=True); chk.count("same_set_two_writers")
        try:
            want = WR_[second[0]](**second[1]).write(setbuild.build(desc_))
            cs_ = setbuild.build(desc_)
            WR_[first[0]](**first[1]).write(cs_)
            got = WR_[second[0]](**second[1]).write(cs_)
        except Exception as e:
            chk.property_failure(dict(case, error=repr(e)[:300]), "writing a percentage layout raised"); continue
        if got != want:
            chk.property_failure(dict(case, second_output=got[:1500], fresh_set_output=want[:1500]),
                                 "positioning: what a writer is given after another writer wrote the same caption set differs from a fresh set (layouts completed / clipped for one document leak into the next)")
    # ---------------- DFXP: one region's attributes, written and read (model correspondence + the property's own wording)
    c12_region.explore(chk, pycaption)
    c12_region.explore_inherited_alignment(chk, pycaption)
    # ---------------- DFXP round trip: effective layout per visible character (1-3 languages, each with its own layout or none)
    LANGS = ["en-US", "fr-FR", "de-DE"]
    empty_sub = chk.sub("empty_layout_object")
    for _ in range(150 if chk.tier == "quick" else 5000):
        opts = rng.choice([{}, {"fit_to_screen": False}, {"relativize": False, "fit_to_screen": False}])
        feature = False
        bare = []
        langs_desc = []
        for li in range(rng.choice([1, 1, 2, 3])):
            lang_l = mk_layout_desc(rng) if rng.random() < 0.5 else None
            caps = []
            for k in range(rng.randint(1, 3)):
                cap_l = mk_layout_desc(rng) if rng.random() < 0.5 else None
                if lang_l is not None and cap_l is None and empty_sub.random() < 0.25:
                    cap_l = {}        # a Layout object with every part absent says nothing: the language's layout applies
                nodes = []
                for j in range(rng.randint(1, 2)):
                    if j:
                        nodes.append(["B"])
                    nl = mk_layout_desc(rng) if rng.random() < 0.25 else None
                    word = "w%d%d%d" % (li, k, j)
                    if nl is not None and rng.random() < 0.2:
                        nodes.append(["T", word, nl]); feature = True; bare.append(word)      # a bare text node with its own layout
                    elif nl is not None:
                        # a node-level layout is carried by a styled span around the text
                        nodes.append(["S", True, {"italics": True}, nl]); nodes.append(["T", word, nl]); nodes.append(["S", False, {"italics": True}, nl])
                    elif rng.random() < 0.3:
                        # a styled span without a layout of its own: its text is positioned like the rest of the caption
                        nodes.append(["S", True, {"italics": True}]); nodes.append(["T", word]); nodes.append(["S", False, {"italics": True}])
                    else:
                        nodes.append(["T", word])
                caps.append({"start": (2 * k + 1) * 1000000, "end": (2 * k + 2) * 1000000, "nodes": nodes, "layout": cap_l})
            if li == 0 and rng.random() < 0.12:
                # two captions whose layouts differ only beyond the second decimal: different values, so different regions
                twin = {"origin": ["33.333333%", "20%"], "extent": ["40%", "20%"], "align": ["right", "top"]}
                near = {"origin": ["33.33%", "20%"], "extent": ["40%", "20%"], "align": ["right", "top"]}
                caps = [{"start": 1000000, "end": 2000000, "nodes": [["T", "wa"]], "layout": twin},
                        {"start": 3000000, "end": 4000000, "nodes": [["T", "wb"]], "layout": near}] + \
                       [dict(c_, start=c_["start"] + 4000000, end=c_["end"] + 4000000) for c_ in caps]
            langs_desc.append({"lang": LANGS[li], "layout": lang_l, "caps": caps})
        desc = {"langs": langs_desc}
        cs = setbuild.build(desc)
        case = {"set": desc, "options": opts, "feature_text_node_own_layout": feature, "bare_layout_texts": bare}
        chk.case(key=json.dumps(case, sort_keys=True), nontrivial=True, sample=case if chk.count_get("dfxp") == 3 else None); chk.count("dfxp")
        chk.count("dfxp_langs_%d" % len(langs_desc))
        try:
            doc = core.POOL.get(pycaption.DFXPWriter, **opts).write(cs)
            back = core.POOL.get(pycaption.DFXPReader).read(doc)
        except Exception as e:
            chk.property_failure(dict(case, error=repr(e)[:300]), "dfxp write/read raised on percentage layouts"); continue
        fit_on = opts.get("fit_to_screen", True)
        def fitted(d_):
            """fit-to-screen of a percentage layout, computed here from the property's wording: with an origin, a missing extent
            reaches the 90% / 95% edges, an extent that runs past an edge is cut back to it, one that fits is kept"""
            if d_ is None or not fit_on or not d_.get("origin"):
                return d_
            x_, y_ = [Fraction(v_[:-1]) for v_ in d_["origin"]]
            if d_.get("extent"):
                w_, h_ = [Fraction(v_[:-1]) for v_ in d_["extent"]]
                if x_ + w_ > 90: w_ = 90 - x_
                if y_ + h_ > 95: h_ = 95 - y_
            else:
                w_, h_ = 90 - x_, 95 - y_
            return dict(d_, extent=["%s%%" % float(w_), "%s%%" % float(h_)])
        def eff(node_l, cap_l, lang_l):
            l = None
            if node_l:
                l = setbuild.mk_layout(fitted(node_l))
            elif cap_l:
                l = setbuild.mk_layout(fitted(cap_l))
            elif lang_l:
                l = setbuild.mk_layout(lang_l)
            return l
        def with_defaults(l):
            o = geo.obs_layout(l) if l is not None else (None, None, None, None, None)
            al = o[3] or (None, None)
            return (o[0], o[1], o[2], ((al[0] if al[0] not in (None, "N") else "start"), (al[1] if al[1] not in (None, "N") else "bottom")))
        def close(a, b_):
            if a is None or b_ is None:
                return a is None and b_ is None
            return all(u1 == u2 and abs(Fraction(v1) - Fraction(v2)) <= Fraction(1, 100) for (v1, u1), (v2, u2) in zip(a, b_))
        ok = True
        if back.get_languages() != [L["lang"] for L in langs_desc]:
            chk.property_failure(dict(case, languages=back.get_languages(), output=doc[:2000]), "dfxp round trip changed the languages"); continue
        for L in langs_desc:
            caps = L["caps"]
            rcaps = back.get_captions(L["lang"])
            if len(rcaps) != len(caps):
                chk.property_failure(dict(case, language=L["lang"], output=doc[:2000]), "dfxp round trip changed the number of captions"); ok = False; break
            for c, rc in zip(caps, rcaps):
                texts = [n for n in c["nodes"] if n[0] == "T"]
                rtexts = [n for n in rc.nodes if n.type_ == 1]
                if len(texts) != len(rtexts):
                    ok = False; break
                for n, rn in zip(texts, rtexts):
                    want = with_defaults(eff(n[2] if len(n) > 2 else None, c.get("layout"), L.get("layout")))
                    got = with_defaults(rn.layout_info)
                    if not (close(want[0], got[0]) and close(want[1], got[1]) and close(want[2], got[2]) and want[3] == got[3]):
                        chk.property_failure(dict(case, language=L["lang"], text=n[1], effective_before=str(want), effective_after=str(got), output=doc[:2500]),
                                             "dfxp round trip: the effective layout of a character changed")
                        ok = False; break
                if not ok:
                    break
            if not ok:
                break


def replay(path):
    print(json.dumps(json.load(open(path)), indent=1)[:6000])
    return 0
