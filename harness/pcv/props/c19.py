"""C19 — timing adjustment and concurrent-caption merging keep all text in order."""
import json
from fractions import Fraction
from pcv import core

P = "PcVerif.Props.C19."
THEOREMS = [P + t for t in ["adjust_affine_filter", "merge_runs", "merge_others_untouched", "merge_idempotent", "runs_flatten", "runs_uniform", "merged_neighbours_differ",
                           "adjust_nodes_sublist", "adjust_mem_iff", "adjust_length", "retime_duration", "adjust_none_dropped",
                           "adjust_keeps_sorted", "adjust_identity", "merge_no_concurrent", "merge_node_count", "merge_keeps_each", "merge_length_le", "adjust_drops_prefix"]]


def make(tier, seed):
    c = core.Check("C19", tier, seed, "PcVerif.Props.C19", THEOREMS)
    c.rule = ("caption sets with 1-3 languages, 0-9 captions each, runs of equal timespans of random lengths at random positions "
              "(timespans drawn from a small pool so that runs, ABA patterns and same-start/different-end neighbours occur); adjust: skew as exact "
              "Fraction from {1/4,1/2,1,1001/1000,11/10,2,4,999/1000} or float, offsets of both signs; distinct = distinct abstract case; "
              "non-trivial = merge: some run of length>=2, adjust: at least one caption dropped or skew != 1")
    c.extra_trusted.append("float skew: implementation compared with the exact rational model within relative 1e-9 (DESIGN §2.6)")
    return c


def fr(x):
    x = Fraction(x)
    return "%d/%d" % (x.numerator, x.denominator)


def gen_lang(rng):
    n = rng.choice([0, 1, 2, 3, 4, 5, 6, 9])
    pool = [(1000000 * a, 1000000 * a + d) for a in range(0, 4) for d in (500000, 1500000)]      # instant 0 included
    # timespans that differ by less than a millisecond, and by exactly one day: different instants, never one run
    pool += [(1000400, 2500300), (1000000, 2500300), (1000400, 2500000), (86400 * 10 ** 6 + 1000000, 86400 * 10 ** 6 + 2500000)]
    caps = []
    nid = [1]
    cur = rng.choice(pool)
    for _ in range(n):
        if rng.random() < 0.5:
            cur = rng.choice(pool)
        nn = rng.randint(1, 3)
        nodes = list(range(nid[0], nid[0] + nn))
        nid[0] += nn
        caps.append((cur[0], cur[1], nodes))
    return caps


def build(abstract):
    from pycaption import CaptionSet, CaptionList, Caption, CaptionNode
    ids = {}
    d = {}
    for lang, caps in abstract.items():
        cl = CaptionList()
        for (s, e, nodes) in caps:
            ns = []
            for k in nodes:
                n = CaptionNode.create_text("n%d" % k) if k % 3 else CaptionNode.create_break(content="b%d" % k)
                ids[id(n)] = (k, n)
                ns.append(n)
            cl.append(Caption(s, e, ns, style={"k": s}))
        d[lang] = cl
    return CaptionSet(d, styles={}), ids


def observe(cs, ids):
    out = {}
    for lang in cs.get_languages():
        caps = []
        for c in cs.get_captions(lang):
            ns = []
            for n in c.nodes:
                if id(n) in ids:
                    k, orig = ids[id(n)]
                    want = "n%d" % k if k % 3 else "b%d" % k
                    ns.append(k if n.content == want else -k)
                else:
                    ns.append(0 if n.type_ == 3 else -999)
            caps.append((Fraction(c.start), Fraction(c.end), ns))
        out[lang] = caps
    return out


def enc_caps(caps):
    return core.enc_list(caps, lambda c: "%s;%s;%s" % (fr(c[0]), fr(c[1]), " ".join(map(str, c[2])) if c[2] else "_"))


def dec_caps(t):
    def one(x):
        a, b, n = x.split(";")
        return (Fraction(a), Fraction(b), [] if n == "_" else [int(v) for v in n.split(" ")])
    return core.dec_list(t, one)


SKEWS = [Fraction(1, 4), Fraction(1, 2), Fraction(1), Fraction(1001, 1000), Fraction(11, 10), Fraction(2), Fraction(4), Fraction(999, 1000)]


def explore(chk):
    from pycaption.base import merge_concurrent_captions
    rng = chk.rng
    N = 1500 if chk.tier == "quick" else 40000
    cases = []
    for i in range(N):
        langs = ["en", "fr", "de"][:rng.randint(1, 3)]
        abstract = {l: gen_lang(rng) for l in langs}
        kind = "merge" if i % 2 == 0 else "adjust"
        if kind == "adjust":
            skew = rng.choice(SKEWS)
            as_float = rng.random() < 0.3
            off = rng.choice([0, 1, -1, -1000000, -1500000, -2000000, 250000, -3000001, 10 ** 7])
            cases.append((kind, abstract, skew, off, as_float))
        else:
            cases.append((kind, abstract, None, None, False))
    b = core.Batch()
    idx = []
    for (kind, abstract, skew, off, as_float) in cases:
        row = {}
        for l, caps in abstract.items():
            if kind == "merge":
                row[l] = (b.add("base.merge", enc_caps(caps)), b.add("spec.base.merge", enc_caps(caps)))
            else:
                row[l] = (b.add("base.adjust", fr(skew), fr(off), enc_caps(caps)), b.add("spec.base.adjust", fr(skew), fr(off), enc_caps(caps)))
        idx.append(row)
    out = b.run() if chk.driver_ok else None
    for ci, (kind, abstract, skew, off, as_float) in enumerate(cases):
        cs, ids = build(abstract)
        err = None
        try:
            if kind == "merge":
                r = merge_concurrent_captions(cs)
                I = observe(r, ids)
                r2 = merge_concurrent_captions(r)
                I2 = observe(r2, ids)
            else:
                cs.adjust_caption_timing(offset=off, rate_skew=float(skew) if as_float else skew)
                I = observe(cs, ids)
                I2 = None
        except Exception as e:
            err = repr(e)
            I = I2 = None
        if kind == "merge":
            nontriv = any(any(caps[i][:2] == caps[i + 1][:2] for i in range(len(caps) - 1)) for caps in abstract.values())
        else:
            nontriv = skew != 1 or any(c[0] * skew + off < 0 for caps in abstract.values() for c in caps)
        case = {"op": kind, "set": {l: [list(c) for c in caps] for l, caps in abstract.items()},
                "skew": str(skew), "offset": off, "float": as_float}
        chk.case(key=json.dumps(case, sort_keys=True), nontrivial=nontriv,
                 sample=dict(case, impl={l: [(str(a), str(b_), n) for a, b_, n in v] for l, v in (I or {}).items()}) if ci < 4 else None)
        chk.count(kind)
        if err:
            chk.property_failure(dict(case, error=err), "%s raised" % kind)
            continue
        if list(I.keys()) != list(abstract.keys()):
            chk.property_failure(dict(case, impl=str(I)), "languages changed by " + kind)
            continue
        for l, caps in abstract.items():
            if out is not None:
                M = dec_caps(out[idx[ci][l][0]]); S = dec_caps(out[idx[ci][l][1]])
            else:
                M = S = None
            Il = I[l]
            if kind == "merge" and not caps:
                S_l = []
            if S is not None:
                okS = same(Il, S, as_float); okM = same(Il, M, as_float)
                if not okS:
                    chk.property_failure(dict(case, lang=l, impl=str(Il), spec=str(S)),
                                         "merge: result is not one caption per maximal run with nodes joined by breaks" if kind == "merge"
                                         else "adjust: result is not the affine image with exactly the negative starts dropped")
                elif not okM:
                    chk.correspondence_failure(dict(case, lang=l, impl=str(Il), model=str(M)), kind + ": implementation and model differ")
                if M != S and all(c[2] for c in caps):
                    raise RuntimeError("model and spec differ inside the theorem's domain: %r" % (case,))
            if kind == "merge" and I2 is not None and I2[l] != Il:
                chk.property_failure(dict(case, lang=l, once=str(Il), twice=str(I2[l])), "merge: merging again changes the result")


def same(I, X, approx):
    if len(I) != len(X):
        return False
    for a, b in zip(I, X):
        if a[2] != b[2]:
            return False
        for u, v in ((a[0], b[0]), (a[1], b[1])):
            if approx:
                if abs(u - v) > abs(v) * Fraction(1, 10 ** 9) + Fraction(1, 10 ** 6):
                    return False
            elif u != v:
                return False
    return True


def replay(path):
    r = json.load(open(path))
    print(json.dumps(r, indent=1)[:4000])
    return 0
