"""C09 — writing never alters its input and is deterministic."""
import json, os, subprocess, sys
from pcv import core, setbuild, capio

P = "PcVerif.Props.C09."
THEOREMS = [P + t for t in ["writers_copy_or_pure", "write_preserves_input", "span_writers_reset_pinned", "write_resets_state", "output_history_independent", "no_process_wide_memo"]]


def make(tier, seed):
    c = core.Check("C09", tier, seed, "PcVerif.Props.C09", THEOREMS)
    c.rule = ("histories of 2-8 writes over the eight writers and their option combinations (relativize, fit_to_screen, video size, write_inline_positioning), "
              "on shared and fresh writer objects, over random caption sets incl. multi-language sets, layouts at every level, absolute lengths without video "
              "size (writers raise), unclosed style nodes; per write: deep structural snapshot of the argument before/after, output vs a fresh writer in this "
              "process and vs pristine sub-processes under PYTHONHASHSEED 0, 1 and random; distinct = distinct (history); non-trivial = a shared writer is reused or the writer raises")
    c.extra_trusted.append("hash-seed independence and byte identity are established by execution in sub-processes, not by theorem")
    return c


OPTS = [None, None, {"relativize": False}, {"fit_to_screen": False}, {"video_width": 640, "video_height": 360},
        {"video_width": 640, "video_height": 360, "fit_to_screen": False}, {"relativize": False, "fit_to_screen": False},
        {"video_width": 400, "video_height": 400}]          # a square frame: width and height are the same number


def pristine(jobs, hashseed):
    """every job in a sub-process under the given hash seed.  The jobs are run there in another order than here (seed 0:
    reversed, seed 1: same order, otherwise: shuffled), so that anything kept at class or module level between calls shows
    up as a difference"""
    import random
    order = list(range(len(jobs)))
    if hashseed == 0:
        order.reverse()
    elif hashseed != 1:
        random.Random(hashseed).shuffle(order)
    env = dict(os.environ, PYTHONHASHSEED=str(hashseed), PYTHONPATH=os.path.join(core.VERIF, "harness"))
    p = subprocess.run([sys.executable, "-m", "pcv.setbuild"], input=json.dumps([jobs[i] for i in order]), capture_output=True, text=True, env=env, timeout=1200)
    if p.returncode != 0:
        raise RuntimeError("pristine sub-process failed: " + p.stderr[-2000:])
    res = [None] * len(jobs)
    for i, x in zip(order, json.loads(p.stdout)):
        res[i] = tuple(x)
    return res


def explore(chk):
    rng = chk.rng
    rich_sub = chk.sub("rich_inline_style")
    H = 60 if chk.tier == "quick" else 1500
    histories = []
    jobs = []
    for h in range(H):
        sets = [setbuild.rand_desc(rng, unbalanced=rng.choice([0.0, 0.3, 0.6]), absolute=rng.choice([0.0, 0.2, 0.5])) for _ in range(rng.randint(1, 3))]
        for d in sets:
            r = rng.random()
            if r < 0.3:
                # document styles + a set-level layout with padding (the SAMI writer folds the padding into the style rules)
                d["styles"] = {"p": {"color": "#ffffff"}, "encc": {"lang": "en-US", "font-family": "Arial"}}
                d["layout"] = {"padding": ["4%", "4%", "10%", "10%"]}
            elif r < 0.55:
                # several classes on one element whose rules disagree: the merge order must not depend on the hash seed
                d["styles"] = {"emphasis": {"italics": True, "bold": True}, "upright": {"italics": False}, "under": {"underline": True, "bold": False}}
                if rng.random() < 0.5:
                    # the same class names mean something else in this set
                    d["styles"] = {k: {a: rng.random() < 0.5 for a in rng.sample(["italics", "bold", "underline"], rng.randint(1, 3))} for k in d["styles"]}
                for L in d["langs"]:
                    for c in L["caps"]:
                        if rng.random() < 0.6:
                            c["style"] = {"classes": rng.sample(["emphasis", "upright", "under"], rng.randint(2, 3))}
                        for n in c["nodes"]:
                            if n[0] == "S" and rng.random() < 0.5:
                                n[2] = {"classes": ["emphasis", "upright"]}
        nshared = rng.randint(1, 2)
        shared = [(rng.choice(setbuild.WRITERS), rng.choice(OPTS)) for _ in range(nshared)]
        if h % 4 == 3:
            # one writer object, first a set positioned at one level only (language / set / caption), then a set without
            # any positioning, then the first again: whatever the writer remembers of a document shows in the next one
            lay = None
            while not lay or "origin" not in lay:
                lay = setbuild.rand_layout(rng, False)
            j = h // 4
            level = ["lang", "set", "caption"][j % 3]
            a = setbuild.rand_desc(rng, nlang=rng.choice([1, 2]), unbalanced=0.0, absolute=0.0, with_layout=0.0)
            bare = setbuild.rand_desc(rng, nlang=rng.choice([1, 2]), unbalanced=0.0, absolute=0.0, with_layout=0.0)
            if level == "lang":
                a["langs"][0]["layout"] = lay
            elif level == "set":
                a["layout"] = lay
            else:
                a["langs"][0]["caps"][0]["layout"] = lay
                if True:
                    # the second set is positioned by the very same layout, but on the set level only: whatever the first
                    # document registered for that layout (a region, an id) belongs to the first document
                    bare["layout"] = json.loads(json.dumps(lay))
            sets = [a, bare]
            # writer kinds in the order dfxp, single, webvtt, sami, legacy, srt, ...: every kind meets all three levels
            kinds_ = ["dfxp", "single", "webvtt", "sami", "legacy", "srt", "microdvd", "scc"]
            shared = [(kinds_[(j // 3) % len(kinds_)], rng.choice([None, None, {"fit_to_screen": False}, {"video_width": 640, "video_height": 360}]))]
            ops_fixed = [("shared", 0, shared[0][0], shared[0][1], si) for si in (0, 1, 0, 1)]
        elif h % 4 == 1:
            # two sets whose spans take their style from classes of the same names, defined differently in each set; one
            # writer kind writes both (what is resolved for one document must not be reused for the next)
            j = h // 4
            kind = setbuild.WRITERS[j % len(setbuild.WRITERS)]
            sets = []
            for _ in range(2):
                d = setbuild.rand_desc(rng, nlang=1, unbalanced=0.0, absolute=0.0, with_layout=0.0)
                d["styles"] = {k: {a: rng.random() < 0.6 for a in rng.sample(["italics", "bold", "underline"], rng.randint(1, 3))} for k in ("emphasis", "upright", "under")}
                for c in d["langs"][0]["caps"]:
                    c["nodes"] = [["S", True, {"classes": rng.sample(["emphasis", "upright", "under"], rng.randint(1, 2))}]] + \
                                 [n for n in c["nodes"] if n[0] != "S"] + [["S", False, {"classes": ["emphasis"]}]]
                    c["nodes"][-1][2] = dict(c["nodes"][0][2])
                sets.append(d)
            shared = [(kind, None)]
            ops_fixed = [("fresh", None, kind, None, 0), ("fresh", None, kind, None, 1), ("shared", 0, kind, None, 0), ("shared", 0, kind, None, 1)]
        elif h % 8 == 6:
            # captions whose nodes carry several different layouts of their own: the order in which the writer registers
            # them (region ids, order of <region> elements) must not depend on hashing
            d = setbuild.rand_desc(rng, nlang=1, unbalanced=0.0, absolute=0.0, with_layout=0.3)
            for c in d["langs"][0]["caps"]:
                nodes = []
                for k_ in range(rng.randint(2, 4)):
                    if k_:
                        nodes.append(["B"])
                    lay = setbuild.rand_layout(rng, False)
                    nodes += [["S", True, {"italics": True}, lay], ["T", "w%d" % k_, lay], ["S", False, {"italics": True}, lay]]
                c["nodes"] = nodes
            sets = [d]
            kind = ["dfxp", "single", "dfxp", "webvtt"][(h // 8) % 4]
            shared = [(kind, None)]
            ops_fixed = [("fresh", None, kind, None, 0), ("shared", 0, kind, None, 0)]
        elif h % 8 == 2:
            # the same number on the other axis in the next document, lengths in cells (and px/em/pt), square and non-square
            # frames: a conversion result must never be taken over from an earlier document
            u = rng.choice(["c", "c", "px", "em", "pt"])
            a_, b_ = rng.sample([1, 2, 4, 5, 8, 10], 2)
            def positioned(x, y):
                d_ = setbuild.rand_desc(rng, nlang=1, unbalanced=0.0, absolute=0.0, with_layout=0.0)
                for c in d_["langs"][0]["caps"]:
                    c["layout"] = {"origin": ["%d%s" % (x, u), "%d%s" % (y, u)], "extent": ["%d%s" % (y, u), "%d%s" % (x, u)]}
                return d_
            sets = [positioned(a_, b_), positioned(b_, a_)]
            kind = ["dfxp", "webvtt", "sami", "single"][(h // 8) % 4]
            o_ = rng.choice([{"video_width": 400, "video_height": 400}, {"video_width": 640, "video_height": 360}])
            shared = [(kind, o_)]
            ops_fixed = [("fresh", None, kind, o_, 0), ("fresh", None, kind, o_, 1), ("shared", 0, kind, o_, 0), ("shared", 0, kind, o_, 1)]
        elif h % 8 == 4:
            # document styles and a set-level layout with padding, written with every writer option switched off and on:
            # the argument must come back untouched whatever branch the writer takes
            d = setbuild.rand_desc(rng, nlang=rng.choice([1, 2]), unbalanced=0.0, absolute=0.0)
            d["styles"] = {"p": {"color": "#ffffff"}, "encc": {"lang": "en-US", "font-family": "Arial"}}
            d["layout"] = {"padding": ["4%", "4%", "10%", "10%"]}
            # percentage layouts the fit-to-screen step has to complete or to clip: an origin without extent on a caption, an
            # extent that runs past the safe area on a node
            caps_ = d["langs"][0]["caps"]
            if len(caps_) < 2:
                caps_.append(json.loads(json.dumps(caps_[0])))
            # two consecutive captions with the very same start and end (a run the SRT / legacy / single writers merge)
            caps_[1]["start"], caps_[1]["end"] = caps_[0]["start"], caps_[0]["end"]
            c0 = d["langs"][0]["caps"][0]
            c0["layout"] = {"origin": ["25%", "70%"]}
            for n in c0["nodes"]:
                if n[0] == "T":
                    while len(n) < 3:
                        n.append(None)
                    n[2] = {"origin": ["10%", "10%"], "extent": ["95%", "90%"]}
                    break
            sets = [d]
            kind = setbuild.WRITERS[(h // 8) % len(setbuild.WRITERS)]
            shared = [(kind, None)]
            ops_fixed = [("fresh", None, kind, o_, 0) for o_ in ({"relativize": False, "fit_to_screen": False}, {"relativize": False}, {"fit_to_screen": False}, None)]
        elif h % 16 == 0:
            # a write that raises part-way through a document (a later caption positioned in px, no video size given),
            # then an ordinary set on the same writer object: nothing of the aborted document may show in the next one
            kind = ["sami", "dfxp", "dfxp", "single", "webvtt", "legacy", "sami"][(h // 16) % 7]
            bad = setbuild.rand_desc(rng, nlang=rng.choice([1, 2]), unbalanced=0.0, absolute=0.0, with_layout=0.0)
            caps0 = bad["langs"][0]["caps"]
            while len(caps0) < 3:
                caps0.append(json.loads(json.dumps(caps0[-1])))
                caps0[-1]["start"] = caps0[-2]["end"] + 1000000; caps0[-1]["end"] = caps0[-1]["start"] + 1000000
            if (h // 16) % 2 == 0:
                caps0[rng.randint(1, len(caps0) - 1)]["layout"] = {"origin": ["100px", "50px"]}
            else:
                # the writer fails in the middle of a paragraph, after a span has been opened: a style value that is a number
                caps0[rng.randint(1, len(caps0) - 1)]["nodes"] = [["S", True, {"italics": True}], ["T", "open "], ["S", True, {"font-size": 12}], ["T", "never written"],
                                                                  ["S", False, {"font-size": 12}], ["S", False, {"italics": True}]]
            good = setbuild.rand_desc(rng, nlang=rng.choice([1, 2]), unbalanced=0.0, absolute=0.0, with_layout=0.0)
            for c in good["langs"][0]["caps"]:
                c["start"] += 7000000; c["end"] += 7000000
            # the good set opens a styled span right away
            good["langs"][0]["caps"][0]["nodes"] = [["S", True, {"italics": True}], ["T", "hello"], ["S", False, {"italics": True}], ["T", " world"]]
            sets = [bad, good]
            shared = [(kind, None)]
            ops_fixed = [("shared", 0, kind, None, 1), ("shared", 0, kind, None, 0), ("shared", 0, kind, None, 1), ("fresh", None, kind, None, 1)]
        elif h % 16 == 8:
            # two sets whose captions differ only in white space at the start of the text (an indented line, a leading break):
            # whatever a writer keeps per text must not be shared between them
            kind = ["scc", "srt", "webvtt", "microdvd", "dfxp", "sami"][(h // 16) % 6]
            word = rng.choice(["- Hello.", "caption", "two words"])
            def one(lead):
                d_ = setbuild.rand_desc(rng, nlang=1, unbalanced=0.0, absolute=0.0, with_layout=0.0)
                caps_ = d_["langs"][0]["caps"][:1]
                caps_[0]["start"] = 5000000; caps_[0]["end"] = 7000000
                caps_[0]["nodes"] = ([["B"]] if lead == "break" else []) + [["T", ("      " if lead == "spaces" else "") + word]]
                d_["langs"][0]["caps"] = caps_
                return d_
            sets = [one(None), one(rng.choice(["spaces", "break"]))]
            shared = [(kind, None)]
            ops_fixed = [("shared", 0, kind, None, 0), ("shared", 0, kind, None, 1), ("fresh", None, kind, None, 1), ("shared", 0, kind, None, 0)]
        else:
            ops_fixed = None
        rich_span = h % 5 == 2
        if rich_span:
            # an inline style with several plain rules at once: the attributes of the span it becomes are written in one
            # order, whatever the hash seed
            rules = {"text-align": "right", "font-family": "Arial", "font-size": "12px", "color": "yellow", "display-align": "before"}
            keys = rich_sub.sample(sorted(rules), rich_sub.randint(2, 5))
            st_ = {k_: rules[k_] for k_ in keys}
            if rich_sub.random() < 0.4:
                st_["italics"] = True
            c_ = sets[0]["langs"][0]["caps"][0]
            c_["nodes"] = [["S", True, dict(st_)], ["T", "styled words "], ["S", False, dict(st_)]] + c_["nodes"]
        ops = []
        for _ in range(rng.randint(2, 8) if ops_fixed is None else 0):
            si = rng.randrange(len(sets))
            if rng.random() < 0.65:
                wi = rng.randrange(nshared); kind, opts = shared[wi]; ops.append(("shared", wi, kind, opts, si))
            else:
                kind, opts = rng.choice(setbuild.WRITERS), rng.choice(OPTS); ops.append(("fresh", None, kind, opts, si))
        if any(k in ("dfxp", "single") for (_, _, k, _, _) in ops) and rng.random() < 0.3:
            pass
        if ops_fixed is not None:
            ops = ops_fixed
        if rich_span:
            ops = list(ops) + [("fresh", None, "dfxp", None, 0), ("fresh", None, "single", None, 0)]
        if h % 7 == 3:
            # one SAMI writer object: a set whose language carries a layout with padding, then the same set without any
            # language layout (same language codes): the second document owes nothing to the first
            a_ = json.loads(json.dumps(sets[0])); b_ = json.loads(json.dumps(sets[0]))
            for L_ in a_["langs"]:
                L_["layout"] = {"padding": ["%d%%" % rich_sub.choice([3, 5]), "6%", "7%", "8%"]}
            for L_ in b_["langs"]:
                L_["layout"] = None
            sets = list(sets) + [a_, b_]
            shared = list(shared) + [("sami", None)]
            wi_ = len(shared) - 1
            ops = list(ops) + [("shared", wi_, "sami", None, len(sets) - 2), ("shared", wi_, "sami", None, len(sets) - 1), ("fresh", None, "sami", None, len(sets) - 1)]
        histories.append((sets, shared, ops))
        for (_, _, kind, opts, si) in ops:
            o = dict(opts or {})
            if kind == "legacy":
                o = {}
            jobs.append({"kind": kind, "opts": o, "desc": sets[si]})
    # model: the open_span flag each span-writing writer object is left with after every write
    b = core.Batch()
    flag_ops = {}
    for hi, (sets, shared, ops) in enumerate(histories):
        for oi, (mode, wi, kind, opts, si) in enumerate(ops):
            if kind in ("dfxp", "single", "legacy", "sami"):
                d = sets[si]
                langs = d["langs"]
                if kind == "legacy":
                    pass
                doc = []
                for L in langs:
                    for c in L["caps"]:
                        ns = []
                        for n in c["nodes"]:
                            if n[0] == "T": ns.append(("T", n[1]))
                            elif n[0] == "B": ns.append(("B",))
                            else:
                                # the single-positioning writer gives every node a layout, so every opening style node writes a span (region=...)
                                # the SAMI writer copies every rule it does not know into the style attribute, so any non-empty
                                # content (a 'classes' list, italics False) opens a span there; only the flag is compared here
                                ns.append(("S", n[1], bool(n[2].get("italics")) or kind == "single" or (kind == "sami" and bool(n[2])),
                                           bool(n[2].get("bold")), bool(n[2].get("underline"))))
                        doc.append(" ".join(capio.enc_node_abs(x) for x in ns) if ns else "_")
                flag_ops[(hi, oi)] = b.add("world.flag", "dfxp" if kind == "single" else kind, "1", "|".join(doc) if doc else "[]")
    flags_out = b.run() if chk.driver_ok else None
    seeds = [0, 1, rng.randrange(2, 10 ** 6)]
    pr = [pristine(jobs, s) for s in seeds]
    ji = 0
    for hi, (sets, shared, ops) in enumerate(histories):
        objs = [setbuild.build(d) for d in sets]
        writers = [setbuild.make_writer(k, {} if k == "legacy" else o) for (k, o) in shared]
        trace = []
        for oi, (mode, wi, kind, opts, si) in enumerate(ops):
            o = {} if kind == "legacy" else (opts or {})
            w = writers[wi] if mode == "shared" else setbuild.make_writer(kind, o)
            before = setbuild.snapshot(objs[si])
            res = setbuild.run_write(w, objs[si])
            after = setbuild.snapshot(objs[si])
            fresh = setbuild.run_write(setbuild.make_writer(kind, o), setbuild.build(sets[si]))
            trace.append({"mode": mode, "writer": kind, "opts": o, "set": si, "result": res[0] if res[0] == "ok" else res})
            case = {"sets": sets, "history": trace[:], "step": len(trace) - 1}
            reused = mode == "shared" and sum(1 for t in trace if t["mode"] == "shared" and t["writer"] == kind) > 1
            chk.case(key=json.dumps(case, sort_keys=True, default=str), nontrivial=reused or res[0] == "err",
                     sample={"history": trace[:], "sets": len(sets)} if chk.count_get("ops") in (5, 60) else None)
            chk.count("ops"); chk.count("w_" + kind); chk.count("res_" + res[0])
            if before != after:
                chk.property_failure(dict(case, before=repr(before)[:1500], after=repr(after)[:1500]),
                                     "%s writer altered its input caption set%s" % (kind, " while raising" if res[0] == "err" else ""))
            if flags_out is not None and (hi, oi) in flag_ops and res[0] == "ok":
                # merge_concurrent_captions / language forcing do not reorder style nodes, so the flag depends on the node sequence only
                M = flags_out[flag_ops[(hi, oi)]] == "1"
                if bool(getattr(w, "open_span", False)) != M:
                    chk.correspondence_failure(dict(case, impl_open_span=bool(getattr(w, "open_span", False)), model_open_span=M),
                                               "%s writer: open_span left after write() differs from the model" % kind)
            if res != fresh:
                chk.property_failure(dict(case, output=str(res)[:1500], fresh=str(fresh)[:1500]),
                                     "%s writer: output of a reused writer object differs from a fresh writer's" % kind)
            for s, prs in zip(seeds, pr):
                if prs[ji] != res:
                    chk.property_failure(dict(case, hashseed=s, output=str(res)[:1500], pristine=str(prs[ji])[:1500]),
                                         "%s writer: output differs from a pristine process (hash seed / history dependence)" % kind)
                    break
            ji += 1
    chk.count("subprocess_hashseeds", len(seeds))


def replay(path):
    print(json.dumps(json.load(open(path)), indent=1)[:6000])
    return 0
