"""C04 — read text equals authored text: entities decoded once, markup stripped."""
import json, re
from pcv import core, capio, textgen

P = "PcVerif.Props.C04."
THEOREMS = [P + t for t in ["indent_pattern_pinned", "leaf_single_line", "splitWs_no_space", "vtt_line_roundtrip", "leaf_indented", "paragraph_lines_read", "paragraph_lines_spellings"]]

WORDS = ["hello", "world", "Q&A", "a<b", "1>0", "&lt;", "&amp;", "&amp;lt;", "&#38;", "x", "it's", '"quoted"', "é", "中文", "\U0001F600", "100%", "a;b", "fox",
         "<x>", "-->", "--", "]]>", "&", "<", ">", "two", "I", "{1}", "&copy;", "&nbsp;", "#", "=",
         "&apos;", "&quot;", "&gt;", "rock&apos;n", "&APOS;", "&#39;",
         "École", "ÆON æon", "Ωω", "Ça", "Über", "Ñandú", "†‡", "Œuvre", "Šš", "ÞÐ"]


def make(tier, seed):
    c = core.Check("C04", tier, seed, "PcVerif.Props.C04", THEOREMS)
    c.rule = ("abstract captions (1-3 lines of 1-5 words from an adversarial word list, optional inline style spans) serialised by the harness's own "
              "serialisers in five formats with spelling variants (literal / named / decimal / hex references where the format has them), source "
              "line-wrapping with indentation (DFXP, SAMI), tag nestings (i/b/u, span, WebVTT c/i/b/u/ruby/rt/lang/timestamp/voice tags, unknown tags); "
              "distinct = distinct document; non-trivial = a reference, a wrapped line, or a tag occurs")
    c.predicates = {"vtt_numeric_or_extra_named_ref": pred_vtt_refs, "wrap_next_to_inline_element": pred_wrap_inline}
    return c


def pred_vtt_refs(case):
    """WebVTT cue text containing a character reference other than the six pycaption decodes"""
    if case.get("format") != "webvtt":
        return False
    refs = re.findall(r"&(#[0-9]+|#x[0-9a-fA-F]+|[A-Za-z][A-Za-z0-9]*);", case.get("document", ""))
    return any(r not in ("amp", "lt", "gt", "nbsp", "lrm", "rlm") for r in refs)


def pred_wrap_inline(case):
    """DFXP / SAMI: the document has a source line wrap (white space with a line break) directly between character data and
    an inline element, and the text read differs from the authored text in white space only (a lost word boundary)"""
    if case.get("format") not in ("dfxp", "sami"):
        return False
    doc = case.get("document", "")
    tag_end = re.compile(r"<[/!?A-Za-z][^<>]*>\Z")
    hit = False
    for m in re.finditer(r"\s*[\r\n]\s*<(span|i|b|u)\b", doc, re.I):          # character data, wrap, opening inline tag
        before = doc[:m.start()]
        if before and not before[-1].isspace() and not tag_end.search(before):
            hit = True
    for m in re.finditer(r"</(span|i|b|u)>\s*[\r\n]\s*", doc, re.I):            # closing inline tag, wrap, character data
        after = doc[m.end():]
        if after and not after.startswith("<"):
            hit = True
    if not hit:
        return False
    impl, spec = case.get("impl"), case.get("spec")
    if not isinstance(impl, list) or not isinstance(spec, list):
        return False
    squash = lambda caps: [["".join(l.split()) for l in c] for c in caps]
    return impl != spec and squash(impl) == squash(spec)


def norm(line):
    return " ".join(line.replace(" ", " ").split())


def norm_text(text):
    return [n for n in (norm(l) for l in text.split("\n")) if n]


# ---------------------------------------------------------------- spelling
XML_NAMED = {"&": "&amp;", "<": "&lt;", ">": "&gt;", '"': "&quot;", "'": "&apos;"}
HTML_NAMED = {"&": "&amp;", "<": "&lt;", ">": "&gt;", '"': "&quot;", "é": "&eacute;", " ": "&nbsp;", "©": "&copy;"}
# every HTML 4 entity name, upper- and lower-case variants included (&Eacute; is not &eacute;)
from html.entities import name2codepoint as _n2c
for _name, _cp in sorted(_n2c.items()):
    HTML_NAMED.setdefault(chr(_cp), "&%s;" % _name)


def spell(text, rng, named, must=("&", "<"), numeric=True, p=0.15):
    out = []
    for ch in text:
        r = rng.random()
        if ch in must or (ch == ">" and r < 0.5) or r < p:
            k = rng.random()
            if ch in named and (k < 0.5 or not numeric):
                out.append(named[ch])
            elif numeric and k < 0.75:
                out.append("&#%d;" % ord(ch))
            elif numeric:
                out.append("&#x%X;" % ord(ch) if rng.random() < 0.5 else "&#x%x;" % ord(ch))
            elif ch in must:
                out.append(named[ch])
            else:
                out.append(ch)
        else:
            out.append(ch)
    return "".join(out)


def gen_caption(rng):
    """lines: list of list of (word, style) ; style in None/i/b/u"""
    lines = []
    for _ in range(rng.choice([1, 1, 2, 3])):
        n = rng.randint(1, 5)
        words = [rng.choice(WORDS) if rng.random() < 0.6 else rng.choice(["plain", "text", "caption"]) for _ in range(n)]
        st = [None] * n
        if rng.random() < 0.3:
            a = rng.randrange(n); b = rng.randint(a, n - 1); tag = rng.choice(["i", "b", "u"])
            for k in range(a, b + 1):
                st[k] = tag
        lines.append(list(zip(words, st)))
    return lines


def groups(line):
    """[(style, [words])] runs"""
    out = []
    for w, s in line:
        if out and out[-1][0] == s:
            out[-1][1].append(w)
        else:
            out.append((s, [w]))
    return out


CDATA_RNG = None
WS_RNG = None


def ser_xml_like(lines, rng, fmt):
    named = XML_NAMED if fmt == "dfxp" else HTML_NAMED
    parts = []
    wrapped = False
    for li, line in enumerate(lines):
        if li:
            parts.append(rng.choice(["<br/>", "<br/>\n      ", "<br />"]) if fmt == "dfxp" else rng.choice(["<br>", "<BR>", "<br/>\n   "]))
        segs = []
        for gi, (s, ws) in enumerate(groups(line)):
            toks = [spell(w, rng, named) for w in ws]
            is_cd = [False] * len(ws)
            if fmt == "dfxp" and CDATA_RNG is not None:
                # XML only: a word authored inside a CDATA section is character data like any other
                is_cd = [("]]>" not in w and CDATA_RNG.random() < (0.5 if "&apos;" in w else 0.06)) for w in ws]
                # (a section may begin on a new source line: the line break and indentation inside it are white space like any other)
                toks = [("<![CDATA[%s%s]]>" % (CDATA_RNG.choice(["", "", "\n", "\n     "]) if k_ else "", w)) if cd else tk
                        for k_, (w, tk, cd) in enumerate(zip(ws, toks, is_cd))]
            txt = toks[0]
            # a run of plain words right after an inline element is wrapped more often (the blank between the element
            # and the run is then the leading blank of a multi-line text leaf)
            pw = 0.6 if (gi > 0 and s is None) else 0.25
            for k_, t_ in enumerate(toks[1:], 1):
                # (no source wrap directly next to a CDATA section: a section is a node of its own, and a wrap next to a node
                # boundary is the known finding C04-wrap-next-to-inline-element)
                if rng.random() < pw and not (is_cd[k_] or is_cd[k_ - 1]):
                    txt += rng.choice(["\n", "\n     ", "\r\n   ", "  \n\t"]) + t_; wrapped = True
                else:
                    txt += " " + t_
            if s is None:
                segs.append((txt, is_cd[0], is_cd[-1]))
            elif fmt == "dfxp":
                attr = {"i": 'tts:fontStyle="italic"', "b": 'tts:fontWeight="bold"', "u": 'tts:textDecoration="underline"'}[s]
                segs.append(('<span %s>%s</span>' % (attr, txt), False, False))
            else:
                segs.append(("<%s>%s</%s>" % (s, txt, s), False, False))
        # between two runs of a line: a blank, a source line wrap (the line break and indentation of pretty-printed
        # markup next to an inline element), or a comment with blanks around it -- all of them one word boundary on display
        line_txt = segs[0][0]
        for si_ in range(1, len(segs)):
            sg = segs[si_][0]
            r = rng.random()
            if r < 0.8 or segs[si_][1] or segs[si_ - 1][2]:
                line_txt += " " + sg
            elif r < 0.92:
                line_txt += rng.choice(["\n", "\n     ", "\r\n   "]) + sg; wrapped = True
            else:
                # markup that is no character data: a comment, or (XML only) a processing instruction
                line_txt += (" <!-- aside: not displayed --> " if fmt != "dfxp" or rng.random() < 0.5 else " <?editor bookmark=12?> ") + sg; wrapped = True
        parts.append(line_txt)
    return "".join(parts), wrapped


def doc_dfxp(caps, rng):
    out = ['<?xml version="1.0" encoding="utf-8"?>', '<tt xml:lang="en" xmlns="http://www.w3.org/ns/ttml" xmlns:tts="http://www.w3.org/ns/ttml#styling">', '<body><div xml:lang="en">']
    wrapped = False
    for i, lines in enumerate(caps):
        body, w = ser_xml_like(lines, rng, "dfxp"); wrapped |= w
        lead = rng.choice(["", "\n     ", ""]); trail = rng.choice(["", "\n   "])
        out.append('<p begin="00:00:%02d.000" end="00:00:%02d.500">%s%s%s</p>' % (2 * i + 1, 2 * i + 2, lead, body, trail))
    out.append('</div></body></tt>')
    return "\n".join(out), wrapped


def doc_sami(caps, rng):
    out = ['<SAMI><HEAD><STYLE TYPE="text/css"><!--\n.ENCC {Name: English; lang: en-US;}\n--></STYLE></HEAD><BODY>']
    wrapped = False
    for i, lines in enumerate(caps):
        body, w = ser_xml_like(lines, rng, "sami"); wrapped |= w
        out.append('<SYNC start=%d><P class=ENCC>%s%s</P></SYNC>' % (1000 * (2 * i + 1), rng.choice(["", "\n   "]), body))
        out.append('<SYNC start=%d><P class=ENCC>&nbsp;</P></SYNC>' % (1000 * (2 * i + 2)))
    out.append('</BODY></SAMI>')
    return "\n".join(out), wrapped


VTT_NAMED = {"&": "&amp;", "<": "&lt;", ">": "&gt;", " ": "&nbsp;", "‎": "&lrm;", "‏": "&rlm;"}


GT_RNG = None


def doc_vtt(caps, rng, numeric=False):
    out = ["WEBVTT", ""]
    expect = []
    tagged = False
    for i, lines in enumerate(caps):
        out.append("00:00:%02d.000 --> 00:00:%02d.500" % (2 * i + 1, 2 * i + 2))
        exp_lines = []
        for line in lines:
            segs = []; exp = []
            voice = rng.random() < 0.15
            if voice:
                name = rng.choice(["Bob", "Mary Ann", "Dr. X"]); segs.append("<v%s %s>" % (rng.choice(["", ".loud", ".a.b"]), name)); exp.append(name + ":"); tagged = True
            for s, ws in groups(line):
                # a literal `>` is legal in cue text (only `&` and `<` must be escaped); `-->` is not
                txt = " ".join(spell(w, rng, VTT_NAMED, must=(("&", "<") if (GT_RNG is not None and "--" not in w and GT_RNG.random() < 0.6) else ("&", "<", ">")), numeric=numeric) for w in ws)
                r = rng.random()
                if s is not None:
                    txt = "<%s>%s</%s>" % (s, txt, s); tagged = True
                elif r < 0.1:
                    txt = "<c.yellow>%s</c>" % txt; tagged = True
                elif r < 0.15:
                    txt = "<lang en>%s</lang>" % txt; tagged = True
                elif r < 0.2:
                    # karaoke timestamp tag, with hours (2 or more digits) or in the short mm:ss.ttt form
                    txt = rng.choice(["<00:00:%02d.250>%s", "<00:%02d.250>%s", "<100:00:%02d.250>%s"]) % (2 * i + 1, txt); tagged = True
                elif r < 0.25:
                    txt = "<ruby>%s<rt>rt</rt></ruby>" % txt; tagged = True; ws = ws + ["rt"] if False else ws
                    exp.append(" ".join(ws) + "rt"); segs.append(txt); continue
                segs.append(txt); exp.append(" ".join(ws))
            if voice and rng.random() < 0.5:
                segs.append("</v>")
            out.append(" ".join(segs[:1]) + (("" if voice else " ") + " ".join(segs[1:]) if len(segs) > 1 else "")); exp_lines.append(" ".join(exp))
        if rng.random() < 0.08:
            # a text line that begins with the word NOTE is cue text (a comment block can only begin outside a cue)
            extra = rng.choice(["NOTE TO VISITORS", "NOTE", "NOTE\tthe bridge is closed"])
            out.append(extra); exp_lines.append(" ".join(extra.split()))
        if WS_RNG is not None and len(exp_lines) >= 2 and WS_RNG.random() < 0.15:
            # a line of white space only inside the cue (an empty-looking row): only an EMPTY line ends a cue
            k_ = len(out) - len(exp_lines) + WS_RNG.randint(1, len(exp_lines) - 1)
            out.insert(k_, WS_RNG.choice([" ", "\t", "  ", "\u00a0"]))
        out.append("")
        expect.append(exp_lines)
    return "\n".join(out), expect, tagged


def explore(chk):
    import pycaption
    global CDATA_RNG, WS_RNG, GT_RNG
    GT_RNG = chk.sub("vtt_literal_greater_than")
    CDATA_RNG = chk.sub("dfxp_cdata")
    WS_RNG = chk.sub("vtt_blank_looking_lines")
    rng = chk.rng
    N = 500 if chk.tier == "quick" else 15000
    b = core.Batch()
    jobs = []
    for i in range(N):
        fmt = ["srt", "microdvd", "webvtt", "dfxp", "sami", "webvtt-refs"][i % 6] if i % 12 != 11 else "webvtt-refs"
        caps = [gen_caption(rng) for _ in range(rng.randint(1, 3))]
        expect = [[" ".join(w for w, _ in line) for line in lines] for lines in caps]
        nontriv = False
        op = None
        if fmt == "srt":
            doc = "\n".join("%d\n00:00:%02d,000 --> 00:00:%02d,500\n%s\n" % (k + 1, 2 * k + 1, 2 * k + 2, "\n".join(e)) for k, e in enumerate(expect))
            op = b.add("srt.read", core.enc(doc))
        elif fmt == "microdvd":
            if any("|" in l for e in expect for l in e):
                continue
            doc = "\n".join("{%d}{%d}%s" % (25 * (2 * k + 1), 25 * (2 * k + 2), "|".join(e)) for k, e in enumerate(expect)) + "\n"
            op = b.add("mdvd.read", core.enc(doc))
        elif fmt in ("webvtt", "webvtt-refs"):
            caps = [[[(w, s) for (w, s) in line if not re.fullmatch(r"<[cibuv].*>", w)] or [("x", None)] for line in lines] for lines in caps]
            doc, expect, tagged = doc_vtt(caps, rng, numeric=(fmt == "webvtt-refs"))
            nontriv = tagged or "&" in doc
            op = b.add("vtt.read", "0", "1", core.enc(doc))
            fmt = "webvtt"
        elif fmt == "dfxp":
            doc, wrapped = doc_dfxp(caps, rng); nontriv = wrapped or "&" in doc or "<span" in doc
        else:
            doc, wrapped = doc_sami(caps, rng); nontriv = wrapped or "&" in doc or "<i>" in doc or "<b>" in doc or "<u>" in doc
        jobs.append((fmt, doc, expect, nontriv, op))
    # leaf rule: I vs M on raw leaves through the real DFXP reader
    leaves = []
    for _ in range(150 if chk.tier == "quick" else 4000):
        n = rng.randint(1, 6)
        s = "".join(rng.choice(["\n", "\r", " ", "\t", "  ", "a", "bc", "word", "\n   ", "\r\n", " "]) for _ in range(n))
        leaves.append((s, b.add("xml.leaf", core.enc(s))))
    out = b.run() if chk.driver_ok else None
    readers = {"srt": pycaption.SRTReader, "microdvd": pycaption.MicroDVDReader, "webvtt": pycaption.WebVTTReader,
               "dfxp": pycaption.DFXPReader, "sami": pycaption.SAMIReader}
    for (fmt, doc, expect, nontriv, op) in jobs:
        case = {"format": fmt, "document": doc}
        try:
            cs = core.POOL.get(readers[fmt]).read(doc)
            caps = cs.get_captions(cs.get_languages()[0])
            I = [norm_text(c.get_text()) for c in caps]
            Inodes = [capio.obs_nodes(c.nodes) for c in caps]
        except Exception as e:
            I = "err:" + capio.err_kind(e); Inodes = None
        want = [[norm(l) for l in e if norm(l)] for e in expect]
        case["impl"] = I
        chk.case(key=(fmt, doc), nontrivial=nontriv, sample=dict(case, spec=want) if chk.count_get("f_" + fmt) == 3 else None)
        chk.count("f_" + fmt)
        if I != want:
            chk.property_failure(dict(case, spec=want), "%s reader: caption text differs from the authored text" % fmt)
        if out is not None and op is not None:
            M = out[op]
            if M.startswith("ok:"):
                mc = [[(n[0], n[1]) if n[0] == "T" else n for n in c[2]] for c in capio.dec_captions(M[3:])]
                ic = [[(n[0], n[1]) if n[0] == "T" else n for n in ns] for ns in (Inodes or [])]
                if mc != ic:
                    chk.correspondence_failure(dict(case, model=str(mc), impl_nodes=str(ic)), "%s reader: implementation and model differ (nodes)" % fmt)
            elif not M.startswith("err:outOfModel"):
                if not (isinstance(I, str) and I == M):
                    chk.correspondence_failure(dict(case, model=M), "%s reader: implementation and model differ" % fmt)
    for (s, o) in leaves:
        doc = '<tt xml:lang="en"><body><div><p begin="1s" end="2s">%sZ<br/>%s</p></div></body></tt>' % ("", s.replace("&", "&amp;").replace("<", "&lt;"))
        try:
            cs = pycaption.DFXPReader().read(doc)
            ns = cs.get_captions("en")[0].nodes
            I = ns[2].content if len(ns) > 2 else None
        except Exception as e:
            I = "err:" + repr(e)
        chk.case(key=("leaf", s), nontrivial=True, sample={"leaf": s, "impl": I} if chk.count_get("leaf") == 5 else None)
        chk.count("leaf")
        if out is not None:
            M = None if out[o] == "N" else core.dec(out[o][1:])
            # html.parser normalises \r\n and \r to \n before pycaption sees the leaf: feed the model what the parser delivers
            if I != M:
                # (bs4 also collapses a string made of ASCII blanks only to "\n" or " ")
                s2 = s
                if s2.strip(" \n\t\x0c\r") == "":
                    s2 = "\n" if "\n" in s2 else " "
                M2 = core.run_driver(["xml.leaf\t" + core.enc(s2)])[0]
                M2 = None if M2 == "N" else core.dec(M2[1:])
                if I != M2:
                    chk.correspondence_failure({"leaf": s, "impl": I, "model": M, "model_on_normalised": M2}, "DFXP text leaf: implementation and model differ")


def replay(path):
    r = json.load(open(path))
    c = r.get("case", {})
    if "document" in c:
        print(c["document"]); print("impl:", c.get("impl")); print("spec:", c.get("spec"))
    else:
        print(json.dumps(r, indent=1)[:4000])
    return 0
