"""C03 — written text survives a conformant parser: escaping and cue structure."""
import json
from pcv import core, capio, textgen

P = "PcVerif.Props.C03."
THEOREMS = [P + t for t in ["unescape_escape", "xmlUnescape_escape", "escape_no_angle", "vtt_text_roundtrip", "vtt_text_cannot_end_cue", "vtt_escapes_pinned", "dfxp_lines_roundtrip", "sami_legacy_same_content", "srt_cue_has_no_blank_line"]]


def make(tier, seed):
    c = core.Check("C03", tier, seed, "PcVerif.Props.C03", THEOREMS)
    c.rule = ("caption sets of 1-4 captions, each 1-4 lines drawn from an adversarial atom list (& < > quotes, '-->', entity-looking and markup-looking "
              "substrings, CDATA markers, NBSP/RTL marks, astral and combining characters, digit-only lines, timing-looking lines, other formats' markers), "
              "with optional empty lines (consecutive breaks) at start / between / end; all seven writers; outputs parsed by independent parsers "
              "(lxml strict XML, html.parser, harness WebVTT/SRT/MicroDVD grammars). distinct = distinct (writer, set); non-trivial = contains a metacharacter atom or an empty line")
    return c


META = set("&<>\"'-|{};]" + chr(92))


def explore(chk):
    import pycaption
    from pycaption.dfxp.extras import SinglePositioningDFXPWriter, LegacyDFXPWriter
    from bs4 import BeautifulSoup
    rng = chk.rng
    N = 700 if chk.tier == "quick" else 10000
    writers = [("srt", pycaption.SRTWriter), ("webvtt", pycaption.WebVTTWriter), ("dfxp", pycaption.DFXPWriter),
               ("single", SinglePositioningDFXPWriter), ("legacy", LegacyDFXPWriter), ("sami", pycaption.SAMIWriter),
               ("microdvd", pycaption.MicroDVDWriter)]
    b = core.Batch()
    jobs = []
    for i in range(N):
        wname, W = writers[i % len(writers)]
        forbid = ("|",) if wname == "microdvd" else ()
        caps = []
        t = 1000000
        for _ in range(rng.randint(1, 4)):
            nodes, lines = textgen.adv_nodes(rng, forbid=forbid, styles=wname in ("dfxp", "single", "legacy", "sami", "webvtt"))
            caps.append((t, t + 1500000, nodes, lines))
            t += 2000000
        abstract = {"en-US": [(a, b_, n) for (a, b_, n, l) in caps]}
        ops = {}
        if wname in ("dfxp", "single"):
            ops["text"] = [b.add("dfxp.text", "0", capio_nodes(n)) for (_, _, n, _) in caps]
        elif wname == "legacy":
            ops["text"] = [b.add("legacy.text", "0", capio_nodes(n)) for (_, _, n, _) in caps]
        elif wname == "sami":
            ops["text"] = [b.add("sami.text", "0", capio_nodes(n)) for (_, _, n, _) in caps]
        elif wname == "webvtt":
            ops["text"] = [b.add("vtt.groups", capio_nodes(n)) for (_, _, n, _) in caps]
            ops["vttdoc"] = b.add("vtt.write", capio.enc_langs(list(abstract.values())))       # the whole document (no layouts, no caption styles)
        elif wname == "srt":
            ops["doc"] = b.add("srt.write", capio.enc_langs(list(abstract.values())))
        else:
            ops["doc"] = b.add("mdvd.write", capio.enc_langs(list(abstract.values())))
        jobs.append((wname, W, caps, abstract, ops))
    # the WebVTT escaping itself and the reference decoder the round-trip theorem is stated with
    vtexts = sorted({l for (wn, _, caps, _, _) in jobs if wn == "webvtt" for c in caps for l in c[3] if l})
    vtexts += [textgen.adv_line(rng) + rng.choice(["", "-", "--", "-->", "&", "&a", "&amp", "<", ">"]) + textgen.adv_line(rng) for _ in range(200)]
    # lines with more than a handful of metacharacters: every one of them is escaped, not the first few
    vtexts += ["a<b & c<d & e<f & g<h & i<j & k<l", "<" * 12, "&" * 12, " ".join(["-->"] * 10), "<&-->" * 5, "x" + "&amp;" * 9 + "y"]
    vops = [(t, b.add("vttw.encode", core.enc(t))) for t in vtexts]
    out = b.run() if chk.driver_ok else None
    if out is not None:
        wv = pycaption.WebVTTWriter()
        b2 = core.Batch()
        dops = []
        for t, o in vops:
            I = wv._encode_illegal_characters(t)
            chk.count("vtt_escape_cases")
            if core.dec(out[o]) != I:
                chk.correspondence_failure({"text": t, "impl": I, "model": core.dec(out[o])}, "WebVTT escaping: implementation and model differ")
            if textgen.vtt_decode(I) != t or "-->" in I:
                chk.property_failure({"writer": "webvtt", "text": t, "escaped": I, "decoded": textgen.vtt_decode(I)},
                                     "webvtt: escaped text does not decode to the text, or still contains '-->'")
            dops.append((I, b2.add("spec.vtt.decode", core.enc(I))))
        out2 = b2.run()
        for I, o in dops:
            if "<" not in I and core.dec(out2[o]) != textgen.vtt_decode(I):
                chk.correspondence_failure({"escaped": I, "lean_spec": core.dec(out2[o]), "harness_spec": textgen.vtt_decode(I)},
                                           "WebVTT reference decoder: Lean definition and the harness parser differ")
    for (wname, W, caps, abstract, ops) in jobs:
        cs = capio.build_set(abstract)
        case = {"writer": wname, "captions": [{"nodes": [list(n) for n in nodes], "lines": lines} for (_, _, nodes, lines) in caps]}
        nontriv = any((META & set(l)) for c in caps for l in c[3]) or any(
            c[2][k][0] == "B" and (k == 0 or k == len(c[2]) - 1 or c[2][k - 1][0] == "B") for c in caps for k in range(len(c[2])))
        w = core.POOL.get(W)
        chk._c03_n = getattr(chk, "_c03_n", 0) + 1
        if chk._c03_n % 4 == 0:
            # the caption set has been written before, by other writers: every writer must still see the original text
            import pycaption as _pc
            for Wprev in (_pc.WebVTTWriter, _pc.SRTWriter, _pc.DFXPWriter, _pc.SAMIWriter):
                try:
                    Wprev().write(cs)
                except Exception:
                    pass
            case["written_before_by"] = ["webvtt", "srt", "dfxp", "sami"]
        try:
            doc = w.write(cs)
        except Exception as e:
            chk.case(key=json.dumps(case, sort_keys=True), nontrivial=nontriv)
            chk.property_failure(dict(case, error=repr(e)), "%s writer raised" % wname)
            continue
        case["output"] = doc[:4000]
        chk.case(key=json.dumps(case, sort_keys=True), nontrivial=nontriv,
                 sample={"writer": wname, "lines": caps[0][3], "output": doc[:500]} if chk.count_get("w_" + wname) == 2 else None)
        chk.count("w_" + wname)
        want = [textgen.norm_lines(c[3]) for c in caps]
        # ---- S: independent conformant parser
        try:
            if wname in ("dfxp", "single", "legacy"):
                got = [textgen.norm_lines(ls) for (_, _, ls) in textgen.parse_dfxp(doc)[0][1]]
            elif wname == "sami":
                got = [textgen.norm_lines(ls) for (st, cls, ls) in textgen.parse_sami(doc)]
                got = [g for g in got if g]      # blank syncs
            elif wname == "webvtt":
                got = [textgen.norm_lines(ls) for (_, ls) in textgen.parse_vtt(doc)]
            elif wname == "srt":
                parsed = textgen.parse_srt(doc)
                got = [textgen.norm_lines(ls) if t != "?" else ["<not a cue block>"] + ls for (t, ls) in parsed]
            else:
                parsed = textgen.parse_microdvd(doc)
                got = [textgen.norm_lines(ls) if t != "?" else ["<not a cue line>"] + ls for (t, ls) in parsed]
        except Exception as e:
            chk.property_failure(dict(case, error=repr(e)), "%s: output rejected by the conformant parser" % wname)
            continue
        if got != want:
            chk.property_failure(dict(case, parsed=got, spec=want), "%s: parsed cues/lines differ from the caption lines" % wname)
        # ---- M: correspondence on the writers' own text functions
        if out is None:
            continue
        if "vttdoc" in ops and core.dec(out[ops["vttdoc"]]) != doc:
            chk.correspondence_failure(dict(case, model=core.dec(out[ops["vttdoc"]])), "webvtt writer (whole document): implementation and model differ")
        if "doc" in ops:
            if core.dec(out[ops["doc"]]) != doc:
                chk.correspondence_failure(dict(case, model=core.dec(out[ops["doc"]])), "%s writer: implementation and model differ" % wname)
        else:
            for k, (cap_abs, o) in enumerate(zip(caps, ops["text"])):
                capobj = cs.get_captions("en-US")[k]
                if wname == "single" and any(n[0] == "S" for n in cap_abs[2]):
                    continue      # this writer gives every node a layout: a style node always opens a span there (modelled in C09/C11)
                try:
                    if wname in ("dfxp", "single"):
                        w2 = pycaption.DFXPWriter(); soup = BeautifulSoup("<tt><head><styling/></head></tt>", "lxml-xml")
                        I = (w2._recreate_text(capobj, soup, cs, "en-US"), w2.open_span)
                    elif wname == "legacy":
                        w2 = LegacyDFXPWriter(); soup = BeautifulSoup("<tt><head><styling/></head></tt>", "lxml-xml")
                        I = (w2._recreate_text(capobj, soup), w2.open_span)
                    elif wname == "sami":
                        w2 = pycaption.SAMIWriter()
                        I = (w2._recreate_text(capobj.nodes), w2.open_span)
                    else:
                        w2 = pycaption.WebVTTWriter()
                        I = [(s, 0) for (s, lay) in w2._group_cues_by_layout(capobj.nodes, cs)]
                except Exception as e:
                    chk.correspondence_failure(dict(case, error=repr(e)), "%s: internal text function not callable as modelled" % wname)
                    break
                if wname == "webvtt":
                    M = [(core.dec(x.rsplit(":", 1)[0]), int(x.rsplit(":", 1)[1])) for x in core.dec_list(out[o], lambda z: z)]
                else:
                    t, op_ = out[o].split(";")
                    M = (core.dec(t), op_ == "1")
                if I != M:
                    chk.correspondence_failure(dict(case, caption=k, impl=str(I), model=str(M)), "%s text function: implementation and model differ" % wname)
                    break


def capio_nodes(nodes):
    return " ".join(capio.enc_node_abs(n) for n in nodes) if nodes else "_"


def replay(path):
    print(json.dumps(json.load(open(path)), indent=1)[:6000])
    return 0
