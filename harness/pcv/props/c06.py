"""C06 — SCC captions appear and disappear at the frames their commands are sent."""
import json
from fractions import Fraction
from pcv import capio, core, sccgen
from pcv.props import scc_common as sc

P = "PcVerif.Props.C06."
THEOREMS = [P + t for t in ["frame_pinned", "flash_rejected_iff", "tail4s_last", "tail4s_keeps_ended", "store_joins_iff", "timeOf_floor_zero", "instant_nondrop", "instant_drop", "word_counts_one_frame",
                            "words_count_frames", "eoc_stamps_now", "written_captions_start_and_end"]]
TOL = Fraction(1, 1024)


def make(tier, seed):
    c = core.Check("C06", tier, seed, "PcVerif.Props.C06", THEOREMS)
    c.rule = ("pop-on programs: 1-6 captions x 1-4 rows, drop/non-drop timecodes, single/doubled codes, erase command inline before the next EOC / on its own "
              "line after 30-150 frames / absent, inter-line gaps 0-8 frames and longer, offsets {0,1,3600 s}, start timecodes incl. 1 h; distinct = distinct "
              "SCC text; non-trivial = at least two captions or an erase command")
    c.extra_trusted.append("times: implementation floats vs exact rational model/spec within 2^-10 microseconds")
    return c


def explore(chk):
    rng = chk.rng
    N = 500 if chk.tier == "quick" else 12000
    progs = []
    for i in range(N):
        p = sccgen.gen_popon(rng, rich=(i % 3 == 0), max_len=12)
        progs.append(p)
    # flash / join boundary programs: EDM one or two frames after EOC, gaps of exactly 4,5,6 frames
    for i in range(N // 5):
        p = sccgen.gen_popon(rng, rich=False, ncaps=2, max_len=6)
        progs.append(p)
    b = core.Batch()
    ops = [b.add("scc.read", capio.fr(p["offset"]), core.enc(p["text"])) for p in progs]
    out = b.run() if chk.driver_ok else None
    import pycaption
    shared_reader = pycaption.SCCReader()
    for pi, (p, o) in enumerate(zip(progs, ops)):
        # every third program is read with one long-lived reader object (offsets change from read to read)
        I = sc.impl_read(p["text"], p["offset"], reader=shared_reader if pi % 3 == 0 else None)
        S = sccgen.spec_popon_timing(p)
        case = {"scc": p["text"], "offset": p["offset"], "impl": str(I[:2]) if I[0] == "err" else str([(float(c[0]), float(c[1])) for c in I[1]])}
        chk.case(key=p["text"] + str(p["offset"]), nontrivial=len(p["caps"]) > 1 or any(e[0] == "edm" for e in p["events"]),
                 sample=dict(case, spec=str(S) if isinstance(S, str) else str([(float(a), [float(x) for x in b_]) for a, b_ in S])) if chk.count_get("n") in (3, 40) else None)
        chk.count("n"); chk.count("outcome_" + (I[1] if I[0] == "err" else "ok"))
        wf = sccgen.wf_popon(p) and not any(len(sccgen.row_cells(r)) > 32 for c in p["caps"] for r in c["rows"])
        if wf and S not in ("timingError", "either") and any(e == 0 for _, es in S for e in es):
            # an end instant floored to exactly 0 (offset beyond two consecutive EOCs) collides with pycaption's
            # "0 = not ended yet" encoding: degenerate zero-length captions at instant 0 are outside the domain
            wf = False; chk.count("skipped_end_floored_to_zero")
        if S == "either":
            wf = False; chk.count("skipped_threshold_ambiguous")
        if wf:
            if S == "timingError":
                if not (I[0] == "err" and I[1] == "timingError"):
                    chk.property_failure(dict(case, spec=S), "a displayed duration under 0.05 s was not rejected with the timing error")
            elif I[0] != "ok":
                chk.property_failure(dict(case, spec=str([(float(a), [float(x) for x in b_]) for a, b_ in S])), "well-formed pop-on stream not read (%s)" % I[1])
            else:
                # several screen captions of one transmitted caption share its times: compare the distinct (start,end) runs in order
                got = []
                for c in I[1]:
                    if not got or abs(got[-1][0] - c[0]) > TOL or abs(got[-1][1] - c[1]) > TOL:
                        got.append((c[0], c[1]))
                ok = len(got) == len(S) and all(abs(g[0] - s[0]) <= TOL and any(abs(g[1] - e) <= TOL for e in s[1]) for g, s in zip(got, S))
                if not ok:
                    chk.property_failure(dict(case, spec=str([(float(a), [float(x) for x in b_]) for a, b_ in S]), parsed=str([(float(a), float(b_)) for a, b_ in got])),
                                         "caption start/end are not the instants of its EOC and of the next EDM/EOC (5-frame joining, 4 s tail)")
                if any(c[0] > c[1] for c in I[1]) or any(I[1][k][0] > I[1][k + 1][0] + TOL for k in range(len(I[1]) - 1)):
                    chk.property_failure(case, "captions are not in transmission order with start <= end")
        if out is not None:
            d = sc.compare_impl_model(I, sc.dec_model(out[o]))
            if d:
                chk.correspondence_failure(dict(case, model=out[o][:600], diff=d), "SCC reader: implementation and model differ")


def long_line_cases(chk):
    """one transmission line that runs for more than 1000 frames: a caption, padding words, the erase command, a second
    caption -- the frame field of the running time code then has four digits.  Expected instants from the property's own
    arithmetic: word number n of a line stamped hh:mm:ss:ff is sent at second hh*3600+mm*60+ss+(ff+n)/30, times 1001/1000 for
    a non-drop-frame time code"""
    sub = chk.sub("long_lines")
    out = []
    for sep in (":", ";"):
        for pad1 in (sub.choice([955, 975]), sub.choice([985, 1100, 1222])):
            ff = sub.choice([0, 7, 29])
            ss = sub.choice([1, 30])
            head = ["9420", "9420", "94ae", "94ae", "9470", "9470", "c1c2", "c8e5", "942f", "942f"]
            mid = ["8080"] * pad1 + ["942c", "942c"] + ["8080"] * 20
            tail = ["9420", "9420", "94ae", "94ae", "9470", "9470", "c8e5", "942f", "942f"]
            ws = head + mid + tail
            text = "Scenarist_SCC V1.0\n\n00:00:%02d%s%02d\t%s\n\n" % (ss, sep, ff, " ".join(ws))
            k = Fraction(1) if sep == ";" else Fraction(1001, 1000)
            T = lambda n: (Fraction(ss) + Fraction(ff + n, 30)) * k * 10 ** 6
            i1 = head.index("942f"); j = len(head) + pad1; i2 = len(head) + len(mid) + tail.index("942f")
            out.append((text, [(T(i1), T(j)), (T(i2), T(i2) + 4 * 10 ** 6)]))
    return out


def mixed_separator_cases(chk):
    """a file whose lines do not all use the same time-code separator: every line is timed by its own separator (`;` drop-frame:
    clock time, `:` non-drop-frame: 1001/1000 slower)"""
    sub = chk.sub("mixed_separators")
    out = []
    for pattern in ([";", ":", ":", ":"], [":", ";", ";", ";"], [";", ":", ";", ":"], [":", ":", ";", ";"]):
        ff = [sub.choice([0, 10, 29]) for _ in range(4)]
        secs = [1, 3, 120, 124]
        cap = ["9420", "9420", "94ae", "94ae", "9470", "9470", "c1c2", "c8e5", "942f", "942f"]
        lines = ["Scenarist_SCC V1.0", ""]
        T = []
        for k in range(4):
            ws = cap if k % 2 == 0 else ["942c", "942c"]
            lines += ["00:%02d:%02d%s%02d\t%s" % (secs[k] // 60, secs[k] % 60, pattern[k], ff[k], " ".join(ws)), ""]
            n = cap.index("942f") if k % 2 == 0 else 0
            fac = Fraction(1) if pattern[k] == ";" else Fraction(1001, 1000)
            T.append((Fraction(secs[k]) + Fraction(ff[k] + n, 30)) * fac * 10 ** 6)
        out.append(("\n".join(lines) + "\n", [(T[0], T[1]), (T[2], T[3])]))
    return out


def explore_long(chk):
    cases = long_line_cases(chk) + mixed_separator_cases(chk)
    b = core.Batch()
    ops = [b.add("scc.read", capio.fr(0), core.enc(text)) for text, _ in cases]
    out = b.run() if chk.driver_ok else None
    for (text, want), o in zip(cases, ops):
        I = sc.impl_read(text, 0)
        case = {"scc": text[:200] + " ... " + text[-160:], "scc_words": len(text.split()), "offset": 0,
                "impl": str(I[:2]) if I[0] == "err" else str([(float(c[0]), float(c[1])) for c in I[1]]), "spec": str([(float(a), float(b_)) for a, b_ in want])}
        chk.case(key=text, nontrivial=True); chk.count("long_lines")
        if I[0] != "ok":
            chk.property_failure(case, "a line of more than 1000 frames was not read (%s)" % I[1])
        elif len(I[1]) != len(want) or any(abs(c[0] - w[0]) > TOL or abs(c[1] - w[1]) > TOL for c, w in zip(I[1], want)):
            chk.property_failure(case, "a caption's start/end are not the instants of its EOC and of the next EDM (line longer than 1000 frames, or lines with different time-code separators)")
        if out is not None:
            d = sc.compare_impl_model(I, sc.dec_model(out[o]))
            if d:
                chk.correspondence_failure(dict(case, model=out[o][:600], diff=d), "SCC reader: implementation and model differ (long line)")


_explore_main = explore


def explore(chk):
    _explore_main(chk)
    explore_long(chk)


def replay(path):
    r = json.load(open(path)); c = r.get("case", {})
    if "scc" in c:
        print(c["scc"]); print("impl:", sc.impl_read(c["scc"], c.get("offset", 0))[:2]); print("spec:", c.get("spec"))
    else:
        print(json.dumps(r, indent=1)[:3000])
    return 0
