"""C05 — SCC pop-on decoding reproduces the CEA-608 screen: text, rows, italics, position."""
import json
from fractions import Fraction
from pcv import capio, core, sccgen
from pcv.props import scc_common as sc

P = "PcVerif.Props.C05."
THEOREMS = [P + t for t in ["pac_rows_cols", "pac_covers_grid", "tab_offsets_1_3", "char_tables_disjoint", "layout_linear_safe",
                            "layout_strictly_monotone", "skipRedundant_alternates", "formatItalics_balanced", "formatItalics_keeps_characters", "second_copy_dropped", "doubled_control_counts_once", "written_caption_exact"]]


def make(tier, seed):
    c = core.Check("C05", tier, seed, "PcVerif.Props.C05", THEOREMS)
    c.rule = ("exhaustive: every PAC row/indent (15x8) x tab offset 0-3 x single/doubled, every code of the basic/special/extended tables in first, "
              "middle and last position; random: pop-on programs of 1-6 captions x 1-4 rows (adjacent and non-adjacent) x 1-30 items (basic pairs, special, "
              "stand-in+extended, backspace, mid-row codes, italic PACs), single or doubled; reference reading computed from CEA-608 rules with tables built "
              "from the standard's formulas; distinct = distinct SCC text; non-trivial = more than one row or a non-basic item")
    c.predicates = {"row_starts_with_backspace_or_extended": pred_bs_first, "tracker_leak_adjacent_caption": pred_leak,
                    "mid_row_cell_erased_after_later_characters": pred_late_erase}
    return c


def pred_bs_first(case):
    return bool(case.get("feature_bs_first"))


def pred_late_erase(case):
    """every caption that differs from the screen has a row on which a backspace erases a mid-row code's cell only after
    characters written behind it were erased; and only characters differ (same number of captions, same positions)"""
    return bool(case.get("late_erase_explains"))


def pred_leak(case):
    return bool(case.get("feature_leak"))


def features(p):
    """which known-finding situations occur in the program"""
    f = {}
    prev_last = None
    for cap in p["caps"]:
        rows = cap["rows"]
        for k, row in enumerate(rows):
            if k > 0 and row["items"] and row["items"][0][0] in ("bs",):
                f["feature_bs_first"] = True
        if prev_last is not None and rows:
            first = rows[0]
            if first["row"] in (prev_last["row"], prev_last["row"] + 1):
                f["feature_leak"] = True
        if rows:
            prev_last = rows[-1]
    return f


def exhaustive_programs():
    K = sccgen.tables()
    progs = []
    for row in range(1, 16):
        for indent in range(0, 32, 4):
            for t in range(0, 4):
                for doubled in (False, True):
                    r = {"row": row, "indent": indent, "tab": t, "italic_pac": False, "items": [("c", "A"), ("c", "b")]}
                    progs.append(one_caption([r], doubled))
    codes = [("c", ch) for ch in sccgen.BASIC.values() if ch.strip()] + [("s", w, ch) for w, ch in K.SPECIAL_CHARS.items() if ch.strip()] + \
            [("e", "a", w, ch) for w, ch in K.EXTENDED_CHARS.items()]
    for it in codes:
        for pos in range(3):
            items = [("c", "x"), ("c", "y")]
            items.insert(pos, it)
            progs.append(one_caption([{"row": 7, "indent": 4, "tab": 0, "italic_pac": False, "items": items}], False))
    # rows that fill the screen's 32 columns exactly (alone, and above / below a short row)
    for doubled in (False, True):
        full = {"row": 14, "indent": 0, "tab": 0, "italic_pac": False, "items": [("c", ch) for ch in "ABCDEFGHIJKLMNOPQRSTUVWXYZ012345"]}
        near = {"row": 15, "indent": 0, "tab": 1, "italic_pac": False, "items": [("c", ch) for ch in "abcdefghijklmnopqrstuvwxyz01234"]}
        short = {"row": 15, "indent": 4, "tab": 0, "italic_pac": False, "items": [("c", "o"), ("c", "k")]}
        progs.append(one_caption([full], doubled))
        progs.append(one_caption([full, near], doubled))
        progs.append(one_caption([full, short], doubled))
        progs.append(one_caption([dict(full, row=3), dict(short, row=9)], doubled))
    return progs


def one_caption(rows, doubled, df=False):
    words = [sccgen.CMD["ENM"], sccgen.CMD["RCL"]]
    if doubled:
        words = [w for w in words for _ in range(2)]
    for r in rows:
        words += sccgen.row_words(r, doubled)
    words += [sccgen.CMD["EOC"]] * (2 if doubled else 1)
    text = "Scenarist_SCC V1.0\n\n" + sccgen.timecode(30, df) + "\t" + " ".join(words) + "\n\n" + sccgen.timecode(300, df) + "\t" + sccgen.CMD["EDM"] + "\n"
    return {"mode": "pop", "text": text, "caps": [{"rows": rows}], "events": [], "df": df, "doubled": doubled, "offset": 0}


def explore(chk):
    sccgen.UNDERLINE_RNG = chk.sub("underlined_codes")
    rng = chk.rng
    progs = exhaustive_programs()
    chk.count("exhaustive_programs", len(progs))
    N = 500 if chk.tier == "quick" else 15000
    for i in range(N):
        progs.append(sccgen.gen_popon(rng, rich=(i % 4 != 0), max_len=24))
    for i in range(N // 10):
        progs.append(sccgen.italic_rows_program(rng, doubled=bool(i % 2)))
        progs.append(sccgen.styled_adjacent_rows_program(rng, doubled=bool(i % 2)))
    chk.exhaustive = True
    b = core.Batch()
    ops = [b.add("scc.read", capio.fr(p["offset"]), core.enc(p["text"])) for p in progs]
    out = b.run() if chk.driver_ok else None
    for p, o in zip(progs, ops):
        I = sc.impl_read(p["text"], p["offset"])
        wf = sccgen.wf_popon(p)
        S = sccgen.spec_popon_screen(p)
        case = dict({"scc": p["text"], "doubled": p["doubled"]}, **features(p))
        nontriv = sum(len(c["rows"]) for c in p["caps"]) > 1 or any(it[0] != "c" for c in p["caps"] for r in c["rows"] for it in r["items"])
        chk.case(key=p["text"], nontrivial=nontriv, sample=dict(case, spec=str(S)[:600]) if chk.count_get("n") in (1000, 1700) else None)
        chk.count("n"); chk.count("wf" if wf else "not_wf")
        if wf and I[0] == "ok":
            exp = [(g["origin"], g["lines"]) for groups in S for g in groups]
            got = []
            for c in I[1]:
                got.append((c[3], [sccgen.nonblank(l) for l in c[2]]))
            ok = len(exp) == len(got)
            late = [g["late_erase"] for groups in S for g in groups]
            differing = [i for i, ((_, lines), (_, glines)) in enumerate(zip(exp, got)) if glines != lines] if ok else []
            why = "caption count differs from the screen's row groups (adjacent rows = one caption, non-adjacent rows = separate captions)"
            detail = None
            if ok:
                for ci_, ((org, lines), (gorg, glines)) in enumerate(zip(exp, got)):
                    x = Fraction(80 * org[1], 32) + 10; y = Fraction(90 * (org[0] - 1), 15) + 5
                    if glines != lines:
                        ok = False; why = "characters / rows / italic flags differ from the CEA-608 screen"
                        detail = {"caption": ci_, "impl_lines": ["".join(ch + ("*" if it else "") for ch, it in l) for l in glines],
                                  "spec_lines": ["".join(ch + ("*" if it else "") for ch, it in l) for l in lines]}
                        break
                    if gorg is None or abs(gorg[0] - x) > Fraction(1, 10 ** 9) or abs(gorg[1] - y) > Fraction(1, 10 ** 9):
                        ok = False; why = "caption origin is not the (row, column) of its first row mapped linearly into the safe area"; break
            if ok:
                # blank cells between two characters of a row are shown as blanks: the words of every line are the screen's
                rel = [g["words_reliable"] for groups in S for g in groups]
                ewords = [g["words"] for groups in S for g in groups]
                gwords = [["".join(ch for ch, _ in l).split() for l in c[2]] for c in I[1]]
                chk.count("word_boundary_groups", sum(rel))
                if [w for w, r_ in zip(ewords, rel) if r_] != [w for w, r_ in zip(gwords, rel) if r_]:
                    ok = False; why = "blank cells between the characters of a row are not kept (word boundaries differ from the CEA-608 screen)"
                    detail = {"impl_words": str(gwords)[:600], "spec_words": str(ewords)[:600]}
            if ok:
                # the row groups of one transmitted caption are shown and removed together: same start, same end
                k_ = 0
                for groups in S:
                    times = {(I[1][k_ + j][0], I[1][k_ + j][1]) for j in range(len(groups))}
                    if len(times) > 1:
                        ok = False; why = "the separate captions made from the non-adjacent rows of one transmitted caption do not share their start and end"
                        detail = {"times": [[float(a_), float(b_)] for (a_, b_) in sorted(times)]}
                        break
                    k_ += len(groups)
            if ok and any(not sccgen.balanced(c[4]) for c in I[1]):
                ok = False; why = "italic style nodes are not balanced"
            if not ok:
                if why.startswith("characters") and differing and all(late[i] for i in differing):
                    case["late_erase_explains"] = True
                chk.property_failure(dict(case, detail=detail, impl=str([(c[3] and (float(c[3][0]), float(c[3][1])), ["".join(ch for ch, _ in l) for l in c[2]]) for c in I[1]])[:1500],
                                          spec=str(S)[:1500]), why)
        elif wf and I[0] == "err" and I[1] not in ("timingError", "lineLength"):
            chk.property_failure(dict(case, impl=str(I[:3])), "well-formed pop-on stream not read (%s)" % I[1])
        elif wf and I[0] == "err" and I[1] == "lineLength" and \
                all(it[0] not in ("mid", "bs") for c in p["caps"] for r in c["rows"] for it in r["items"]):
            # every row fits the 32 columns (wf) and nothing but characters was sent, so no row can be too long
            chk.property_failure(dict(case, impl=str(I[:3])), "well-formed pop-on stream whose rows all fit the 32 columns is rejected with the line-length error")
        if out is not None:
            d = sc.compare_impl_model(I, sc.dec_model(out[o]))
            if d:
                chk.correspondence_failure(dict(case, model=out[o][:500], diff=d), "SCC reader: implementation and model differ")


def replay(path):
    r = json.load(open(path)); c = r.get("case", {})
    if "scc" in c:
        print(c["scc"]); print("impl:", c.get("impl")); print("spec:", c.get("spec"))
    else:
        print(json.dumps(r, indent=1)[:3000])
    return 0
