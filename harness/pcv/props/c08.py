"""C08 — any chain of conversions preserves the cue timeline and text."""
import itertools, json
from fractions import Fraction
from pcv import core, capio

P = "PcVerif.Props.C08."
THEOREMS = [P + t for t in ["coarsen_idempotent", "grids_nested", "chain_coarsest", "second_pass_identity", "srt_hop", "srt_hop_instant", "vtt_hop", "mdvd_hop", "dfxp_hop_instant",
                           "chain_loss_bounded", "chain_monotone", "chain_same_formats", "chain_append", "chain_passes", "chain_keeps_timeline_sorted", "chain_keeps_apart"]]
FORMATS = ["srt", "webvtt", "dfxp", "sami", "microdvd"]
WORDS = ["hello", "world", "Q&A", "a<b", "1>0", "it's", '"quoted"', "é", "中文", "100%", "fox", "two", "I", "x", "&amp;", "--", "{1}", "&lt;", "&gt;", "&nbsp;", "&#38;", "AT&T;"]


def make(tier, seed):
    c = core.Check("C08", tier, seed, "PcVerif.Props.C08", THEOREMS)
    c.rule = ("caption sets with sorted, non-overlapping cues below 24 h and visible text (1-3 lines, words incl. & < > quotes, non-ASCII); all 25 ordered "
              "format pairs exhaustively, all 125 triples in thorough, sampled chains up to length 5; two passes of every chain; 1-3 languages for chains over "
              "DFXP/SAMI only; observable per language: (start, end, whitespace-normalised text) compared with the sequentially coarsened original; "
              "distinct = distinct (set, chain); non-trivial = chain of length >= 2")
    return c


def rw():
    import pycaption
    R = {"srt": pycaption.SRTReader, "webvtt": pycaption.WebVTTReader, "dfxp": pycaption.DFXPReader, "sami": pycaption.SAMIReader, "microdvd": pycaption.MicroDVDReader}
    W = {"srt": pycaption.SRTWriter, "webvtt": pycaption.WebVTTWriter, "dfxp": pycaption.DFXPWriter, "sami": pycaption.SAMIWriter, "microdvd": pycaption.MicroDVDWriter}
    return R, W


def norm(t):
    return [" ".join(l.replace(" ", " ").split()) for l in t.split("\n") if l.strip()]


def obs(cs):
    """per language (keyed by language code; the order of languages is C14's subject, and SRT/WebVTT/MicroDVD carry no
    language, so a single-language set is keyed by position)"""
    langs = cs.get_languages()
    o = {l: [(int(c.start), int(c.end), norm(c.get_text())) for c in cs.get_captions(l)] for l in langs}
    if len(langs) == 1:
        return {"*": o[langs[0]]}
    return o


def coarsen(fmt, cues):
    out = []
    for i, (s, e, t) in enumerate(cues):
        if fmt in ("srt", "webvtt", "dfxp"):
            out.append((s // 1000 * 1000, e // 1000 * 1000, t))
        elif fmt == "microdvd":
            out.append((s * 25 // 10 ** 6 * 40000, e * 25 // 10 ** 6 * 40000, t))
        else:   # sami: starts and non-final ends to ms; the last cue lasts 4 s
            s2 = s // 1000 * 1000
            e2 = e // 1000 * 1000 if i + 1 < len(cues) else s2 + 4000000
            out.append((s2, e2, t))
    return out


EXTRA_WORDS = [";>", "wink;>", "i++;>", "a;>b", "</p>", "<p>", "<br>", "&;", ";&", "x;", "<!--", "-->", "]]>", "<sync>", ";<"]   # (not MicroDVD's "|" and "{y:i}": that format has no way to spell them as text)


def gen_set(rng, nlang, short=False, extra_rng=None):
    """`short`: the set may hold a cue shorter than a frame, followed at once by the next cue (both land in one frame of a
    MicroDVD hop; every format on the chain can still tell the two apart by their ends)"""
    langs = {}
    for li in range(nlang):
        t = rng.choice([0, 40000, 1000000, 3599000000, 86000000000 - 60000000])
        if short:
            t = max(t, 1000000)
        caps = []
        for _ in range(rng.randint(1, 5)):
            d = rng.choice([1000000, 1500000, 2040000, 999999, 1234567])
            if short and rng.random() < 0.3:
                d = 30000      # a cue shorter than a frame
            lines = [" ".join(rng.choice(WORDS) for _ in range(rng.randint(1, 4))) for _ in range(rng.randint(1, 3))]
            if extra_rng is not None and extra_rng.random() < 0.12:
                # a word that looks like markup or an escape of one of the formats on the way
                k_ = extra_rng.randrange(len(lines))
                lines[k_] = lines[k_] + " " + extra_rng.choice(EXTRA_WORDS) + extra_rng.choice(["", " end"])
            if len(lines) >= 2 and rng.random() < 0.15:
                # a line holding nothing but a no-break space (what WebVTT's "&nbsp;" filler line reads as)
                lines.insert(rng.randint(1, len(lines) - 1), "\u00a0")
            nodes = capio.nodes_from_lines(lines)
            if len(lines) >= 2 and rng.random() < 0.25:
                # an empty line, and a style node (often one that renders as nothing) right before a break
                fl = rng.choice([(False, False, False), (False, False, False), (True, False, False), (False, True, False)])
                k = next(i for i, n in enumerate(nodes) if n[0] == "B")
                nodes = nodes[:k + 1] + [("S", True) + fl, ("B",)] + nodes[k + 1:] + [("S", False) + fl]
            caps.append((t, t + d, nodes))
            t += d + (rng.choice([0, 1000, 40000, 2000000, 123456]) if d >= 999999 else rng.choice([0, 5000, 100]))
        langs[["en-US", "fr-FR", "de-DE"][li]] = caps
    return langs


def run_chain(cs, chain, objs=None):
    """objs: reader / writer objects kept for the whole case (both passes), as a converter service would keep them"""
    R, W = rw()
    states = []
    for f in chain:
        w = objs.setdefault(("w", f), W[f]()) if objs is not None else W[f]()
        r = objs.setdefault(("r", f), R[f]()) if objs is not None else R[f]()
        doc = w.write(cs)
        cs = r.read(doc)
        states.append(obs(cs))
    return cs, states


def explore(chk):
    rng = chk.rng
    chains = [list(p) for p in itertools.product(FORMATS, repeat=2)]
    if chk.tier == "thorough":
        chains += [list(p) for p in itertools.product(FORMATS, repeat=3)]
    for _ in range(10 if chk.tier == "quick" else 200):
        chains.append([rng.choice(FORMATS) for _ in range(rng.randint(3, 5))])
    chains += [[f] for f in FORMATS]
    chk.exhaustive = True
    per = 6 if chk.tier == "quick" else 40
    extra_sub = chk.sub("markup_like_words")
    for chain in chains:
        multi_ok = all(f in ("dfxp", "sami") for f in chain)
        for k in range(per):
            # cues shorter than a frame only on chains whose formats can all express a cue's own end (SAMI cannot: a cue that
            # has no length at the chain's resolution gets the next sync as its end)
            abstract = gen_set(rng, rng.choice([1, 2, 3]) if multi_ok else 1, short=("sami" not in chain and k % 3 == 2), extra_rng=extra_sub)
            cs0 = capio.build_set(abstract)
            start = obs(cs0)
            case = {"chain": chain, "shared_objects": bool(k % 2), "set": {l: [(s, e, [n[1] for n in ns if n[0] == "T"]) for (s, e, ns) in caps] for l, caps in abstract.items()}}
            chk.case(key=json.dumps(case, sort_keys=True), nontrivial=len(chain) >= 2, sample=case if chk.count_get("n") in (4, 90) else None)
            chk.count("n"); chk.count("len_%d" % len(chain))
            try:
                objs = {} if k % 2 else None      # every other case keeps its reader and writer objects across hops and passes
                cs1, states = run_chain(cs0, chain, objs)
                cs2, states2 = run_chain(cs1, chain, objs)
            except Exception as e:
                chk.property_failure(dict(case, error=repr(e)[:400]), "a hop of the chain raised %s" % type(e).__name__)
                continue
            exp = start
            failed = False
            for hi, (f, got) in enumerate(zip(chain, states)):
                exp = {l: coarsen(f, cues) for l, cues in exp.items()}
                if got != exp:
                    chk.property_failure(dict(case, hop=hi, format=f, after_hop=str(got)[:1500], spec=str(exp)[:1500]),
                                         "after a %s hop the cues/times/text differ from the original coarsened to the chain's resolution" % f)
                    failed = True
                    break
            if not failed and states2[-1] != states[-1]:
                chk.property_failure(dict(case, first_pass=str(states[-1])[:1500], second_pass=str(states2[-1])[:1500]),
                                     "running the same chain a second time changes the result (drift)")


def replay(path):
    print(json.dumps(json.load(open(path)), indent=1)[:5000])
    return 0
