"""C10 — reading is a deterministic, isolated function of document and options."""
import json, os, subprocess, sys
from pcv import core, setbuild, capio

P = "PcVerif.Props.C10."
THEOREMS = [P + t for t in ["reader_flags_pinned", "read_independent_of_history", "fresh_results_isolated", "languages_in_first_appearance_order", "no_process_wide_memo", "constructed_objects_distinct", "no_shared_default_objects"]]


def make(tier, seed):
    c = core.Check("C10", tier, seed, "PcVerif.Props.C10", THEOREMS)
    c.rule = ("histories of 3-9 operations (read with a reused or fresh reader object, write, add_style / caption.style / node edits on an earlier result) over "
              "documents of the six input formats produced from random caption sets (1-3 languages for DFXP/SAMI); every read is compared with a pristine "
              "sub-process performing only that read under PYTHONHASHSEED 0, 1 and random; after every edit all other results must be unchanged; "
              "distinct = distinct history; non-trivial = a reader object is reused or an edit precedes a read")
    c.extra_trusted.append("hash-seed independence is established by execution in sub-processes; CPython object identity is observed with `is`")
    return c


def make_docs(rng, n):
    """(format, document) pairs produced by pycaption's own writers and by hand for multi-language SAMI"""
    docs = []
    while len(docs) < n:
        d = setbuild.rand_desc(rng, nlang=rng.choice([1, 1, 2, 3]), unbalanced=0.0, absolute=0.0, with_layout=0.2)
        fmt = rng.choice(setbuild.READERS)
        if fmt in ("srt", "webvtt", "microdvd", "scc"):
            d["langs"] = d["langs"][:1]
        try:
            doc = setbuild.make_writer(fmt).write(setbuild.build(d))
        except Exception:
            continue
        if fmt == "microdvd" and rng.random() < 0.5:
            doc = "{0}{0}%s\n" % rng.choice(["23.976", "29.97", "50"]) + doc       # a declared frame rate
        docs.append((fmt, doc))
        if rng.random() < 0.2:
            # a TTML document whose elements reference several styles at once
            docs.append(("dfxp", '<tt xml:lang="en" xmlns="http://www.w3.org/ns/ttml" xmlns:tts="http://www.w3.org/ns/ttml#styling"><head><styling>'
                                 '<style xml:id="base" tts:color="white"/><style xml:id="emph" tts:fontStyle="italic"/><style xml:id="strong" tts:fontWeight="bold"/>'
                                 '<style xml:id="speaker" tts:color="yellow"/></styling></head><body><div>'
                                 '<p begin="1s" end="2s" style="base emph strong speaker">one <span style="speaker base emph">two</span></p>'
                                 '<p begin="3s" end="4s" style="strong base">three</p></div></body></tt>'))
    return docs


def pristine(jobs, hashseed):
    """every job in a sub-process under the given hash seed.  The jobs are run there in another order than here (seed 0:
    reversed, seed 1: same order, otherwise: shuffled), so that anything kept at class or module level between calls shows
    up as a difference"""
    import random
    order = list(range(len(jobs)))
    if hashseed == 0:
        order.reverse()
    elif hashseed != 1:
        random.Random(hashseed).shuffle(order)
    env = dict(os.environ, PYTHONHASHSEED=str(hashseed), PYTHONPATH=os.path.join(core.VERIF, "harness"))
    p = subprocess.run([sys.executable, "-m", "pcv.setbuild"], input=json.dumps([jobs[i] for i in order]), capture_output=True, text=True, env=env, timeout=1200)
    if p.returncode != 0:
        raise RuntimeError("pristine sub-process failed: " + p.stderr[-2000:])
    res = [None] * len(jobs)
    for i, x in zip(order, json.loads(p.stdout)):
        res[i] = tuple(x)
    return res


def explore(chk):
    rng = chk.rng
    H = 50 if chk.tier == "quick" else 1200
    histories = []
    jobs = []
    o_kw = []
    for h in range(H):
        docs = make_docs(rng, rng.randint(1, 3))
        ops = []
        for _ in range(rng.randint(3, 9)):
            r = rng.random()
            if r < 0.55:
                ops.append(("read", rng.randrange(len(docs)), rng.random() < 0.6))      # reuse the per-format reader object?
            elif r < 0.8:
                ops.append(("edit", rng.choice(["add_style", "caption_style", "node_text", "set_style_content", "style_node_content"])))
            else:
                ops.append(("write", rng.choice(setbuild.WRITERS)))
        if not any(o[0] == "read" for o in ops):
            ops.insert(0, ("read", 0, True))
        if rng.random() < 0.35:
            # two different documents of one format read one after the other with the same reader object
            d1 = setbuild.rand_desc(rng, nlang=1, unbalanced=0.0, absolute=0.0, with_layout=0.0)
            d2 = setbuild.rand_desc(rng, nlang=1, unbalanced=0.0, absolute=0.0, with_layout=0.0)
            fmt = rng.choice(["microdvd", "microdvd", "scc", "srt", "webvtt", "sami", "dfxp"])
            try:
                a = setbuild.make_writer(fmt).write(setbuild.build(d1)); b_ = setbuild.make_writer(fmt).write(setbuild.build(d2))
                if fmt == "microdvd":
                    a = "{0}{0}%s\n" % rng.choice(["23.976", "29.97", "12.5"]) + a
                docs += [(fmt, a), (fmt, b_)]
                ops += [("read", len(docs) - 2, True), ("read", len(docs) - 1, True)]
            except Exception:
                pass
        if h % 5 == 1:
            # two TTML documents that use the same style ids for different things, the styles referring to one another
            al = rng.sample(["left", "center", "right", "start", "end"], 2)
            og = rng.sample(["10% 10%", "20% 70%", "5% 40%"], 2)
            def ttml(align, origin, word):
                return ('<tt xml:lang="en" xmlns="http://www.w3.org/ns/ttml" xmlns:tts="http://www.w3.org/ns/ttml#styling"><head><styling>'
                        '<style xml:id="base" tts:textAlign="%s" tts:origin="%s" tts:extent="60%% 20%%"/><style xml:id="s1" style="base" tts:color="white"/>'
                        '<style xml:id="s2" style="s1"/></styling><layout><region xml:id="r1" style="s2"/></layout></head><body><div>'
                        '<p begin="1s" end="2s" style="s1" region="r1">%s</p><p begin="3s" end="4s" style="s2">%s again</p></div></body></tt>') % (align, origin, word, word)
            docs += [("dfxp", ttml(al[0], og[0], "first")), ("dfxp", ttml(al[1], og[1], "second"))]
            ops += [("read", len(docs) - 2, rng.random() < 0.5), ("read", len(docs) - 1, rng.random() < 0.5)]
        if h % 5 == 0:
            # cues of two rows in the formats whose line breaks carry nothing; a break node of one result is edited in place
            # (given a layout): no other result, and no later read, may see it
            docs += [("srt", "1\n00:00:01,000 --> 00:00:02,000\none\ntwo\n\n2\n00:00:03,000 --> 00:00:04,000\nthree\nfour\n"),
                     ("webvtt", "WEBVTT\n\n00:01.000 --> 00:02.000\nun\ndeux\n\n00:03.000 --> 00:04.000\ntrois\nquatre\n"),
                     ("microdvd", "{25}{50}uno|dos\n{75}{100}tres|cuatro\n")]
            ops += [("read", len(docs) - 3, False), ("read", len(docs) - 2, False), ("edit", "break_node", "last"), ("read", len(docs) - 1, False),
                    ("read", len(docs) - 3, True), ("edit", "break_node", "last"), ("read", len(docs) - 2, True)]
            # two cues with the same cue settings; the layout object of one of them is edited in place; then the document (and
            # another one with the same settings) is read again
            docs += [("webvtt", "WEBVTT\n\n00:01.000 --> 00:02.000 line:10% align:left\none\n\n00:03.000 --> 00:04.000 line:10% align:left\ntwo\n\n00:05.000 --> 00:06.000\nthree\n"),
                     ("webvtt", "WEBVTT\n\n00:01.000 --> 00:02.000 line:10% align:left\nother\n")]
            ops += [("read", len(docs) - 2, False), ("edit", "layout_settings", "last"), ("read", len(docs) - 2, False), ("read", len(docs) - 1, True)]
            # the style dict of one caption edited in place, for every format (a style dict shared between captions, sets or
            # reads would show in the next read)
            fmt_ = ["scc", "srt", "webvtt", "microdvd", "sami", "dfxp"][(h // 5) % 6]
            if fmt_ == "scc":
                docs += [("scc", "Scenarist_SCC V1.0\n\n00:00:01:00\t94ae 9420 9470 c1c2 942f\n\n00:00:03:00\t942c\n\n00:00:04:00\t94ae 9420 9452 c8e5 942f\n\n00:00:06:00\t942c\n"),
                         ("scc", "Scenarist_SCC V1.0\n\n00:00:01:00\t94ae 9420 9470 c8e5 942f\n\n00:00:03:00\t942c\n")]
            two_ = [i_ for i_, d_ in enumerate(docs) if d_[0] == fmt_][-2:]
            if two_:
                # (explicit empty options: these reads draw nothing from the check's PRNG, so the other histories stay as they were)
                ops += [("read", two_[0], False, {}), ("edit", "caption_style", "last"), ("read", two_[-1], False, {}), ("read", two_[0], True, {})]
        if h % 10 == 0:
            # one reader object, two documents, the first of which sets something the second does not mention: a MicroDVD frame
            # rate header, a second SAMI language (fixed histories; no draw from the check's PRNG)
            sami_ = ('<SAMI><HEAD><STYLE TYPE="text/css"><!--\n.ENCC {Name: English; lang: en-US;}\n%s--></STYLE></HEAD><BODY>\n'
                     '<SYNC start=1000><P Class=ENCC>hello</P>%s</SYNC>\n<SYNC start=3000><P Class=ENCC>&nbsp;</P>%s</SYNC>\n</BODY></SAMI>\n')
            docs += [("microdvd", "{0}{0}23.976\n{24}{48}one\n{72}{96}two\n"), ("microdvd", "{25}{50}uno\n{75}{100}dos\n"),
                     ("sami", sami_ % (".FRCC {Name: French; lang: fr-FR;}\n", "<P Class=FRCC>salut</P>", "<P Class=FRCC>&nbsp;</P>")),
                     ("sami", sami_ % ("", "", ""))]
            ops += [("read", len(docs) - 4, True, {}), ("read", len(docs) - 3, True, {}), ("read", len(docs) - 2, True, {}), ("read", len(docs) - 1, True, {})]
        if h % 5 == 2:
            # two SCC documents with italics; then the style node of one result is edited in place
            def scc(word_a, word_b):
                return ("Scenarist_SCC V1.0\n\n00:00:01:00\t94ae 9420 9470 91ae %s 942f\n\n00:00:03:00\t942c\n\n00:00:04:00\t94ae 9420 9452 %s 91ae %s 942f\n\n00:00:06:00\t942c\n"
                        % (word_a, word_b, word_a))
            from pcv import sccgen as _sg
            wd = lambda t: _sg.chars_to_words(t)[0]
            docs += [("scc", scc(wd("AB"), wd("DE"))), ("scc", scc(wd("OK"), wd("no")))]
            ops += [("read", len(docs) - 2, True), ("read", len(docs) - 1, rng.random() < 0.5), ("edit", "style_node_content", "last"), ("read", len(docs) - 2, False)]
            # a document that positions its text (row 1, column 8), then one whose text comes before any preamble: the second
            # falls back to the default position, whatever the reader object has seen before
            docs += [("scc", "Scenarist_SCC V1.0\n\n00:00:01:00\t94ae 9420 9152 %s 942f\n\n00:00:03:00\t942c\n" % wd("UP")),
                     ("scc", "Scenarist_SCC V1.0\n\n00:00:01:00\t94ae 9420 %s 942f\n\n00:00:03:00\t942c\n" % wd("ok"))]
            ops += [("read", len(docs) - 2, True), ("read", len(docs) - 1, True)]
            # a roll-up document read with simulate_roll_up=True, then with default options on the same reader object: an option
            # of one call is no business of the next
            ru = ("Scenarist_SCC V1.0\n\n00:00:01;00\t9426 9426 94ad 94ad 9470 9470 %s\n\n00:00:03;00\t94ad 94ad 9470 9470 %s\n\n"
                  "00:00:05;00\t94ad 94ad 9470 9470 %s\n\n00:00:07;00\t94ad 94ad 9470 9470 %s\n\n00:00:09;00\t94ad 94ad 942c 942c\n"
                  % (wd("Hi"), wd("yo"), wd("ok"), wd("no")))
            docs.append(("scc", ru))
            ops += [("read", len(docs) - 1, True, {"simulate_roll_up": True}), ("read", len(docs) - 1, True, {}), ("read", len(docs) - 1, False, {"simulate_roll_up": True})]
            if (h // 5) % 2:
                # a document the reader rejects (a row of 34 characters), then a good one on the same reader object
                bad = "Scenarist_SCC V1.0\n\n00:00:01:00\t94ae 9420 9440 " + " ".join(["c1c2"] * 17) + " 942f\n\n00:00:04:00\t942c\n"
                docs.append(("scc", bad))
                ops += [("read", len(docs) - 1, True), ("read", len(docs) - 3, True)]
        if h % 5 == 4:
            # hand-written SAMI: paragraphs with inline styles (alignment, colour), the document ending in a blank paragraph
            # that carries an inline style of its own; then a plain document on the same reader object
            def sami(word, styled_blank):
                blank_attr = ' style="text-align:%s;"' % rng.choice(["right", "center", "left"]) if styled_blank else ""
                return ('<SAMI><HEAD><STYLE TYPE="text/css"><!--\nP { font-family: Arial; }\n.ENCC { Name: English; lang: en-US; }\n--></STYLE></HEAD><BODY>\n'
                        '<SYNC start=1000><P Class=ENCC style="color:yellow;">%s one</P></SYNC>\n<SYNC start=2500><P Class=ENCC%s>&nbsp;</P></SYNC>\n'
                        '<SYNC start=3000><P Class=ENCC>%s two</P></SYNC>\n<SYNC start=4500><P Class=ENCC%s>&nbsp;</P></SYNC>\n</BODY></SAMI>\n') % (word, blank_attr, word, blank_attr)
            docs += [("sami", sami("styled", True)), ("sami", sami("plain", False))]
            ops += [("read", len(docs) - 2, True), ("read", len(docs) - 1, True), ("read", len(docs) - 2, True)]
        # constructor options of the reader objects of this history (one object per format when reused)
        init = {}
        if rng.random() < 0.4 or h % 5 == 3:
            init["webvtt"] = rng.choice([{"ignore_timing_errors": False}, {"ignore_timing_errors": False}, {"time_shift_milliseconds": 500}])
        if h % 5 == 3:
            # a WebVTT document that begins late, then one that begins early, on one reader object that checks cue order
            def vtt(t0, word):
                return "WEBVTT\n\n00:00:%02d.000 --> 00:00:%02d.500\n%s one\n\n00:00:%02d.000 --> 00:00:%02d.000\n%s two\n" % (t0, t0 + 1, word, t0 + 2, t0 + 3, word)
            late, early = rng.choice([20, 31, 40]), rng.choice([0, 1, 5])
            docs += [("webvtt", vtt(late, "late")), ("webvtt", vtt(early, "early"))]
            ops += [("read", len(docs) - 2, True), ("read", len(docs) - 1, True), ("read", len(docs) - 2, True)]
        histories.append((docs, ops, init))
        for o in ops:
            if o[0] == "read":
                kw = dict(o[3]) if len(o) > 3 else ({"offset": rng.choice([0, 0, 1, 2])} if docs[o[1]][0] == "scc" else {})
                o_kw.append(kw)
                jobs.append({"op": "read", "kind": docs[o[1]][0], "doc": docs[o[1]][1], "kwargs": kw, "init": init.get(docs[o[1]][0], {})})
    # documents whose reading goes through sets / dicts keyed by strings, read under sixteen hash seeds: an order that leaks
    # out of a set shows under some seeds only (for one string key about one seed in eight)
    hs_docs = [("dfxp", '<tt xml:lang="en" xmlns="http://www.w3.org/ns/ttml" xmlns:tts="http://www.w3.org/ns/ttml#styling"><head><layout>'
                        '<region xml:id="r1" tts:origin="10% 10%" tts:extent="80% 20%"/><region xml:id="low" tts:origin="10% 70%" tts:extent="80% 20%"/>'
                        '</layout></head><body><div><p begin="1s" end="2s" region="r1">first<br/>line <span tts:fontStyle="italic">two</span></p>'
                        '<p begin="3s" end="4s" region="r1">second</p></div><div xml:lang="fr"><p begin="1s" end="2s" region="low">un<br/>deux</p>'
                        '<p begin="3s" end="4s">trois</p></div></body></tt>'),
               ("dfxp", '<tt xml:lang="en" xmlns="http://www.w3.org/ns/ttml" xmlns:tts="http://www.w3.org/ns/ttml#styling"><head><styling>'
                        '<style xml:id="a" tts:color="white"/><style xml:id="b" tts:fontStyle="italic"/><style xml:id="c" tts:textAlign="right"/></styling></head>'
                        '<body><div><p begin="1s" end="2s" style="a b c">one <span style="c b a">two</span></p></div></body></tt>'),
               ("sami", '<SAMI><HEAD><STYLE TYPE="text/css"><!--\n.ENCC { Name: English; lang: en-US; }\n.FRCC { Name: French; lang: fr-FR; }\n.DECC { lang: de-DE; }\n--></STYLE></HEAD><BODY>'
                        '<SYNC start=1000><P Class=ENCC>one</P><P Class=FRCC>un</P><P Class=DECC>eins</P></SYNC><SYNC start=2000><P Class=ENCC>&nbsp;</P>'
                        '<P Class=FRCC>&nbsp;</P><P Class=DECC>&nbsp;</P></SYNC></BODY></SAMI>'),
               # several classes declare the same language with different alignment and margins: which one gives the language
               # its layout must not depend on hashing
               ("sami", '<SAMI><HEAD><STYLE TYPE="text/css"><!--\nP { font-family: Arial; }\n.ENCC { Name: English; lang: en-US; text-align: center; }\n'
                        '.ENLEFT { lang: en-US; text-align: left; margin-left: 10%; }\n.ENRIGHT { lang: en-US; text-align: right; margin-right: 10%; }\n'
                        '.ENTOP { lang: en-US; margin-top: 5%; }\n--></STYLE></HEAD><BODY>'
                        '<SYNC start=1000><P Class=ENCC>one</P></SYNC><SYNC start=2000><P Class=ENLEFT>two</P></SYNC><SYNC start=3000><P Class=ENRIGHT>three</P></SYNC>'
                        '<SYNC start=4000><P Class=ENTOP>&nbsp;</P></SYNC></BODY></SAMI>')]
    hs_jobs = [{"op": "read", "kind": k_, "doc": d_, "kwargs": {}, "init": {}} for (k_, d_) in hs_docs]
    hs_res = [pristine(hs_jobs, s_) for s_ in range(16)]
    for di_, (k_, d_) in enumerate(hs_docs):
        chk.case(key=("hashseeds", d_), nontrivial=True); chk.count("documents_read_under_16_hash_seeds")
        groups = {}
        for s_ in range(16):
            groups.setdefault(hs_res[s_][di_], []).append(s_)
        if len(groups) > 1:
            items = sorted(groups.items(), key=lambda kv: -len(kv[1]))
            chk.property_failure({"format": k_, "document": d_, "seeds_by_result": [v for _, v in items], "result_a": str(items[0][0][1])[:1200], "result_b": str(items[1][0][1])[:1200]},
                                 "%s reader: the caption set read from one document depends on PYTHONHASHSEED" % k_)
    seeds = [0, 1, rng.randrange(2, 10 ** 6)]
    pr = [pristine(jobs, s) for s in seeds]
    ji = 0
    for (docs, ops, init) in histories:
        readers = {}
        results = []          # (doc index, CaptionSet, snapshot repr at creation)
        trace = []
        for o in ops:
            if o[0] == "read":
                di, reuse = o[1], o[2]
                fmt, doc = docs[di]
                if reuse:
                    rd = readers.setdefault(fmt, setbuild.make_reader(fmt, **init.get(fmt, {})))
                    reused = getattr(rd, "_pcv_used", False); rd._pcv_used = True
                else:
                    rd = setbuild.make_reader(fmt, **init.get(fmt, {})); reused = False
                try:
                    cs = rd.read(doc, **o_kw[ji])
                    res = ("ok", repr(setbuild.snapshot(cs)))
                except Exception as e:
                    cs = None; res = ("err", type(e).__name__)
                trace.append({"op": "read", "format": fmt, "doc": di, "reader": "reused" if reused else "fresh", "reader_options": init.get(fmt, {})})
                case = {"documents": [d[1] for d in docs], "formats": [d[0] for d in docs], "history": trace[:]}
                chk.case(key=json.dumps(case, sort_keys=True), nontrivial=reused or any(t["op"] == "edit" for t in trace),
                         sample={"history": trace[:], "formats": [d[0] for d in docs]} if chk.count_get("reads") in (3, 40) else None)
                chk.count("reads"); chk.count("fmt_" + fmt); chk.count("reader_reused" if reused else "reader_fresh")
                for s, prs in zip(seeds, pr):
                    if prs[ji] != res:
                        chk.property_failure(dict(case, hashseed=s, result=res[1][:1500], pristine=str(prs[ji][1])[:1500]),
                                             "%s reader: result depends on earlier reads/edits, on reader reuse or on the hash seed" % fmt)
                        break
                ji += 1
                if cs is not None:
                    results.append([di, cs, res[1]])
            elif o[0] == "edit" and results:
                k = rng.randrange(len(results)) if len(o) < 3 else len(results) - 1
                cs = results[k][1]
                lang = cs.get_languages()[0]
                caps = cs.get_captions(lang)
                kind = o[1]
                try:
                    if kind == "add_style":
                        cs.add_style("pcv%d" % len(trace), {"color": "red"})
                    elif kind == "caption_style" and caps:
                        caps[0].style["pcv-key"] = len(trace)
                    elif kind == "node_text" and caps:
                        caps[0].nodes[0].content = "EDITED"
                    elif kind == "style_node_content":
                        for c_ in caps:
                            sn = [n for n in c_.nodes if isinstance(n.content, dict)]
                            if sn:
                                sn[0].content["bold"] = True; sn[0].content.pop("italics", None); break
                    elif kind == "break_node":
                        from pycaption.geometry import Layout, Alignment, HorizontalAlignmentEnum, VerticalAlignmentEnum
                        for c_ in caps:
                            bn = [n for n in c_.nodes if n.type_ == 3]
                            if bn:
                                bn[0].layout_info = Layout(alignment=Alignment(HorizontalAlignmentEnum.RIGHT, VerticalAlignmentEnum.TOP)); break
                    elif kind == "layout_settings":
                        for c_ in caps:
                            if c_.layout_info is not None:
                                c_.layout_info.webvtt_positioning = "line:90% align:right"; break
                    elif kind == "set_style_content":
                        for sel, st in cs.get_styles():
                            if isinstance(st, dict):
                                st["pcv"] = 1; break
                except Exception:
                    pass
                results[k][2] = repr(setbuild.snapshot(cs))
                trace.append({"op": "edit", "kind": kind, "target": k})
                chk.count("edits")
                case = {"documents": [d[1] for d in docs], "formats": [d[0] for d in docs], "history": trace[:]}
                for j, (dj, cj, snap) in enumerate(results):
                    if j != k and repr(setbuild.snapshot(cj)) != snap:
                        chk.property_failure(dict(case, changed_result=j), "editing one caption set changed another caption set (%s)" % kind)
                        results[j][2] = repr(setbuild.snapshot(cj))
                        break
            elif o[0] == "write" and results:
                k = rng.randrange(len(results))
                try:
                    setbuild.make_writer(o[1]).write(results[k][1])
                except Exception:
                    pass
                trace.append({"op": "write", "writer": o[1], "target": k})


def replay(path):
    print(json.dumps(json.load(open(path)), indent=1)[:6000])
    return 0
