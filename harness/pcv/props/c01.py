"""C01 — reading preserves every cue's start and end instant (text formats)."""
import json
from fractions import Fraction
from pcv import core, capio, gen

P = "PcVerif.Props.C01."
THEOREMS = [P + t for t in ["srt_multipliers_pinned", "srt_stamp_denotes", "srt_stamp_no_fraction", "vtt_constants_pinned",
                            "vtt_stamp_hms", "vtt_stamp_ms", "dfxp_constants_pinned", "dfxp_clock_fraction", "dfxp_clock_plain",
                            "dfxp_clock_frames", "sami_tail_pinned", "sami_backfill", "srt_block_wf", "srt_doc_cues", "vtt_block_wf", "vtt_doc_cues", "microdvd_read_constants_pinned", "microdvd_doc_cues", "microdvd_doc_cues_rate", "microdvd_frame_25", "dfxp_offset_whole", "dfxp_offset_decimal", "dfxp_offset_value", "dfxp_begin_end", "dfxp_begin_dur"]]


def make(tier, seed):
    c = core.Check("C01", tier, seed, "PcVerif.Props.C01", THEOREMS)
    c.rule = ("abstract cue lists (0-12 cues, instants in [0,1000h) incl. 0, x.999, 24h, 99:59:59.999, 100h+) rendered by the harness's own "
              "serialisers in every spelling (hour widths 1-4, fraction present/absent, CRLF/LF, extra blank lines, identifiers, NOTE blocks, "
              "time shift, fps header), plus a malformed stream; distinct = distinct document+options; non-trivial = at least one cue with text")
    return c


INSTANTS_MS = [0, 1, 999, 1000, 59999, 60000, 3599999, 3600000, 86399999, 86400000, 359999999, 360000000, 3599999999]


def rand_instants(rng, n, unit_ms=True):
    """sorted instants in ms"""
    t = rng.choice([0, 0, 500, 59000, 3590000, 86390000, 359990000]) if rng.random() < 0.7 else rng.randrange(0, 3600000000)
    out = []
    for _ in range(n):
        d = rng.choice([1, 40, 999, 1000, 1001, 2500, 61000])
        g = rng.choice([0, 0, 1, 500, 10000])
        out.append((t, t + d))
        t = t + d + g
    return out


def srt_stamp(ms, rng, frac=True):
    h, r = divmod(ms, 3600000); m, r = divmod(r, 60000); s, f = divmod(r, 1000)
    hw = rng.choice([1, 2, 2, 2, 3, 4])
    out = "%0*d:%02d:%02d" % (hw, h, m, s)
    if frac:
        out += ",%03d" % f
    return out


def render_srt(cues, rng, blank_rng=None):
    """`blank_rng`: the lines between two cues may hold blanks or a tab (they are still "blank lines")"""
    nl = rng.choice(["\n", "\n", "\r\n"])
    out = []
    frac = rng.random() < 0.85
    for i, (a, b, lines) in enumerate(cues):
        sp = rng.choice([" ", " ", "  "])
        out.append(str(i + 1))
        out.append(srt_stamp(a, rng, frac) + sp + "-->" + sp + srt_stamp(b, rng, frac))
        out.extend(lines)
        blank = blank_rng.choice(["", "", "", " ", "\t", "  \t"]) if blank_rng is not None else ""
        out.extend([blank] * rng.choice([1, 1, 1, 2, 3]))
    doc = nl.join(out)
    if rng.random() < 0.5:
        doc = doc.rstrip("\r\n") + rng.choice(["", nl])
    return doc, (1 if frac else 1000)


def vtt_stamp(ms, rng):
    h, r = divmod(ms, 3600000); m, r = divmod(r, 60000); s, f = divmod(r, 1000)
    if h == 0 and rng.random() < 0.5:
        return "%02d:%02d.%03d" % (m, s, f)
    return "%0*d:%02d:%02d.%03d" % (rng.choice([2, 2, 3]) if h < 100 else 3, h, m, s, f)


def render_vtt(cues, rng, note_rng=None):
    nl = rng.choice(["\n", "\n", "\r\n"])
    out = ["WEBVTT" + rng.choice(["", " - title"]), ""]
    for i, (a, b, lines) in enumerate(cues):
        if rng.random() < 0.2:
            out += ["NOTE a comment", "more comment", ""]
        if rng.random() < 0.3:
            out.append(rng.choice(["%d" % (i + 1), "cue-%d" % i]))
        sett = rng.choice(["", "", " line:10%", " align:left position:5%", "  "])
        out.append(vtt_stamp(a, rng) + rng.choice([" ", "  ", "\t"]) + "-->" + " " + vtt_stamp(b, rng) + sett)
        out.extend(lines)
        out.extend([""] * rng.choice([1, 1, 2]))
        if note_rng is not None and not lines and note_rng.random() < 0.7:
            # a cue without text, then a comment block (not a cue): the comment is no caption
            out += ["NOTE the cue above has no text", ""]
    if note_rng is not None and note_rng.random() < 0.2:
        out += ["NOTE end of file", ""]
    doc = nl.join(out)
    if rng.random() < 0.5:
        doc = doc.rstrip("\r\n")
    return doc


FPS = ["12.5", "23.976", "24", "25", "29.97", "30", "50", "59.94", "60", "25.0"]


def render_mdvd(cues_frames, rng, fps):
    out = []
    if fps is not None:
        out.append("{0}{0}" + fps)
    for (a, b, lines) in cues_frames:
        out.append("{%d}{%d}%s" % (a, b, "|".join(lines)))
        if rng.random() < 0.1:
            out.append("")
    return rng.choice(["\n", "\r\n"]).join(out) + rng.choice(["", "\n"])


def lines_for(rng):
    n = rng.choice([0, 1, 1, 1, 2, 3]) if rng.random() < 0.15 else rng.choice([1, 1, 2, 3])
    return [gen.plain_line(rng) for _ in range(n)]


_SHARED = {}


def run_reader(fmt, doc, opts, shared=False):
    """`shared`: use one long-lived reader object per format (a reader may be used for many documents)"""
    import pycaption
    try:
        if fmt == "srt":
            rd = _SHARED.setdefault("srt", pycaption.SRTReader()) if shared else pycaption.SRTReader()
            cs = rd.read(doc)
        elif fmt == "webvtt":
            mk = lambda: pycaption.WebVTTReader(ignore_timing_errors=opts.get("ign", True), time_shift_milliseconds=opts.get("shift", 0))
            # one long-lived reader per option set: what it did with the previous document is no business of this one
            rd = _SHARED.setdefault(("webvtt", opts.get("ign", True), opts.get("shift", 0)), mk()) if shared else mk()
            cs = rd.read(doc)
        elif fmt == "microdvd":
            rd = _SHARED.setdefault("microdvd", pycaption.MicroDVDReader()) if shared else pycaption.MicroDVDReader()
            cs = rd.read(doc)
        lang = cs.get_languages()[0]
        return ("ok", [(c.start, c.end) for c in cs.get_captions(lang)], [len(c.nodes) for c in cs.get_captions(lang)])
    except Exception as e:
        return ("err", capio.err_kind(e), repr(e))


def explore(chk):
    rng = chk.rng
    N = 600 if chk.tier == "quick" else 20000
    b = core.Batch()
    jobs = []
    blank_sub = chk.sub("srt_blank_lines")
    note_sub = chk.sub("vtt_note_after_empty_cue")
    for i in range(N):
        fmt = ["srt", "webvtt", "microdvd"][i % 3]
        n = rng.choice([0, 1, 2, 3, 5, 8, 12]) if rng.random() < 0.3 else rng.randint(1, 6)
        opts = {}
        if fmt == "microdvd":
            fps = rng.choice([None, None] + FPS)
            f = rng.choice([0, 1, 10, 200, 201, 100000])
            cues = []
            for _ in range(n):
                d = rng.choice([1, 7, 25, 60, 201]); cues.append((f, f + d, lines_for(rng))); f += d + rng.choice([0, 1, 30])
            cues = [c for c in cues if c[0] != 0 or c[1] != 0]
            doc = render_mdvd(cues, rng, fps)
            fpsq = Fraction(fps) if fps else Fraction(25)
            S = [((a * 10 ** 6 / fpsq).__floor__(), (b_ * 10 ** 6 / fpsq).__floor__()) for (a, b_, ls) in cues if any(ls)]
            op = b.add("mdvd.read", core.enc(doc))
        else:
            inst = rand_instants(rng, n)
            if rng.random() < 0.3 and n:
                k = rng.randrange(n); a = rng.choice(INSTANTS_MS); inst[k:] = [(a + j * 2000, a + j * 2000 + 1500) for j in range(n - k)]
                inst = sorted(inst) if all(inst[j][0] <= inst[j + 1][0] for j in range(len(inst) - 1)) else [(a + j * 2000, a + j * 2000 + 1500) for j in range(n)]
            cues = [(a, b_, lines_for(rng)) for (a, b_) in inst]
            if fmt == "srt":
                # a cue without any text line is not a well-formed SRT block (DESIGN §3 C01): not generated
                cues = [(a, b_, ls or [gen.plain_line(rng)]) for (a, b_, ls) in cues]
                doc, res = render_srt(cues, rng, blank_sub)
                S = [((a // res) * res * 1000, (b_ // res) * res * 1000) for (a, b_, ls) in cues if ls]
                op = b.add("srt.read", core.enc(doc))
            else:
                opts = {"ign": rng.random() < 0.6, "shift": rng.choice([0, 0, 1, 1500, 10 ** 6, -1])}
                if opts["shift"] < 0 and cues and cues[0][0] == 0:
                    opts["shift"] = 0
                doc = render_vtt(cues, rng, note_sub)
                S = [(a * 1000 + opts["shift"] * 1000, b_ * 1000 + opts["shift"] * 1000) for (a, b_, ls) in cues if ls]
                op = b.add("vtt.read", str(opts["shift"] * 1000), core.enc_bool(opts["ign"]), core.enc(doc))
        jobs.append((fmt, doc, opts, S, op, True))
    # malformed stream: truncations / mutations of the valid documents (correspondence of error branches only)
    for (fmt, doc, opts, S, _, _) in list(jobs[: (150 if chk.tier == "quick" else 3000)]):
        if not doc:
            continue
        k = rng.randrange(len(doc))
        bad = rng.choice([doc[:k], doc[:k] + rng.choice(["x", ":", "\n\n", "-->", "{", ","]) + doc[k:], doc[:k] + doc[k + 1:]])
        if fmt == "srt": op = b.add("srt.read", core.enc(bad))
        elif fmt == "webvtt": op = b.add("vtt.read", str(opts["shift"] * 1000), core.enc_bool(opts["ign"]), core.enc(bad))
        else: op = b.add("mdvd.read", core.enc(bad))
        jobs.append((fmt, bad, opts, None, op, False))
    out = b.run() if chk.driver_ok else None
    for ji_, (fmt, doc, opts, S, op, wf) in enumerate(jobs):
        I = run_reader(fmt, doc, opts, shared=(ji_ % 2 == 0 and wf))
        case = {"format": fmt, "document": doc, "options": opts, "impl": str(I[:2])}
        chk.case(key=(fmt, doc, json.dumps(opts, sort_keys=True)), nontrivial=bool(S),
                 sample=dict(case, spec=str(S)) if chk.count_get(fmt + "_wf") in (2, 30) and wf else None)
        chk.count(fmt + ("_wf" if wf else "_malformed"))
        if wf:
            want = ("ok", S) if S else ("err", "noCaptions")
            if I[:2] != want:
                chk.property_failure(dict(case, spec=str(want)), "%s reader: cue count or a start/end differs from the instants the document denotes" % fmt)
        if out is not None:
            M = out[op]
            if M.startswith("err:outOfModel"):
                chk.count("out_of_model")
            elif M.startswith("ok:"):
                mc = [(c[0], c[1]) for c in capio.dec_captions(M[3:])]
                if I[0] != "ok" or I[1] != mc:
                    chk.correspondence_failure(dict(case, model=str(mc)), "%s reader: implementation and model differ (times)" % fmt)
            else:
                if I[0] != "err" or "err:" + I[1] != M:
                    chk.correspondence_failure(dict(case, model=M), "%s reader: implementation and model differ (error kind)" % fmt)


_explore_text = explore


def explore(chk):
    _explore_text(chk)
    from pcv.props import c01_xml
    c01_xml.explore(chk)


def replay(path):
    r = json.load(open(path))
    c = r.get("case")
    if c and "document" in c:
        print("document:\n" + c["document"]); print("impl:", run_reader(c["format"], c["document"], c.get("options") or {})[:2]); print("spec:", c.get("spec"))
    else:
        print(json.dumps(r, indent=1)[:3000])
    return 0
