"""C01, DFXP and SAMI part: time expressions, begin/end/dur, SAMI sync back-filling."""
from fractions import Fraction
from pcv import core, capio, gen


def dfxp_spelling(rng):
    """returns (attribute string, denoted instant in microseconds as Fraction)"""
    kind = rng.choice(["clock", "clock", "frac", "frac", "frames", "h", "m", "s", "s", "ms", "f"])
    if kind in ("clock", "frac", "frames"):
        h = rng.choice([0, 0, 0, 1, 9, 23, 24, 99, 100, 999])
        m = rng.randrange(60); s = rng.randrange(60)
        hw = rng.choice([1, 2, 2, 3]) if h < 100 else 3
        base = Fraction((h * 3600 + m * 60 + s) * 10 ** 6)
        txt = "%0*d:%02d:%02d" % (hw, h, m, s)
        if kind == "frac":
            n = rng.choice([1, 2, 3, 3, 3, 4, 5, 6, 7, 9])
            digits = "".join(rng.choice("0123456789") for _ in range(n))
            return txt + "." + digits, base + Fraction(int(digits), 10 ** n) * 10 ** 6
        if kind == "frames":
            f = rng.choice(list(range(30)) + [29, 0, 1, 3, 9, 30, 59, 99])
            return txt + ":%02d" % f, base + Fraction(f, 30) * 10 ** 6
        return txt, base
    ip = str(rng.choice([0, 1, 2, 7, 59, 60, 123, 3600, 86399, 100000]))
    fp = rng.choice(["", "", ".5", ".25", ".001", ".1", ".123456", ".999999", ".0005"])
    v = Fraction(ip + fp)
    unit = {"h": 3600 * 10 ** 6, "m": 60 * 10 ** 6, "s": 10 ** 6, "ms": 1000, "f": Fraction(10 ** 6, 30)}[kind]
    if kind == "h":
        ip = str(rng.choice([0, 1, 2, 23, 100])); v = Fraction(ip + fp)
    return ip + fp + kind, v * unit


def dfxp_doc(cues, rng):
    """cues: [(begin_str, end_or_dur_str, is_dur, lines)]"""
    out = ['<?xml version="1.0" encoding="utf-8"?>', '<tt xml:lang="en" xmlns="http://www.w3.org/ns/ttml">', ' <body>', '  <div xml:lang="en">']
    for (b, e, is_dur, lines) in cues:
        out.append('   <p begin="%s" %s="%s">%s</p>' % (b, "dur" if is_dur else "end", e, "<br/>".join(lines)))
    out += ['  </div>', ' </body>', '</tt>']
    return "\n".join(out)


def sami_doc(events, langs):
    """events: [(ms, lang_index, text or None(blank))] in document order"""
    cls = ["ENCC", "FRCC", "DECC"]
    codes = langs
    style = "".join(".%s {Name: L%d; lang: %s;}\n" % (cls[i], i, codes[i]) for i in range(len(langs)))
    out = ['<SAMI><HEAD><TITLE>t</TITLE><STYLE TYPE="text/css"><!--\nP {margin-left: 1pt;}\n' + style + '--></STYLE></HEAD><BODY>']
    i = 0
    while i < len(events):
        ms = events[i][0]
        ps = []
        while i < len(events) and events[i][0] == ms:
            _, li, text = events[i]
            ps.append('<P class=%s>%s</P>' % (cls[li], text if text is not None else "&nbsp;"))
            i += 1
        out.append('<SYNC start=%d>%s</SYNC>' % (ms, "".join(ps)))
    out.append('</BODY></SAMI>')
    return "\n".join(out)


def gen_sami_case(rng):
    nl = rng.choice([1, 1, 2])
    langs = ["en-US", "fr-FR"][:nl]
    events = []
    t = rng.choice([0, 0, 500, 1000, 60000])
    per_lang = {l: [] for l in range(nl)}
    for _ in range(rng.randint(1, 7)):
        for li in range(nl):
            r = rng.random()
            if r < 0.65:
                events.append((t, li, gen.plain_line(rng))); per_lang[li].append((t, True))
                if rng.random() < 0.15:
                    # a second paragraph of the same language in the same SYNC block
                    events.append((t, li, gen.plain_line(rng))); per_lang[li].append((t, True))
            elif r < 0.85:
                events.append((t, li, None)); per_lang[li].append((t, False))
        t += rng.choice([1, 40, 999, 1000, 2500, 4000, 61000])
    return langs, events, per_lang


def sami_spec(ps):
    """S: a cue lasts until the next sync of its language (a <p> with a different start), 4 s for the last"""
    out = []
    for i, (ms, has) in enumerate(ps):
        if not has:
            continue
        nxt = next((m for (m, _) in ps[i + 1:] if m != ms), None)
        out.append((ms * 1000, (nxt if nxt is not None else ms + 4000) * 1000))
    return out


def explore(chk):
    import pycaption
    rng = chk.rng
    N = 400 if chk.tier == "quick" else 12000
    b = core.Batch()
    jobs = []
    # DFXP stamps + documents
    for i in range(N):
        cues = []
        ncue = rng.randint(1, 4)
        for _ in range(ncue):
            bs, bt = dfxp_spelling(rng)
            es, et = dfxp_spelling(rng)
            is_dur = rng.random() < 0.3
            cues.append((bs, es, is_dur, [gen.plain_line(rng) for _ in range(rng.randint(1, 2))], bt, et))
        doc = dfxp_doc([c[:4] for c in cues], rng)
        S = [(bt.__floor__(), (bt.__floor__() + et.__floor__()) if is_dur else et.__floor__()) for (_, _, is_dur, _, bt, et) in cues]
        ops = [b.add("dfxp.times", core.enc(c[0]), "N" if c[2] else core.enc(c[1]), core.enc(c[1]) if c[2] else "N") for c in cues]
        jobs.append(("dfxp", doc, S, ops))
    for i in range(N):
        langs, events, per_lang = gen_sami_case(rng)
        if not any(has for ps in per_lang.values() for (_, has) in ps):
            continue
        doc = sami_doc(events, langs)
        S = {langs[li]: sami_spec(ps) for li, ps in per_lang.items()}
        ops = {langs[li]: b.add("sami.lang", core.enc_list(ps, lambda p: "%d:%d" % (p[0], 1 if p[1] else 0))) for li, ps in per_lang.items()}
        jobs.append(("sami", doc, S, ops))
    out = b.run() if chk.driver_ok else None
    for (fmt, doc, S, ops) in jobs:
        try:
            if fmt == "dfxp":
                cs = pycaption.DFXPReader().read(doc)
                I = ("ok", [(c.start, c.end) for c in cs.get_captions("en")])
            else:
                cs = pycaption.SAMIReader().read(doc)
                I = ("ok", {l: [(c.start, c.end) for c in cs.get_captions(l)] for l in cs.get_languages()})
        except Exception as e:
            I = ("err", capio.err_kind(e), repr(e))
        case = {"format": fmt, "document": doc, "impl": str(I[:2])}
        chk.case(key=(fmt, doc), nontrivial=True, sample=dict(case, spec=str(S)) if chk.count_get(fmt + "_wf") in (1, 20) else None)
        chk.count(fmt + "_wf")
        if fmt == "dfxp":
            if I[:2] != ("ok", S):
                chk.property_failure(dict(case, spec=str(S)), "dfxp reader: a begin/end differs from the instant the time expression denotes")
            if out is not None:
                M = []
                for o in ops:
                    r = out[o]
                    M.append(tuple(int(x) for x in r[3:].split(";")) if r.startswith("ok:") else r)
                if I[0] != "ok" or I[1] != M:
                    chk.correspondence_failure(dict(case, model=str(M)), "dfxp reader: implementation and model differ (times)")
        else:
            Sn = {l: v for l, v in S.items() if v}
            In = {l: v for l, v in I[1].items() if v} if I[0] == "ok" else None
            if In != Sn:
                chk.property_failure(dict(case, spec=str(S)), "sami reader: a start/end differs from the sync times (cue lasts until the next sync of its language, 4 s for the last)")
            if out is not None:
                M = {l: [tuple(int(x) for x in c.split(";")) for c in core.dec_list(out[o], lambda z: z)] for l, o in ops.items()}
                Mn = {l: v for l, v in M.items() if v}
                if In != Mn:
                    chk.correspondence_failure(dict(case, model=str(M)), "sami reader: implementation and model differ (times)")
