"""C18 — geometry values compare, hash, parse and print consistently."""
import itertools, json, re, copy
from fractions import Fraction
from pcv import core, geo

P = "PcVerif.Props.C18."
THEOREMS = [P + t for t in [
    "pattern_pinned", "size_eq_iff", "point_eq_iff", "stretch_eq_iff", "padding_eq_iff", "alignment_eq_iff", "layout_eq_iff",
    "size_eq_imp_hash_eq", "point_eq_imp_hash_eq", "stretch_eq_imp_hash_eq", "padding_eq_imp_hash_eq", "alignment_eq_imp_hash_eq",
    "layout_eq_imp_hash_eq", "size_reject_error_kind", "size_accepts_only_language", "size_accepts_language",
    "padding_shorthand", "padding_print_order", "size_print_parse", "size_print_parse_exact", "size_print_idempotent", "no_process_wide_memo"]]

ALPHA = ["0", "1", "9", ".", "+", "-", "e", "%", "p", "x", "m", "c", "t", " "]
LANG = re.compile(r"(?:[0-9]+(?:\.[0-9]+)?(?:px|em|%|c|pt)|0)\Z")


def make(tier, seed):
    c = core.Check("C18", tier, seed, "PcVerif.Props.C18", THEOREMS)
    c.rule = ("(a) all ordered pairs from a per-type grid exhaustive in units / alignments / None-ness with sampled magnitudes (incl. None as right operand, "
              "layouts differing only in webvtt_positioning): ==, !=, hash; (b) from_string on every string of length <= L over the 14-symbol alphabet "
              "and random longer ones; (c) print / re-parse on a value grid incl. 2-decimal ties; (d) padding shorthands with 1-5 sizes; (e) receiver "
              "snapshots around as_percentage_of / fit_to_screen.  distinct = distinct (op, operands); non-trivial = eq: the pair is equal or differs in "
              "exactly one component; parse: string accepted or one edit away from the language; others: all")
    c.extra_trusted.append("magnitudes: Python floats compared with the exact-rational model fed with the float's exact binary value; printing must agree exactly")
    return c


def comp(kind, v):
    """independent component tuple (the spec's notion of 'all geometric components')"""
    if v is None:
        return None
    if kind == "size":
        return (v.value, v.unit)
    if kind == "point":
        return (comp("size", v.x), comp("size", v.y))
    if kind == "stretch":
        return (comp("size", v.horizontal), comp("size", v.vertical))
    if kind == "padding":
        return tuple(comp("size", x) for x in (v.before, v.after, v.start, v.end))
    if kind == "alignment":
        return (v.horizontal, v.vertical)
    if kind == "layout":
        return (comp("point", v.origin), comp("stretch", v.extent), comp("padding", v.padding), comp("alignment", v.alignment))


ENC = {"size": geo.enc_size, "point": geo.enc_point, "stretch": geo.enc_stretch, "padding": geo.enc_padding,
       "alignment": geo.enc_alignment, "layout": geo.enc_layout}


def grids(rng, tier):
    g = geo.G()
    U = [g.UnitEnum(u) for u in geo.UNITS]
    # values that differ by less than any printing or rounding resolution are still different values
    vals = [0, 0.001, 1, 12.5, 33.33, 33.334, 10, 10.004] if tier == "quick" else [0, 0.001, 1, 12.5, 33.33, 33.334, 10, 10.004, 10.0000001, 90, 0.1 + 0.2, 0.3]
    sizes = [g.Size(v, u) for v in vals for u in U]
    small = [g.Size(v, u) for v in (0, 1) for u in U[:3]] + [g.Size(0.001, U[0]), g.Size(1.004, U[1])]
    points = [g.Point(a, b) for a in small for b in small]
    stretches = [g.Stretch(a, b) for a in small for b in small]
    pads = []
    for _ in range(30 if tier == "quick" else 80):
        base = [rng.choice(small) for _ in range(4)]
        pads.append(g.Padding(*base))
        b2 = list(base); b2[rng.randrange(4)] = rng.choice(small)
        pads.append(g.Padding(*b2))
    H = [None] + [g.HorizontalAlignmentEnum(x) for x in geo.HAL]
    V = [None] + [g.VerticalAlignmentEnum(x) for x in geo.VAL]
    aligns = [g.Alignment(h, v) for h in H for v in V]
    layouts = []
    for _ in range(40 if tier == "quick" else 120):
        o = rng.choice([None] + points[:6]); e = rng.choice([None] + stretches[:6])
        p = rng.choice([None] + pads[:4]); a = rng.choice([None] + aligns[:8])
        w = rng.choice([None, "line:10%", ""])
        layouts.append(g.Layout(origin=o, extent=e, padding=p, alignment=a, webvtt_positioning=w))
        # a copy that differs only in webvtt_positioning and one that differs in one component
        layouts.append(g.Layout(origin=o, extent=e, padding=p, alignment=a, webvtt_positioning=rng.choice([None, "position:5%"])))
        layouts.append(g.Layout(origin=rng.choice([None] + points[:6]), extent=e, padding=p, alignment=a))
    return {"size": sizes, "point": points, "stretch": stretches, "padding": pads, "alignment": aligns, "layout": layouts}


def parse_strings(chk):
    L = 4 if chk.tier == "quick" else 5
    for n in range(0, L + 1):
        for w in itertools.product(ALPHA, repeat=n):
            yield "".join(w)
    rng = chk.rng
    for _ in range(20000 if chk.tier == "quick" else 200000):
        ip = "".join(rng.choice("0123456789") for _ in range(rng.randint(0, 6)))
        fp = rng.choice(["", "", ".", "." + "".join(rng.choice("0123456789") for _ in range(rng.randint(1, 6)))])
        u = rng.choice(geo.UNITS + ["", "p", "x", " px", "PX", "pxx", "e", "%%", "cc", "pt "])
        pre = rng.choice(["", "", "", "-", "+", " ", "1e"])
        yield pre + ip + fp + u


def impl_parse(s):
    g = geo.G()
    from pycaption.exceptions import CaptionReadSyntaxError
    try:
        z = g.Size.from_string(s)
        return "ok:" + geo.enc_size(z)
    except CaptionReadSyntaxError:
        return "err:syntaxError"
    except Exception as e:
        return "err:" + type(e).__name__


def explore(chk):
    g = geo.G()
    rng = chk.rng
    b = core.Batch()
    jobs = []
    # (a) equality / hash
    for kind, vals in grids(rng, chk.tier).items():
        pairs = [(x, y) for x in vals for y in vals]
        if kind != "layout":
            pairs += [(x, None) for x in vals]
        if len(pairs) > (4000 if chk.tier == "quick" else 40000):
            pairs = rng.sample(pairs, 4000 if chk.tier == "quick" else 40000)
        for x, y in pairs:
            i = b.add("geo.eq", kind, ENC[kind](x), ENC[kind](y) if y is not None else "N")
            jobs.append(("eq", kind, x, y, i))
    # (a') values of different kinds are never equal, whatever their components (a point is not a stretch)
    G_ = grids(rng, chk.tier)
    kinds = [k for k in G_ if k != "layout"]
    for k1 in kinds:
        for k2 in kinds:
            if k1 == k2:
                continue
            for x in G_[k1][:12]:
                for y in G_[k2][:12]:
                    chk.case(key=("xeq", k1, k2, repr(x), repr(y)), nontrivial=True); chk.count("cross_kind_pairs")
                    try:
                        eq_, ne_ = bool(x == y), bool(x != y)
                    except Exception as e:
                        chk.property_failure({"a": repr(x), "b": repr(y), "error": repr(e)[:200]}, "comparing a %s with a %s raised" % (k1, k2)); continue
                    if eq_ or not ne_:
                        chk.property_failure({"op": "eq", "a": repr(x), "b": repr(y), "kinds": [k1, k2], "impl": eq_, "impl_ne": ne_},
                                             "a %s compares equal to a %s: values of different kinds are different values" % (k1, k2))
    # (b) parsing
    seen = set()
    for s in parse_strings(chk):
        if s in seen:
            continue
        seen.add(s)
        jobs.append(("parse", s, b.add("geo.parse", core.enc(s))))
    # (c) printing
    pv = [0, 1, 1.5, 12.5, 33.333, 99.999, 0.004, 0.005, 0.015, 0.125, 0.375, 2.675, 1.005, 640, 1e4, 10.0, 10.10, 10.01, 7.1, 99.995, 0.995]
    pv += [rng.randrange(0, 100000) / rng.choice([1, 10, 100, 1000, 8, 3, 7]) for _ in range(300 if chk.tier == "quick" else 5000)]
    for v in pv:
        for u in geo.UNITS[:2] + ["%"]:
            z = g.Size(v, g.UnitEnum(u))
            jobs.append(("print", z, b.add("geo.print", geo.enc_size(z))))
    # (d) padding shorthand
    for _ in range(400 if chk.tier == "quick" else 5000):
        k = rng.choice([1, 1, 2, 2, 3, 3, 4, 4, 5, 0])
        toks = [rng.choice(["0", "1%", "2px", "3.5em", "4c", "5pt", "10%", "x", "7"]) for _ in range(k)]
        s = rng.choice([" ", " ", " ", "  "]).join(toks) if k else ""
        jobs.append(("padding", s, toks, b.add("geo.padding", core.enc(s))))
    out = b.run() if chk.driver_ok else None

    for job in jobs:
        if job[0] == "eq":
            _, kind, x, y, i = job
            sx = copy.deepcopy(comp(kind, x))
            I = bool(x == y)
            Ine = bool(x != y)
            S = (y is not None) and comp(kind, x) == comp(kind, y)
            cx, cy = comp(kind, x), comp(kind, y)
            nontriv = S or (cy is not None and sum(1 for a_, b_ in zip(cx, cy) if a_ != b_) == 1)
            chk.case(key=("eq", kind, ENC[kind](x), ENC[kind](y) if y is not None else "N"), nontrivial=nontriv,
                     sample={"op": "==", "kind": kind, "a": repr(x), "b": repr(y), "impl": I, "spec": S} if S and chk.count_get("eq_samples") < 2 and not chk.count("eq_samples") else None)
            chk.count("eq_" + kind)
            case = {"op": "eq", "kind": kind, "a": repr(x), "b": repr(y), "a_enc": ENC[kind](x), "b_enc": ENC[kind](y) if y is not None else "N"}
            if I != S:
                chk.property_failure(dict(case, impl=I, spec=S), "%s: == disagrees with component-wise equality" % kind)
            if Ine != (not S):
                chk.property_failure(dict(case, impl_ne=Ine, spec=S), "%s: != is not the negation of component-wise equality" % kind)
            if S and hash(x) != hash(y):
                chk.property_failure(dict(case, hash_a=hash(x), hash_b=hash(y)), "%s: equal values have different hashes" % kind)
            if out is not None and out[i] != core.enc_bool(I):
                chk.correspondence_failure(dict(case, impl=I, model=out[i]), "%s.__eq__: implementation and model differ" % kind)
            if comp(kind, x) != sx:
                chk.property_failure(case, "%s: comparison modified the receiver" % kind)
        elif job[0] == "parse":
            _, s, i = job
            I = impl_parse(s)
            chk.remember(("Size.from_string", s), (lambda s=s: impl_parse(s)), I, every=97)
            inlang = bool(LANG.match(s))
            S_ok = inlang
            nontriv = inlang or any(LANG.match(s[:k] + s[k + 1:]) for k in range(len(s)))
            chk.case(key=("parse", s), nontrivial=nontriv,
                     sample={"op": "from_string", "input": s, "impl": I} if inlang and chk.count_get("parse_samples") < 2 and not chk.count("parse_samples") else None)
            chk.count("parse_accept" if I.startswith("ok") else "parse_reject")
            case = {"op": "parse", "input": s, "impl": I}
            if I.startswith("ok") != S_ok:
                chk.property_failure(dict(case, spec="accept" if S_ok else "reject with CaptionReadSyntaxError"),
                                     "Size.from_string accepts a string outside the grammar" if not S_ok else "Size.from_string rejects a string of the grammar")
            elif not S_ok and I != "err:syntaxError":
                chk.property_failure(dict(case, spec="err:syntaxError"), "Size.from_string rejects with the wrong error")
            elif S_ok:
                # denotation: value = the decimal number, unit as written
                m = re.match(r"([0-9.]+)(.*)", s)
                want = (Fraction(m.group(1)), m.group(2) or "px")
                v, u = geo.dec_size(I[3:])
                if u != want[1] or float(want[0]) != float(v):
                    chk.property_failure(dict(case, spec=str(want)), "Size.from_string returns a wrong value or unit")
            if out is not None:
                M = out[i]
                ok = (M == I)
                if not ok and M.startswith("ok") and I.startswith("ok"):
                    mv, mu = geo.dec_size(M[3:]); iv, iu = geo.dec_size(I[3:])
                    ok = mu == iu and float(mv) == float(iv)
                if not ok:
                    chk.correspondence_failure(dict(case, model=M), "Size.from_string: implementation and model differ")
        elif job[0] == "print":
            _, z, i = job
            I = str(z)
            chk.remember(("str(Size)", repr(z)), (lambda z=z: str(z)), I, every=5)
            chk.case(key=("print", geo.enc_size(z)), nontrivial=True,
                     sample={"op": "str", "size": repr(z), "impl": I} if chk.count_get("print_samples") < 2 and not chk.count("print_samples") else None)
            chk.count("print")
            case = {"op": "print", "size": repr(z), "impl": I}
            # S: two decimals at most, within 0.005 of the value, re-parse reproduces the printed value
            m = re.fullmatch(r"(-?[0-9]+(?:\.[0-9]{1,2})?)(px|em|%|c|pt)", I)
            if not m:
                chk.property_failure(case, "Size.__str__ does not print a number with at most two decimals and a unit")
            else:
                pvv = Fraction(m.group(1))
                if abs(pvv - Fraction(z.value)) > Fraction(1, 200) or m.group(2) != z.unit.value:
                    chk.property_failure(dict(case, printed=str(pvv)), "Size.__str__ is not the value rounded to two decimals")
                try:
                    z2 = g.Size.from_string(I)
                    if str(z2) != I or Fraction(z2.value) != Fraction(float(pvv)):
                        chk.property_failure(dict(case, reparsed=repr(z2)), "re-parsing a printed size does not reproduce it")
                except Exception as e:
                    if z.value >= 0:
                        chk.property_failure(dict(case, error=repr(e)), "a printed size cannot be re-parsed")
            if out is not None and core.dec(out[i]) != I:
                chk.correspondence_failure(dict(case, model=core.dec(out[i])), "Size.__str__: implementation and model differ")
        elif job[0] == "padding":
            _, s, toks, i = job
            try:
                p = g.Padding.from_xml_attribute(s)
                I = "ok:" + geo.enc_padding(p)
            except Exception as e:
                I = "err:" + {"CaptionReadSyntaxError": "syntaxError", "ValueError": "valueError"}.get(type(e).__name__, type(e).__name__)
            chk.case(key=("padding", s), nontrivial=True,
                     sample={"op": "Padding.from_xml_attribute", "input": s, "impl": I} if chk.count_get("pad_samples") < 2 and not chk.count("pad_samples") else None)
            chk.count("padding")
            case = {"op": "padding", "input": s, "impl": I}
            parts = s.split(" ")
            if all(LANG.match(t) for t in parts) and 1 <= len(parts) <= 4:
                z = [g.Size.from_string(t) for t in parts]
                # TTML order before, end, after, start
                if len(z) == 1: be, en, af, st = z[0], z[0], z[0], z[0]
                elif len(z) == 2: be, en, af, st = z[0], z[1], z[0], z[1]
                elif len(z) == 3: be, en, af, st = z[0], z[1], z[2], z[1]
                else: be, en, af, st = z
                want = "ok:" + "|".join(geo.enc_size(x) for x in (be, af, st, en))
                if I != want:
                    chk.property_failure(dict(case, spec=want), "padding shorthand does not expand in TTML order (before, end, after, start)")
                else:
                    pr = p.to_xml_attribute()
                    if pr != " ".join(str(x) for x in (be, en, af, st)):
                        chk.property_failure(dict(case, printed=pr), "padding is not printed in TTML order")
            elif I.startswith("ok"):
                chk.property_failure(case, "malformed padding attribute accepted")
            if out is not None and out[i] != I:
                chk.correspondence_failure(dict(case, model=out[i]), "Padding.from_xml_attribute: implementation and model differ")
    # (e) purity of as_percentage_of / fit_to_screen
    for _ in range(300 if chk.tier == "quick" else 3000):
        if rng.random() < 0.5:
            # all-percentage layouts, often overflowing the safe area (fit_to_screen has something to do)
            l = geo.rand_layout(rng, units=["%"], values=[0, 10, 25, 35, 50, 60, 80, 90, 95], p_none=0.1)
        else:
            l = geo.rand_layout(rng, p_none=0.2)
        before = geo.obs_layout(l)
        for f in (lambda: l.as_percentage_of(640, 360), lambda: l.fit_to_screen(), lambda: l.is_relative(), lambda: hash(l)):
            try:
                f()
            except Exception:
                pass
        chk.case(key=("pure", str(before)), nontrivial=True)
        chk.count("purity")
        if geo.obs_layout(l) != before:
            chk.property_failure({"op": "purity", "layout": str(before), "after": str(geo.obs_layout(l))}, "relativizing or fitting modified the receiver")
        # the value handed back is a value like any other: it equals what an equal layout that was never hashed or used
        # before gives, and hashes like it (the receiver `l` has been hashed, relativized and fitted above)
        import copy as _copy
        twin = _copy.deepcopy(l)
        for name_, op_ in (("as_percentage_of", lambda x: x.as_percentage_of(640, 360)), ("fit_to_screen", lambda x: x.fit_to_screen())):
            try:
                r_used = op_(l)
                r_new = op_(g.Layout(origin=twin.origin, extent=twin.extent, padding=twin.padding, alignment=twin.alignment,
                                     webvtt_positioning=twin.webvtt_positioning))
            except Exception:
                continue
            chk.count("derived_value_pairs")
            if r_used != r_new or hash(r_used) != hash(r_new):
                chk.property_failure({"op": name_, "layout": str(before), "equal": bool(r_used == r_new), "hash_used": hash(r_used), "hash_fresh": hash(r_new)},
                                     "the result of %s on a layout that has been hashed / used before differs (as a value or in its hash) from the result on an equal fresh layout" % name_)
    # (f) origin / extent attributes ("<size> <size>"): every parse gives exactly the two sizes written, whatever was parsed
    #     before and whether or not the earlier values are still alive (attributes that differ only beyond the second decimal
    #     print the same and are still different values)
    tsub = chk.sub("two_size_attributes")
    NUMS = ["0", "5", "10", "12.5", "33.33", "33.333", "33.3333", "66.67", "66.666", "66.6666", "50", "50.0", "50.001", "99.995", "100", "0.004", "0.005", "7.5", "7.50"]
    alive = []
    for _ in range(60 if chk.tier == "quick" else 2000):
        cls = tsub.choice([g.Point, g.Stretch])
        seq = []
        for _ in range(tsub.randint(2, 5)):
            if seq and tsub.random() < 0.5:
                # a near miss of an earlier attribute: one number swapped for a neighbour in the list
                parts = seq[tsub.randrange(len(seq))].split(" ")
                k_ = tsub.randrange(2)
                u_ = parts[k_].lstrip("0123456789.")
                n_ = parts[k_][:len(parts[k_]) - len(u_)]
                j_ = NUMS.index(n_)
                parts[k_] = NUMS[max(0, min(len(NUMS) - 1, j_ + tsub.choice([-1, 1])))] + u_
                seq.append(" ".join(parts))
            else:
                seq.append(tsub.choice(NUMS) + tsub.choice(geo.UNITS) + " " + tsub.choice(NUMS) + tsub.choice(geo.UNITS))
        keep = tsub.random() < 0.7
        got = []
        for a_ in seq:
            try:
                v_ = cls.from_xml_attribute(a_)
            except Exception as e:
                chk.property_failure({"class": cls.__name__, "attributes": seq, "attribute": a_, "error": repr(e)[:200]}, "parsing a well-formed two-size attribute raised"); break
            got.append(v_)
            if keep:
                alive.append(v_)
            comps = (v_.x, v_.y) if cls is g.Point else (v_.horizontal, v_.vertical)
            want = []
            for part in a_.split(" "):
                u_ = part.lstrip("0123456789.")
                want.append((Fraction(float(part[:len(part) - len(u_)])), u_))
            have = [(Fraction(c_.value), c_.unit.value) for c_ in comps]
            case = {"class": cls.__name__, "attributes_parsed_in_order": seq, "attribute": a_, "earlier_values_kept_alive": keep}
            chk.case(key=("two-size", cls.__name__, tuple(seq), a_), nontrivial=len(seq) > 1); chk.count("two_size_attribute_parses")
            if have != want:
                chk.property_failure(dict(case, parsed=str(have), written=str(want)), "%s.from_xml_attribute does not give the two sizes written in the attribute (it depends on what was parsed before)" % cls.__name__)
                break
            again = cls.from_xml_attribute(a_)
            if again != v_ or hash(again) != hash(v_):
                chk.property_failure(case, "parsing the same attribute twice gives unequal values or unequal hashes"); break
        else:
            for (a1, v1), (a2, v2) in itertools.combinations(zip(seq, got), 2):
                same = [(Fraction(float(p[:len(p) - len(p.lstrip("0123456789."))])), p.lstrip("0123456789.")) for p in a1.split(" ")] == \
                       [(Fraction(float(p[:len(p) - len(p.lstrip("0123456789."))])), p.lstrip("0123456789.")) for p in a2.split(" ")]
                if bool(v1 == v2) != same:
                    chk.property_failure({"class": cls.__name__, "a": a1, "b": a2, "equal": bool(v1 == v2)}, "two parsed attributes compare %s although their components %s" % ("equal" if v1 == v2 else "unequal", "are equal" if same else "differ"))
                    break
    del alive
    chk.recheck("geometry parsing / printing")


def replay(path):
    print(json.dumps(json.load(open(path)), indent=1)[:4000])
    return 0
