"""C12, DFXP half at the level of one region: a layout printed as region attributes (`_convert_layout_to_attributes`) and a
region's attributes read as a layout (`LayoutInfoScraper.scrape_positioning_info`), each compared with the model
(`Model/DfxpLayout.lean`, theorems `region_attrs_roundtrip*`), and the composition judged against the property itself:
the same layout comes back, sizes as printed (two decimals), absent alignment parts start / after."""
import json
from fractions import Fraction
from xml.sax.saxutils import quoteattr
from pcv import core, geo, setbuild

UNITS = ["%", "%", "%", "px", "em", "c", "pt"]
HAL = [None, "left", "center", "right", "start", "end"]
VAL = [None, "top", "center", "bottom"]
VALUES = ["0", "5", "10", "12.5", "33.33", "33.333333", "50", "80", "99.995", "0.004", "0.005", "0.015", "16.1", "20.125", "100", "7.5", "2.675"]
RAW_TWO = ["auto", "10% 20%", "10px 20px", "1c 2c", "10%", "10% 20% 30%", "abc", "10 % 20%", "", "10%  20%", "1.5em 2pt", "10% 20%\n", " 10% 20%", "5.%  1%", "05% 007.50%",
           "0 0", "0 10%", "10%\t20%", "+5% 5%", "-5% 5%", "1e2% 5%", ".5% 5%", "5% 5", "AUTO"]
RAW_PAD = ["1%", "1% 2%", "1% 2% 3%", "1% 2% 3% 4%", "1% 2% 3% 4% 5%", "", "1px 2em 3c 4pt", "auto", "1%  2%", "x"]
RAW_TA = [None, None, "", "left", "center", "right", "start", "end", "LEFT", "justify", "before", " left"]
RAW_DA = [None, None, "", "before", "center", "after", "top", "bottom", "AFTER", "start"]


def rand_size(rng):
    return rng.choice(VALUES) + rng.choice(UNITS)


def rand_layout_desc(rng):
    d = {}
    if rng.random() < 0.7:
        d["origin"] = [rand_size(rng), rand_size(rng)]
    if rng.random() < 0.6:
        d["extent"] = [rand_size(rng), rand_size(rng)]
    if rng.random() < 0.5:
        d["padding"] = [rand_size(rng) for _ in range(4)]
    h, v = rng.choice(HAL), rng.choice(VAL)
    if rng.random() < 0.8 and (h or v or rng.random() < 0.3):
        d["align"] = [h, v]
    if rng.random() < 0.05:
        d["webvtt"] = rng.choice(["line:10%", ""])
    return d


def enc_attrs(a):
    return ";".join(core.enc(a[k]) if a.get(k) is not None else "N" for k in ("tts:origin", "tts:extent", "tts:padding", "tts:textAlign", "tts:displayAlign"))


def dec_attrs(t):
    return {k: core.dec(v) for k, v in zip(("tts:origin", "tts:extent", "tts:padding", "tts:textAlign", "tts:displayAlign"), t.split(";")) if v != "N"}


def region_doc(attrs):
    at = " ".join("%s=%s" % (k, quoteattr(v)) for k, v in attrs.items())
    return ('<?xml version="1.0" encoding="utf-8"?>\n<tt xml:lang="en" xmlns="http://www.w3.org/ns/ttml" xmlns:tts="http://www.w3.org/ns/ttml#styling">'
            '<head><layout><region xml:id="r1" %s/></layout></head><body><div><p begin="00:00:01.000" end="00:00:02.000" region="r1">hi</p></div></body></tt>' % at)


def impl_read(pycaption, attrs):
    try:
        cs = core.POOL.get(pycaption.DFXPReader).read(region_doc(attrs))
    except pycaption.exceptions.CaptionReadSyntaxError:
        return "err:syntaxError"
    except pycaption.exceptions.CaptionReadError as e:
        return "err:" + type(e).__name__
    cap = cs.get_captions("en")[0]
    return ("ok", geo.obs_layout(cap.layout_info))


def same_layout(model_t, impl_obs):
    """model layout (decimal rationals) vs implementation layout (floats): equal up to float representation"""
    if model_t is None or impl_obs is None:
        return model_t is None and impl_obs is None
    for m, i in zip(model_t[:3], impl_obs[:3]):
        if (m is None) != (i is None):
            return False
        if m is not None and not all(mu == iu and geo.close(mv, iv) for (mv, mu), (iv, iu) in zip(m, i)):
            return False
    ma, ia = model_t[3], impl_obs[3]
    if (ma is None) != (ia is None):
        return False
    return ma is None or tuple(ma) == tuple(ia)


def explore(chk, pycaption):
    from pycaption.dfxp.base import _convert_layout_to_attributes
    rng = chk.sub("region_attrs")
    n = 300 if chk.tier == "quick" else 20000
    descs = [None, {}]
    for h in HAL:
        for v in VAL:
            d = {"origin": ["10%", "20%"]} if rng.random() < 0.5 else {}
            d["align"] = [h, v]
            descs.append(d)
    descs += [rand_layout_desc(rng) for _ in range(n)]
    b = core.Batch()
    jobs = []
    for d in descs:
        L = setbuild.mk_layout(d) if d is not None else None
        try:
            attrs = dict(_convert_layout_to_attributes(L))
        except Exception as e:
            chk.property_failure({"layout": d, "error": repr(e)[:300]}, "dfxp: printing a layout as region attributes raised"); continue
        jobs.append(("w", d, L, attrs, b.add("dfxp.layoutattrs", geo.enc_layout(L)), b.add("dfxp.readregion", enc_attrs(attrs))))
    # attribute values no writer produces: what the reader makes of them is compared with the model only
    raws = []
    for _ in range(200 if chk.tier == "quick" else 6000):
        a = {}
        if rng.random() < 0.7: a["tts:origin"] = rng.choice(RAW_TWO)
        if rng.random() < 0.6: a["tts:extent"] = rng.choice(RAW_TWO)
        if rng.random() < 0.5: a["tts:padding"] = rng.choice(RAW_PAD)
        ta, da = rng.choice(RAW_TA), rng.choice(RAW_DA)
        if ta is not None: a["tts:textAlign"] = ta
        if da is not None: a["tts:displayAlign"] = da
        raws.append(a)
    for a in raws:
        jobs.append(("r", None, None, a, None, b.add("dfxp.readregion", enc_attrs(a))))
    out = b.run() if chk.driver_ok else None
    for kind, d, L, attrs, op_w, op_r in jobs:
        case = {"layout": d, "attributes": attrs}
        chk.case(key=("region", json.dumps(case, sort_keys=True)), nontrivial=bool(attrs.get("tts:origin") or attrs.get("tts:textAlign")),
                 sample=case if chk.count_get("dfxp_region") in (5, 60) else None)
        chk.count("dfxp_region"); chk.count("dfxp_region_%s" % ("written" if kind == "w" else "handmade"))
        impl = impl_read(pycaption, attrs)
        if kind == "w":
            # the property itself: what was written comes back, sizes as printed, alignment completed with start / after
            if impl[0] != "ok":
                chk.property_failure(dict(case, result=str(impl)), "dfxp: the region attributes written for a layout are refused by the reader")
            else:
                want = expected_back(d, L)
                if not same_layout(want, impl[1]):
                    chk.property_failure(dict(case, read_back=str(impl[1]), spec=str(want)),
                                         "dfxp: a layout written as region attributes does not read back as the same layout (sizes to two decimals, absent alignment parts start / after)")
            if out is not None and dec_attrs(out[op_w]) != {k: v for k, v in attrs.items()}:
                chk.correspondence_failure(dict(case, impl=attrs, model=dec_attrs(out[op_w])), "_convert_layout_to_attributes: implementation and model differ")
        if out is not None:
            M = out[op_r]
            if M.startswith("ok:"):
                mt = geo.dec_layout(M[3:])
                agree = impl[0] == "ok" and same_layout(mt, impl[1])
            else:
                agree = impl == M
            if not agree:
                chk.correspondence_failure(dict(case, impl=str(impl), model=M), "reading a region's attributes: implementation and model differ")


def explore_inherited_alignment(chk, pycaption):
    """DFXP documents whose paragraphs share one region and differ in their own `tts:textAlign`; every paragraph holds a span
    without alignment of its own.  The text inside the span is aligned like its paragraph (own alignment, else the region's),
    whatever was resolved for an earlier paragraph of the same region"""
    sub = chk.sub("dfxp_alignment_inherited_by_spans")
    for k_ in range(30 if chk.tier == "quick" else 800):
        region_al = sub.choice(["left", "center", "right"])
        paras = []
        for j in range(sub.randint(2, 4)):
            own = sub.choice([None, None, "left", "center", "right", "start", "end"])
            paras.append((own, sub.choice(["", ' tts:fontStyle="italic"', ' tts:color="red"']), sub.choice(["hi", "there", "x"]) + str(j)))
        body = "".join('<p begin="00:00:%02d.000" end="00:00:%02d.500" region="r1"%s>lead%d <span%s>%s</span> tail</p>'
                       % (2 * j + 1, 2 * j + 1, (' tts:textAlign="%s"' % own) if own else "", j, sp, w) for j, (own, sp, w) in enumerate(paras))
        doc = ('<?xml version="1.0" encoding="utf-8"?>\n<tt xml:lang="en" xmlns="http://www.w3.org/ns/ttml" xmlns:tts="http://www.w3.org/ns/ttml#styling">'
               '<head><layout><region xml:id="r1" tts:origin="10%% 10%%" tts:extent="60%% 20%%" tts:textAlign="%s" tts:displayAlign="before"/></layout></head>'
               '<body><div>%s</div></body></tt>') % (region_al, body)
        case = {"document": doc}
        chk.case(key=("inherited-align", doc), nontrivial=True); chk.count("dfxp_inherited_alignment_documents")
        try:
            cs = core.POOL.get(pycaption.DFXPReader).read(doc)
            caps = cs.get_captions("en")
        except Exception as e:
            chk.property_failure(dict(case, error=repr(e)[:300]), "DFXP reader raised on paragraphs sharing a region"); continue
        for (own, sp, w), cap in zip(paras, caps):
            want = own or region_al
            got = []
            for n in cap.nodes:
                L = n.layout_info
                got.append(None if L is None or L.alignment is None or L.alignment.horizontal is None else L.alignment.horizontal.value)
            capL = cap.layout_info
            got_cap = None if capL is None or capL.alignment is None or capL.alignment.horizontal is None else capL.alignment.horizontal.value
            if got_cap != want or any(g != want for g in got):
                chk.property_failure(dict(case, paragraph=w, expected_alignment=want, caption_alignment=got_cap, node_alignments=got),
                                     "dfxp: the text of a paragraph (its span included) is not aligned as the paragraph says (own tts:textAlign, else the region's)")
                break


def expected_back(d, L):
    """from the property's wording, with the harness' own arithmetic: sizes rounded half-even to hundredths (what a
    two-decimal print keeps), absent parts absent, alignment parts defaulting to start / bottom"""
    def r(s):
        v = s[:-len(unit_of(s))]
        q = Fraction(float(v)) * 100          # the library holds floats: the value printed is the float's
        n = q.numerator // q.denominator
        rem = q - n
        if rem > Fraction(1, 2) or (rem == Fraction(1, 2) and n % 2 == 1):
            n += 1
        return (Fraction(n, 100), unit_of(s))
    usable = bool(d) and (d.get("origin") or d.get("extent") or d.get("padding") or d.get("align") or d.get("webvtt"))
    if not usable:
        return (None, None, None, ("start", "bottom"))
    al = d.get("align") or [None, None]
    pad = d.get("padding")
    return (tuple(r(x) for x in d["origin"]) if d.get("origin") else None,
            tuple(r(x) for x in d["extent"]) if d.get("extent") else None,
            tuple(r(x) for x in pad) if pad else None,
            (al[0] or "start", al[1] or "bottom"))


def unit_of(s):
    for u in ("px", "em", "pt", "%", "c"):
        if s.endswith(u):
            return u
    raise ValueError(s)
