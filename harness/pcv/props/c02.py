"""C02 — writing preserves every cue's start and end instant."""
import json, re
from fractions import Fraction
from pcv import core, capio, gen

P = "PcVerif.Props.C02."
THEOREMS = [P + t for t in ["sami_plan_entries", "microdvd_constants_pinned", "fields_in_range", "format_denotes", "vtt_timestamp_denotes", "vtt_hours_omitted_iff",
                            "sami_sync_plan", "sami_single_language_plan", "format_injective", "vtt_timestamp_injective", "written_ms_truncates"]]
H24 = 86400 * 10 ** 6


def make(tier, seed):
    c = core.Check("C02", tier, seed, "PcVerif.Props.C02", THEOREMS)
    c.rule = ("caption sets with 1-8 captions (1-2 languages for DFXP/SAMI), instants in [0,24h) chosen around every carry (x.999 ms, 59.999 s, 59:59.999, "
              "23:59:59.999999), runs of equal timespans, abutting cues, fractional microsecond times (SCC-like floats and +-0.4/0.5/0.6 around a millisecond "
              "boundary); all seven text writers; distinct = distinct (writer, set); non-trivial = at least 2 captions or a fractional/carry instant")
    c.extra_trusted.append("outputs are parsed by the harness's own timing extractors (regex for SRT/WebVTT/MicroDVD lines, lxml for DFXP, html.parser for SAMI)")
    return c


CARRY = [0, 999, 1000, 999999, 1000000, 59999999, 60000000, 3599999999, 3600000000, 86399999999, 86399000000, 35999999000, 40000, 39999, 8040000]


def rand_times(rng, n):
    out = []
    t = rng.choice(CARRY + [rng.randrange(0, 80000 * 10 ** 6)])
    if t > H24 - 10 ** 7:
        t = H24 - 10 ** 7 - rng.randrange(10 ** 6)
    while len(out) < n:
        d = rng.choice([1000, 40000, 999000, 1000000, 1500000, 2002000, 60000000])
        if rng.random() < 0.12:
            d = rng.choice([0, 1, 400, 999])      # a cue shorter than the format's resolution (its end falls into the start's millisecond / frame)
        a, b = t, t + d
        if b + 1 >= H24:
            break
        if rng.random() < 0.15:   # fractional microseconds (SCC-like floats, and values around a millisecond boundary)
            a = float(a) + rng.choice([0.4, 0.5, 0.6, 0.9999999995, 0.3333333333])
            b = float(b) + rng.choice([0.4, 0.5, 0.6, 0.9999999995, 0.6666666667])
            if rng.random() < 0.3 and a >= 1:
                a = a - 1.0 + 0.0000000005 * 0 + (0.9999999995 - (a % 1))   # just below a millisecond boundary
        out.append((a, b))
        if rng.random() < 0.2 and len(out) < n:
            out.append((a, b))      # identical timespan again (a run of concurrent captions)
        elif rng.random() < 0.1 and len(out) < n and isinstance(a, int) and b - a > 2000:
            if b + 1000000 + 1 < H24:      # (instants of 24 h and more are outside the formatter's domain)
                out.append((a + (b - a) // 2 // 1000 * 1000, b + 1000000))      # a cue that starts before the previous one has ended
        elif rng.random() < 0.1 and len(out) < n and isinstance(a, int):
            later = b + rng.choice([1000, 500000, 2500000])
            if later + 1 < H24:
                out.append((a, later))         # same start, later end: two cues, not one run
            if rng.random() < 0.5 and len(out) < n:
                out.append((a, b))      # the first timespan again, after a different one: not consecutive, so not the same run
        r = rng.random()
        t = (int(b) + 1 if isinstance(b, float) else b) + (0 if r < 0.4 else rng.choice([1, 999, 1000, 1001, 250000, 61000000]))
    return out


def sorted_nonoverlapping(times):
    return all(Fraction(times[i][1]) <= Fraction(times[i + 1][0]) for i in range(len(times) - 1))


def trunc_ms(t):
    return int(Fraction(t) // 1000)


def build(langs_times, rng):
    abstract = {}
    for li, times in enumerate(langs_times):
        abstract[["en-US", "fr-FR", "de-DE"][li]] = [(a, b, capio.nodes_from_lines([gen.plain_line(rng) for _ in range(rng.randint(1, 2))])) for (a, b) in times]
    return abstract


def parse_stamp12(s):
    m = re.fullmatch(r"(\d\d):(\d\d):(\d\d)[.,](\d\d\d)", s)
    if not m:
        return None
    h, mi, se, ms = map(int, m.groups())
    if mi >= 60 or se >= 60:
        return None
    return ((h * 60 + mi) * 60 + se) * 1000 + ms


def parse_vtt_stamp(s):
    m = re.fullmatch(r"(?:(\d\d):)?(\d\d):(\d\d)\.(\d\d\d)", s)
    if not m:
        return None
    h, mi, se, ms = m.groups()
    if h == "00" or int(mi) >= 60 or int(se) >= 60:
        return None  # hours must be omitted when zero (as the property's reading of the writer says) -- tolerated below
    return ((int(h or 0) * 60 + int(mi)) * 60 + int(se)) * 1000 + int(ms)


def runs(times):
    out = []
    for t in times:
        if out and out[-1] == t:
            continue
        out.append(t)
    return out


def explore(chk):
    import pycaption
    from pycaption.dfxp.extras import SinglePositioningDFXPWriter, LegacyDFXPWriter
    from lxml import etree
    from bs4 import BeautifulSoup
    rng = chk.rng
    N = 250 if chk.tier == "quick" else 8000
    b = core.Batch()
    jobs = []
    writers = [("srt", pycaption.SRTWriter), ("webvtt", pycaption.WebVTTWriter), ("dfxp", pycaption.DFXPWriter),
               ("single", SinglePositioningDFXPWriter), ("legacy", LegacyDFXPWriter), ("sami", pycaption.SAMIWriter),
               ("microdvd", pycaption.MicroDVDWriter)]
    # corner sets that do not depend on the seed: cues inside the first millisecond, zero-length cues, a cue that ends where
    # the next one starts, a timespan that comes back after a different one
    FIXED = [[[(0, 400), (2000000, 3000000), (3000000, 4000000), (5000000, 6000000)]],
             [[(0, 0), (1000, 2000), (2000, 2000), (2500, 3999)]],
             [[(999, 1000), (1000, 1001), (1001, 2000400), (2000900, 3000000)]],
             [[(1000000, 2000000), (1000000, 3000000), (1000000, 2000000), (4000000, 5000000)]],
             [[(0, 999), (40000, 79999)], [(0, 400), (1000000, 1000400)]],
             # captions that are not in ascending order of start: one cue per caption, in the order of the set
             [[(5000000, 6500000), (1000000, 2000000), (3000000, 4000000)]],
             # a second language that starts before every cue of the first and later shares instants with it
             [[(1000000, 2000000), (5000000, 6000000)], [(200000, 1000000), (1000000, 2000000), (5000000, 6000000)]],
             [[(3000000, 4000000), (5000000, 6000000), (8000000, 9000000)], [(500000, 900000), (3000000, 4000000), (4000000, 5000000)],
              [(100000, 200000), (5000000, 6000000)]]]
    for i in range(N + len(FIXED)):
        nl = rng.choice([1, 1, 1, 2])
        langs_times = [rand_times(rng, rng.randint(1, 8)) for _ in range(nl)]
        langs_times = [t for t in langs_times if t]
        if i >= N:
            langs_times = FIXED[i - N]
        if not langs_times:
            continue
        abstract = build(langs_times, rng)
        stamps = sorted(set(t for times in langs_times for ab in times for t in ab), key=lambda x: Fraction(x))
        ops = {"ts": {t: b.add("fmt.ts", capio.fr(t), core.enc(".")) for t in stamps},
               "vtt": {t: b.add("vtt.ts", capio.fr(t)) for t in stamps},
               "fr": {t: b.add("mdvd.frames", capio.fr(t)) for t in stamps},
               "srt": b.add("srt.write", capio.enc_langs(list(abstract.values()))),
               "mdvd": b.add("mdvd.write", capio.enc_langs(list(abstract.values()))),
               "sami": b.add("sami.plan", "|".join(core.enc_list(times, lambda ab: capio.fr(ab[0]) + ";" + capio.fr(ab[1])) for times in langs_times))}
        jobs.append((abstract, langs_times, ops))
    out = b.run() if chk.driver_ok else None
    force_sub = chk.sub("dfxp_force_absent")
    for (abstract, langs_times, ops) in jobs:
        first = langs_times[0]
        frac = any(isinstance(t, float) for times in langs_times for ab in times for t in ab)
        for wname, W in writers:
            cs = capio.build_set(abstract)
            case = {"writer": wname, "set": {l: [(repr(a), repr(b_), [n[1] for n in ns if n[0] == "T"]) for (a, b_, ns) in caps] for l, caps in abstract.items()}}
            # force= naming a language the set does not hold selects nothing: every language is written as without it
            forced = wname in ("dfxp", "single") and force_sub.random() < 0.3
            if forced:
                case["force"] = "zz-ZZ"
            try:
                doc = core.POOL.get(W).write(cs, force="zz-ZZ") if forced else core.POOL.get(W).write(cs)
            except Exception as e:
                chk.case(key=json.dumps(case, sort_keys=True), nontrivial=True)
                chk.property_failure(dict(case, error=repr(e)), "%s writer raised on a valid caption set" % wname)
                continue
            chk.remember((wname, "write", json.dumps(case["set"], default=str)[:800]),
                         (lambda W=W, abstract=abstract: W().write(capio.build_set(abstract))), doc, every=9, cap=120)
            case["output"] = doc if len(doc) < 3000 else doc[:3000]
            chk.case(key=json.dumps(case, sort_keys=True), nontrivial=len(first) > 1 or frac,
                     sample={"writer": wname, "times": [(repr(a), repr(b_)) for a, b_ in first], "output": doc[:400]} if chk.count_get("w_" + wname) in (1,) else None)
            chk.count("w_" + wname)
            # ---- extract timing from the implementation's output
            if wname == "srt":
                got = []
                idxs = []
                for m in re.finditer(r"(?m)^(\d+)\n(\S+) --> (\S+)$", doc):
                    idxs.append(int(m.group(1))); got.append((parse_stamp12(m.group(2)), parse_stamp12(m.group(3))))
                want = []
                for times in langs_times:   # one cue per maximal run of equal timespans, per language block
                    want += [(trunc_ms(a), trunc_ms(b_)) for a, b_ in runs([(Fraction(a), Fraction(b_)) for a, b_ in times])]
                if got != want:
                    chk.property_failure(dict(case, parsed=str(got), spec=str(want)), "srt: written timing lines are not the captions' start/end truncated to ms (one cue per run of equal timespans)")
                if out is not None and core.dec(out[ops["srt"]]) != doc:
                    chk.correspondence_failure(dict(case, model=core.dec(out[ops["srt"]])), "srt writer: implementation and model differ")
            elif wname == "webvtt":
                got = [(parse_vtt_stamp(m.group(1)), parse_vtt_stamp(m.group(2))) for m in re.finditer(r"(?m)^(\S+) --> (\S+)", doc)]
                want = [(trunc_ms(a), trunc_ms(b_)) for a, b_ in first]
                if got != want:
                    chk.property_failure(dict(case, parsed=str(got), spec=str(want)), "webvtt: written timing lines are not the captions' start/end truncated to ms")
                if out is not None:
                    ms = [(core.dec(out[ops["vtt"][a]]), core.dec(out[ops["vtt"][b_]])) for a, b_ in first]
                    gs = [(m.group(1), m.group(2)) for m in re.finditer(r"(?m)^(\S+) --> (\S+)", doc)]
                    if ms != gs:
                        chk.correspondence_failure(dict(case, model=str(ms)), "webvtt _timestamp: implementation and model differ")
            elif wname == "microdvd":
                got = [(int(m.group(1)), int(m.group(2))) for m in re.finditer(r"(?m)^\{(\d+)\}\{(\d+)\}", doc)]
                want = [(int(Fraction(a) * 25 // 10 ** 6), int(Fraction(b_) * 25 // 10 ** 6)) for times in langs_times for a, b_ in times]
                if got != want or re.search(r"\{[^}]*[^0-9}][^}]*\}", doc):
                    chk.property_failure(dict(case, parsed=str(got), spec=str(want)), "microdvd: written frame numbers are not start/end truncated to 25 fps frames")
                if out is not None and core.dec(out[ops["mdvd"]]) != doc:
                    chk.correspondence_failure(dict(case, model=core.dec(out[ops["mdvd"]])), "microdvd writer: implementation and model differ")
            elif wname in ("dfxp", "single", "legacy"):
                try:
                    root = etree.fromstring(doc.encode("utf-8"))
                except Exception as e:
                    chk.property_failure(dict(case, error=repr(e)), "%s: output is not well-formed XML" % wname)
                    continue
                ns = {"t": "http://www.w3.org/ns/ttml"}
                got = []; raw = []
                for div in root.findall(".//t:div", ns):
                    g = []
                    for p in div.findall("t:p", ns):
                        g.append((parse_stamp12(p.get("begin")), parse_stamp12(p.get("end")))); raw.append((p.get("begin"), p.get("end")))
                    got.append(g)
                # a run = consecutive captions with IDENTICAL start and end (not merely equal after truncation)
                want = [[(trunc_ms(a), trunc_ms(b_)) for a, b_ in (times if wname == "dfxp" else runs([(Fraction(a), Fraction(b_)) for a, b_ in times]))]
                        for times in langs_times]
                if got != want:
                    chk.property_failure(dict(case, parsed=str(got), spec=str(want)), "%s: begin/end are not the captions' start/end truncated to ms, one p per caption%s" % (wname, "" if wname == "dfxp" else " run"))
                if out is not None and wname == "dfxp":
                    ms = [(core.dec(out[ops["ts"][a]]), core.dec(out[ops["ts"][b_]])) for times in langs_times for a, b_ in times]
                    if ms != raw:
                        chk.correspondence_failure(dict(case, model=str(ms)), "_format_timestamp: implementation and model differ")
            elif wname == "sami":
                ordered = all(sorted_nonoverlapping(t) for t in langs_times)
                if not ordered:
                    chk.count("sami_concurrent_or_overlapping")   # order of SYNC blocks is then not defined; the events themselves are
                soup = BeautifulSoup(doc, "html.parser")
                lang_names = list(abstract.keys())
                got = []
                counters = {}
                intfields = True
                for sync in soup.find_all("sync"):
                    st = sync.get("start")
                    if not re.fullmatch(r"\d+", st or ""):
                        intfields = False
                    ps = []
                    for p in sync.find_all("p"):
                        cls = p.get("class")
                        cls = cls[0] if isinstance(cls, list) else cls
                        li = lang_names.index(cls) if cls in lang_names else [l.lower() for l in lang_names].index(cls.lower())
                        blank = p.get_text().strip() in ("", "\xa0", "&nbsp;")
                        if blank:
                            k = counters.get(li, 0)
                        else:
                            k = counters.get(li, 0); counters[li] = k + 1
                        ps.append((li, blank, k))
                    got.append((st, ps))
                if not intfields:
                    chk.property_failure(dict(case, parsed=str(got)), "sami: a sync start is not an integer millisecond field")
                    continue
                # S: per language the sequence of (ms, blank) events
                for li, times in enumerate(langs_times):
                    want = []
                    prev_end = None
                    for (a, b_) in times:
                        if prev_end is not None and prev_end != trunc_ms(a):
                            want.append((prev_end, True))
                        want.append((trunc_ms(a), False))
                        prev_end = trunc_ms(b_)
                    seq = [(int(st), bl) for (st, ps) in got for (l2, bl, k) in ps if l2 == li]
                    if not ordered:
                        seq, want = sorted(seq), sorted(want)
                    if seq != want:
                        chk.property_failure(dict(case, lang=li, parsed=str(seq), spec=str(want)),
                                             "sami: syncs of a language are not (cue at start ms, blank at end ms unless the next cue starts there, none after the last)")
                if out is not None:
                    M = []
                    for s in core.dec_list(out[ops["sami"]], lambda z: z):
                        st, ps = s.split(":")
                        # the model tags a blank with the index of the caption that follows it
                        M.append((st, [] if ps == "_" else [(int(x.split(".")[0]), x.split(".")[1] == "1", int(x.split(".")[2])) for x in ps.split(" ")]))
                    if M != got and ordered:
                        chk.correspondence_failure(dict(case, parsed=str(got), model=str(M)), "sami sync plan: implementation and model differ")
    chk.recheck("writer output")


def replay(path):
    print(json.dumps(json.load(open(path)), indent=1)[:5000])
    return 0
