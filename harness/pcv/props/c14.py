"""C14 — each language's captions stay under their language, in document order."""
import json, os, re, subprocess, sys
from fractions import Fraction
from pcv import core, capio, textgen

P = "PcVerif.Props.C14."
THEOREMS = [P + t for t in ["dfxp_lang_fallback", "dfxp_default_lang_pinned", "dfxp_languages_first_appearance", "primary_syncs_sorted",
                              "sami_lang_test_pinned", "stylesheet_declares_every_language", "stylesheet_declares_label_class", "stylesheet_old_test_counterexample",
                              "plan_sorted", "paragraphs_in_own_block"]]
CODES = ["en-US", "fr-FR", "de", "es-419", "en", "pt-BR", "fi", "fil", "es", "est"]   # also codes that are plain string prefixes of another (fi / fil)


def make(tier, seed):
    c = core.Check("C14", tier, seed, "PcVerif.Props.C14", THEOREMS)
    c.rule = ("caption sets with 1-4 languages (codes incl. 'en' next to 'en-US'), cues sorted and non-overlapping within a language, interleaved / coinciding / "
              "disjoint across languages, an empty first language; DFXP and SAMI write + independent parse + re-read, DFXP force=, WebVTT lang=, reader lang=, "
              "DFXP divs without xml:lang with and without tt xml:lang and PYCAPTION_DEFAULT_LANG (sub-process); distinct = distinct (set, operation); "
              "non-trivial = at least two languages")
    c.predicates = {"sami_language_prefix_of_another": pred_prefix}
    return c


def pred_prefix(case):
    langs = case.get("languages") or []
    return case.get("format") == "sami" and any(a != b and (b.startswith(a + "-")) for a in langs for b in langs)


def gen_set(rng, nlang, codes=None):
    codes = codes or rng.sample(CODES, nlang)
    langs = {}
    base = rng.choice([0, 1000000, 3599000000])
    # instants that are not whole milliseconds (frame times): the sub-millisecond part is dropped, never rounded
    base += rng.choice([0, 0, 0, 566, 999, 500])
    for li, code in enumerate(codes):
        t = base + rng.choice([0, 0, 500000, 1000000])
        caps = []
        for _ in range(rng.randint(1, 4)):
            d = rng.choice([1000000, 1500000, 2000000])
            caps.append((t, t + d, capio.nodes_from_lines(["%s %d" % (code, len(caps)), "line two"][:rng.randint(1, 2)])))
            t += d + rng.choice([0, 0, 1000000, 2500000])
        langs[code] = caps
    return langs


def obs(cs):
    return [(l, [(int(c.start), " ".join(c.get_text().split())) for c in cs.get_captions(l)]) for l in cs.get_languages()]


def explore(chk):
    absent_sub = chk.sub("vtt_absent_language")
    import pycaption
    rng = chk.rng
    N = 120 if chk.tier == "quick" else 4000
    b = core.Batch()
    jobs = []
    for i in range(N):
        nl = rng.choice([1, 2, 2, 3, 4])
        abstract = gen_set(rng, nl)
        if nl > 1 and rng.random() < 0.1:
            first = list(abstract.keys())[0]
            abstract[first] = []          # an empty first (primary) language
        times = [[(s, e) for (s, e, _) in caps] for caps in abstract.values()]
        op = b.add("sami.plan", "|".join(core.enc_list(t, lambda ab: capio.fr(ab[0]) + ";" + capio.fr(ab[1])) for t in times))
        # no styles, no classes: every language labels its paragraphs with its own code; the set's own styles give "<!--"
        op2 = b.add("sami.stylesheet", core.enc_list(list(abstract.keys())), ",".join("1" for _ in abstract), core.enc("<!--"))
        jobs.append((abstract, op, op2))
    out = b.run() if chk.driver_ok else None
    shared_w = {"dfxp": pycaption.DFXPWriter(), "sami": pycaption.SAMIWriter()}
    for ji_, (abstract, op, op2) in enumerate(jobs):
        langs = list(abstract.keys())
        if out is not None:
            # the language rules of the stylesheet: model vs SAMIWriter._recreate_stylesheet (the set has no styles, no layouts)
            I_sheet = pycaption.SAMIWriter()._recreate_stylesheet(capio.build_set(abstract))
            chk.count("sami_stylesheets")
            if core.dec(out[op2]) != I_sheet:
                chk.correspondence_failure({"languages": langs, "impl": I_sheet, "model": core.dec(out[op2])}, "SAMI stylesheet (language rules): implementation and model differ")
        reuse = bool(ji_ % 2)          # every other set is written by writer objects that have written the earlier sets
        src = [(l, [(s, " ".join(" ".join(n[1] for n in ns if n[0] == "T").split())) for (s, e, ns) in caps]) for l, caps in abstract.items()]
        base_case = {"languages": langs, "set": {l: [(s, e, [n[1] for n in ns if n[0] == "T"]) for (s, e, ns) in caps] for l, caps in abstract.items()}}
        # ---------------- DFXP
        cs = capio.build_set(abstract)
        doc = (shared_w["dfxp"] if reuse else pycaption.DFXPWriter()).write(cs)
        case = dict(base_case, format="dfxp", writer_object="reused" if reuse else "fresh", output=doc[:3000])
        chk.case(key=json.dumps(base_case, sort_keys=True) + "dfxp", nontrivial=len(langs) > 1, sample={"languages": langs, "format": "dfxp"} if chk.count_get("n") == 4 else None)
        chk.count("n"); chk.count("dfxp")
        try:
            parsed = textgen.parse_dfxp(doc)
            got = [(lang, [" ".join(" ".join(ls).split()) for (_, _, ls) in cues]) for (lang, cues) in parsed]
            want = [(l, [t for (_, t) in cues]) for (l, cues) in src]
            if got != want:
                chk.property_failure(dict(case, parsed=str(got)[:1500], spec=str(want)[:1500]), "dfxp writer: divs are not one per language in order, each holding exactly that language's cues")
            back = obs(pycaption.DFXPReader().read(doc))
            if [(l, [(s // 1000 * 1000, t) for s, t in c]) for l, c in src] != back:
                chk.property_failure(dict(case, reread=str(back)[:1500]), "dfxp round trip: languages or per-language cue lists changed")
            f = rng.choice(langs)
            forced = textgen.parse_dfxp(pycaption.DFXPWriter().write(cs, force=f))
            if [l for l, _ in forced] != [f]:
                chk.property_failure(dict(case, force=f, parsed=str([l for l, _ in forced])), "dfxp force= does not select exactly the named language")
            # a language the set does not hold ("only use this language, if available"): everything is written
            absent = rng.choice(["zz", langs[0][:2] if langs[0][:2] not in langs else "zz", langs[0] + "-x"])
            if absent not in langs:
                unforced = textgen.parse_dfxp(pycaption.DFXPWriter().write(cs, force=absent))
                got2 = [(lang, [" ".join(" ".join(ls).split()) for (_, _, ls) in cues]) for (lang, cues) in unforced]
                if got2 != want:
                    chk.property_failure(dict(case, force=absent, parsed=str(got2)[:1200], spec=str(want)[:1200]),
                                         "dfxp force= naming a language the set does not hold must leave all languages and their cues in place")
        except Exception as e:
            chk.property_failure(dict(case, error=repr(e)[:300]), "dfxp multi-language write/read raised %s" % type(e).__name__)
        # ---------------- SAMI
        doc = (shared_w["sami"] if reuse else pycaption.SAMIWriter()).write(cs)
        case = dict(base_case, format="sami", writer_object="reused" if reuse else "fresh", output=doc[:3000])
        chk.case(key=json.dumps(base_case, sort_keys=True) + "sami", nontrivial=len(langs) > 1)
        chk.count("n"); chk.count("sami")
        try:
            ps = textgen.parse_sami(doc)
            starts = [int(st) for (st, cls, ls) in ps]
            if any(starts[k] > starts[k + 1] for k in range(len(starts) - 1)):
                chk.property_failure(dict(case, sync_starts=starts), "sami writer: SYNC blocks are not in non-decreasing time order")
            for li, (l, cues) in enumerate(src):
                mine = [(int(st), " ".join(" ".join(ls).split())) for (st, cls, ls) in ps if cls.lower() == l.lower() and " ".join(ls).strip(" \xa0")]
                if mine != [(s // 1000, t) for s, t in cues]:
                    chk.property_failure(dict(case, language=l, parsed=str(mine)[:800]), "sami writer: a language's paragraphs are not in the SYNC blocks of their start times, in order")
                    break
            back = obs(pycaption.SAMIReader().read(doc))
            # a language without cues has no <p> in a SAMI document: it cannot come back
            want = sorted([(l, [(s // 1000 * 1000, t) for s, t in c]) for l, c in src if c], key=lambda x: x[0])
            if sorted(back, key=lambda x: x[0]) != want:
                chk.property_failure(dict(case, reread=str(back)[:1500], spec=str(want)[:1500]), "sami round trip: a cue moved to another language or per-language cue lists changed")
            else:
                # languages in order of first appearance in the document
                first = []
                for (st, cls, ls) in ps:
                    k = next((l for l in langs if l.lower() == cls.lower()), cls)
                    if k not in first:
                        first.append(k)
                if [l for l, _ in back] != first:
                    chk.property_failure(dict(case, order=[l for l, _ in back], spec=first), "sami reader: languages are not listed in order of first appearance")
        except Exception as e:
            chk.property_failure(dict(case, error=repr(e)[:300]), "sami multi-language write/read raised %s" % type(e).__name__)
        if out is not None:
            M = [(s.split(":")[0], [] if s.split(":")[1] == "_" else [(int(x.split(".")[0]), x.split(".")[1] == "1") for x in s.split(":")[1].split(" ")]) for s in core.dec_list(out[op], lambda z: z)]
            try:
                I = []
                cur = None
                from bs4 import BeautifulSoup
                soup = BeautifulSoup(doc, "html.parser")
                for sync in soup.find_all("sync"):
                    entry = (sync.get("start"), [])
                    for p in sync.find_all("p"):
                        cls = p.get("class"); cls = cls[0] if isinstance(cls, list) else cls
                        li = [l.lower() for l in langs].index(cls.lower())
                        entry[1].append((li, p.get_text().strip() in ("", "\xa0", "&nbsp;")))
                    I.append(entry)
                if I != M:
                    chk.correspondence_failure(dict(case, impl=str(I)[:1200], model=str(M)[:1200]), "sami sync plan (multi-language): implementation and model differ")
            except ValueError:
                pass
        # ---------------- WebVTT lang=
        l = rng.choice(langs)
        wv = pycaption.WebVTTWriter() if not reuse else shared_w.setdefault("webvtt", pycaption.WebVTTWriter())
        vtt = wv.write(cs, lang=l)
        if reuse:
            # the same writer object, now without lang=: the first language of the set, whatever was asked for before
            again = [" ".join(" ".join(ls).split()) for (_, ls) in textgen.parse_vtt(wv.write(cs))]
            if again != [t for (_, t) in src[0][1]]:
                chk.property_failure(dict(base_case, format="webvtt", previous_lang=l, parsed=str(again)[:800]),
                                     "webvtt write() without lang= on a reused writer does not write the first language's cues")
        cues = textgen.parse_vtt(vtt)
        got = [" ".join(" ".join(ls).split()) for (_, ls) in cues]
        chk.case(key=json.dumps(base_case, sort_keys=True) + "vtt" + l, nontrivial=len(langs) > 1)
        chk.count("n"); chk.count("vtt_lang")
        if got != [t for (_, t) in dict(src)[l]]:
            chk.property_failure(dict(base_case, format="webvtt", lang=l, parsed=str(got)[:800]), "webvtt lang= does not write exactly the named language's cues")
        # a language the set does not hold (a near miss included): no other language's cues are written under that name
        absent_ = absent_sub.choice(["zz-ZZ", langs[0][:2], langs[0].upper(), langs[0] + " ", "x" + langs[-1]])
        if absent_ not in langs:
            chk.count("vtt_lang_absent")
            try:
                got_a = [" ".join(" ".join(ls).split()) for (_, ls) in textgen.parse_vtt(pycaption.WebVTTWriter().write(cs, lang=absent_))]
            except Exception as e:
                got_a = None
            if got_a:
                chk.property_failure(dict(base_case, format="webvtt", lang=absent_, parsed=str(got_a)[:800]),
                                     "webvtt lang= naming a language the set does not hold writes another language's cues")
    # ---------------- SAMI: the language of a paragraph comes from its class (through the style sheet) or from a lang attribute
    for k_ in range(30 if chk.tier == "quick" else 600):
        second = rng.choice(["fr", "de", "es"])
        t1, t2 = rng.choice([1000, 2500]), rng.choice([4000, 6500])
        klass = rng.choice(["NOTE", "NOTE", "MISSING", None])          # a class without lang in the sheet / not in the sheet / no class
        order = rng.random() < 0.5
        attrs = ([] if klass is None else ['class="%s"' % klass]) + ['lang="%s"' % second]
        if not order:
            attrs.reverse()
        p2 = "<P %s>" % " ".join(attrs)
        doc = ('<SAMI><HEAD><STYLE TYPE="text/css"><!--\nP { font-family: Arial; }\n.ENCC { Name: English; lang: en-US; }\n.NOTE { color: yellow; }\n--></STYLE></HEAD><BODY>\n'
               '<SYNC start="%d"><P class="ENCC">hello one</P>%sother one</P></SYNC>\n<SYNC start="%d"><P class="ENCC">hello two</P>%sother two</P></SYNC>\n'
               '<SYNC start="%d"><P class="ENCC">&nbsp;</P>%s&nbsp;</P></SYNC>\n</BODY></SAMI>') % (t1, p2, t2, p2, t2 + 2000, p2)
        chk.case(key=("sami_lang_attr", doc), nontrivial=True); chk.count("sami_lang_attr")
        try:
            got = obs(pycaption.SAMIReader().read(doc))
        except Exception as e:
            chk.property_failure({"document": doc, "error": repr(e)[:300]}, "sami reader raised on a two-language document"); continue
        want = [("en-US", [(t1 * 1000, "hello one"), (t2 * 1000, "hello two")]), (second, [(t1 * 1000, "other one"), (t2 * 1000, "other two")])]
        if got != want:
            chk.property_failure({"document": doc, "read": str(got), "spec": str(want)}, "sami reader: a paragraph is not filed under the language its class or lang attribute names")
    # ---------------- SAMI -> SAMI: paragraphs styled through an id or a second class (their own style names no language)
    for k in range(12 if chk.tier == "quick" else 200):
        sub = chk.sub("sami_id_paragraphs") if hasattr(chk, "sub") else rng
        extra = sub.choice(['ID=Source', 'ID=Source', 'id="Aside"'])
        t1 = sub.randrange(1, 50) * 1000
        doc = ('<SAMI><HEAD><STYLE TYPE="text/css"><!--\nP { font-family: Arial; }\n.ENCC { Name: English; lang: en-US; }\n.FRCC { Name: French; lang: fr-FR; }\n'
               '#Source { color: yellow; }\n#Aside { font-style: italic; }\n--></STYLE></HEAD><BODY>\n'
               '<SYNC start=%d><P Class=ENCC %s>one</P><P Class=FRCC>un</P></SYNC>\n<SYNC start=%d><P Class=ENCC>&nbsp;</P><P Class=FRCC>&nbsp;</P></SYNC>\n'
               '<SYNC start=%d><P Class=ENCC>two</P><P Class=FRCC %s>deux</P></SYNC>\n<SYNC start=%d><P Class=ENCC>&nbsp;</P><P Class=FRCC>&nbsp;</P></SYNC>\n</BODY></SAMI>') % (
                   t1, extra, t1 + 1000, t1 + 2000, extra, t1 + 3000)
        chk.case(key=("sami_id_paragraph", doc), nontrivial=True); chk.count("sami_id_paragraphs")
        try:
            first = pycaption.SAMIReader().read(doc)
            back = pycaption.SAMIReader().read(core.POOL.get(pycaption.SAMIWriter).write(first))
            a, b_ = obs(first), obs(back)
        except Exception as e:
            chk.property_failure({"document": doc, "error": repr(e)[:300]}, "sami read / write / read raised on paragraphs styled through an id"); continue
        if a != b_:
            chk.property_failure({"document": doc, "read": str(a), "reread": str(b_)}, "sami -> sami: a cue styled through an id left its language")
        if chk.driver_ok:
            # the language rules of the stylesheet for a set WITH styles: what the styles alone give, then the model's loop
            w_ = pycaption.SAMIWriter()
            langs_ = first.get_languages()
            only_styles = pycaption.CaptionSet({}, styles=dict(first.get_styles()), layout_info=first.layout_info)
            sheet0 = w_._recreate_stylesheet(only_styles)[:-len("   -->")]
            labels_ = ["1" if any(w_._recreate_p_lang(c_, l_, first) == l_ for c_ in first.get_captions(l_)) else "0" for l_ in langs_]
            M = core.dec(core.run_driver(["sami.stylesheet\t%s\t%s\t%s" % (core.enc_list(langs_), ",".join(labels_), core.enc(sheet0))])[0])
            I = w_._recreate_stylesheet(first)
            chk.count("sami_stylesheets_with_styles")
            if M != I:
                chk.correspondence_failure({"document": doc, "impl": I, "model": M}, "SAMI stylesheet (language rules, set with styles): implementation and model differ")
    # ---------------- reader lang= and DFXP language fallback
    srt = "1\n00:00:01,000 --> 00:00:02,000\nhi\n"
    for l in ["de", "x-klingon", "en-US"]:
        for rd, doc in ((pycaption.SRTReader, srt), (pycaption.WebVTTReader, "WEBVTT\n\n00:01.000 --> 00:02.000\nhi\n")):
            cs = rd().read(doc, lang=l)
            chk.case(key=("readerlang", rd.__name__, l), nontrivial=True); chk.count("reader_lang")
            if cs.get_languages() != [l]:
                chk.property_failure({"reader": rd.__name__, "lang": l, "languages": cs.get_languages()}, "reader lang= does not name the language of the result")
    jobs2 = []
    for tt_lang in (None, "fr"):
        # xml:lang="" is an explicit label (the XML way of saying "no language"), not a missing attribute
        for div_langs in ([None], ["de", None], [None, "es"], ["en", "en"], ["en", "", "de"], ["", None]):
            for default in (None, "it"):
                jobs2.append({"tt": tt_lang, "divs": div_langs, "default": default})
    b2 = core.Batch()
    for j in jobs2:
        b2.add("dfxp.langs", "N" if j["tt"] is None else core.enc(j["tt"]), core.enc(j["default"] or "und"),
               core.enc_list(j["divs"], lambda x: "N" if x is None else core.enc(x)))
    out2 = b2.run() if chk.driver_ok else None
    for k, j in enumerate(jobs2):
        doc = '<tt xmlns="http://www.w3.org/ns/ttml"%s><body>%s</body></tt>' % (
            "" if j["tt"] is None else ' xml:lang="%s"' % j["tt"],
            "".join('<div%s><p begin="%ds" end="%ds">cue %d</p></div>' % ("" if dl is None else ' xml:lang="%s"' % dl, 2 * i + 1, 2 * i + 2, i) for i, dl in enumerate(j["divs"])))
        env = dict(os.environ, PYTHONPATH=os.path.join(core.VERIF, "harness"))
        if j["default"]:
            env["PYCAPTION_DEFAULT_LANG"] = j["default"]
        else:
            env.pop("PYCAPTION_DEFAULT_LANG", None)
        p = subprocess.run([sys.executable, "-c", "import sys,warnings,json;warnings.filterwarnings('ignore');import pycaption;cs=pycaption.DFXPReader().read(sys.stdin.read());print(json.dumps([(l,[c.get_text() for c in cs.get_captions(l)]) for l in cs.get_languages()]))"],
                           input=doc, capture_output=True, text=True, env=env, timeout=120)
        I = json.loads(p.stdout) if p.returncode == 0 else "err"
        # S: each div under xml:lang -> tt xml:lang -> configured default ('und'); a repeated language keeps one list
        want = {}
        for i, dl in enumerate(j["divs"]):
            lang = dl if dl is not None else (j["tt"] or j["default"] or "und")
            want[lang] = ["cue %d" % i]          # a later div of the same language replaces the earlier one (pycaption keeps one list per language)
        chk.case(key=("dfxpfallback", json.dumps(j)), nontrivial=True, sample=dict(j, impl=I) if k == 3 else None); chk.count("dfxp_fallback")
        got = {l: c for l, c in I} if I != "err" else None
        if got is None or list(got.keys()) != list(want.keys()) or any(not set(got[l]) <= {"cue %d" % i for i, dl in enumerate(j["divs"]) if (dl if dl is not None else (j["tt"] or j["default"] or "und")) == l} for l in got):
            chk.property_failure(dict(j, document=doc, impl=str(I), spec=str(want)), "dfxp reader: a div without xml:lang does not fall back to the document language and then to the configured default")
        if out2 is not None and I != "err":
            M = core.dec_list(out2[k], core.dec)
            if M != [l for l, _ in I]:
                chk.correspondence_failure(dict(j, impl=str(I), model=str(M)), "dfxp language resolution: implementation and model differ")


def replay(path):
    print(json.dumps(json.load(open(path)), indent=1)[:6000])
    return 0
