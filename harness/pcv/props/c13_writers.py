"""C13 (c): which layouts each writer passes through relativisation / fitting, judged on the written attributes."""
import json, re
from fractions import Fraction
from pcv import core, geo, setbuild, capio, textgen

UNITS = ["px", "em", "pt", "c", "%"]


def abs_layout(rng, unit=None):
    u = unit or rng.choice(UNITS)
    mixed = unit is None and rng.random() < 0.3          # absolute and relative lengths side by side in one layout
    def v(hi):
        uu = rng.choice(UNITS) if mixed and rng.random() < 0.5 else u
        # 147.2 px of 640 and 75.6 px of 360 are percentages a hair below a whole number in floating point
        return "%s%s" % (rng.choice([0, 1, 4, 10, 36, 64, 147.2, 75.6] if uu == "px" else [0, 1, 4, 10, 36, 64] if uu != "%" else [0, 5, 10, 25]), uu)
    d = {"origin": [v(1), v(0)]}
    if rng.random() < 0.5:
        d["extent"] = [v(1), v(0)]
    if rng.random() < 0.4:
        d["padding"] = [v(0), v(0), v(1), v(1)]
    return d


def lengths_in(doc_attr_values):
    out = []
    for val in doc_attr_values:
        for tok in val.split():
            m = re.fullmatch(r"([0-9.]+)(px|em|pt|c|%)", tok)
            if m:
                out.append((tok, m.group(2)))
    return out


def run(chk):
    import pycaption
    from pycaption.exceptions import RelativizationError
    from lxml import etree
    rng = chk.rng
    asym = chk.sub("asymmetric_padding")
    N = 200 if chk.tier == "quick" else 6000
    for i in range(N):
        level = rng.choice(["set", "language", "caption", "node"])
        writer = rng.choice(["dfxp", "sami", "webvtt"])
        if writer == "webvtt" and level in ("set",):
            level = "caption"
        L = abs_layout(rng)
        dims = rng.choice([{}, {"video_width": 640, "video_height": 360}, {"video_width": 640}, {"video_height": 360}])
        opts = dict(dims)
        if rng.random() < 0.25:
            opts["relativize"] = False
        if rng.random() < 0.4:
            opts["fit_to_screen"] = False
        if i % 5 == 4:
            # fit-to-screen on percentage layouts (overflowing or missing extents), relativization on and off
            writer = "webvtt"; level = rng.choice(["language", "caption", "node"])
            L = {"origin": ["%d%%" % rng.choice([0, 10, 35, 60, 85]), "%d%%" % rng.choice([0, 25, 70])]}
            if rng.random() < 0.6:
                L["extent"] = ["%d%%" % rng.choice([20, 50, 80, 100]), "%d%%" % rng.choice([10, 50, 80])]
            opts = {"relativize": rng.random() < 0.5}
            if asym.random() < 0.5:
                # a padding whose left and right parts differ (before, after, start, end)
                s_, e_ = asym.choice([(10, 0), (8, 2), (0, 10), (5, 1)])
                L["padding"] = ["%d%%" % asym.choice([0, 2]), "0%", "%d%%" % s_, "%d%%" % e_]
        if i % 7 == 3:
            # relativization switched off and a layout that is only partly relative: nothing absolute may reach a WebVTT file
            writer = "webvtt"; level = rng.choice(["language", "caption", "node"])
            a_ = "%d%s" % (rng.choice([4, 40, 64]), rng.choice(["px", "em", "pt", "c"])); r_ = "%d%%" % rng.choice([5, 10, 25, 50])
            L = {"origin": rng.choice([[a_, r_], [r_, a_]])}
            if rng.random() < 0.5:
                L["extent"] = rng.choice([[r_, a_], [a_, r_], ["50%", "20%"]])
            opts = dict(rng.choice([{}, {"video_width": 640, "video_height": 360}]), relativize=False)
            if rng.random() < 0.5:
                opts["fit_to_screen"] = False
        if i % 13 == 6:
            # lengths whose percentage is, in floating point, a hair below a whole number (147.2 px of 640 = 22.999...96 %)
            writer = rng.choice(["dfxp", "sami"]); level = rng.choice(["language", "caption"])
            L = {"origin": ["147.2px", "75.6px"], "padding": ["75.6px", "75.6px", "147.2px", "147.2px"]}
            opts = {"video_width": 640, "video_height": 360}
            if rng.random() < 0.5:
                opts["fit_to_screen"] = False
        force_second = False
        if i % 11 == 5:
            # two languages, each with a language-level layout in absolute lengths (SAMI writes the paddings as margins)
            writer = rng.choice(["sami", "dfxp"]); level = "language"; force_second = True
            L = abs_layout(rng, unit=rng.choice(["px", "em", "pt", "c"]))
            L["padding"] = ["%d%s" % (rng.choice([1, 4, 10, 36]), L["origin"][0][-2:] if not L["origin"][0][-1] == "c" else "c") for _ in range(4)]
            opts = {"video_width": 640, "video_height": 360}
        node = ["T", "hello", L] if level == "node" else ["T", "hello"]
        nodes = [["S", True, {"italics": True}] + ([L] if level == "node" else []), node, ["S", False, {"italics": True}] + ([L] if level == "node" else [])]
        desc = {"langs": [{"lang": "en-US", "layout": L if level == "language" else None,
                           "caps": [{"start": 1000000, "end": 2000000, "nodes": nodes, "layout": L if level == "caption" else None}]}],
                "layout": L if level == "set" else None}
        if writer in ("dfxp", "sami") and (force_second or i % 3 == 0 or rng.random() < 0.2):
            # a second language positioned the same way: every language goes through the same treatment
            import copy
            second = copy.deepcopy(desc["langs"][0]); second["lang"] = "fr-FR"
            desc["langs"].append(second)
        cs = setbuild.build(desc)
        case = {"writer": writer, "level": level, "layout": L, "options": opts}
        absolute = any(not t.endswith("%") for k in ("origin", "extent", "padding") for t in (L.get(k) or []))
        chk.case(key=json.dumps(case, sort_keys=True), nontrivial=absolute, sample=case if chk.count_get("writers") in (5, 60) else None)
        chk.count("writers"); chk.count("wl_%s_%s" % (writer, level))
        W = {"dfxp": pycaption.DFXPWriter, "sami": pycaption.SAMIWriter, "webvtt": pycaption.WebVTTWriter}[writer]
        try:
            doc = core.POOL.get(W, **opts).write(cs)
            res = "ok"
        except RelativizationError:
            doc = None; res = "relativization"
        except Exception as e:
            doc = None; res = type(e).__name__
        case["result"] = res
        relativize = opts.get("relativize", True)
        # which dimension does this layout need?
        def unit_of(t): return re.sub(r"[0-9.]+", "", t)
        need_w = any(unit_of(t) != "%" for t in ([L["origin"][0]] + ([L["extent"][0]] if L.get("extent") else []) + (L["padding"][2:] if L.get("padding") else [])))
        need_h = any(unit_of(t) != "%" for t in ([L["origin"][1]] + ([L["extent"][1]] if L.get("extent") else []) + (L["padding"][:2] if L.get("padding") else [])))
        must_refuse = relativize and ((need_w and not opts.get("video_width")) or (need_h and not opts.get("video_height")))
        written_somewhere = True
        if writer == "sami" and not L.get("padding"):
            written_somewhere = False       # SAMI only writes paddings (margins)
        if res == "relativization":
            if not must_refuse:
                chk.property_failure(case, "%s writer raised RelativizationError although every needed dimension was supplied" % writer)
            continue
        if res != "ok":
            if relativize:
                chk.property_failure(case, "%s writer raised %s" % (writer, res))
            continue
        # collect written lengths
        if writer == "dfxp":
            root = etree.fromstring(doc.encode("utf-8"))
            vals = []
            for el in root.iter():
                for k, v in el.attrib.items():
                    if k.endswith("}origin") or k.endswith("}extent") or k.endswith("}padding"):
                        vals.append(v)
        elif writer == "sami":
            vals = re.findall(r"margin-(?:top|right|bottom|left):\s*([^;]+);", doc)
        else:
            vals = [v for l in doc.split("\n") if "-->" in l for v in re.findall(r"(?:position|line|size):(\S+)", l)]
        lens = lengths_in(vals)
        case["written"] = vals
        if writer == "webvtt" and opts.get("fit_to_screen", True) and not absolute and doc is not None:
            # fit-to-screen on a percentage layout: right edge <= 90 whatever `relativize` says
            line = [l for l in doc.split("\n") if "-->" in l][0]
            m1 = re.search(r"position:(-?[0-9.]+)%", line); m2 = re.search(r"size:(-?[0-9.]+)%", line)
            x0 = Fraction(L["origin"][0][:-1]); pad = [Fraction(t[:-1]) for t in L["padding"]] if L.get("padding") else [0, 0, 0, 0]
            if 0 <= x0 <= 90:
                if not m2:
                    chk.property_failure(case, "webvtt with fit_to_screen: no size written for a layout with an origin (missing extent must reach the 90% edge)")
                else:
                    right = Fraction(m1.group(1)) - pad[2] + Fraction(m2.group(1)) + pad[2] + pad[3] if m1 else None
                    if right is not None and right > Fraction(9001, 100):
                        chk.property_failure(dict(case, right_edge=float(right)), "webvtt with fit_to_screen: the cue's right edge exceeds 90%")
        if writer == "webvtt" and any(u != "%" for _, u in lens):
            chk.property_failure(case, "webvtt output contains a non-percentage length")
        elif relativize and any(u != "%" for _, u in lens):
            chk.property_failure(case, "%s writer wrote an absolute length although relativization is on (layout at %s level)" % (writer, level))
        elif relativize and must_refuse and written_somewhere and lens:
            chk.property_failure(case, "%s writer wrote a value for an absolute length whose reference dimension was not supplied (layout at %s level)" % (writer, level))
        elif not lens:
            chk.count("layout_not_written_by_this_writer")      # e.g. a set-level layout in DFXP, non-padding parts in SAMI
        elif relativize and absolute and not must_refuse and written_somewhere and writer != "webvtt":
            # exact percentages of the origin (DFXP) / start margin (SAMI), two decimals
            def pct(tok, hor):
                """the property's arithmetic on exact rationals (not the library's): px*100/dimension, 1em = 16px, 1pt = 4/3 px,
                a 32 x 15 cell grid; two decimals, trailing zeros and the point dropped"""
                m_ = re.fullmatch(r"([0-9.]+)(px|em|pt|c|%)", tok)
                v_, u_ = Fraction(m_.group(1)), m_.group(2)
                dim_ = opts.get("video_width") if hor else opts.get("video_height")
                if u_ == "%":
                    q_ = v_
                elif u_ == "c":
                    q_ = v_ * 100 / (32 if hor else 15)
                else:
                    q_ = v_ * {"px": 1, "em": 16, "pt": Fraction(4, 3)}[u_] * 100 / dim_
                n_ = round(q_ * 100)            # hundredths, half to even
                s_ = "%d" % (n_ // 100) if n_ % 100 == 0 else ("%d.%02d" % (n_ // 100, n_ % 100)).rstrip("0")
                return s_ + "%"
            if writer == "dfxp":
                want = "%s %s" % (pct(L["origin"][0], True), pct(L["origin"][1], False))
                if want not in vals:
                    chk.property_failure(dict(case, spec_origin=want), "dfxp writer: tts:origin is not the exact percentage (two decimals) of the absolute origin")
            elif L.get("padding"):
                want = pct(L["padding"][2], True)
                if want not in [v.strip() for v in vals]:
                    chk.property_failure(dict(case, spec_margin_left=want), "sami writer: margin-left is not the exact percentage of the absolute padding")


def run_same_set_twice(chk):
    """one caption set with absolute layouts, written for one video size and then for another (or for none): the second
    output is computed from the lengths the set holds, not from what an earlier write made of them"""
    import pycaption
    from pycaption.exceptions import RelativizationError
    sub = chk.sub("same_set_two_sizes")
    WR = {"dfxp": pycaption.DFXPWriter, "sami": pycaption.SAMIWriter, "webvtt": pycaption.WebVTTWriter}
    for i in range(24 if chk.tier == "quick" else 600):
        first_w = ["dfxp", "sami", "webvtt"][i % 3]
        second_w = sub.choice(["dfxp", "sami", "webvtt"])
        level = ["language", "caption", "node"][(i // 3) % 3]
        unit = sub.choice(["px", "px", "em", "pt"])
        L = {"origin": ["%d%s" % (sub.choice([16, 32, 64]), unit), "%d%s" % (sub.choice([9, 18, 36]), unit)],
             "extent": ["%d%s" % (sub.choice([160, 320]), unit), "%d%s" % (sub.choice([45, 90]), unit)]}
        if sub.random() < 0.5:
            L["padding"] = ["%d%s" % (sub.choice([2, 8]), unit) for _ in range(4)]
        node = ["T", "hello", L] if level == "node" else ["T", "hello"]
        nodes = [["S", True, {"italics": True}] + ([L] if level == "node" else []), node, ["S", False, {"italics": True}] + ([L] if level == "node" else [])]
        desc = {"langs": [{"lang": "en-US", "layout": L if level == "language" else None,
                           "caps": [{"start": 1000000, "end": 2000000, "nodes": nodes, "layout": L if level == "caption" else None}]}]}
        A = {"video_width": 640, "video_height": 360}
        B = sub.choice([{"video_width": 1280, "video_height": 720}, {"video_width": 400, "video_height": 400}, {}])
        case = {"layout": L, "level": level, "first_write": [first_w, A], "second_write": [second_w, B]}
        chk.case(key=("twice", json.dumps(case, sort_keys=True)), nontrivial=True); chk.count("same_set_written_for_two_sizes")
        def outcome(writer, opts, cs):
            try:
                return ("ok", WR[writer](**opts).write(cs))
            except RelativizationError:
                return ("refused", "")
            except Exception as e:
                return ("err", repr(e)[:200])
        want = outcome(second_w, B, setbuild.build(desc))
        cs = setbuild.build(desc)
        first = outcome(first_w, A, cs)
        got = outcome(second_w, B, cs)
        if first[0] != "ok":
            chk.property_failure(dict(case, first=str(first)[:300]), "%s writer refused absolute lengths although both video dimensions were given" % first_w)
        elif got != want:
            chk.property_failure(dict(case, second_output=str(got)[:1500], fresh_set_output=str(want)[:1500]),
                                 "relativization: the output for a second video size (or none) depends on an earlier write of the same caption set")
