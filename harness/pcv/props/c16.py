"""C16 — roll-up and paint-on SCC text is conserved and ordered."""
import json
from fractions import Fraction
from pcv import core, sccgen
from pcv.props import scc_common as sc

P = "PcVerif.Props.C16."
THEOREMS = [P + t for t in ["toCaps_conserves_text", "correctLast_only_times", "setEnd_preserves_nodes", "store_conserves_text", "rollUp_conserves_text", "addChars_appends_text", "word_basic_held", "word_cr_held", "word_cr_repeated_held", "rollup_stream_conserves", "rollup_rows_contiguous", "stored_captions_carry_times"]]
TOL = Fraction(1, 1024)


def make(tier, seed):
    c = core.Check("C16", tier, seed, "PcVerif.Props.C16", THEOREMS)
    c.rule = ("roll-up (RU2/RU3/RU4) and paint-on programs: 1-8 rows of random words on random row addresses and indents, single/doubled codes, drop/non-drop "
              "timecode, inter-line gaps 10-90 frames; distinct = distinct SCC text; non-trivial = at least two rows")
    return c


def explore(chk):
    rng = chk.rng
    N = 400 if chk.tier == "quick" else 10000
    progs = [sccgen.gen_rollup(rng, paint=(i % 3 == 2), rich=(i % 2 == 1)) for i in range(N)]
    progs += [sccgen.gen_mixed(rng, rich=(i % 2 == 1)) for i in range(N // 4)]
    # rows holding the basic set's non-ASCII cells (accented letters, the division sign), in all modes
    asub = chk.sub("basic_set_non_ascii_cells")
    sccgen.ACCENT_RNG = asub
    try:
        progs += [sccgen.gen_rollup(asub, paint=(i % 2 == 1), rich=(i % 4 == 3)) for i in range(N // 10)]
        progs += [sccgen.gen_mixed(asub) for i in range(N // 40)]
    finally:
        sccgen.ACCENT_RNG = None
    # paint-on cues painted on consecutive rows under ONE resume-direct-captioning command, a later row beginning with an
    # extended character sent without a stand-in (nothing is on that row yet, so nothing is replaced)
    xsub = chk.sub("paint_rows_starting_with_extended")
    K_ = sccgen.tables()
    ext_ = sorted(K_.EXTENDED_CHARS.items())
    for i in range(12 if chk.tier == "quick" else 300):
        doubled = bool(i % 2); df = bool((i // 2) % 2)
        lines = ["Scenarist_SCC V1.0", ""]; rows = []; frame = xsub.choice([30, 900])
        for _ in range(xsub.randint(1, 2)):
            r0 = xsub.randint(1, 12); nrows = xsub.randint(2, 3)
            words = [sccgen.CMD["RDC"]] * (2 if doubled else 1)
            for k in range(nrows):
                txt = " ".join("".join(xsub.choice(sccgen.SAFE_CHARS[:52]) for _ in range(xsub.randint(2, 6))) for _ in range(xsub.randint(1, 3)))
                if xsub.random() < 0.3:
                    txt = xsub.choice([" ", " - "]) + txt          # a transmitted blank used as a one-column indent
                words += [sccgen.pac(r0 + k, 0)] * (2 if doubled else 1)
                if k and xsub.random() < 0.7:
                    w_, ch_ = xsub.choice(ext_)
                    words += [w_] * (2 if doubled else 1)
                    words += sccgen.chars_to_words(txt)
                    rows.append({"text": ch_ + txt, "frame": frame, "words": 0})
                else:
                    words += sccgen.chars_to_words(txt)
                    rows.append({"text": txt, "frame": frame, "words": 0})
            lines += [sccgen.timecode(frame, df) + "\t" + " ".join(words), ""]
            frame += len(words) + xsub.choice([30, 90])
        progs.append({"mode": "paint", "text": "\n".join(lines) + "\n", "rows": rows, "df": df, "doubled": doubled, "offset": 0, "ru_once": False,
                      "exact_lines": [r_["text"].rstrip() for r_ in rows]})
    # roll-up rows that are sent in two pieces (a second preamble for the same row further right): both pieces carry the row's times,
    # also when the row is the last of the stream
    for i in range(10 if chk.tier == "quick" else 200):
        doubled = bool(i % 2); df = bool((i // 2) % 2)
        lines = ["Scenarist_SCC V1.0", ""]; rows = []; frame = xsub.choice([30, 900])
        nrows = xsub.randint(1, 3)
        for k in range(nrows):
            a_ = "".join(xsub.choice(sccgen.SAFE_CHARS[:52]) for _ in range(xsub.randint(2, 5)))
            words = ([sccgen.CMD["RU2"]] * (2 if doubled else 1) if k == 0 or xsub.random() < 0.5 else [])
            words += [sccgen.CMD["CR"]] * (2 if doubled else 1) + [sccgen.pac(15, 0)] * (2 if doubled else 1) + sccgen.chars_to_words(a_)
            rows.append({"text": a_, "frame": frame, "words": 0})
            if k == nrows - 1 or xsub.random() < 0.3:
                b_ = "".join(xsub.choice(sccgen.SAFE_CHARS[:52]) for _ in range(xsub.randint(2, 5)))
                words += [sccgen.pac(15, xsub.choice([16, 20, 24]))] * (2 if doubled else 1) + sccgen.chars_to_words(b_)
                rows.append({"text": b_, "frame": frame, "words": 0, "same_cue": True})
            lines += [sccgen.timecode(frame, df) + "\t" + " ".join(words), ""]
            frame += len(words) + xsub.choice([30, 90])
        progs.append({"mode": "roll", "text": "\n".join(lines) + "\n", "rows": rows, "df": df, "doubled": doubled, "offset": 0, "ru_once": False})
    b = core.Batch()
    ops = [b.add("scc.read", "0/1", core.enc(p["text"])) for p in progs]
    out = b.run() if chk.driver_ok else None
    # a reader object that has been used before, once with simulate_roll_up=True: later default reads on it are judged
    # like any other read (the option belongs to one call)
    import pycaption
    used = pycaption.SCCReader()
    try:
        used.read(progs[0]["text"], simulate_roll_up=True)
    except Exception:
        pass
    for pi_, (p, o) in enumerate(zip(progs, ops)):
        I = sc.impl_read(p["text"], reader=used if pi_ % 5 == 0 else None)
        case = {"scc": p["text"], "mode": p["mode"], "reader": "used before (once with simulate_roll_up=True)" if pi_ % 5 == 0 else "fresh",
                "rows": [r["text"] for r in p["rows"]],
                "impl": str(I[:2]) if I[0] == "err" else str([(float(c[0]), float(c[1]), ["".join(ch for ch, _ in l) for l in c[2]]) for c in I[1]])}
        chk.case(key=p["text"], nontrivial=len(p["rows"]) > 1, sample=case if chk.count_get("n") in (1, 30) else None)
        chk.count("n"); chk.count("mode_" + p["mode"])
        if I[0] != "ok":
            chk.property_failure(case, "well-formed %s stream not read (%s)" % (p["mode"], I[1]))
        else:
            caps = I[1]
            sent = "".join(ch for r in p["rows"] for ch in r["text"] if not ch.isspace())
            got = "".join(ch for c in caps for line in c[2] for ch, _ in line if not ch.isspace())
            if got != sent:
                chk.property_failure(dict(case, spec=sent, parsed=got), "transmitted characters are not conserved exactly once in transmission order")
            elif p.get("exact_lines") is not None and ["".join(ch for ch, _ in line).rstrip() for c in caps for line in c[2]] != p["exact_lines"]:
                chk.property_failure(dict(case, spec=p["exact_lines"], parsed=["".join(ch for ch, _ in line) for c in caps for line in c[2]]),
                                     "the rows of a paint-on cue do not come back as the lines that were sent (blanks at the start of a row included)")
            else:
                per_cap = ["".join(ch for line in c[2] for ch, _ in line if not ch.isspace()) for c in caps]
                for r in p["rows"]:
                    t = "".join(ch for ch in r["text"] if not ch.isspace())
                    if not any(t in pc for pc in per_cap):
                        chk.property_failure(dict(case, row=r["text"]), "the text of a transmitted row is split across captions")
                        break
            # captions with the same start are the parts of one cue (rows that are not adjacent): they share their end too;
            # from one cue to the next: ordered by start, and the end of one is the start of the next
            groups = []
            for c in caps:
                if groups and abs(groups[-1][0][0] - c[0]) <= TOL:
                    groups[-1].append(c)
                else:
                    groups.append([c])
            for k, g_ in enumerate(groups):
                if any(not c[0] < c[1] for c in g_):
                    chk.property_failure(dict(case, cue=k), "a caption does not have start < end")
                    break
                if any(abs(c[1] - g_[0][1]) > TOL for c in g_):
                    chk.property_failure(dict(case, cue=k), "the captions made from one cue (same start) do not share their end")
                    break
                if k + 1 < len(groups) and (groups[k + 1][0][0] < g_[0][0] or abs(g_[0][1] - groups[k + 1][0][0]) > TOL):
                    chk.property_failure(dict(case, cue=k), "captions are not contiguous (end of one != start of the next) or not ordered by start")
                    break
        if out is not None:
            d = sc.compare_impl_model(I, sc.dec_model(out[o]))
            if d:
                chk.correspondence_failure(dict(case, model=out[o][:500], diff=d), "SCC reader: implementation and model differ")


def replay(path):
    r = json.load(open(path)); c = r.get("case", {})
    if "scc" in c:
        print(c["scc"]); print("impl:", sc.impl_read(c["scc"])[:2])
    else:
        print(json.dumps(r, indent=1)[:3000])
    return 0
