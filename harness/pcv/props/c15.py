"""C15 — SCC lines longer than 32 characters are never returned silently."""
import json
from pcv import core, sccgen
from pcv.props import scc_common as sc

P = "PcVerif.Props.C15."
THEOREMS = [P + t for t in ["scan_keys_nodup", "scan_collects_all", "scan_raises_iff_long_line", "scan_holds_each", "scan_holds_only", "message_names", "error_names_each_offending_line"]]


def make(tier, seed):
    c = core.Check("C15", tier, seed, "PcVerif.Props.C15", THEOREMS)
    c.rule = ("SCC streams in all three caption modes with rows of 0-40 basic characters; pop-on captions with 1-4 rows where non-adjacent rows yield several "
              "captions sharing one start time, every long/short pattern over up to 4 same-start captions in every order (exhaustive), random beyond; "
              "distinct = distinct SCC text; non-trivial = some row longer than 32 characters")
    return c


def plain_row(rng, row, n):
    text = "".join(rng.choice(sccgen.SAFE_CHARS[:62]) for _ in range(n))
    if n >= 3 and rng.random() < 0.3:
        # blank cells at the start of the row (and sometimes inside) are cells like any other
        k = rng.randint(1, 2)
        text = " " * k + text[k:]
        if rng.random() < 0.5:
            j = rng.randint(k + 1, n - 2) if n - 2 >= k + 1 else None
            if j:
                text = text[:j] + " " + text[j + 1:]
    return {"row": row, "indent": 0, "tab": 0, "italic_pac": False, "items": [("c", ch) for ch in text]}, text


def styled_row(rng, row, n):
    """a row of n displayable columns that contains mid-row style codes (each occupies one blank column)"""
    items = []; text = ""
    k = 0
    while len(text) < n:
        if k and rng.random() < 0.25 and len(text) + 2 <= n:
            items.append(("mid", rng.random() < 0.5)); text += " "
        ch = rng.choice(sccgen.SAFE_CHARS[:62]); items.append(("c", ch)); text += ch; k += 1
    return {"row": row, "indent": 0, "tab": 0, "italic_pac": False, "items": items}, text


def popon_text(rows_per_cap, doubled=False, df=False):
    lines = ["Scenarist_SCC V1.0", ""]
    frame = 30
    for rows in rows_per_cap:
        words = [sccgen.CMD["ENM"], sccgen.CMD["RCL"]]
        if doubled:
            words = [w for w in words for _ in range(2)]
        for row in rows:
            words += sccgen.row_words(row, doubled)
        words += [sccgen.CMD["EOC"]] * (2 if doubled else 1)
        lines += [sccgen.timecode(frame, df) + "\t" + " ".join(words), ""]
        frame += len(words) + 90
        lines += [sccgen.timecode(frame, df) + "\t" + sccgen.CMD["EDM"], ""]
        frame += 30
    return "\n".join(lines) + "\n"


def explore(chk):
    import itertools
    rng = chk.rng
    cases = []
    # exhaustive long/short patterns over up to 4 captions that share a start time (non-adjacent rows of one pop-on caption)
    for k in range(1, 5):
        for pattern in itertools.product([False, True], repeat=k):
            rows = []; texts = []
            for j, long_ in enumerate(pattern):
                r, t = plain_row(rng, 1 + 3 * j, rng.randint(33, 40) if long_ else rng.randint(1, 32))
                rows.append(r); texts.append(t)
            cases.append((popon_text([rows]), [texts], "pop-same-start"))
    # long programmes: the offending row comes only after many well-formed cues (and sometimes more follow it)
    for k in ([0, 3, 24, 25, 26, 40, 90] if chk.tier == "quick" else [0, 1, 3, 10, 24, 25, 26, 27, 40, 64, 90, 150]):
        for after in (0, 5):
            caps = []; alltexts = []
            for j in range(k + 1 + after):
                n = rng.randint(33, 38) if j == k else rng.randint(3, 20)
                row, t = plain_row(rng, rng.choice([1, 8, 15]), n)
                caps.append([row]); alltexts.append([t])
            cases.append((popon_text(caps, doubled=bool(k % 2)), alltexts, "pop-long-programme"))
    # two captions sent on two lines that carry the same time code (the first is replaced in the frame it came up in): whether
    # the error is raised depends on the row lengths only -- long row first or last, all three modes
    same_sub = chk.sub("same_time_code_lines")
    for mode_ in ("pop", "paint", "roll"):
        for long_first in (True, False, None):
            n_long = same_sub.choice([33, 34, 40]); n_short = same_sub.choice([5, 20, 32])
            ta = "".join(same_sub.choice(sccgen.SAFE_CHARS[:62]) for _ in range(n_long if long_first else n_short))
            tb = "".join(same_sub.choice(sccgen.SAFE_CHARS[:62]) for _ in range(n_short if long_first in (True, None) else n_long))
            def line_(tx):
                if mode_ == "pop":
                    body = [sccgen.CMD["RCL"], sccgen.CMD["ENM"], sccgen.pac(15)] + sccgen.chars_to_words(tx)
                    return " ".join(body + ["8080"] * (40 - len(body)) + [sccgen.CMD["EOC"]])
                if mode_ == "paint":
                    return " ".join([sccgen.CMD["RDC"], sccgen.pac(15)] + sccgen.chars_to_words(tx))
                return " ".join([sccgen.CMD["RU2"], sccgen.CMD["CR"], sccgen.pac(15)] + sccgen.chars_to_words(tx))
            tc = sccgen.timecode(60, False)
            text_ = "\n".join(["Scenarist_SCC V1.0", "", tc + "\t" + line_(ta), "", tc + "\t" + line_(tb), "", sccgen.timecode(400, False) + "\t" + sccgen.CMD["EDM"], ""]) + "\n"
            cases.append((text_, [[ta], [tb]], mode_ + "-same-time-code"))
    # captions of many adjacent rows (more than a screen shows at once; the reader keeps them as lines of one caption): the long
    # row is any of them, the fifth and later ones included
    many_sub = chk.sub("many_adjacent_rows")
    for nrows in (5, 6, 8, 12):
        for pos in sorted({0, 3, 4, nrows - 1}):
            for long_ in (True, False):
                r0 = many_sub.randint(1, 15 - nrows + 1)
                rows = []; texts = []
                for j in range(nrows):
                    r, t_ = plain_row(many_sub, r0 + j, many_sub.choice([33, 36, 40]) if (long_ and j == pos) else many_sub.choice([3, 12, 32]))
                    rows.append(r); texts.append(t_)
                cases.append((popon_text([rows]), [texts], "pop-many-rows"))
                if nrows <= 8:
                    lines_ = ["Scenarist_SCC V1.0", ""]
                    words_ = [sccgen.CMD["RDC"]]
                    for j, t_ in enumerate(texts):
                        words_ += [sccgen.pac(r0 + j)] + sccgen.chars_to_words(t_)
                    lines_ += [sccgen.timecode(30, False) + "\t" + " ".join(words_), "", sccgen.timecode(30 + len(words_) + 60, False) + "\t" + sccgen.CMD["EDM"], ""]
                    cases.append(("\n".join(lines_) + "\n", [texts], "paint-many-rows"))
    # rows whose characters are not all ASCII (accented letters of the basic set, special characters such as the music note):
    # a row is as long as the number of its cells, whatever stands in them -- the long rows here have no ASCII stretch over 32
    nsub = chk.sub("non_ascii_rows")
    K_ = sccgen.tables()
    specials_ = [(w, ch) for w, ch in sorted(K_.SPECIAL_CHARS.items()) if ch.strip() and len(ch) == 1]
    for mode_ in ("pop", "paint", "roll"):
        for n in (32, 33, 36, 40):
            for kind in ("basic", "special"):
                items = []; text = ""
                while len(text) < n:
                    if len(text) % 11 == 7:
                        if kind == "basic":
                            ch = nsub.choice("áéíóúç÷Ññ"); items.append(("c", ch))
                        else:
                            w_, ch = nsub.choice(specials_); items.append(("s", w_, ch))
                    else:
                        ch = nsub.choice(sccgen.SAFE_CHARS[:52]); items.append(("c", ch))
                    text += ch
                row = {"row": 15, "indent": 0, "tab": 0, "italic_pac": False, "items": items}
                if mode_ == "pop":
                    cases.append((popon_text([[row]]), [[text]], "pop-non-ascii"))
                else:
                    head = [sccgen.CMD["RDC"]] if mode_ == "paint" else [sccgen.CMD["RU2"], sccgen.CMD["CR"]]
                    words_ = head + sccgen.row_words(row, False)
                    doc_ = "\n".join(["Scenarist_SCC V1.0", "", sccgen.timecode(30, False) + "\t" + " ".join(words_), "",
                                      sccgen.timecode(30 + len(words_) + 60, False) + "\t" + sccgen.CMD["EDM"], ""]) + "\n"
                    cases.append((doc_, [[text]], mode_ + "-non-ascii"))
    N = 300 if chk.tier == "quick" else 8000
    for i in range(N):
        mode = rng.choice(["pop", "pop", "roll", "paint"])
        if mode == "pop":
            caps = []; alltexts = []
            for _ in range(rng.randint(1, 3)):
                rows = []; texts = []
                r = rng.randint(1, 4)
                for _ in range(rng.randint(1, 4)):
                    n = rng.choice([0, 1, 10, 31, 32, 33, 34, 40, 20])
                    if n == 0:
                        continue
                    row, t = (styled_row if rng.random() < 0.35 else plain_row)(rng, r, n); rows.append(row); texts.append(t)
                    r += rng.choice([1, 1, 2, 3])
                    if r > 15:
                        break
                if rows:
                    caps.append(rows); alltexts.append(texts)
            if not caps:
                continue
            cases.append((popon_text(caps, doubled=rng.random() < 0.5, df=rng.random() < 0.5), alltexts, "pop"))
        else:
            p = sccgen.gen_rollup(rng, paint=(mode == "paint"))
            # lengthen some rows beyond 32
            lines = ["Scenarist_SCC V1.0", ""]; frame = 30; texts = []
            for k in range(rng.randint(1, 5)):
                n = rng.choice([5, 20, 31, 32, 33, 36, 40])
                t = "".join(rng.choice(sccgen.SAFE_CHARS[:62]) for _ in range(n))
                words = ([sccgen.CMD["RDC"], sccgen.pac(rng.randint(1, 15))] if mode == "paint" else [sccgen.CMD["RU2"], sccgen.CMD["CR"], sccgen.pac(15)]) + sccgen.chars_to_words(t)
                lines += [sccgen.timecode(frame, False) + "\t" + " ".join(words), ""]
                frame += len(words) + 40; texts.append(t)
            cases.append(("\n".join(lines) + "\n", [[t] for t in texts], mode))
    b = core.Batch()
    ops = [b.add("scc.read", "0/1", core.enc(text)) for (text, _, _) in cases]
    out = b.run() if chk.driver_ok else None
    for (text, texts, mode), o in zip(cases, ops):
        I = sc.impl_read(text)
        long_lines = [t for cap in texts for t in cap if len(t) > 32]
        case = {"scc": text, "mode": mode, "row_lengths": [[len(t) for t in cap] for cap in texts], "impl": str(I[:2]) if I[0] == "err" else "ok"}
        chk.case(key=text, nontrivial=bool(long_lines), sample=case if chk.count_get("n") in (2, 20) else None)
        chk.count("n"); chk.count("mode_" + mode); chk.count("outcome_" + (I[1] if I[0] == "err" else "ok"))
        if I[0] == "ok":
            got_long = [l for c in I[1] for l in ["".join(ch for ch, _ in line) for line in c[2]] if len(l) > 32]
            if got_long:
                chk.property_failure(dict(case, returned_long_lines=got_long), "captions with a line longer than 32 characters were returned silently")
            elif long_lines:
                chk.property_failure(dict(case, spec="CaptionLineLengthError naming %r" % long_lines), "a transmitted row longer than 32 characters did not raise the line-length error")
        elif I[1] == "lineLength":
            if not long_lines:
                chk.property_failure(case, "line-length error although no line is longer than 32 characters")
            else:
                missing = [l for l in long_lines if (l + " - Length %d" % len(l)) not in I[2]]
                if missing:
                    chk.property_failure(dict(case, message=I[2], missing=missing), "the line-length error does not name every offending line")
        elif I[1] not in ("timingError",):
            chk.property_failure(case, "unexpected outcome %s" % I[1])
        if out is not None:
            d = sc.compare_impl_model(I, sc.dec_model(out[o]))
            if d:
                chk.correspondence_failure(dict(case, model=out[o][:500], diff=d), "SCC reader: implementation and model differ")


def explore_simulated(chk):
    """reads with simulate_roll_up=True (not modelled; the property's own wording is the judge): a short roll-up passage, then a
    pop-on caption whose row is or is not longer than 32 characters"""
    import pycaption
    from pycaption.exceptions import CaptionLineLengthError
    sub = chk.sub("simulate_roll_up_reads")
    for i in range(12 if chk.tier == "quick" else 300):
        depth = ["RU2", "RU3", "RU4"][i % 3]
        lines = ["Scenarist_SCC V1.0", ""]; frame = 30
        for k in range(sub.randint(1, 3)):
            t_ = "".join(sub.choice(sccgen.SAFE_CHARS[:52]) for _ in range(sub.randint(2, 6)))
            words = ([sccgen.CMD[depth]] if k == 0 or sub.random() < 0.5 else []) + [sccgen.CMD["CR"], sccgen.pac(15)] + sccgen.chars_to_words(t_)
            lines += [sccgen.timecode(frame, False) + "\t" + " ".join(words), ""]; frame += len(words) + 40
        n = sub.choice([10, 32, 33, 36, 40]) if i % 2 else sub.choice([33, 36, 40])
        row, text = plain_row(sub, sub.choice([1, 8, 15]), n)
        words = [sccgen.CMD["RCL"], sccgen.CMD["ENM"]] + sccgen.row_words(row, False) + [sccgen.CMD["EOC"]]
        lines += [sccgen.timecode(frame, False) + "\t" + " ".join(words), ""]; frame += len(words) + 90
        lines += [sccgen.timecode(frame, False) + "\t" + sccgen.CMD["EDM"], ""]
        doc = "\n".join(lines) + "\n"
        case = {"scc": doc, "mode": "roll-up then pop-on, simulate_roll_up=True", "pop_on_row_length": len(text)}
        chk.case(key=("simulated", doc), nontrivial=len(text) > 32); chk.count("simulate_roll_up_reads")
        try:
            cs = pycaption.SCCReader().read(doc, simulate_roll_up=True)
            outcome = ("ok", [l for c in cs.get_captions(cs.get_languages()[0]) for l in c.get_text().split("\n")])
        except CaptionLineLengthError as e:
            outcome = ("lineLength", e.args[0])
        except Exception as e:
            outcome = ("err", repr(e)[:200])
        if outcome[0] == "err":
            chk.property_failure(dict(case, outcome=str(outcome)), "reading with simulate_roll_up=True raised an unexpected error")
        elif len(text) > 32 and outcome[0] == "ok":
            chk.property_failure(dict(case, returned_lines=outcome[1]), "with simulate_roll_up=True a row longer than 32 characters was returned silently")
        elif len(text) > 32 and (text + " - Length %d" % len(text)) not in outcome[1]:
            chk.property_failure(dict(case, message=outcome[1]), "the line-length error does not name the offending line")
        elif len(text) <= 32 and outcome[0] == "lineLength":
            chk.property_failure(dict(case, message=outcome[1]), "line-length error although no row is longer than 32 characters")


_explore_main = explore


def explore(chk):
    _explore_main(chk)
    explore_simulated(chk)


def replay(path):
    r = json.load(open(path)); c = r.get("case", {})
    if "scc" in c:
        print(c["scc"]); print("impl:", sc.impl_read(c["scc"])[:3]); print("spec:", c.get("spec"))
    else:
        print(json.dumps(r, indent=1)[:3000])
    return 0
