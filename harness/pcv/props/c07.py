"""C07 — DFXP output is well-formed XML and internally consistent."""
import json, re
from pcv import core, capio, setbuild, textgen

P = "PcVerif.Props.C07."
THEOREMS = [P + t for t in ["default_ids_pinned", "region_ids_distinct", "region_refs_resolve", "regions_all_referenced", "escape_content_wf", "nextFree_free", "fresh_ids_spec", "default_region_id_free", "region_map_ids"]]
XMLNS = "{http://www.w3.org/XML/1998/namespace}"
TT = "{http://www.w3.org/ns/ttml}"
NASTY = ["a&b", "x<y", 'say "hi"', "it's", "1>0", "&amp;", "<b>", "]]>", "ok", "plain", "é", "#ff0000", "white", "10pt", "Arial, sans-serif", "AT&T;", "&nbsp;", "&#xZZ;", "&copy;", "R&D; x", "&#38;", "&lt;"]


def make(tier, seed):
    c = core.Check("C07", tier, seed, "PcVerif.Props.C07", THEOREMS)
    c.rule = ("caption sets (a) returned by every reader on generated documents and (b) built through the API with printable-Unicode texts incl. XML "
              "metacharacters, style dictionaries, class names, language codes, layouts at every level, balanced style nodes; DFXPWriter / "
              "SinglePositioningDFXPWriter / LegacyDFXPWriter with relativize, fit_to_screen, video size, write_inline_positioning, force; output parsed with "
              "lxml (no recovery) and checked for div/p structure, reference resolution, id uniqueness and unused regions; distinct = distinct (set, writer, options); "
              "non-trivial = a metacharacter occurs or more than one region/style is defined")
    c.predicates = {"metachar_in_attribute_value": pred_attr_meta, "class_name_not_a_name": pred_class}
    return c


def attr_strings(desc):
    out = []
    for L in desc["langs"]:
        out.append(L["lang"])
        for c in L["caps"]:
            out += [str(v) for v in (c.get("style") or {}).values()]
            for n in c["nodes"]:
                if n[0] == "S":
                    out += [str(v) for v in n[2].values()]
    for k, st in (desc.get("styles") or {}).items():
        out.append(k)
        out += [str(v) for v in st.values()]
    return out


def pred_attr_meta(case):
    """an '&', '<' or '"' occurs in a language code, style value or class name (emitted raw into an attribute)"""
    return any(any(ch in s for ch in '&<"') for s in case.get("attribute_strings", []))


def pred_class(case):
    return False


def gen_api_desc(rng, nasty_attrs, ent_rng=None):
    d = setbuild.rand_desc(rng, unbalanced=0.0, absolute=0.0, style_layout=0.3)
    if rng.random() < 0.2:
        # properly nested spans (what the SAMI reader returns for <i>a <b>b</b> c</i>): a style DFXP cannot express inside
        # one it can, and the other way round
        outer, inner = rng.choice([({"italics": True}, {"bold": True}), ({"italics": True}, {"underline": True}), ({"bold": True}, {"italics": True}),
                                   ({"color": "red"}, {"bold": True}), ({"italics": True}, {"class": "nosuchclass"})])
        c = d["langs"][0]["caps"][0]
        c["nodes"] = [["S", True, dict(outer)], ["T", "a "], ["S", True, dict(inner)], ["T", "b"], ["S", False, dict(inner)], ["T", " c"],
                      ["S", False, dict(outer)], ["B"], ["T", "d"]]
    for L in d["langs"]:
        for c in L["caps"]:
            for n in c["nodes"]:
                if n[0] == "T" and rng.random() < 0.5:
                    n[1] = " ".join(rng.choice(NASTY) for _ in range(rng.randint(1, 3)))
                if n[0] == "S" and rng.random() < 0.3:
                    # a span with an alignment / colour of its own (next to whatever layout it carries)
                    n[2] = dict(n[2], **rng.choice([{"text-align": "center"}, {"text-align": "right", "color": "yellow"}, {"color": "#00ff00"}]))
                    if nasty_attrs and rng.random() < 0.6:
                        # XML metacharacters in the attribute values of a hand-built <span>
                        n[2] = dict(n[2], **rng.choice([{"font-family": '"Courier New", monospace'}, {"color": 'a"b'}, {"font-family": "R&D <sans>"},
                                                        {"color": "it's"}]))
            if rng.random() < 0.4:
                c["style"] = {"class": rng.choice(["p", "b1", "cls"]), "color": rng.choice(["white", "#ff0000"]), "font-family": rng.choice(["Arial", "monospace"])}
    d["styles"] = rng.choice([{}, {"p": {"color": "white", "font-size": "10pt"}}, {"p": {"text-align": "center"}, "b1": {"italics": True, "font-family": "Arial"}, "cls": {"color": "#00ff00"}}])
    if rng.random() < 0.15:
        # class names that look like the ids the writers generate themselves
        names = rng.sample(["bottom", "r0", "r1", "default"], 2)
        d["styles"] = {names[0]: {"color": "white"}, names[1]: {"italics": True, "color": "red"}}
        for L in d["langs"]:
            for c in L["caps"]:
                if rng.random() < 0.5:
                    c["style"] = {"class": rng.choice(names)}
    if rng.random() < 0.15:
        # a class that names no style of the set but is spelled like an id the writer hands out to a region
        for L in d["langs"]:
            for c in L["caps"]:
                if rng.random() < 0.5:
                    c["style"] = dict(c.get("style") or {}, **{"class": rng.choice(["bottom", "r0", "r1", "nosuch"])})
                for n in c["nodes"]:
                    if n[0] == "S" and n[1] and rng.random() < 0.4:
                        n[2] = dict(n[2], **{"class": rng.choice(["bottom", "r0", "r1"])})
        for gone in ("bottom", "r0", "r1", "nosuch"):
            d["styles"].pop(gone, None)
    if nasty_attrs:
        # at least one style node of the set carries a value with XML metacharacters (a double quote among them): the writer
        # builds the <span> start tag by hand
        svals = [{"font-family": '"Courier New", monospace'}, {"color": 'a"b'}, {"font-family": "R&D <sans>"}, {"font-family": 'x"y\'z'}]
        snodes = [n for L in d["langs"] for c in L["caps"] for n in c["nodes"] if n[0] == "S" and n[1]]
        if snodes:
            snodes[0][2] = dict(snodes[0][2], **rng.choice(svals[:2]))
        else:
            c0 = d["langs"][0]["caps"][0]
            c0["nodes"] = [["S", True, dict(rng.choice(svals))]] + c0["nodes"] + [["S", False, {}]]
            c0["nodes"][-1][2] = dict(c0["nodes"][0][2])
        k = rng.random()
        if k < 0.35:
            d["langs"][0]["lang"] = rng.choice(["en&fr", "x<y", 'a"b'])
        elif k < 0.7:
            st = d["styles"] or {"p": {}}
            st[list(st.keys())[0]]["font-family"] = rng.choice(['"Courier New", x', "a&b", "x<y"])
            d["styles"] = st
        else:
            d["langs"][0]["caps"][0]["style"] = {"color": rng.choice(['a"b', "r&b"]), "class": "p"}
            d["styles"] = d["styles"] or {"p": {"color": "white"}}
    if nasty_attrs and ent_rng is not None:
        # values that are spelled like entity references in the attributes the XML library writes (style values on <style> and <p>): the `&` of `R&D;` is a literal character like any other
        nm = ent_rng.choice(["entlike", "rnd"])          # (an xml:id must be a name; the values are free text)
        d["styles"] = dict(d.get("styles") or {}, **{nm: {"font-family": ent_rng.choice(["Tom&Jerry;, serif", "&copy; Sans", "x&lt;y"]), "color": "white"}})
        c_ = d["langs"][0]["caps"][0]
        c_["style"] = {"class": nm, "font-family": ent_rng.choice(["Black&White;", "plain"])}
    return d


def check_doc(doc, nlangs_expected, ncaps_expected):
    from lxml import etree
    root = etree.fromstring(doc.encode("utf-8"))
    if root.tag != TT + "tt":
        return "root element is not tt in the TTML namespace"
    divs = list(root.iter(TT + "div"))
    if [d.get(XMLNS + "lang") for d in divs] != nlangs_expected:
        return "divs are not one per written language (%r)" % [d.get(XMLNS + "lang") for d in divs]
    for d, n in zip(divs, ncaps_expected):
        ps = list(d.iter(TT + "p"))
        if len(ps) != n:
            return "a div has %d p elements for %d captions" % (len(ps), n)
        for p in ps:
            if not p.get("begin") or not p.get("end"):
                return "a p lacks begin or end"
    head = root.find(TT + "head")
    styles = [s.get(XMLNS + "id") for s in root.iter(TT + "style") if s.getparent().tag == TT + "styling"]
    regions = [r.get(XMLNS + "id") for r in root.iter(TT + "region") if r.tag == TT + "region"]
    ids = [x for x in styles + regions]
    if len(ids) != len(set(ids)):
        return "ids are not unique: %r" % ids
    used_regions = set()
    for el in root.iter():
        s = el.get("style")
        if s is not None and el.tag != TT + "style" and styles.count(s) != 1:
            return "style reference %r does not resolve to exactly one definition" % s
        r = el.get("region")
        if r is not None:
            used_regions.add(r)
            if regions.count(r) != 1:
                return "region reference %r does not resolve to exactly one definition" % r
    unused = [r for r in regions if r not in used_regions]
    # a document without a single paragraph (every written language is empty) has nothing that could reference the default
    # region: outside the property, which speaks of the regions of captions
    if unused and any(True for _ in root.iter(TT + "p")):
        return "regions defined but never referenced: %r" % unused
    return None


def runs(caps):
    n = 0; prev = None
    for c in caps:
        if (c["start"], c["end"]) != prev:
            n += 1
        prev = (c["start"], c["end"])
    return n


def explore(chk):
    import pycaption
    from pycaption.dfxp.extras import SinglePositioningDFXPWriter, LegacyDFXPWriter
    rng = chk.rng
    N = 150 if chk.tier == "quick" else 5000
    WR = [("dfxp", pycaption.DFXPWriter), ("single", SinglePositioningDFXPWriter), ("legacy", LegacyDFXPWriter)]
    OPTS = [{}, {"fit_to_screen": False}, {"relativize": False}, {"video_width": 640, "video_height": 360}, {"write_inline_positioning": True}]
    sets = []
    ent_sub = chk.sub("entity_like_attr_values")
    for i in range(N):
        d = gen_api_desc(rng, nasty_attrs=(i % 5 == 4), ent_rng=ent_sub)
        cs_ = setbuild.build(d)
        if i % 7 == 3:
            # a language without captions next to the others (what the DFXP reader returns for a div of blank paragraphs):
            # it is a written language like the others
            from pycaption import CaptionList
            sub_ = chk.sub("empty_language")
            cs_.set_captions(sub_.choice(["zz-empty", "de-CH"]), CaptionList(layout_info=None))
            if sub_.random() < 0.5:
                # ... and every caption of the other languages positioned, so that nothing but the empty language uses the default region
                for l_ in cs_.get_languages():
                    for c_ in cs_.get_captions(l_):
                        if c_.layout_info is None:
                            c_.layout_info = setbuild.mk_layout({"origin": ["10%", "10%"], "extent": ["80%", "20%"]})
                        for n_ in c_.nodes:
                            n_.layout_info = n_.layout_info or c_.layout_info
        if i % 6 == 2:
            # two consecutive captions that start together and end apart (two runs), or start and end together (one run)
            ssub_ = chk.sub("same_start")
            for l_ in cs_.get_languages():
                caps_ = cs_.get_captions(l_)
                if len(caps_) >= 2:
                    k_ = ssub_.randrange(len(caps_) - 1)
                    caps_[k_ + 1].start = caps_[k_].start
                    if ssub_.random() < 0.3:
                        caps_[k_ + 1].end = caps_[k_].end
                    elif caps_[k_ + 1].end == caps_[k_].end:
                        caps_[k_ + 1].end = caps_[k_].end + 500000
        sets.append(("api", d, cs_))
    # sets returned by readers
    for i in range(N // 3):
        d = setbuild.rand_desc(rng, unbalanced=0.0, absolute=0.0)
        fmt = rng.choice(setbuild.READERS)
        if fmt in ("srt", "webvtt", "microdvd", "scc"):
            d["langs"] = d["langs"][:1]
        try:
            doc = setbuild.make_writer(fmt).write(setbuild.build(d))
            cs = setbuild.make_reader(fmt).read(doc)
            sets.append(("read:" + fmt, d, cs))
        except Exception:
            pass
    from pcv import sccgen
    for i in range(N // 5):
        p = sccgen.gen_popon(rng, rich=True, max_len=12)
        try:
            sets.append(("read:scc-program", {"langs": [{"lang": "en-US", "caps": []}]}, pycaption.SCCReader().read(p["text"])))
        except Exception:
            pass
    if chk.driver_ok:
        region_id_correspondence(chk)
    for (src, d, cs) in sets:
        wname, W = rng.choice(WR)
        opts = {} if wname == "legacy" else dict(rng.choice(OPTS))
        langs = cs.get_languages()
        force = rng.choice(["", "", langs[0], "zz"]) if langs else ""
        case = {"source": src, "writer": wname, "options": opts, "force": force, "set": d if src == "api" else None, "attribute_strings": attr_strings(d) if src == "api" else []}
        chk.case(key=json.dumps(case, sort_keys=True, default=str) + str(id(cs) if src != "api" else ""), nontrivial=True,
                 sample={"source": src, "writer": wname, "options": opts} if chk.count_get("n") in (2, 100) else None)
        chk.count("n"); chk.count("src_" + src.split(":")[0]); chk.count("w_" + wname)
        try:
            wobj = core.POOL.get(W, **opts)
            chk._c07_n = getattr(chk, "_c07_n", 0) + 1
            if chk._c07_n % 6 == 0:
                # the writer object has just gone through a document that left a span open (a style that is never closed) or
                # that failed inside a paragraph (a style value that is a number): the next document must not show it
                from pycaption import CaptionSet as _CS, CaptionList as _CL, Caption as _C, CaptionNode as _N
                bad_nodes = [_N.create_style(True, {"italics": True}), _N.create_text("left open")] + \
                            ([_N.create_style(True, {"font-size": 12}), _N.create_text("never written")] if chk._c07_n % 12 == 0 else [])
                try:
                    wobj.write(_CS({"en-US": _CL([_C(1000000, 2000000, bad_nodes)])}))
                except Exception:
                    pass
                case["writer_history"] = "after a document that left a span open" + (" and failed" if chk._c07_n % 12 == 0 else "")
            doc = wobj.write(cs, force=force) if force else wobj.write(cs)
        except Exception as e:
            chk.property_failure(dict(case, error=repr(e)[:300]), "%s writer raised %s" % (wname, type(e).__name__)); continue
        case["output"] = doc[:4000]
        if wname == "legacy":
            written = [force if force in langs else langs[-1]] if force else langs
        else:
            written = [force] if force in langs else langs
        ncaps = []
        for l in written:
            caps = cs.get_captions(l)
            if wname == "dfxp":
                ncaps.append(len(caps))
            else:
                n = 0; prev = None
                for c in caps:
                    if (c.start, c.end) != prev: n += 1
                    prev = (c.start, c.end)
                ncaps.append(n)
        try:
            why = check_doc(doc, written, ncaps)
        except Exception as e:
            why = "not well-formed XML: " + str(e)[:120]
        if why:
            chk.property_failure(dict(case, why=why), "%s writer output: %s" % (wname, re.sub(r"%r|\[.*\]|'[^']*'|\d+", "*", why.split(":")[0])))


def region_id_correspondence(chk):
    """the ids RegionCreator hands out (default region first, then one per distinct layout) against the model, for style
    ids that look like region ids"""
    from bs4 import BeautifulSoup
    from pycaption.dfxp import base as dbase
    rng = chk.rng
    b = core.Batch()
    jobs = []
    pool = ["bottom", "bottom_", "bottom__", "r0", "r1", "r2", "r3", "r10", "r01", "default", "p", "R0", "r", "r-1"]
    for _ in range(60 if chk.tier == "quick" else 1500):
        taken = rng.sample(pool, rng.randint(0, 6))
        n = rng.randint(0, 5)
        jobs.append((taken, n, b.add("dfxp.regionids", core.enc_list(taken), str(n))))
    out = b.run()
    for taken, n, o in jobs:
        langs = [{"lang": "en-US", "caps": [{"start": 1000000 * (k + 1), "end": 1000000 * (k + 1) + 500000, "nodes": [["T", "x"]],
                                               "layout": {"origin": ["%d%%" % (5 * k + 5), "10%"]}} for k in range(n)] or
                  [{"start": 1000000, "end": 1500000, "nodes": [["T", "x"]]}]}]
        cs = setbuild.build({"langs": langs, "styles": {t: {"color": "red"} for t in taken}})
        dfxp = BeautifulSoup(dbase.DFXP_BASE_MARKUP, "lxml-xml")
        rc = dbase.RegionCreator(dfxp, cs)
        rc.create_document_regions()
        I = [r.get("xml:id") for r in dfxp.find_all("region")]
        M = core.dec_list(out[o])
        chk.case(key=("regionids", json.dumps([taken, n])), nontrivial=bool(taken)); chk.count("region_id_cases")
        if I != M:
            chk.correspondence_failure({"style_ids": taken, "layouts": n, "impl": I, "model": M}, "DFXP region ids: implementation and model differ")
        if len(set(I) | set(taken)) != len(I) + len(set(taken)):
            chk.property_failure({"style_ids": taken, "layouts": n, "region_ids": I}, "dfxp writer: a region id repeats another id of the document")


def replay(path):
    print(json.dumps(json.load(open(path)), indent=1)[:6000])
    return 0
