"""C20 — format detection is total, consistent and recognises pycaption's own output."""
import itertools, json
from pcv import core, gen, capio, textgen

THEOREMS = ["PcVerif.Props.C20.order_pinned", "PcVerif.Props.C20.markers_pinned",
            "PcVerif.Props.C20.detectScc_total", "PcVerif.Props.C20.detectOne_total",
            "PcVerif.Props.C20.detect_total", "PcVerif.Props.C20.detect_empty_raises",
            "PcVerif.Props.C20.detect_first_accepting", "PcVerif.Props.C20.detect_none_iff",
            "PcVerif.Props.C20.detect_own_srt", "PcVerif.Props.C20.detect_own_vtt", "PcVerif.Props.C20.detect_own_mdvd", "PcVerif.Props.C20.detect_own_scc",
            "PcVerif.Props.C20.own_srt_detected_and_read", "PcVerif.Props.C20.own_vtt_detected_and_read",
            "PcVerif.Props.C20.own_mdvd_detected_and_read", "PcVerif.Props.C20.own_scc_detected_and_read"]

DOCUMENTED = ["dfxp", "microdvd", "webvtt", "sami", "srt", "scc"]
SYMS = ["0", "1", "\n", "\r", "{", "}", "-", ">", "W", "<", "s", "t", "/", " ",
        "-->", "WEBVTT", "<sami", "</tt>", "Scenarist_SCC V1.0", "<SAMI", "</TT>", "İ", "K", "١", "²", "\x1c", " ", "\ufeff"]


def readers():
    import pycaption
    return {"dfxp": pycaption.DFXPReader, "microdvd": pycaption.MicroDVDReader, "webvtt": pycaption.WebVTTReader,
            "sami": pycaption.SAMIReader, "srt": pycaption.SRTReader, "scc": pycaption.SCCReader}


def make(tier, seed):
    c = core.Check("C20", tier, seed, "PcVerif.Props.C20", THEOREMS)
    c.rule = ("strings: all words of length <= L over %d symbols (digits, newlines, braces, arrow, the five format markers, "
              "exotic lower()/isdigit()/splitlines code points), random longer words, truncations of valid documents at every "
              "position, writer outputs; distinct = distinct string; non-trivial = at least one reader's detect accepts, or the "
              "string is a truncation/own-output case" % len(SYMS))
    c.predicates = {}
    return c


def impl_detect(s):
    import pycaption
    try:
        r = pycaption.detect_format(s)
    except pycaption.CaptionReadNoCaptions:
        return "err:noCaptions"
    except IndexError:
        return "err:indexError"
    except Exception as e:
        return "err:" + type(e).__name__
    if r is None:
        return "none"
    for k, cls in readers().items():
        if r is cls:
            return "ok:" + k
    return "ok:?" + r.__name__


def impl_one(k, s):
    try:
        return core.enc_bool(bool(readers()[k]().detect(s)))
    except IndexError:
        return "err:indexError"
    except Exception as e:
        return "err:" + type(e).__name__


def spec(s, ones):
    """S: never raises on non-empty input; first reader in the documented order whose own detect accepts"""
    if s == "":
        return "err:noCaptions"
    for k in DOCUMENTED:
        if ones[k] == "1":
            return "ok:" + k
    return "none"


def strings(chk):
    L = 3 if chk.tier == "quick" else 4
    for n in range(0, L + 1):
        for w in itertools.product(SYMS, repeat=n):
            yield "exh", "".join(w)
    rng = chk.rng
    for _ in range(20000 if chk.tier == "quick" else 300000):
        n = rng.randint(L + 1, 10)
        yield "rnd", "".join(rng.choice(SYMS) for _ in range(n))


def explore(chk):
    seen = set()
    cases = []
    for tag, s in strings(chk):
        if s in seen:
            continue
        seen.add(s)
        cases.append((tag, s, None))
    # own outputs and truncations
    own = []
    for name, doc in gen.writer_outputs(chk.rng, n=6 if chk.tier == "quick" else 60):
        own.append((name, doc))
        step = 1 if len(doc) < 400 or chk.tier == "thorough" else max(1, len(doc) // 300)
        for i in range(0, len(doc), step):
            t = doc[:i]
            if t not in seen:
                seen.add(t)
                cases.append(("trunc", t, None))
        if doc not in seen:
            seen.add(doc)
        cases.append(("own", doc, name))
    # long documents: a marker (or the whole structure) far beyond any fixed-size prefix
    for marker in ["</tt>", "WEBVTT", "<sami", "-->"]:
        for pad in (70000, 200000):
            t = "x" * pad + marker
            if t not in seen:
                seen.add(t); cases.append(("long", t, None))
    big = gen.abstract_set(chk.rng, nlang=1, ncap=400, start=4000000, max_lines=2, gap_choices=(2000000, 3000000))
    for name, W in gen.writers().items():
        if name == "scc":
            continue
        cases.append(("own", W().write(gen.build_set(big)), name))
    if chk.driver_ok:
        b = core.Batch()
        for tag, s, _ in cases:
            b.add("detect.format", core.enc(s))
            for k in DOCUMENTED:
                b.add("detect.one", k, core.enc(s))
        out = b.run()
    else:
        out = None
    own_through_model(chk)
    chk.exhaustive = True
    for i, (tag, s, name) in enumerate(cases):
        I = impl_detect(s)
        ones = {k: impl_one(k, s) for k in DOCUMENTED}
        S = spec(s, ones)
        nontriv = (I != "none") or tag in ("trunc", "own", "long")
        chk.case(key=s, nontrivial=nontriv,
                 sample={"input": s, "impl": I, "spec": S} if (tag not in ("exh", "long") and len(s) < 200) or (I.startswith("ok") and len(chk.samples) < 3) else None)
        chk.count("tag_" + tag)
        chk.count("result_" + I.split(":")[-1] if I.startswith("ok") else "result_" + I)
        if out is not None:
            M = out[i * 7]
            Mones = out[i * 7 + 1:i * 7 + 7]
            if M != I:
                chk.correspondence_failure({"input": s, "impl": I, "model": M}, "detect_format: implementation and model differ")
            for k, mo in zip(DOCUMENTED, Mones):
                if mo != ones[k]:
                    chk.correspondence_failure({"input": s, "reader": k, "impl": ones[k], "model": mo},
                                               "%s.detect: implementation and model differ" % k)
        if I != S:
            what = "detect_format raises on a non-empty string" if I.startswith("err") and s != "" else \
                   "detect_format does not return the first accepting reader in the documented order"
            chk.property_failure({"input": s, "impl": I, "spec": S, "per_reader": ones}, what)
        if tag == "own":
            want = "ok:" + name
            if I != want:
                chk.property_failure({"input": s, "impl": I, "spec": want, "writer": name}, "own output of the %s writer is not detected as %s" % (name, name))
            else:
                try:
                    cs = readers()[name]().read(s)
                    if cs.is_empty():
                        raise ValueError("empty")
                except Exception as e:
                    chk.property_failure({"input": s, "writer": name, "error": repr(e)}, "the detected reader cannot read the %s writer's own output" % name)


def own_through_model(chk):
    """the hypotheses' side of detect_own_srt / _vtt / _mdvd: captions made of text lines (adversarial characters, no
    marker of another format), written by the implementation and by the writer models; the two documents must be the
    same string (ties the writer models the theorems are about) and both sides must detect the writer's format"""
    if not chk.driver_ok:
        return
    import pycaption
    rng = chk.rng
    W = {"srt": pycaption.SRTWriter, "webvtt": pycaption.WebVTTWriter, "microdvd": pycaption.MicroDVDWriter}
    op = {"srt": "srt.write", "webvtt": "vtt.write", "microdvd": "mdvd.write"}
    markers = ("</tt>", "<sami", "webvtt")
    vsub = chk.sub("format_name_in_text")
    jobs = []
    b = core.Batch()
    for i in range(60 if chk.tier == "quick" else 600):
        name = ("srt", "webvtt", "microdvd")[i % 3]
        caps = []
        t = rng.choice([0, 40000, 1000000, 3599000000, 86399000000])
        for _ in range(rng.randint(1, 4)):
            lines = []
            for _ in range(rng.randint(1, 3)):
                ln = textgen.adv_line(rng, ("|",) if name == "microdvd" else ()).strip()
                # the marker hypothesis of the theorems (WebVTT needs none: `<` is escaped)
                # (`</tt>` and `<sami` in any letter case, `WEBVTT` as it stands: other spellings of that word are just text)
                if name != "webvtt" and (any(m in ln.lower() for m in markers[:2]) or "WEBVTT" in ln):
                    ln = "plain"
                if vsub.random() < 0.2:
                    ln = (ln + " " + vsub.choice(["WebVTT", "webvtt", "webvtt.js", "wEBVTT", "Webvtt"])).strip()
                if not ln or any(ch in ln for ch in "\n\r\x0b\x0c\x1c\x1d\x1e\x85\u2028\u2029"):
                    ln = "x"
                lines.append(ln)
            d = rng.choice([1000000, 1500000, 40000])
            if vsub.random() < 0.15:
                d = 30000        # a cue shorter than a MicroDVD frame: `{25}{25}text` is still the MicroDVD writer's own output
            if i % 5 == 4:
                # times as the SCC reader returns them: floats, whole or with a fraction of a microsecond
                t = float(t) + rng.choice([0.0, 0.0, 0.3333333333, 0.5]); d = float(d)
            caps.append((t, t + d, capio.nodes_from_lines(lines)))
            t = int(t + d) + rng.choice([0, 1000, 2000000])
        doc = W[name]().write(gen.build_set({"en-US": [(a, e, [n[1] for n in ns if n[0] == "T"]) for (a, e, ns) in caps]}))
        jobs.append((name, caps, doc, b.add(op[name], capio.enc_langs([caps])), b.add("detect.format", core.enc(doc))))
    out = b.run()
    for name, caps, doc, o1, o2 in jobs:
        chk.case(key=("own_model", name, doc), nontrivial=True)
        chk.count("own_through_model_" + name)
        case = {"writer": name, "captions": [[a, e, ns] for (a, e, ns) in caps], "impl_document": doc}
        if core.dec(out[o1]) != doc:
            chk.correspondence_failure(dict(case, model_document=core.dec(out[o1])), "%s writer (whole document): implementation and model differ" % name)
        I = impl_detect(doc)
        if out[o2] != I:
            chk.correspondence_failure(dict(case, impl=I, model=out[o2]), "detect_format on own output: implementation and model differ")
        if I != "ok:" + name:
            chk.property_failure(dict(case, input=doc, impl=I, spec="ok:" + name), "own output of the %s writer is not detected as %s" % (name, name))


def replay(path):
    r = json.load(open(path))
    case = r.get("case")
    if not case:
        print(json.dumps(r, indent=1)[:3000]); return 0
    s = case["input"]
    I = impl_detect(s)
    ones = {k: impl_one(k, s) for k in DOCUMENTED}
    print("input:", repr(s)); print("impl :", I); print("per-reader:", ones); print("spec :", spec(s, ones))
    try:
        print("model:", core.run_driver(["detect.format\t" + core.enc(s)])[0])
    except Exception as e:
        print("model: (driver unavailable)", e)
    return 0
