"""C17 — SCC output is structurally valid and re-reads to the same words."""
import json, re
from fractions import Fraction
from pcv import core, capio, sccgen

P = "PcVerif.Props.C17."
THEOREMS = [P + t for t in ["writer_bytes_odd_parity", "writer_pac_decodes_to_row", "rows_1_15", "fixed_words_odd_parity", "writer_chars_decode_back", "writer_codes_injective", "pac_word_len", "written_line_is_words", "written_row_rereads", "written_caption_rereads", "write_is_file", "written_file_rereads", "stored_caption_is_rows", "written_file_restored", "written_stamp_instant", "written_file_times", "shown_within_three_frames", "written_stamps_monotone", "written_file_start_end"]]
FRAME = sccgen.FRAME


def make(tier, seed):
    c = core.Check("C17", tier, seed, "PcVerif.Props.C17", THEOREMS)
    c.rule = ("caption sets over the CEA-608 basic character table: 1-6 captions, 1-4 lines of 1-80 characters, words up to 40 characters, hyphenated words, "
              "cue spacings from just-feasible (transmission time + 4 frames) to sparse, start of the first cue from just-feasible upwards; "
              "distinct = distinct caption set; non-trivial = a line longer than 32 characters, a hyphen, or a just-feasible spacing")
    c.extra_trusted.append("textwrap.fill is a library step: its contract (rows <= 32 columns, broken only at spaces, long words split) is checked on the output, the model receives the laid-out lines")
    return c


LETTERS = "ABCDEFGHIJKLMNOPQRSTUVWXYZabcdefghijklmnopqrstuvwxyz0123456789"


def gen_word(rng):
    n = rng.choice([1, 2, 3, 4, 5, 6, 8, 12, 20, 33, 40]) if rng.random() < 0.25 else rng.randint(1, 8)
    w = "".join(rng.choice(LETTERS) for _ in range(n))
    if rng.random() < 0.15:
        # the characters of the basic table that are not ASCII (one byte each, parity applies to them too)
        k = rng.randrange(len(w)); w = w[:k] + rng.choice("áéíóúçñÑ÷") + w[k + 1:]
    r = rng.random()
    if r < 0.12 and n >= 3:
        k = rng.randrange(1, n - 1); w = w[:k] + "-" + w[k + 1:]
    elif r < 0.2:
        w += rng.choice([".", ",", "!", "?"])
    return w


def gen_line(rng):
    target = rng.choice([5, 20, 31, 32, 33, 45, 64, 80])
    ws = []
    while sum(len(w) + 1 for w in ws) < target:
        ws.append(gen_word(rng))
    line = " ".join(ws)
    return line[:80].rstrip()


def words_needed(lines_laid_out_code_len):
    return lines_laid_out_code_len / 5 + 8


def explore(chk):
    import pycaption
    from pycaption.scc import SCCWriter
    rng = chk.rng
    N = 250 if chk.tier == "quick" else 6000
    jobs = []
    b = core.Batch()
    for i in range(N):
        ncap = rng.randint(1, 6)
        tight = (i % 4 == 3)
        caps_text = [[gen_line(rng) for _ in range(rng.randint(1, 3))] for _ in range(ncap)]
        if i % 25 == 7:
            # a caption that fills the screen: 13, 14 or all 15 rows (short lines, or long words that wrap)
            k = rng.choice([13, 14, 15, 15])
            caps_text[rng.randrange(ncap)] = ["row %d" % j for j in range(k)] if rng.random() < 0.6 else \
                [" ".join(["abcdefghijklmnopq"] * 4)] * 3 + [" ".join(["abcdefghijklmnopq"] * (k - 12))]
        # lay out with the real library step to know the transmission time each caption needs
        w = SCCWriter()
        tmp = capio.build_set({"en-US": [(0, 1, capio.nodes_from_lines(ls)) for ls in caps_text]})
        laid = [w._layout_line(c).split("\n") for c in tmp.get_captions("en-US")]
        if any(len(l) > 15 for l in laid):
            continue
        codes = [w._text_to_code(c) for c in tmp.get_captions("en-US")]
        need = [Fraction(len(code), 5) + 8 for code in codes]
        slack = rng.choice([0, 0, 1, 5, 30, 300])
        # the programme position matters for the timecode arithmetic (29.97 vs 30 fps drifts 3.6 s per hour): start late too
        t = need[0] * FRAME + slack * FRAME + rng.choice([0, 1, 1000000, 100 * 10 ** 6, 600 * 10 ** 6, 3599 * 10 ** 6, 2 * 3600 * 10 ** 6 + 17])
        times = []
        for k in range(ncap):
            start = int(t) + 1
            dur = rng.choice([1000000, 1500000, 3000000])
            end = start + dur
            times.append((start, end))
            if k + 1 < ncap:
                t = end + (need[k + 1] + 4 + rng.choice([0, 0, 1, 5, 60, 600])) * FRAME
                if tight:
                    # pauses within three frames of the transmission time (just below "far enough apart"): the writer drops the
                    # previous erase command there and must still keep its timecodes in order
                    t = end + (need[k + 1] + rng.choice([-3, -2, -1, 0, 1, 2, 3])) * FRAME
        abstract = {"en-US": [(s, e, capio.nodes_from_lines(ls)) for (s, e), ls in zip(times, caps_text)]}
        op = b.add("sccw.write", "|".join("%s;%s;%s" % ("^".join(core.enc(l) for l in ll) if ll else "~", capio.fr(s), capio.fr(e))
                                           for ll, (s, e) in zip(laid, times)))
        jobs.append((abstract, caps_text, laid, times, op, tight))
    out = b.run() if chk.driver_ok else None
    hexword = re.compile(r"^[0-9a-f]{4}$")
    for (abstract, caps_text, laid, times, op, tight) in jobs:
        cs = capio.build_set(abstract)
        doc = core.POOL.get(pycaption.SCCWriter).write(cs)
        case = {"captions": [{"start": s, "end": e, "lines": ls} for (s, e), ls in zip(times, caps_text)], "output": doc[:3000]}
        nontriv = any(len(l) > 32 or "-" in l for ls in caps_text for l in ls)
        chk.case(key=json.dumps(case["captions"]), nontrivial=nontriv, sample=case if chk.count_get("n") in (0, 7) else None)
        chk.count("n")
        # ---- S: structure
        lines = doc.split("\n")
        ok_struct = lines[0] == "Scenarist_SCC V1.0" and lines[1] == ""
        stamps = []
        eoc_instants = []
        row_texts = []        # per transmitted caption: list of row strings decoded independently
        rows_seen = []
        why = None
        for ln in lines[2:]:
            if ln == "":
                continue
            m = re.fullmatch(r"(\d\d):(\d\d):(\d\d):(\d\d)\t(.*)", ln)
            if not m:
                ok_struct = False; why = "line is not 'timecode<TAB>words'"; break
            hh, mm, ss, ff = map(int, m.groups()[:4])
            if mm >= 60 or ss >= 60 or ff >= 30:
                ok_struct = False; why = "timecode field out of range"; break
            frames = ((hh * 60 + mm) * 60 + ss) * 30 + ff
            stamps.append(frames)
            ws = m.group(5).split(" ")
            if ws and ws[-1] == "":
                ws.pop()
            for k, wd in enumerate(ws):
                if not hexword.match(wd):
                    ok_struct = False; why = "word %r is not four hex digits" % wd; break
                for byte in (int(wd[:2], 16), int(wd[2:], 16)):
                    if bin(byte).count("1") % 2 != 1:
                        ok_struct = False; why = "byte %02x of word %s has even parity" % (byte, wd)
                if wd == sccgen.CMD["EOC"] and (k == 0 or ws[k - 1] != wd):
                    eoc_instants.append(sccgen.instant(frames + k, False))
            if not ok_struct:
                break
            # rows addressed by this line
            cur = None
            texts = []
            K = sccgen.tables()
            for wd in ws:
                pos = K.PAC_BYTES_TO_POSITIONING_MAP.get(wd[:2], {}).get(wd[2:])
                if pos is not None:
                    if not (1 <= pos[0] <= 15):
                        ok_struct = False; why = "PAC addresses row %d" % pos[0]
                    if cur is None or cur[0] != pos[0]:
                        cur = [pos[0], ""]; texts.append(cur)
                    continue
                if wd in K.COMMANDS:
                    continue
                if cur is not None:
                    for byte in (wd[:2], wd[2:]):
                        code = int(byte, 16) & 0x7f
                        if code in sccgen.BASIC:
                            cur[1] += sccgen.BASIC[code]
            if texts:
                row_texts.append([t for _, t in texts]); rows_seen.append([r for r, _ in texts])
        if ok_struct:
            if any(stamps[k] > stamps[k + 1] for k in range(len(stamps) - 1)):
                ok_struct = False; why = "timecodes decrease"
        if ok_struct and len(row_texts) == len(caps_text):
            for rows, src in zip(row_texts, caps_text):
                if any(len(r) > 32 for r in rows):
                    ok_struct = False; why = "a row has more than 32 columns"; break
                # broken only at spaces (words longer than 32 are split): re-joining rows with spaces / nothing gives the source lines
                src_words = [w for l in src for w in l.split(" ") if w]
                got_words = [w for r in rows for w in r.split(" ") if w]
                j = 0
                okw = True
                for w in src_words:
                    if j < len(got_words) and got_words[j] == w:
                        j += 1; continue
                    if len(w) > 32 or True:
                        acc = ""
                        k0 = j
                        while j < len(got_words) and len(acc) < len(w):
                            acc += got_words[j]; j += 1
                        if acc != w or (len(w) <= 32 and j - k0 > 1):
                            okw = False; break
                if not okw or j != len(got_words):
                    ok_struct = False; why = "rows are not the text broken only at spaces (a word of at most 32 characters was split)"; break
        elif ok_struct:
            ok_struct = False; why = "number of transmitted captions differs from the number of input captions"
        chk.count("tight_spacing" if tight else "feasible_spacing")
        if tight:
            # outside "spaced far enough apart": only the structural demands (incl. non-decreasing timecodes) apply
            if not ok_struct and why and ("timecodes decrease" in why or "parity" in why or "hex" in why or "timecode" in why or "PAC addresses" in why):
                chk.property_failure(dict(case, why=why, tight_spacing=True), "SCC output is not structurally valid: " + re.sub(r"[0-9a-f]{2,4}|%r|\d+", "*", why))
            if out is not None and core.dec(out[op]) != doc:
                chk.correspondence_failure(dict(case, model=core.dec(out[op])[:3000]), "SCC writer: implementation and model differ")
            continue
        if not ok_struct:
            chk.property_failure(dict(case, why=why), "SCC output is not structurally valid: " + re.sub(r"[0-9a-f]{2,4}|%r|\d+", "*", why or ""))
        else:
            # visible within three frames of its start
            late = [(float(t - s), k) for k, ((s, e), t) in enumerate(zip(times, eoc_instants)) if abs(t - s) > 3 * FRAME]
            if len(eoc_instants) != len(times):
                chk.property_failure(case, "number of End-Of-Caption commands differs from the number of captions")
            elif late:
                chk.property_failure(dict(case, late_us=late, feature_first_only=all(k == 0 for _, k in late)),
                                     "a caption does not become visible within three frames of its start time")
        # ---- re-read
        try:
            rs = core.POOL.get(pycaption.SCCReader).read(doc)
            rcaps = rs.get_captions("en-US")
            got = [c.get_text().split() for c in rcaps]
            want = [[w for l in ls for w in l.split()] for ls in caps_text]
            if len(got) != len(want):
                chk.property_failure(dict(case, reread=str(got)), "re-reading yields a different number of captions")
            elif ["".join(g) for g in got] != ["".join(w) for w in want]:
                chk.property_failure(dict(case, reread=str(got)), "re-reading yields different characters")
            elif any(g != w for g, w, ls in zip(got, want, caps_text) if all(len(x) <= 32 for x in w)) :
                chk.property_failure(dict(case, reread=str(got)), "re-reading yields different words")
        except Exception as e:
            chk.property_failure(dict(case, error=repr(e)[:300]), "the SCC reader cannot read the writer's output (%s)" % type(e).__name__)
        if out is not None and core.dec(out[op]) != doc:
            chk.correspondence_failure(dict(case, model=core.dec(out[op])[:3000]), "SCC writer: implementation and model differ")


def replay(path):
    print(json.dumps(json.load(open(path)), indent=1)[:5000])
    return 0
