"""C11 — italic, bold and underline spans survive conversion and stay balanced."""
import json, re
from html.parser import HTMLParser
from pcv import core, capio, sccgen

P = "PcVerif.Props.C11."
THEOREMS = [P + t for t in ["reader_nodes_balanced", "scc_reader_italics_balanced", "no_span_left_open", "dfxpText_flag", "dfxp_span_closed", "vtt_tags_mirror", "vtt_cues_balanced", "sami_style_flags", "sami_style_flags_any_order"]]
WORDS = ["hello", "world", "caption", "I", "a", "quick", "fox", "Q&A", "x<y", "two"]
STY = {"i": "italics", "b": "bold", "u": "underline"}


def make(tier, seed):
    c = core.Check("C11", tier, seed, "PcVerif.Props.C11", THEOREMS)
    c.rule = ("captions of 1-4 lines x 1-4 words with 0-3 flat (non-nesting) spans of italics / bold / underline placed at start / middle / end of line, "
              "across line breaks, adjacent, and empty; DFXP, SAMI and WebVTT writers, DFXP and SAMI readers, all four DFXP<->SAMI directions, plus SCC reader "
              "outputs; per visible character the (italic, bold, underline) flags before and after, tag balance of every output, node balance of every read; "
              "distinct = distinct caption; non-trivial = at least one span")
    return c


def gen_caption(rng):
    """abstract nodes with flat spans (a span may combine several styles) + per-character flags"""
    nodes = []
    flags = []          # per visible (non-space) character: frozenset of active styles
    cur = None
    nl = rng.randint(1, 4)
    nspans = 0
    def snode(start, st):
        return ("S", start, "i" in st, "b" in st, "u" in st)
    for li in range(nl):
        if li:
            nodes.append(("B",))
        nw = rng.randint(1, 4)
        for wi in range(nw):
            if cur is None and nspans < 3 and rng.random() < 0.35:
                cur = frozenset(rng.choice(["i", "b", "u", "i", "ib", "iu", "bu", "ibu"])); nspans += 1
                nodes.append(snode(True, cur))
                if rng.random() < 0.08:      # empty span
                    nodes.append(snode(False, cur)); cur = None
            w = rng.choice(WORDS)
            nodes.append(("T", w + (" " if wi + 1 < nw else "")))
            flags += [(ch, cur or frozenset()) for ch in w]
            if cur is not None and rng.random() < 0.5:
                nodes.append(snode(False, cur)); cur = None
    if cur is not None:
        nodes.append(snode(False, cur))
    return nodes, flags


def node_flags(nodes):
    """per visible character the set of active styles, from pycaption nodes (observed) — also checks nesting"""
    out = []
    stack = []
    ok = True
    for n in nodes:
        if n[0] == "T":
            act = set(x for s in stack for x in s)
            out += [(ch, frozenset(act)) for ch in n[1] if not ch.isspace()]
        elif n[0] == "S":
            st = frozenset(k for k, v in zip("ibu", n[2:5]) if v)
            if n[1]:
                stack.append(st)
            else:
                if not stack:
                    ok = False
                else:
                    stack.pop()
    return out, ok and not stack


class TagFlags(HTMLParser):
    """flags per visible character from HTML-ish markup; `balanced` is false on a stray or crossing end tag"""
    def __init__(self, span_style):
        super().__init__(convert_charrefs=True)
        self.stack = []; self.out = []; self.balanced = True; self.span_style = span_style
    def handle_starttag(self, tag, attrs):
        if tag == "br":
            return
        d = dict(attrs)
        st = set()
        if tag in ("i", "b", "u"):
            st.add(tag)
        elif tag == "span":
            st |= self.span_style(d)
        self.stack.append((tag, frozenset(st)))
    def handle_startendtag(self, tag, attrs):
        pass
    def handle_endtag(self, tag):
        if tag == "br":
            return
        if not self.stack or self.stack[-1][0] != tag:
            self.balanced = False
            for k in range(len(self.stack) - 1, -1, -1):
                if self.stack[k][0] == tag:
                    del self.stack[k:]; break
        else:
            self.stack.pop()
    def handle_data(self, data):
        act = frozenset(x for _, s in self.stack for x in s)
        self.out += [(ch, act) for ch in data if not ch.isspace() and ch != "\xa0"]


def dfxp_span_style(d):
    st = set()
    if d.get("tts:fontstyle") == "italic": st.add("i")
    if d.get("tts:fontweight") == "bold": st.add("b")
    if "underline" in (d.get("tts:textdecoration") or ""): st.add("u")
    return st


def sami_span_style(d):
    st = set(); css = (d.get("style") or "").replace(" ", "")
    if "font-style:italic" in css: st.add("i")
    if "font-weight:bold" in css: st.add("b")
    if "text-decoration:underline" in css: st.add("u")
    return st


def flags_of_markup(fragment, span_style):
    p = TagFlags(span_style); p.feed(fragment); p.close()
    return p.out, p.balanced and not p.stack


def p_fragments(doc, tag="p"):
    return re.findall(r"<%s\b[^>]*>(.*?)</%s>" % (tag, tag), doc, flags=re.S)


def project(flags, keep):
    return [(ch, frozenset(x for x in (s if isinstance(s, (set, frozenset)) else ([s] if s else [])) if x in keep)) for ch, s in flags]


def explore(chk):
    import pycaption
    rng = chk.rng
    N = 250 if chk.tier == "quick" else 8000
    b = core.Batch()
    jobs = []
    for _ in range(N):
        nodes, flags = gen_caption(rng)
        enc = " ".join(capio.enc_node_abs(n) for n in nodes)
        jobs.append((nodes, flags, b.add("dfxp.text", "0", enc), b.add("sami.text", "0", enc),
                     b.add("vtt.groups", " ".join(("T" + core.enc(n[1]) + "@0") if n[0] == "T" else capio.enc_node_abs(n) for n in nodes))))
    out = b.run() if chk.driver_ok else None
    for (nodes, flags, o1, o2, o3) in jobs:
        abstract = {"en-US": [(1000000, 2500000, nodes)]}
        want = project(flags, "ibu")
        case = {"nodes": [list(n) for n in nodes]}
        chk.case(key=json.dumps(case), nontrivial=any(n[0] == "S" for n in nodes), sample=case if chk.count_get("n") in (3, 50) else None)
        chk.count("n")
        cs = capio.build_set(abstract)
        try:
            dfxp = core.POOL.get(pycaption.DFXPWriter).write(cs)
            sami = core.POOL.get(pycaption.SAMIWriter).write(cs)
            vtt = core.POOL.get(pycaption.WebVTTWriter).write(cs)
        except Exception as e:
            chk.property_failure(dict(case, error=repr(e)[:300]), "a writer raised on a caption with balanced flat spans"); continue
        # the same caption with a layout on the caption and on every node, written with inline positioning
        from pcv import setbuild
        lay = {"origin": ["10%", "70%"], "extent": ["80%", "20%"], "align": ["center", "bottom"]}
        dnodes = []
        for n in nodes:
            if n[0] == "T": dnodes.append(["T", n[1], lay])
            elif n[0] == "B": dnodes.append(["B", lay])
            else: dnodes.append(["S", n[1], {k: True for k, v in zip(("italics", "bold", "underline"), n[2:5]) if v}, lay])
        cs_pos = setbuild.build({"langs": [{"lang": "en-US", "caps": [{"start": 1000000, "end": 2500000, "nodes": dnodes, "layout": lay}]}]})
        try:
            dfxp_inline = pycaption.DFXPWriter(write_inline_positioning=True).write(cs_pos)
        except Exception as e:
            chk.property_failure(dict(case, error=repr(e)[:300]), "DFXPWriter(write_inline_positioning=True) raised on a positioned caption with balanced flat spans"); continue
        # ---- outputs: balance + flags
        for name, doc, style, keep in (("dfxp", dfxp, dfxp_span_style, "i"), ("dfxp-inline-positioning", dfxp_inline, dfxp_span_style, "i"),
                                       ("sami", sami, sami_span_style, "ibu")):
            frag = p_fragments(doc)
            frag = [f for f in frag if f.strip() not in ("&nbsp;", "")]
            got, bal = flags_of_markup(frag[0] if frag else "", style)
            if not bal:
                chk.property_failure(dict(case, writer=name, fragment=frag[0][:600] if frag else ""), "%s writer: span markup is not balanced / properly nested" % name)
            elif got != project(flags, keep):
                chk.property_failure(dict(case, writer=name, fragment=frag[0][:600] if frag else "", parsed=str(got)[:500]), "%s writer: the characters inside style spans differ from the caption's" % name)
        cue = vtt.split("\n", 3)[3] if vtt.count("\n") >= 3 else ""
        got, bal = flags_of_markup(cue, lambda d: set())
        if not bal:
            chk.property_failure(dict(case, writer="webvtt", cue=cue[:600]), "webvtt writer: i/b/u tags are not balanced / properly nested")
        elif got != want:
            chk.property_failure(dict(case, writer="webvtt", cue=cue[:600], parsed=str(got)[:500]), "webvtt writer: characters are not wrapped in the i/b/u tags of their spans")
        # ---- round trips and cross conversions
        for src_name, doc, Reader in (("dfxp", dfxp, pycaption.DFXPReader), ("sami", sami, pycaption.SAMIReader)):
            try:
                rs = core.POOL.get(Reader).read(doc)
                rc = rs.get_captions(rs.get_languages()[0])[0]
                rn = capio.obs_nodes(rc.nodes)
                got, bal = node_flags(rn)
                keep = "i" if src_name == "dfxp" else "ibu"
                if not bal:
                    chk.property_failure(dict(case, reader=src_name, read_nodes=str(rn)[:600]), "%s reader: style nodes of the caption are not balanced" % src_name)
                elif got != project(flags, keep):
                    chk.property_failure(dict(case, reader=src_name, read_nodes=str(rn)[:600]), "%s -> %s round trip: styled characters changed" % (src_name, src_name))
                # cross: write the read set in the other format
                other = "sami" if src_name == "dfxp" else "dfxp"
                odoc = (pycaption.SAMIWriter if other == "sami" else pycaption.DFXPWriter)().write(rs)
                frag = [f for f in p_fragments(odoc) if f.strip() not in ("&nbsp;", "")]
                g2, bal2 = flags_of_markup(frag[0] if frag else "", sami_span_style if other == "sami" else dfxp_span_style)
                if not bal2:
                    chk.property_failure(dict(case, chain=src_name + "->" + other, fragment=frag[0][:600] if frag else ""), "%s -> %s: span markup not balanced" % (src_name, other))
                elif project(g2, "i") != project(flags, "i"):
                    chk.property_failure(dict(case, chain=src_name + "->" + other, fragment=frag[0][:600] if frag else ""), "%s -> %s: italic characters changed" % (src_name, other))
            except Exception as e:
                chk.property_failure(dict(case, reader=src_name, error=repr(e)[:300]), "%s read / cross conversion raised %s" % (src_name, type(e).__name__))
        # ---- correspondence on the writers' text functions
        if out is not None:
            cap = cs.get_captions("en-US")[0]
            from bs4 import BeautifulSoup
            w = pycaption.DFXPWriter(); soup = BeautifulSoup("<tt><head><styling/></head></tt>", "lxml-xml")
            I1 = (w._recreate_text(cap, soup, cs, "en-US"), w.open_span)
            w2 = pycaption.SAMIWriter(); I2 = (w2._recreate_text(cap.nodes), w2.open_span)
            I3 = [(s_, 0) for (s_, _) in pycaption.WebVTTWriter()._group_cues_by_layout(cap.nodes, cs)]
            t, f = out[o1].split(";"); M1 = (core.dec(t), f == "1")
            t, f = out[o2].split(";"); M2 = (core.dec(t), f == "1")
            M3 = [(core.dec(x.rsplit(":", 1)[0]), int(x.rsplit(":", 1)[1])) for x in core.dec_list(out[o3], lambda z: z)]
            for nm, I, M in (("dfxp", I1, M1), ("sami", I2, M2), ("webvtt", I3, M3)):
                if I != M:
                    chk.correspondence_failure(dict(case, impl=str(I)[:600], model=str(M)[:600]), "%s text function with style nodes: implementation and model differ" % nm)
    # ---- spans that take their style from a class: the class is looked up in the caption set being written
    from pycaption import CaptionSet, CaptionList, Caption, CaptionNode
    for k_ in range(40 if chk.tier == "quick" else 1500):
        names = rng.sample(["emph", "loud", "aside"], rng.randint(1, 2))
        defs = {nm: {a: True for a in rng.sample(["italics", "bold", "underline"], rng.randint(0, 3))} for nm in ["emph", "loud", "aside"]}
        for nm in defs:
            if rng.random() < 0.3:
                defs[nm]["color"] = "yellow"
        content = {"classes": names} if len(names) > 1 or rng.random() < 0.5 else {"class": names[0]}
        words = [rng.choice(WORDS) for _ in range(3)]
        nodes = [CaptionNode.create_text(words[0] + " "), CaptionNode.create_style(True, dict(content)), CaptionNode.create_text(words[1]),
                 CaptionNode.create_style(False, dict(content)), CaptionNode.create_text(" " + words[2])]
        cs = CaptionSet({"en-US": CaptionList([Caption(1000000, 2500000, nodes)])}, styles={k: dict(v) for k, v in defs.items()})
        active = frozenset(x for nm in names for x, key in (("i", "italics"), ("b", "bold"), ("u", "underline")) if defs[nm].get(key))
        want = [(ch, frozenset()) for ch in words[0]] + [(ch, active) for ch in words[1]] + [(ch, frozenset()) for ch in words[2]]
        case = {"classes": names, "definitions": defs, "words": words}
        chk.case(key=json.dumps(case, sort_keys=True), nontrivial=True); chk.count("class_spans")
        try:
            vtt = pycaption.WebVTTWriter().write(cs)
        except Exception as e:
            chk.property_failure(dict(case, error=repr(e)[:300]), "webvtt writer raised on a span styled by a class"); continue
        cue = vtt.split("\n", 3)[3] if vtt.count("\n") >= 3 else ""
        got, bal = flags_of_markup(cue, lambda d: set())
        if not bal or got != want:
            chk.property_failure(dict(case, cue=cue[:400], parsed=str(got)[:400]), "webvtt writer: a span styled by a class is not wrapped in the i/b/u tags its class asks for in this caption set")
        # the same span through the SAMI writer and reader: the class (and what it stands for) has to come back.  Only the
        # single-class form: a list of classes is a DFXP/WebVTT notion the SAMI writer has no rendering for (counted, not judged)
        if "classes" in content:
            chk.count("class_list_spans_not_judged_for_sami"); continue
        try:
            rs = core.POOL.get(pycaption.SAMIReader).read(core.POOL.get(pycaption.SAMIWriter).write(cs))
            rcap = rs.get_captions(rs.get_languages()[0])[0]
            def resolved(content):
                st = set()
                cls = list(content.get("classes") or ([content["class"]] if content.get("class") else []))
                for src in [rs.get_style(c_) or {} for c_ in cls] + [content]:
                    for x, key in (("i", "italics"), ("b", "bold"), ("u", "underline")):
                        if src.get(key):
                            st.add(x)
                return frozenset(st)
            got2 = []; stack = []
            for n in rcap.nodes:
                if n.type_ == CaptionNode.TEXT:
                    act = frozenset(x for s_ in stack for x in s_)
                    got2 += [(ch, act) for ch in n.content if not ch.isspace()]
                elif n.type_ == CaptionNode.STYLE:
                    if n.start: stack.append(resolved(n.content or {}))
                    elif stack: stack.pop()
            if got2 != want:
                chk.property_failure(dict(case, chain="sami->sami", read_nodes=str(capio.obs_nodes(rcap.nodes))[:400], parsed=str(got2)[:300]),
                                     "sami -> sami: the characters a class marks italic / bold / underline changed")
        except Exception as e:
            chk.property_failure(dict(case, error=repr(e)[:300]), "SAMI write / read raised on a span styled by a class")
    # ---- SAMI spans / divs whose attributes say nothing about style (none at all, an alignment only, an empty style): the
    #      nodes read are balanced -- no style node closes what was never opened
    ssub = chk.sub("sami_spans_without_style")
    for k_ in range(20 if chk.tier == "quick" else 400):
        attr = ssub.choice(["", ' Style="text-align:right;"', ' style=""', ' Style="text-align:center"', ' id="x1"', ' Style="color:yellow;"'])
        tag = ssub.choice(["SPAN", "span", "DIV"])
        inner = "<%s%s>right</%s>" % (tag, attr, tag)
        wrap = ssub.choice(["%s", "<i>%s</i>", "<b>bold %s more</b>", "%s <u>u</u>"])
        body = "left " + (wrap % inner) + " end"
        doc = ('<SAMI><HEAD><STYLE TYPE="text/css"><!--\n.ENCC { Name: English; lang: en-US; }\n--></STYLE></HEAD><BODY>\n'
               '<SYNC start=1000><P Class=ENCC>%s</P></SYNC>\n<SYNC start=3000><P Class=ENCC>&nbsp;</P></SYNC>\n</BODY></SAMI>\n') % body
        case = {"document": doc}
        chk.case(key=("sami-plain-span", doc), nontrivial=True); chk.count("sami_spans_without_style")
        try:
            rs = core.POOL.get(pycaption.SAMIReader).read(doc)
        except Exception as e:
            chk.property_failure(dict(case, error=repr(e)[:300]), "SAMI reader raised on a span without style"); continue
        for c_ in rs.get_captions(rs.get_languages()[0]):
            depth = 0; bad = False
            for n in c_.nodes:
                if n.type_ == CaptionNode.STYLE:
                    depth += 1 if n.start else -1
                    if depth < 0:
                        bad = True; break
            if bad or depth != 0:
                chk.property_failure(dict(case, read_nodes=str(capio.obs_nodes(c_.nodes))[:600]),
                                     "SAMI reader: style nodes of a caption are not balanced (a node closes a style that was never opened, or one stays open)")
                break
    # ---- SAMI spans whose Style attribute holds several declarations, in any order: italic / bold / underline count wherever
    #      in the list they stand (an alignment or a colour before them included)
    osub = chk.sub("sami_style_declaration_order")
    DECL = {"i": "font-style:italic", "b": "font-weight:bold", "u": "text-decoration:underline"}
    for k_ in range(40 if chk.tier == "quick" else 1200):
        sty = osub.choice(["i", "i", "b", "u", "ib", "iu", "ibu"])
        decls = [DECL[x] for x in sty] + osub.sample(["text-align:center", "text-align:right", "color:yellow", "font-family:Arial", "font-size:12px"], osub.randint(1, 2))
        osub.shuffle(decls)
        attr = ";".join(decls) + osub.choice([";", ""])      # the SAMI writer's own spelling: no blank after the semicolon
        words = [osub.choice(["hello", "world", "fox", "two", "I", "100%"]) for _ in range(3)]
        tag = osub.choice(["SPAN", "span"])
        body = '%s <%s Style="%s">%s</%s> %s' % (words[0], tag, attr, words[1], tag, words[2])
        doc = ('<SAMI><HEAD><STYLE TYPE="text/css"><!--\n.ENCC { Name: English; lang: en-US; }\n--></STYLE></HEAD><BODY>\n'
               '<SYNC start=1000><P Class=ENCC>%s</P></SYNC>\n<SYNC start=3000><P Class=ENCC>&nbsp;</P></SYNC>\n</BODY></SAMI>\n') % body
        act = frozenset(sty)
        want = [(ch, frozenset()) for ch in words[0]] + [(ch, act) for ch in words[1]] + [(ch, frozenset()) for ch in words[2]]
        case = {"document": doc, "styled_word": words[1], "styles": sty}
        chk.case(key=("sami-decl-order", doc), nontrivial=True); chk.count("sami_style_declaration_orders")
        try:
            rs = core.POOL.get(pycaption.SAMIReader).read(doc)
            rn = capio.obs_nodes(rs.get_captions(rs.get_languages()[0])[0].nodes)
        except Exception as e:
            chk.property_failure(dict(case, error=repr(e)[:300]), "SAMI reader raised on a span with several style declarations"); continue
        got, bal = node_flags(rn)
        if not bal or got != want:
            chk.property_failure(dict(case, read_nodes=str(rn)[:500]), "SAMI reader: the italic / bold / underline of a span depends on where in the Style attribute it is declared")
    # ---- `SAMIReader._translate_style` against its model (Model/SamiInline.lean, theorems sami_style_flags*): style attributes
    #      made of well-formed and ill-formed declarations in any order, from a reader with and without a saved alignment
    isub = chk.sub("sami_inline_style_correspondence")
    PIECES = ["font-style:italic", "font-style: italic ", "font-style:oblique", " font-style:italic", "font-style :italic", "FONT-STYLE:italic", "font-style:Italic",
              "font-weight:bold", "font-weight: bold", "font-weight:700", "text-decoration:underline", "text-decoration:\tunderline", "text-decoration:none",
              "text-align:center", "text-align: right ", "text-align:justify", "text-align:", "text-align:left", "color:yellow", "color: #ff0000 ", "color:",
              "font-family:Arial, sans", "font-size:12px", "lang:en-US", "lang: fr ", "", " ", "italic", "a:b:c", "font-style:italic:x", ":", "x:y", "font-style:\u00a0italic\u2003"]
    from pycaption.geometry import Alignment, HorizontalAlignmentEnum
    b2 = core.Batch(); jobs2 = []
    for k_ in range(150 if chk.tier == "quick" else 6000):
        style = ";".join(isub.choice(PIECES) for _ in range(isub.randint(0, 5)))
        saved = isub.choice([None, None, "left", "end"])
        jobs2.append((style, saved, b2.add("sami.inlinestyle", "N" if saved is None else core.enc(saved), core.enc(style))))
    out2 = b2.run() if chk.driver_ok else None
    for style, saved, o_ in jobs2:
        rd = pycaption.SAMIReader()
        rd.first_alignment = None if saved is None else Alignment(HorizontalAlignmentEnum(saved), None)
        case = {"style_attribute": style, "saved_alignment": saved}
        chk.case(key=("sami-inline", style, saved), nontrivial=":" in style); chk.count("sami_inline_styles")
        try:
            attrs = rd._translate_style({}, style.split(";"))
        except Exception as e:
            chk.property_failure(dict(case, error=repr(e)[:200]), "SAMIReader._translate_style raised"); continue
        al = rd.first_alignment
        I = ["1" if attrs.get(x) is True else "0" for x in ("italics", "bold", "underline")] + \
            [core.enc(attrs[x]) if x in attrs else "N" for x in ("font-family", "font-size", "lang", "color")] + \
            ["N" if al is None else core.enc(al.horizontal.value if al.horizontal is not None else "?")]
        extra = sorted(set(attrs) - {"italics", "bold", "underline", "font-family", "font-size", "lang", "color"})
        # S: the flags, from the property's point of view -- a declaration `font-style:italic` anywhere in the list makes the span italic
        want_i = any(p.split(":")[0] == "font-style" and len(p.split(":")) == 2 and p.split(":")[1].strip() == "italic" for p in style.split(";"))
        if (attrs.get("italics") is True) != want_i:
            chk.property_failure(dict(case, attrs=str(attrs)), "SAMI inline style: the italics of a span depend on more than the presence of a `font-style:italic` declaration")
        if out2 is not None and (";".join(I) != out2[o_] or extra):
            chk.correspondence_failure(dict(case, impl=";".join(I), model=out2[o_], other_keys=extra), "SAMIReader._translate_style: implementation and model differ")
    # ---- a span that names a class of the caption set AND is italic by itself, through the DFXP writer and reader: whatever the
    #      class says, the characters stay italic
    csub = chk.sub("class_and_inline_italics")
    for k_ in range(24 if chk.tier == "quick" else 600):
        cname = csub.choice(["emph", "loud", "aside"])
        cdef = csub.choice([{"color": "yellow"}, {"font-family": "Arial"}, {"text-align": "right"}, {"italics": True}, {"color": "white", "font-size": "12px"}])
        content = {"class": cname, "italics": True}
        if csub.random() < 0.4:
            content["color"] = "red"
        words = [csub.choice(WORDS) for _ in range(3)]
        nodes = [CaptionNode.create_text(words[0] + " "), CaptionNode.create_style(True, dict(content)), CaptionNode.create_text(words[1]),
                 CaptionNode.create_style(False, dict(content)), CaptionNode.create_text(" " + words[2])]
        cs = CaptionSet({"en-US": CaptionList([Caption(1000000, 2500000, nodes)])}, styles={cname: dict(cdef)})
        case = {"span": content, "class_definition": {cname: cdef}, "words": words}
        chk.case(key=("class+italics", json.dumps(case, sort_keys=True)), nontrivial=True); chk.count("class_and_inline_italic_spans")
        for wname, W in (("dfxp", pycaption.DFXPWriter), ("single", __import__("pycaption.dfxp.extras", fromlist=["x"]).SinglePositioningDFXPWriter)):
            try:
                doc = core.POOL.get(W).write(cs)
                rs = core.POOL.get(pycaption.DFXPReader).read(doc)
            except Exception as e:
                chk.property_failure(dict(case, writer=wname, error=repr(e)[:300]), "DFXP write / read raised on a span with a class and inline italics"); continue
            rcap = rs.get_captions(rs.get_languages()[0])[0]
            it = ""; depth = []
            for n in rcap.nodes:
                if n.type_ == CaptionNode.TEXT:
                    if any(depth):
                        it += "".join(ch for ch in n.content if not ch.isspace())
                elif n.type_ == CaptionNode.STYLE:
                    if n.start:
                        c_ = n.content or {}
                        cls = list(c_.get("classes") or ([c_["class"]] if c_.get("class") else []))
                        depth.append(bool(c_.get("italics")) or any((rs.get_style(x) or {}).get("italics") for x in cls))
                    elif depth:
                        depth.pop()
            if it != "".join(ch for ch in words[1] if not ch.isspace()):
                chk.property_failure(dict(case, writer=wname, italic_after=it, read_nodes=str(capio.obs_nodes(rcap.nodes))[:500], document=doc[:1500]),
                                     "%s -> dfxp reader: the italic characters of a span that also names a class changed" % wname)
    # ---- spans that carry attributes of their own next to the style (alignment, colour, font): italic / bold / underline
    #      must survive whatever else the span says
    from pycaption.geometry import Layout, Point, Size, UnitEnum
    def lay_(x, y):
        return Layout(origin=Point(Size(x, UnitEnum.PERCENT), Size(y, UnitEnum.PERCENT)))
    dsub = chk.sub("span_attribute_order")
    for k_ in range(60 if chk.tier == "quick" else 2000):
        sty = rng.choice(["i", "i", "ib", "iu", "b", "u", "ibu"])
        content = {key: True for x, key in (("i", "italics"), ("b", "bold"), ("u", "underline")) if x in sty}
        extra = rng.choice([{"text-align": "right"}, {"text-align": "center", "color": "yellow"}, {"color": "#ff0000"}, {"font-family": "Arial"},
                            {"font-size": "12px"}, {"text-align": "left", "font-family": "monospace", "color": "white"}])
        content.update(extra)
        if k_ % 2:
            # the writers print a span's attributes in the order the style dict holds them: any order (a reader of another
            # format may have put the alignment first)
            items_ = list(content.items()); dsub.shuffle(items_); content = dict(items_)
        words = [rng.choice(WORDS) for _ in range(3)]
        nodes = [CaptionNode.create_text(words[0] + " "), CaptionNode.create_style(True, dict(content)), CaptionNode.create_text(words[1]),
                 CaptionNode.create_style(False, dict(content)), CaptionNode.create_text(" " + words[2])]
        cs = CaptionSet({"en-US": CaptionList([Caption(1000000, 2500000, nodes)])})
        act = frozenset(sty)
        want = [(ch, frozenset()) for ch in words[0]] + [(ch, act) for ch in words[1]] + [(ch, frozenset()) for ch in words[2]]
        case = {"span_content": content, "words": words}
        chk.case(key=json.dumps(case, sort_keys=True), nontrivial=True); chk.count("spans_with_other_attributes")
        try:
            docs = {"dfxp": core.POOL.get(pycaption.DFXPWriter).write(cs), "sami": core.POOL.get(pycaption.SAMIWriter).write(cs)}
            for name, style, keep in (("dfxp", dfxp_span_style, "i"), ("sami", sami_span_style, "ibu")):
                frag = [f for f in p_fragments(docs[name]) if f.strip() not in ("&nbsp;", "")]
                got, bal = flags_of_markup(frag[0] if frag else "", style)
                if not bal or got != project(want, keep):
                    chk.property_failure(dict(case, writer=name, fragment=frag[0][:500] if frag else ""), "%s writer: a span that also carries %s loses its style or its balance" % (name, sorted(extra)))
                    continue
                rs = core.POOL.get(pycaption.DFXPReader if name == "dfxp" else pycaption.SAMIReader).read(docs[name])
                rn = capio.obs_nodes(rs.get_captions(rs.get_languages()[0])[0].nodes)
                got, bal = node_flags(rn)
                if not bal or got != project(want, keep):
                    chk.property_failure(dict(case, chain=name + "->" + name, read_nodes=str(rn)[:500]), "%s -> %s: styled characters of a span that also carries %s changed" % (name, name, sorted(extra)))
        except Exception as e:
            chk.property_failure(dict(case, error=repr(e)[:300]), "writer / reader raised on a span with additional attributes")
    # ---- a styled span positioned differently from the text before it: WebVTT gives every layout its own cue, and each cue
    #      must carry balanced tags around exactly the styled characters
    for k_ in range(40 if chk.tier == "quick" else 1500):
        sty = rng.choice(["i", "b", "u", "ib"])
        content = {key: True for x, key in (("i", "italics"), ("b", "bold"), ("u", "underline")) if x in sty}
        la, lb = lay_(10, 10), lay_(20, rng.choice([20, 70]))
        words = [rng.choice(WORDS) for _ in range(4)]
        shape = k_ % 3
        nodes = [CaptionNode.create_text(words[0], layout_info=la), CaptionNode.create_style(True, dict(content), layout_info=lb),
                 CaptionNode.create_text(words[1], layout_info=lb)]
        want = [(ch, frozenset()) for ch in words[0]] + [(ch, frozenset(sty)) for ch in words[1]]
        if shape == 1:      # the span goes on in a third layout
            nodes.append(CaptionNode.create_text(words[2], layout_info=la)); want += [(ch, frozenset(sty)) for ch in words[2]]
        nodes.append(CaptionNode.create_style(False, dict(content), layout_info=lb))
        if shape == 2:
            nodes.append(CaptionNode.create_text(words[3], layout_info=la)); want += [(ch, frozenset()) for ch in words[3]]
        cs = CaptionSet({"en-US": CaptionList([Caption(1000000, 2500000, nodes, layout_info=la)])})
        if chk.driver_ok:
            # the grouping function itself against its model (layouts as ids: A = 1, B = 2)
            enc_ = " ".join(("T" + core.enc(n.content) + "@" + ("1" if n.layout_info == la else "2")) if n.type_ == CaptionNode.TEXT else
                            capio.enc_node_abs(("S", n.start, "i" in sty, "b" in sty, "u" in sty)) for n in nodes)
            M = [(core.dec(x.rsplit(":", 1)[0]), int(x.rsplit(":", 1)[1])) for x in core.dec_list(core.run_driver(["vtt.groups\t" + enc_])[0], lambda z: z)]
            I = [(s_, 1 if l_ == la else 2) for (s_, l_) in pycaption.WebVTTWriter()._group_cues_by_layout(nodes, cs)]
            if I != M:
                chk.correspondence_failure({"nodes": enc_, "impl": str(I)[:500], "model": str(M)[:500]}, "webvtt grouping with a span across layouts: implementation and model differ")
        case = {"style": sty, "words": words, "shape": ["text@A <span@B>text@B</span>", "text@A <span@B>text@B text@A</span>", "text@A <span@B>text@B</span> text@A"][shape]}
        chk.case(key=json.dumps(case, sort_keys=True), nontrivial=True); chk.count("span_in_another_layout")
        try:
            vtt = core.POOL.get(pycaption.WebVTTWriter).write(cs)
        except Exception as e:
            chk.property_failure(dict(case, error=repr(e)[:300]), "webvtt writer raised on a span positioned differently from the text before it"); continue
        cues = []           # WebVTT cue grammar: a timing line starts a cue, a blank line or the next timing line ends it
        for ln in vtt.split("\n")[1:]:
            if "-->" in ln:
                cues.append("")
            elif ln.strip() == "":
                pass
            elif cues:
                cues[-1] += ln + "\n"
        got = []; bal = True
        for cue in cues:
            g, b_ = flags_of_markup(cue, lambda d: set())
            got += g; bal = bal and b_
        if not bal:
            chk.property_failure(dict(case, document=vtt[:700]), "webvtt writer: a cue's i/b/u tags are not balanced when a span is positioned differently from the text before it")
        elif got != want:
            chk.property_failure(dict(case, document=vtt[:700], parsed=str(got)[:400]), "webvtt writer: characters of a span positioned differently from the text before it are not wrapped in its tags")
    # ---- SCC reader outputs: balanced style nodes
    from pcv.props import scc_common as sc
    NS = 100 if chk.tier == "quick" else 3000
    for k_ in range(NS + NS // 4):
        p = sccgen.gen_popon(rng, rich=True, max_len=16) if k_ < NS else sccgen.italic_rows_program(rng, doubled=bool(k_ % 2))
        I = sc.impl_read(p["text"], p["offset"])
        chk.case(key=p["text"], nontrivial=True); chk.count("scc")
        if I[0] == "ok":
            for c in I[1]:
                if not sccgen.balanced(c[4]):
                    chk.property_failure({"scc": p["text"], "nodes": str(c[4])[:500]}, "scc reader: a caption has unbalanced italic style nodes"); break


    # ---- roll-up rows that each start in italics, read with and without simulate_roll_up (the rows of several carriage
    #      returns are then joined into one caption): every caption has balanced, non-nesting style nodes
    import pycaption as _pc
    sub = chk.sub("rollup_italic_rows")
    for k_ in range(30 if chk.tier == "quick" else 600):
        doubled = bool(k_ % 2)
        depth = sub.choice(["RU2", "RU3", "RU4"])
        rows = []
        for r_ in range(sub.randint(2, 5)):
            rows.append((sub.random() < 0.7, sub.choice(["Hush", "dark", "row", "AB", "x y"])))
        lines = ["Scenarist_SCC V1.0", ""]
        frame = 30
        for ri, (ital, text) in enumerate(rows):
            words = ([sccgen.CMD[depth]] if ri == 0 else []) + [sccgen.CMD["CR"], sccgen.pac(15, 0)] + ([sccgen.midrow(True)] if ital else [])
            if doubled:
                words = [w for w in words for _ in range(2)]
            words += sccgen.chars_to_words(text)
            lines += [sccgen.timecode(frame, False) + "\t" + " ".join(words), ""]
            frame += len(words) + 40
        text_ = "\n".join(lines) + "\n"
        for sim in (False, True):
            chk.case(key=("rollup_italics", text_, sim), nontrivial=True); chk.count("rollup_italic_rows")
            try:
                cs = core.POOL.get(_pc.SCCReader).read(text_, simulate_roll_up=sim)
            except _pc.exceptions.CaptionLineLengthError:
                chk.count("rollup_italic_rows_joined_too_long"); continue      # simulated roll-up joins rows into one line
            except Exception as e:
                chk.property_failure({"scc": text_, "simulate_roll_up": sim, "error": repr(e)[:300]}, "scc reader raised on a roll-up stream with italic rows"); continue
            for c in cs.get_captions("en-US"):
                nodes = capio.obs_nodes(c.nodes)
                if not sccgen.balanced([("S", n[1]) if n[0] == "S" else n for n in nodes]):
                    chk.property_failure({"scc": text_, "simulate_roll_up": sim, "nodes": str(nodes)[:500]},
                                         "scc reader: a roll-up caption has unbalanced or nested italic style nodes"); break


def replay(path):
    print(json.dumps(json.load(open(path)), indent=1)[:6000])
    return 0
