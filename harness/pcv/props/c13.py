"""C13 — absolute sizes are relativized exactly or refused; fit-to-screen stays safe."""
import json, re
from fractions import Fraction
from pcv import core, geo

P = "PcVerif.Props.C13."
THEOREMS = [P + t for t in ["constants_pinned", "relativize_exact", "relativize_refuses", "relativize_unit", "fit_edges_le",
                            "fit_missing_extent_reaches_edges", "fit_keeps_fitting_extent", "relativized_origin_is_percent",
                            "relativize_layout_exact", "relativize_layout_refuses_origin", "relativized_extent_is_percent",
                            "relativized_padding_is_percent", "relativize_size_idempotent", "relativize_layout_idempotent"]]


def make(tier, seed):
    c = core.Check("C13", tier, seed, "PcVerif.Props.C13", THEOREMS)
    c.rule = ("(a) Size.as_percentage_of: five units x value grid x axis x reference dimension present/absent (exhaustive grid); "
              "(b) BaseWriter._relativize_and_fit_to_screen on random layouts x video sizes (both, one, none) x relativize x fit_to_screen; "
              "(c) writer level: DFXP / SAMI / WebVTT written attributes for layouts attached at set/language/caption/node level. "
              "distinct = distinct (op, operands, options); non-trivial = some absolute unit or an origin present")
    c.extra_trusted.append("percentages: Python floats vs exact rational model within 1e-11 relative; two-decimal printing compared exactly except within 1e-9 of a tie")
    return c


def err_name(e):
    return {"RelativizationError": "relativization", "ValueError": "valueError", "CaptionReadSyntaxError": "syntaxError"}.get(type(e).__name__, type(e).__name__)


def explore(chk):
    g = geo.G()
    from pycaption.base import BaseWriter
    from pycaption.exceptions import RelativizationError
    rng = chk.rng
    b = core.Batch()
    jobs = []
    # (a)
    vals = [0, 1, 7, 33.333, 640, 1e4, 12.5, 0.005, 36, 64, 147.2, 75.6, 63.99, 9.2, 52.8, 5.1]     # the last six: percentages a hair below a whole number
    dims = [0, None, 640, 360, 1, 1920, 7]
    for u in geo.UNITS:
        for v in vals:
            for hor in (True, False):
                for d in dims:
                    z = g.Size(v, g.UnitEnum(u))
                    dn = d or 0
                    jobs.append(("pct", z, d, hor, b.add("geo.pct", geo.enc_size(z), str(dn), core.enc_bool(hor)),
                                 b.add("spec.geo.pct", geo.enc_size(z), str(dn), core.enc_bool(hor))))
    # (b)
    N = 1500 if chk.tier == "quick" else 40000
    for _ in range(N):
        units = rng.choice([["%"], geo.UNITS, ["px"], ["px", "%"], ["c", "em", "pt"]])
        l = rng.choice([None] * 1 + [0] * 12)
        if l is not None:
            l = geo.rand_layout(rng, units=units, values=[0, 5, 10, 12.5, 25, 33.33, 50, 64, 80, 90, 100, 36, 640], p_none=0.25, webvtt=True)
        w = rng.choice([None, 0, 640, 1280]); h = rng.choice([None, 0, 360, 720])
        rel = rng.random() < 0.8; fit = rng.random() < 0.7
        jobs.append(("relfit", l, w, h, rel, fit,
                     b.add("geo.relfit", core.enc_bool(rel), core.enc_bool(fit), str(w or 0), str(h or 0), geo.enc_layout(l))))
    # extents that end just inside / on / just outside the 90% and 95% edges (all lengths in %, or px on a 1000 x 1000 frame)
    for _ in range(150 if chk.tier == "quick" else 4000):
        x = rng.choice([5, 10, 12.5, 25, 0]); y = rng.choice([5, 10, 20, 0])
        dx = rng.choice([-0.4, 0, 0.1, 0.25, 0.4, 0.5, 0.6, 1]); dy = rng.choice([-0.4, 0, 0.1, 0.25, 0.4, 0.5, 0.6, 1])
        px = rng.random() < 0.3
        def sz_(v):
            return g.Size(v * 10, g.UnitEnum("px")) if px else g.Size(v, g.UnitEnum("%"))
        l = g.Layout(origin=g.Point(sz_(x), sz_(y)), extent=g.Stretch(sz_(90 - x + dx), sz_(95 - y + dy)),
                     padding=None if rng.random() < 0.7 else g.Padding(sz_(1), sz_(1), sz_(2), sz_(2)))
        w, h = (1000, 1000) if px else rng.choice([(None, None), (640, 360)])
        rel = True if px else rng.random() < 0.5
        jobs.append(("relfit", l, w, h, rel, True,
                     b.add("geo.relfit", core.enc_bool(rel), core.enc_bool(True), str(w or 0), str(h or 0), geo.enc_layout(l))))
    out = b.run() if chk.driver_ok else None
    for job in jobs:
        if job[0] == "pct":
            _, z, d, hor, i, j = job
            def calc_pct(z=z, d=d, hor=hor):
                try:
                    r = z.as_percentage_of(video_width=d) if hor else z.as_percentage_of(video_height=d)
                    return ("ok", geo.obs_size(r))
                except Exception as e:
                    return ("err", err_name(e))
            I = calc_pct()
            chk.remember(("Size.as_percentage_of", repr(z), d, hor), calc_pct, I, every=3)
            case = {"op": "Size.as_percentage_of", "size": repr(z), "dim": d, "horizontal": hor, "impl": str(I)}
            chk.case(key=("pct", geo.enc_size(z), d, hor), nontrivial=z.unit.value != "%",
                     sample=case if chk.count_get("pct") in (40, 300) else None)
            chk.count("pct")
            # S: exact percentage or refusal
            if z.unit.value == "%":
                want = ("ok", (Fraction(z.value), "%"))
            elif not d:
                want = ("err", "relativization")
            else:
                sv = Fraction(out[j]) if out is not None else None
                want = ("ok", (sv, "%")) if sv is not None else None
            if want is not None:
                ok = I[0] == want[0] and (I[1] == want[1] if I[0] == "err" else (I[1][1] == "%" and geo.close(I[1][0], want[1][0])))
                if not ok:
                    chk.property_failure(dict(case, spec=str(want)), "Size.as_percentage_of: not the exact percentage / not refused when the dimension is missing")
            if out is not None:
                M = out[i]
                if M.startswith("ok:"):
                    mv, mu = geo.dec_size(M[3:])
                    okm = I[0] == "ok" and I[1][1] == mu and geo.close(I[1][0], mv)
                else:
                    okm = I[0] == "err" and M == "err:" + I[1]
                if not okm:
                    chk.correspondence_failure(dict(case, model=M), "Size.as_percentage_of: implementation and model differ")
        else:
            _, l, w, h, rel, fit, i = job
            bw = BaseWriter(relativize=rel, video_width=w, video_height=h, fit_to_screen=fit)
            before = geo.obs_layout(l)
            def calc_relfit(l=l, w=w, h=h, rel=rel, fit=fit):
                try:
                    r = BaseWriter(relativize=rel, video_width=w, video_height=h, fit_to_screen=fit)._relativize_and_fit_to_screen(l)
                    return ("ok", geo.obs_layout(r))
                except Exception as e:
                    return ("err", err_name(e))
            I = calc_relfit()
            chk.remember(("_relativize_and_fit_to_screen", repr(l), w, h, rel, fit), calc_relfit, I, every=5)
            case = {"op": "_relativize_and_fit_to_screen", "layout": repr(l), "layout_enc": geo.enc_layout(l), "w": w, "h": h, "relativize": rel, "fit": fit, "impl": str(I)}
            absolute = l is not None and not l.is_relative()
            chk.case(key=("relfit", geo.enc_layout(l), w, h, rel, fit), nontrivial=absolute or (l is not None and l.origin is not None),
                     sample=case if chk.count_get("relfit") in (3, 50) else None)
            chk.count("relfit"); chk.count("relfit_" + I[0] + ("_" + I[1] if I[0] == "err" else ""))
            if geo.obs_layout(l) != before:
                chk.property_failure(case, "relativizing/fitting modified the receiver")
            # S (property statements evaluated directly on the implementation's result)
            if l is not None and bool(l):
                sizes_in = [s for grp in (before[0], before[1], before[2]) if grp for s in grp]
                need_w = any(u != "%" for grp, idx in ((before[0], [0]), (before[1], [0]), (before[2], [2, 3])) if grp for k, (v, u) in enumerate(grp) if k in idx)
                need_h = any(u != "%" for grp, idx in ((before[0], [1]), (before[1], [1]), (before[2], [0, 1])) if grp for k, (v, u) in enumerate(grp) if k in idx)
                if rel:
                    must_refuse = (need_w and not w) or (need_h and not h)
                    if must_refuse and I != ("err", "relativization"):
                        chk.property_failure(dict(case, spec="RelativizationError"), "an absolute length without its reference dimension was not refused")
                    if not must_refuse and I[0] == "ok":
                        res = I[1]
                        for grp in res[:3]:
                            if grp and any(u != "%" for (v, u) in grp):
                                chk.property_failure(case, "relativized layout still contains an absolute length")
                        # exact percentages
                        def pct(vu, dim, hor):
                            v, u = vu
                            if u == "%": return v
                            if u == "px": return v * 100 / dim
                            if u == "em": return v * 16 * 100 / dim
                            if u == "pt": return v * Fraction(4, 3) * 100 / dim
                            return v * 100 / (32 if hor else 15)
                        if res[0] and before[0]:
                            ex = (pct(before[0][0], w, True), pct(before[0][1], h, False))
                            if not (geo.close(res[0][0][0], ex[0]) and geo.close(res[0][1][0], ex[1])):
                                chk.property_failure(dict(case, spec_origin=str(ex)), "origin is not relativized to the exact percentage")
                        if res[2] and before[2]:
                            ex = (pct(before[2][0], h, False), pct(before[2][1], h, False), pct(before[2][2], w, True), pct(before[2][3], w, True))
                            if not all(geo.close(a[0], e_) for a, e_ in zip(res[2], ex)):
                                chk.property_failure(dict(case, spec_padding=str(ex)), "padding is not relativized to the exact percentage")
                        if not fit and res[1] and before[1]:
                            ex = (pct(before[1][0], w, True), pct(before[1][1], h, False))
                            if not (geo.close(res[1][0][0], ex[0]) and geo.close(res[1][1][0], ex[1])):
                                chk.property_failure(dict(case, spec_extent=str(ex)), "extent is not relativized to the exact percentage")
                if fit and I[0] == "ok" and I[1] is not None and I[1][0] is not None and all(u == "%" for grp in I[1][:2] if grp for (v, u) in grp):
                    (ox, _), (oy, _) = I[1][0]
                    if 0 <= ox <= 90 and 0 <= oy <= 95:
                        if I[1][1] is None:
                            chk.property_failure(case, "fit_to_screen left the extent missing")
                        else:
                            (ew, _), (eh, _) = I[1][1]
                            eps = Fraction(1, 10 ** 9)
                            if ox + ew > 90 + eps or oy + eh > 95 + eps:
                                chk.property_failure(case, "fitted region exceeds the 90% / 95% edges")
                            # missing extent reaches the edges; fitting extent unchanged
                            src = None
                            if rel and before[1] is not None and all(u == "%" for v, u in before[1]):
                                src = before[1]
                            if before[1] is None and not (geo.close(ox + ew, 90) and geo.close(oy + eh, 95)):
                                chk.property_failure(case, "a missing extent was not set to reach exactly the 90% / 95% edges")
                            if src is not None and src[0][0] + ox <= 90 and src[1][0] + oy <= 95 and (not geo.close(ew, src[0][0]) or not geo.close(eh, src[1][0])):
                                chk.property_failure(case, "an extent that already fits was changed")
            if out is not None:
                M = out[i]
                if M.startswith("ok:"):
                    okm = I[0] == "ok" and geo.layouts_close(I[1], geo.dec_layout(M[3:]), ignore_webvtt=False)
                else:
                    okm = I[0] == "err" and M == "err:" + I[1]
                if not okm:
                    chk.correspondence_failure(dict(case, model=M), "_relativize_and_fit_to_screen: implementation and model differ")
    writer_level(chk)


def writer_level(chk):
    """(c) filled in by pcv.props.c13_writers when the writer observers exist"""
    try:
        from pcv.props import c13_writers
    except ImportError:
        return
    c13_writers.run(chk)
    c13_writers.run_same_set_twice(chk)
    chk.recheck("geometry conversion")


def replay(path):
    print(json.dumps(json.load(open(path)), indent=1)[:4000])
    return 0
