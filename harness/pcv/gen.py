"""Shared generators: abstract caption sets -> pycaption objects, writer outputs."""
import random

WORDS = ["hello", "world", "caption", "a", "I", "the", "quick", "brown", "fox", "jumps", "over", "lazy", "dog",
         "Yes", "no", "42", "it's", "time", "x", "ok", "subtitle", "line", "two", "words"]


def plain_line(rng, nwords=None):
    n = nwords or rng.randint(1, 5)
    return " ".join(rng.choice(WORDS) for _ in range(n))


def abstract_set(rng, nlang=1, ncap=None, max_lines=3, start=0, gap_choices=(0, 1000, 250000, 2000000),
                 dur_choices=(1000000, 1500000, 2000000, 3200000), langs=("en-US", "fr", "de", "es")):
    """{lang: [(start_us, end_us, [line, ...]), ...]} sorted, non-overlapping"""
    out = {}
    for li in range(nlang):
        t = start + rng.choice([0, 40000, 1000000, 3600000000 - 500000])
        caps = []
        for _ in range(ncap if ncap is not None else rng.randint(1, 5)):
            d = rng.choice(dur_choices)
            lines = [plain_line(rng) for _ in range(rng.randint(1, max_lines))]
            caps.append((t, t + d, lines))
            t = t + d + rng.choice(gap_choices)
        out[langs[li]] = caps
    return out


def build_set(abstract, layout=None):
    from pycaption import CaptionSet, CaptionList, Caption, CaptionNode
    d = {}
    for lang, caps in abstract.items():
        cl = CaptionList()
        for (s, e, lines) in caps:
            nodes = []
            for i, ln in enumerate(lines):
                if i:
                    nodes.append(CaptionNode.create_break())
                nodes.append(CaptionNode.create_text(ln))
            cl.append(Caption(s, e, nodes, style={}))
        d[lang] = cl
    return CaptionSet(d, styles={})


def writers():
    import pycaption
    return {"srt": pycaption.SRTWriter, "webvtt": pycaption.WebVTTWriter, "dfxp": pycaption.DFXPWriter,
            "sami": pycaption.SAMIWriter, "microdvd": pycaption.MicroDVDWriter, "scc": pycaption.SCCWriter}


def writer_outputs(rng, n=6):
    """(format name, document) for every writer on n random plain caption sets"""
    for i in range(n):
        # cues spaced >= 2 s apart: the SCC writer needs transmission time between cues (C17's precondition);
        # an SCC stream with overlapping transmissions is not a well-formed document
        a = abstract_set(rng, nlang=1 if i % 3 else 2, start=4000000, max_lines=2, gap_choices=(2000000, 3000000, 5000000))
        for name, W in writers().items():
            yield name, W().write(build_set(a))
        if i % 3 == 2:
            # a caption with a token longer than a CEA-608 row (a URL, a very long word): every writer has to produce a document
            # its own reader reads
            u = abstract_set(rng, nlang=1, start=4000000, max_lines=2, gap_choices=(3000000, 5000000))
            for lang_ in u:
                s0, e0, ls = u[lang_][0]
                u[lang_][0] = (s0, e0, ["see https://captions.example.org/archive/2024/episode-17" if rng.random() < 0.5 else "Pneumonoultramicroscopicsilicovolcanoconiosis"] + ls[1:])
            for name, W in writers().items():
                yield name, W().write(build_set(u))
        if i % 3 == 1:
            # a programme whose first cue starts at instant 0 (frame 0, 00:00:00.000); not for SCC, which needs lead time
            z = abstract_set(rng, nlang=1, start=0, max_lines=2, gap_choices=(2000000, 3000000))
            for lang_ in z:
                first = z[lang_][0]
                if first[0] < first[1] - 100000:
                    z[lang_][0] = (rng.choice([0, 0, 39999]), first[1], first[2])
            for name, W in writers().items():
                if name != "scc":
                    yield name, W().write(build_set(z))
