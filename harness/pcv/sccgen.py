"""SCC program generation, an encoder built from the CEA-608 rules (not from pycaption's tables), and the
reference readings (S) for C05, C06, C15, C16."""
from fractions import Fraction

FRAME = Fraction(1001000, 30)          # one code word, non-drop-frame, in microseconds
FRAME_DF = Fraction(1000000, 30)


def parity(b):
    """7-bit value -> byte with odd parity in bit 7"""
    return b | 0x80 if bin(b).count("1") % 2 == 0 else b


def word(b1, b2):
    return "%02x%02x" % (parity(b1), parity(b2))


BASIC_SUBST = {0x2a: "á", 0x5c: "é", 0x5e: "í", 0x5f: "ó", 0x60: "ú", 0x7b: "ç", 0x7c: "÷", 0x7d: "Ñ", 0x7e: "ñ", 0x7f: "█"}
BASIC = {}
for code in range(0x20, 0x80):
    BASIC[code] = BASIC_SUBST.get(code, chr(code))
BASIC_INV = {v: k for k, v in BASIC.items()}

ROW_CODES = {1: (0x11, 0x40), 2: (0x11, 0x60), 3: (0x12, 0x40), 4: (0x12, 0x60), 5: (0x15, 0x40), 6: (0x15, 0x60), 7: (0x16, 0x40),
             8: (0x16, 0x60), 9: (0x17, 0x40), 10: (0x17, 0x60), 11: (0x10, 0x40), 12: (0x13, 0x40), 13: (0x13, 0x60), 14: (0x14, 0x40), 15: (0x14, 0x60)}


def pac(row, indent=0, italic=False, underline=False, color=0):
    """indent in {0,4,...,28}; italic PAC = white italics at column 0; colour PACs at column 0"""
    hi, lo = ROW_CODES[row]
    if italic:
        attr = 0x0e
    elif indent:
        attr = 0x10 + 2 * (indent // 4)
    else:
        attr = 2 * color      # 0 = white
    return word(hi, lo + attr + (1 if underline else 0))


def tab(n):
    return word(0x17, 0x20 + n)


def midrow(italic, underline=False, color=0):
    return word(0x11, (0x2e if italic else 0x20 + 2 * color) + (1 if underline else 0))


# set by a check that wants rows whose preamble and mid-row codes are the UNDERLINED variants (same cells, same italics)
UNDERLINE_RNG = None
# set by a check that wants roll-up / paint-on rows to hold the accented letters and the division sign of the basic set
ACCENT_RNG = None

CMD = {"RCL": word(0x14, 0x20), "BS": word(0x14, 0x21), "DER": word(0x14, 0x24), "RU2": word(0x14, 0x25), "RU3": word(0x14, 0x26),
       "RU4": word(0x14, 0x27), "RDC": word(0x14, 0x29), "EDM": word(0x14, 0x2c), "CR": word(0x14, 0x2d), "ENM": word(0x14, 0x2e), "EOC": word(0x14, 0x2f)}


def chars_to_words(text):
    """basic characters, two per word, padded with the 0x80 filler"""
    codes = [BASIC_INV[c] for c in text]
    out = []
    for i in range(0, len(codes), 2):
        a = codes[i]
        b = codes[i + 1] if i + 1 < len(codes) else None
        out.append("%02x%02x" % (parity(a), parity(b) if b is not None else 0x80))
    return out


def timecode(frames_total, df):
    """frame count -> hh:mm:ss:ff (non-drop ':' or ';' separator; no frame dropping is applied by pycaption)"""
    ff = frames_total % 30; s = frames_total // 30
    return "%02d:%02d:%02d%s%02d" % (s // 3600, s // 60 % 60, s % 60, ";" if df else ":", ff)


def instant(frames_total, df, offset_s=0):
    """microseconds at which a word sent `frames_total` frames after 00:00:00:00 arrives"""
    us = Fraction(frames_total, 30) * (1 if df else Fraction(1001, 1000)) * 10 ** 6 - Fraction(offset_s) * 10 ** 6
    return us if us >= 0 else Fraction(0)


# ---------------------------------------------------------------- observation of pycaption results
def obs_caption(c):
    """(start, end, lines[(char, italic)], origin(x,y) or None, raw nodes)"""
    from pycaption import CaptionNode
    lines = [[]]
    it = False
    nodes = []
    for n in c.nodes:
        if n.type_ == CaptionNode.TEXT:
            for ch in n.content:
                lines[-1].append((ch, it))
            nodes.append(("T", n.content, n.position))
        elif n.type_ == CaptionNode.BREAK:
            lines.append([]); nodes.append(("B",))
        else:
            it = bool(n.start); nodes.append(("S", bool(n.start)))
    org = None
    if c.layout_info is not None and c.layout_info.origin is not None:
        org = (Fraction(c.layout_info.origin.x.value), Fraction(c.layout_info.origin.y.value))
    return (Fraction(c.start), Fraction(c.end), lines, org, nodes)


def nonblank(line):
    return [(ch, it) for (ch, it) in line if not ch.isspace()]


def balanced(nodes):
    """style nodes alternate on/off starting with on and none is left open"""
    on = False
    for n in nodes:
        if n[0] == "S":
            if n[1] == on:
                return False
            on = n[1]
    return not on


# ---------------------------------------------------------------- pop-on programs
SAFE_CHARS = [c for c in "ABCDEFGHIJKLMNOPQRSTUVWXYZabcdefghijklmnopqrstuvwxyz0123456789.,!?'-$%&()+/:;<=>@[]"]
del BASIC[0x7f]
BASIC_INV = {v: k for k, v in BASIC.items()}


def tables():
    from pycaption.scc import constants as K
    return K


def gen_row_items(rng, n, rich):
    """items: ('c', ch) | ('s', word, ch) | ('e', standin, word, ch) | ('bs',) | ('mid', italic)"""
    K = tables()
    items = []
    specials = list(K.SPECIAL_CHARS.items())
    extended = list(K.EXTENDED_CHARS.items())
    for _ in range(n):
        r = rng.random()
        if not rich or r < 0.75:
            ch = rng.choice(SAFE_CHARS) if rng.random() < 0.85 else " "
            items.append(("c", ch))
        elif r < 0.83:
            w, ch = rng.choice(specials)
            if ch.strip():
                items.append(("s", w, ch))
                if rng.random() < 0.2:
                    # the same special character again after a null filler word: two characters, not one doubled code
                    items += [("n",), ("s", w, ch)]
        elif r < 0.91:
            w, ch = rng.choice(extended)
            if rng.random() < 0.2:
                # the stand-in the extended character replaces is itself a special character (a two-byte code)
                sw, sch = rng.choice([x for x in specials if x[1].strip()])
                items.append(("es", sw, sch, w, ch))
            else:
                items.append(("e", rng.choice("AEIOUaeiouc "), w, ch))      # also a blank as stand-in
        elif r < 0.95:
            items += [("bs",)] * rng.choice([1, 1, 2])      # also two backspaces in a row (sent single they are two, not one doubled)
        else:
            # a mid-row code takes a cell of its own; sometimes right after a space and sometimes erased again
            if rng.random() < 0.3:
                items.append(("c", " "))
            items.append(("mid", rng.random() < 0.6))
            if rng.random() < 0.3:
                items += [("bs",)] * rng.randint(1, 3)
    return items


def row_words(row, doubled):
    """PAC [TO] then the items; control codes doubled as units when `doubled`"""
    out = []
    p = pac(row["row"], row["indent"], italic=row["italic_pac"], underline=row.get("underline", False))
    unit = [p] + ([tab(row["tab"])] if row["tab"] else [])
    out += unit * (2 if doubled else 1)
    pending = []

    def flush():
        nonlocal pending
        if pending:
            out.extend(chars_to_words("".join(pending)))
            pending = []
    for it in row["items"]:
        if it[0] == "c":
            pending.append(it[1])
        else:
            flush()
            if it[0] == "s":
                out += [it[1]] * (2 if doubled else 1)
            elif it[0] == "e":
                out.extend(chars_to_words(it[1]))
                out += [it[2]] * (2 if doubled else 1)
            elif it[0] == "es":
                out += [it[1]] * (2 if doubled else 1)
                out += [it[3]] * (2 if doubled else 1)
            elif it[0] == "bs":
                out += [CMD["BS"]] * (2 if doubled else 1)
            elif it[0] == "mid":
                out += [midrow(it[1], underline=row.get("underline", False))] * (2 if doubled else 1)
            elif it[0] == "n":
                out.append("8080")
    flush()
    return out


def row_cells(row):
    """reference reading of one row: list of (char, italic) cells as a CEA-608 decoder shows them"""
    cells = []
    italic = row["italic_pac"]
    for it in row["items"]:
        if it[0] == "c":
            cells.append((it[1], italic))
        elif it[0] == "s":
            cells.append((it[2], italic))
        elif it[0] == "e":
            cells.append((it[3], italic))        # the stand-in is replaced
        elif it[0] == "es":
            cells.append((it[4], italic))        # so is a special character used as stand-in
        elif it[0] == "bs":
            if cells:
                cells.pop()
        elif it[0] == "mid":
            italic = it[1]
            cells.append((" ", False))            # a mid-row code occupies one blank cell
    return cells


def words_reliable(row):
    """rows whose word boundaries are compared with the screen: no backspace, and every mid-row code changes the italic
    state (pycaption leaves out the blank cell of a mid-row code that changes nothing, and an erased mid-row code keeps its
    effect, and no blank is written for a mid-row code in front of punctuation -- those rows are judged on their visible
    characters only)"""
    italic = row["italic_pac"]
    items = row["items"]
    for k, it in enumerate(items):
        if it[0] == "bs":
            return False
        if it[0] == "mid":
            if it[1] == italic:
                return False
            italic = it[1]
            # pycaption deliberately writes no blank for a mid-row code in front of . ! ? , (pinned by its tests)
            nxt = items[k + 1] if k + 1 < len(items) else None
            if nxt is None or nxt[0] != "c" or nxt[1] in ".!?, ":
                return False
    return True


def mid_cell_erased_late(row):
    """a backspace erases the cell of a mid-row code after other characters had been written behind that cell (and were
    erased first)"""
    cells = []          # True = fresh mid-row cell, False = other cell or a mid-row cell with something written after it
    for it in row["items"]:
        if it[0] in ("c", "s", "e", "es"):
            cells = ["stale" if c != "char" else c for c in cells]
            cells.append("char")
        elif it[0] == "mid":
            cells.append("fresh")
        elif it[0] == "bs" and cells:
            if cells.pop() == "stale":
                return True
    return False


def gen_popon(rng, rich=True, ncaps=None, max_len=30):
    df = rng.random() < 0.5
    doubled = rng.random() < 0.5
    mixed = rich and rng.random() < 0.15          # captions sent single and captions sent doubled in one stream
    file_doubled = doubled
    offset = rng.choice([0, 0, 0, 1, 3600, 0.5, 2.5])       # also offsets that are not whole seconds
    caps = []
    frame = rng.choice([0, 30, 3600 * 30, 3600 * 30 + 17, 100])
    if offset == 3600:
        frame = max(frame, 3600 * 30 - 50)
    lines = ["Scenarist_SCC V1.0", ""]
    n = ncaps if ncaps is not None else rng.randint(1, 6)
    events = []           # ('eoc', frame, cap_index) / ('edm', frame)
    for ci in range(n):
        if mixed:
            doubled = rng.random() < 0.5
        nrows = rng.choice([1, 1, 2, 2, 3, 4])
        start_row = rng.randint(1, 16 - nrows)
        rows = []
        r = start_row
        for k in range(nrows):
            if k and rng.random() < 0.25 and r + 2 <= 15:
                r += rng.choice([2, 3])      # non-adjacent row -> separate caption with the same times
            elif k:
                r += 1
            if r > 15:
                break
            rows.append({"row": r, "indent": rng.choice([0, 0, 4, 8, 12, 28]) if rng.random() < 0.7 else 0,
                         "tab": rng.choice([0, 0, 0, 1, 2, 3]), "italic_pac": False, "items": [],
                         "underline": UNDERLINE_RNG is not None and UNDERLINE_RNG.random() < 0.15})
            if rich and rng.random() < 0.15:
                rows[-1]["italic_pac"] = True; rows[-1]["indent"] = 0
            rows[-1]["items"] = gen_row_items(rng, rng.randint(1, max_len), rich)
        if rich and len(rows) >= 2 and rng.random() < 0.12:
            # italics carried over several rows, adjacent or not: every row starts with an italic preamble
            for rw_ in rows:
                rw_["italic_pac"] = True; rw_["indent"] = 0
        if rich and len(rows) >= 2 and rng.random() < 0.1:
            # rows loaded bottom-up: every row is addressed on its own, none continues the one before
            rows.reverse()
        words = []
        pre = [CMD["ENM"]] if rng.random() < 0.8 else []
        words += pre * (2 if doubled else 1)
        words += [CMD["RCL"]] * (2 if doubled else 1)
        if rich and rng.random() < 0.1:
            # words the decoder does not know (codes of the second caption channel): nothing is shown, but each takes its frame
            words += [rng.choice(["1cae", "1c2c", "1c20"]) for _ in range(rng.randint(1, 3))]
        if rich and rows and rng.random() < 0.1:
            # a preamble (plain or italic, or plain followed by the italic mid-row code) that is abandoned before anything
            # is written: the cursor moves on to the first real row, the screen shows nothing of it
            fr = rows[0]["row"]
            cand = [x for x in (fr - 1, fr - 1, fr - 3, fr + 2) if 1 <= x <= 15 and all(abs(x - r_["row"]) != 0 for r_ in rows)]
            if cand:
                lead_row = rng.choice(cand)
                kind = rng.randrange(3)
                unit = [pac(lead_row, 0, italic=(kind == 1))] * (2 if doubled else 1)
                if kind == 2:
                    unit += [midrow(True)] * (2 if doubled else 1)
                words += unit
        for row in rows:
            words += row_words(row, doubled)
        if rich and rows and rng.random() < 0.15:
            # the cursor is parked on another row and nothing is written there: the screen does not change
            lr = rows[-1]["row"]
            cand = [x for x in (lr + 1, lr + 1, lr + 3, lr - 2) if 1 <= x <= 15]
            if cand:
                words += [pac(rng.choice(cand), rng.choice([0, 4, 8]))] * (2 if doubled else 1)
        edm_mode = rng.choice(["before_eoc", "before_eoc", "separate", "separate", "none", "after_eoc"])
        if edm_mode == "before_eoc":
            events.append(("edm", frame + len(words)))
            words += [CMD["EDM"]] * (2 if doubled else 1)
            words += ["8080"] * rng.choice([0, 0, 1, 2, 3, 4, 5, 6, 7])       # filler words: the gap before the next caption appears
        events.append(("eoc", frame + len(words), ci))
        words += [CMD["EOC"]] * (2 if doubled else 1)
        if edm_mode == "after_eoc":
            # erase shortly after display: durations of 1-3 frames (the first is a flash under 0.05 s)
            words += ["8080"] * rng.choice([0, 0, 1, 2])
            events.append(("edm", frame + len(words)))
            words += [CMD["EDM"]] * (2 if doubled else 1)
        # words separated by one blank, now and then by two or by a blank and a tab (empty tokens are not code words)
        lines.append(timecode(frame, df) + "\t" + (" ".join(words) if rng.random() < 0.85 else rng.choice(["  ", " \t"]).join(words)))
        lines.append("")
        frame += len(words)
        caps.append({"rows": rows, "doubled": doubled})
        if edm_mode == "separate":
            frame += rng.choice([30, 45, 60, 90, 150])
            events.append(("edm", frame))
            lines.append(timecode(frame, df) + "\t" + " ".join([CMD["EDM"]] * (2 if doubled else 1)))
            lines.append("")
            frame += 2 if doubled else 1
            frame += rng.choice([0, 1, 2, 3, 4, 5, 6, 8, 30, 90])
        else:
            frame += rng.choice([2, 4, 30, 60, 120])
    return {"mode": "pop", "text": "\n".join(lines) + "\n", "caps": caps, "events": events, "df": df, "doubled": file_doubled, "mixed": mixed, "offset": offset}


def spec_popon_timing(p):
    """S for C06: [(start, end)] per pop-on caption in transmission order, or 'timingError'"""
    df, off = p["df"], p["offset"]
    shown = []          # [start, end or None]
    for ev in p["events"]:
        t = instant(ev[1], df, off)
        if ev[0] == "eoc":
            if shown and shown[-1][1] is None:
                shown[-1][1] = t
            shown.append([t, None])
        else:
            if shown and shown[-1][1] is None:
                shown[-1][1] = t
    # a gap shorter than five frames before the next caption is closed; at exactly five frames (within 1 us, the
    # implementation's threshold is 5 frames + 1 us) either reading is accepted
    alts = []
    for i in range(len(shown)):
        s0, e0 = shown[i]
        cands = [e0]
        if i + 1 < len(shown) and e0 is not None and shown[i + 1][0] >= e0:
            gap = shown[i + 1][0] - e0
            if gap < 5 * FRAME:
                cands = [shown[i + 1][0]]
            elif gap <= 5 * FRAME + 1:
                cands = [e0, shown[i + 1][0]]
        alts.append((s0, cands))
    flash = any(all(e is not None and 0 < e - s0 < 50000 for e in cands) for s0, cands in alts)
    maybe_flash = any(any(e is not None and 0 < e - s0 < 50000 for e in cands) for s0, cands in alts)
    if alts and alts[-1][1] == [None]:
        alts[-1] = (alts[-1][0], [alts[-1][0] + 4000000])
    if flash:
        return "timingError"
    if maybe_flash:
        return "either"
    return alts


def spec_popon_screen(p):
    """S for C05: per transmitted caption the list of screen captions [(origin row,col), lines[[(ch, italic)...]]]"""
    out = []
    for cap in p["caps"]:
        groups = []
        for row in cap["rows"]:
            cells = nonblank(row_cells(row))
            words = "".join(ch for ch, _ in row_cells(row)).split()      # blank cells between characters separate words
            if groups and row["row"] == groups[-1]["last_row"] + 1:
                groups[-1]["lines"].append(cells); groups[-1]["last_row"] = row["row"]; groups[-1]["late_erase"] |= mid_cell_erased_late(row)
                groups[-1]["words"].append(words); groups[-1]["words_reliable"] &= words_reliable(row)
            else:
                groups.append({"origin": (row["row"], row["indent"] + row["tab"]), "lines": [cells], "last_row": row["row"],
                               "late_erase": mid_cell_erased_late(row), "words": [words], "words_reliable": words_reliable(row)})
        out.append(groups)
    return out


def wf_popon(p):
    """the well-formedness clauses of DESIGN §3 C05"""
    for cap in p["caps"]:
        dbl = cap.get("doubled", p["doubled"])
        for row in cap["rows"]:
            if not nonblank(row_cells(row)):
                return False
            if row["indent"] + row["tab"] + len(row_cells(row)) > 32:
                return False
            prev = None
            for it in row["items"]:
                if not dbl and it[0] in ("s", "e") and prev is not None and prev[0] == it[0] and prev[-2] == it[-2]:
                    return False
                # a special character right before the same special code used as a stand-in reads as one doubled code
                if not dbl and it[0] == "es" and prev is not None and prev[0] == "s" and prev[1] == it[1]:
                    return False
                # the same mid-row code twice in a row reads as one doubled code (the decoder ignores the copy), so in
                # a stream sent single it does not stand for two cells
                if not dbl and it[0] == "mid" and prev is not None and prev == it:
                    return False
                prev = it
    return True


# ---------------------------------------------------------------- roll-up / paint-on programs
def items_words(items, doubled):
    """the words of a run of items (no preamble); control, special and extended codes doubled as units when `doubled`"""
    return row_words({"row": 1, "indent": 0, "tab": 0, "italic_pac": False, "items": items}, False)[1:] if not doubled else \
        row_words({"row": 1, "indent": 0, "tab": 0, "italic_pac": False, "items": items}, True)[2:]


def rollup_rows(rng, lines, rows, frame, df, doubled, paint, depth, ru_once, nrows, first=True, rich=False):
    K = tables()
    specials = [(w, ch) for w, ch in K.SPECIAL_CHARS.items() if ch.strip()]
    extended = list(K.EXTENDED_CHARS.items())
    base_row = rng.choice([15, 15, 14, 10])
    for k in range(nrows):
        maxlen = rng.choice([32, 32, 31, 20, 9])
        text = " ".join("".join(rng.choice(SAFE_CHARS[:52]) for _ in range(rng.randint(1, 7))) for _ in range(rng.randint(1, 6)))[:maxlen].rstrip()
        if rng.random() < 0.15:
            text = (text + "".join(rng.choice(SAFE_CHARS[:52]) for _ in range(32)))[:32]     # a full-width row
        if ACCENT_RNG is not None and text and ACCENT_RNG.random() < 0.7:
            # the basic set's ten non-ASCII cells (0x2a, 0x5c, 0x5e-0x60, 0x7b-0x7e), spelled by this generator's own table
            tl = list(text)
            for _ in range(ACCENT_RNG.randint(1, 3)):
                j = ACCENT_RNG.randrange(len(tl))
                if tl[j] != " ":
                    tl[j] = ACCENT_RNG.choice("áéíóúç÷Ññ")
            text = "".join(tl)
        items = [("c", ch) for ch in text]
        if rich and rng.random() < 0.5 and len(items) >= 3:
            # a few special and extended characters (the latter sent as stand-in + code) replace basic ones
            for _ in range(rng.randint(1, 3)):
                j = rng.randrange(len(items))
                if items[j][0] != "c" or items[j][1] == " " or (j and items[j - 1][0] != "c") or (j + 1 < len(items) and items[j + 1][0] != "c"):
                    continue
                if rng.random() < 0.5:
                    w, ch = rng.choice(specials); items[j] = ("s", w, ch)
                    if rng.random() < 0.3 and len(items) <= 30:
                        items[j:j + 1] = [("s", w, ch), ("n",), ("s", w, ch)]
                else:
                    w, ch = rng.choice(extended); items[j] = ("e", rng.choice("AEIOUaeiou"), w, ch)
            text = "".join(ch for ch, _ in row_cells({"italic_pac": False, "items": items}))
        words = []
        if paint:
            r = rng.randint(1, 15)
            words += [CMD["RDC"]] * (2 if doubled else 1)
            words += [pac(r, 0)] * (2 if doubled else 1)
        else:
            if (k == 0 and first) or not ru_once or k == 0:
                words += [CMD[depth]] * (2 if doubled else 1)
            words += [CMD["CR"]] * (2 if doubled else 1)
            words += [pac(base_row, 0)] * (2 if doubled else 1)
        words += items_words(items, doubled)
        second = None
        if paint and rng.random() < 0.2:
            # the same paint-on cue goes on on a row that is not the next one down: two captions with the same times
            r2 = rng.choice([x for x in range(1, 16) if abs(x - r) >= 2])
            second = "".join(rng.choice(SAFE_CHARS[:52]) for _ in range(rng.randint(2, 8)))
            words += [pac(r2, 0)] * (2 if doubled else 1)
            words += items_words([("c", ch) for ch in second], doubled)
        lines.append(timecode(frame, df) + "\t" + " ".join(words))
        lines.append("")
        rows.append({"text": text, "frame": frame, "words": len(words)})
        if second is not None:
            rows.append({"text": second, "frame": frame, "words": 0, "same_cue": True})
        frame += len(words) + rng.choice([10, 30, 60, 90])
    return frame


def gen_rollup(rng, paint=False, rich=False):
    df = rng.random() < 0.5
    doubled = rng.random() < 0.5
    depth = rng.choice(["RU2", "RU3", "RU4"])
    ru_once = rng.random() < 0.4          # the roll-up command only once; later rows by carriage return + preamble
    frame = rng.choice([0, 30, 900, 3600 * 30 - 150, 3600 * 30 - 40, 2 * 3600 * 30 + 5])      # also across a full hour
    lines = ["Scenarist_SCC V1.0", ""]
    rows = []
    rollup_rows(rng, lines, rows, frame, df, doubled, paint, depth, ru_once, rng.randint(1, 8), rich=rich)
    return {"mode": "paint" if paint else "roll", "text": "\n".join(lines) + "\n", "rows": rows, "df": df, "doubled": doubled, "offset": 0, "ru_once": ru_once}


def gen_mixed(rng, rich=False):
    """a stream that changes mode: 2-4 stretches of paint-on / roll-up rows"""
    df = rng.random() < 0.5
    doubled = rng.random() < 0.5
    frame = rng.choice([0, 30, 900, 3600 * 30 - 150, 3600 * 30 - 40])
    lines = ["Scenarist_SCC V1.0", ""]
    rows = []
    mode = rng.random() < 0.5
    for _ in range(rng.randint(2, 4)):
        frame = rollup_rows(rng, lines, rows, frame, df, doubled, mode, rng.choice(["RU2", "RU3", "RU4"]), False, rng.randint(1, 3), rich=rich)
        mode = not mode
    return {"mode": "mixed", "text": "\n".join(lines) + "\n", "rows": rows, "df": df, "doubled": doubled, "offset": 0, "ru_once": False}


def styled_adjacent_rows_program(rng, doubled=False):
    """one pop-on caption of 2-4 ADJACENT rows; rows carry an italic stretch that is switched off (or on) by a mid-row code
    in the middle of the row, with and without blanks around it, and some rows begin with blank cells"""
    n = rng.randint(2, 4)
    start = rng.randint(1, 16 - n)
    rows = []
    for k in range(n):
        w1 = rng.choice(["Hi", "AB", "one", "x"]); w2 = rng.choice(["yo", "CD", "two", "z9"])
        shape = rng.randrange(5)
        pac_it = rng.random() < 0.5
        if shape == 0:      # italic word, mid-row plain, word
            items = ([] if pac_it else [("mid", True)]) + [("c", c) for c in w1] + [("mid", False)] + [("c", c) for c in w2]
        elif shape == 1:    # word, mid-row italic, word
            pac_it = False
            items = [("c", c) for c in w1] + [("mid", True)] + [("c", c) for c in w2]
        elif shape == 2:    # blank cells first
            pac_it = False
            items = [("c", " ")] * rng.randint(1, 2) + [("c", c) for c in w1 + " " + w2]
        elif shape == 3:    # italic word, blank, mid-row plain, word
            items = ([] if pac_it else [("mid", True)]) + [("c", c) for c in w1 + " "] + [("mid", False)] + [("c", c) for c in w2]
        else:
            pac_it = False
            items = [("c", c) for c in w1 + " " + w2]
        rows.append({"row": start + k, "indent": 0 if pac_it else rng.choice([0, 4]), "tab": 0, "italic_pac": pac_it, "items": items})
    words = [CMD["ENM"], CMD["RCL"]]
    if doubled:
        words = [w for w in words for _ in range(2)]
    for r in rows:
        words += row_words(r, doubled)
    words += [CMD["EOC"]] * (2 if doubled else 1)
    text = "Scenarist_SCC V1.0\n\n" + timecode(30, False) + "\t" + " ".join(words) + "\n\n" + timecode(300, False) + "\t" + CMD["EDM"] + "\n"
    return {"mode": "pop", "text": text, "caps": [{"rows": rows}], "events": [], "df": False, "doubled": doubled, "offset": 0}


def italic_rows_program(rng, doubled=False):
    """one pop-on caption of 3-5 rows that are NOT adjacent, every row italic (italic preamble, or a mid-row code first)"""
    n = rng.randint(3, 5)
    start = rng.randint(1, 15 - 2 * (n - 1))
    rows = []
    for k in range(n):
        items = [("c", ch) for ch in rng.choice(["TOP", "MID", "LOW", "ROW", "ab", "x y"])]
        via_pac = rng.random() < 0.7
        if not via_pac:
            items = [("mid", True)] + items
        rows.append({"row": start + 2 * k, "indent": 0 if via_pac else rng.choice([0, 4]), "tab": 0, "italic_pac": via_pac, "items": items})
    words = [CMD["ENM"], CMD["RCL"]]
    if doubled:
        words = [w for w in words for _ in range(2)]
    for r in rows:
        words += row_words(r, doubled)
    words += [CMD["EOC"]] * (2 if doubled else 1)
    text = "Scenarist_SCC V1.0\n\n" + timecode(30, False) + "\t" + " ".join(words) + "\n\n" + timecode(300, False) + "\t" + CMD["EDM"] + "\n"
    return {"mode": "pop", "text": text, "caps": [{"rows": rows}], "events": [], "df": False, "doubled": doubled, "offset": 0}
