"""encoders / generators for pycaption.geometry values (shared by C12, C13, C18)"""
from fractions import Fraction
from pcv import core

UNITS = ["px", "em", "%", "c", "pt"]
HAL = ["left", "center", "right", "start", "end"]
VAL = ["top", "center", "bottom"]


def G():
    import pycaption.geometry as g
    return g


def fr(x):
    x = Fraction(x)
    return "%d/%d" % (x.numerator, x.denominator)


def unfr(t):
    return Fraction(t)


def enc_size(s):
    return fr(Fraction(s.value)) + ":" + s.unit.value


def dec_size(t):
    v, u = t.split(":")
    return (Fraction(v), u)


def enc_point(p):
    return enc_size(p.x) + "|" + enc_size(p.y)


def enc_stretch(p):
    return enc_size(p.horizontal) + "|" + enc_size(p.vertical)


def enc_padding(p):
    return "|".join(enc_size(x) for x in (p.before, p.after, p.start, p.end))


def enc_alignment(a):
    return (a.horizontal.value if a.horizontal else "N") + "|" + (a.vertical.value if a.vertical else "N")


def enc_layout(l):
    if l is None:
        return "N"
    return ";".join([
        enc_point(l.origin) if l.origin is not None else "N",
        enc_stretch(l.extent) if l.extent is not None else "N",
        enc_padding(l.padding) if l.padding is not None else "N",
        enc_alignment(l.alignment) if l.alignment is not None else "N",
        core.enc(l.webvtt_positioning) if l.webvtt_positioning is not None else "N"])


def dec_layout(t):
    """-> comparable nested tuple of Fractions/strings"""
    if t == "N":
        return None
    o, e, p, a, w = t.split(";")
    def two(x):
        return None if x == "N" else tuple(dec_size(y) for y in x.split("|"))
    return (two(o), two(e), two(p), None if a == "N" else tuple(a.split("|")), None if w == "N" else core.dec(w))


def obs_size(s):
    return (Fraction(s.value), s.unit.value)


def _enum_obs(v, cls):
    """the value of an alignment member; a member of the wrong enumeration is not that value"""
    if not v:
        return "N"
    return v.value if type(v).__name__ == cls else "!%s.%s" % (type(v).__name__, getattr(v, "name", v))


def obs_layout(l):
    if l is None:
        return None
    return (None if l.origin is None else (obs_size(l.origin.x), obs_size(l.origin.y)),
            None if l.extent is None else (obs_size(l.extent.horizontal), obs_size(l.extent.vertical)),
            None if l.padding is None else tuple(obs_size(x) for x in (l.padding.before, l.padding.after, l.padding.start, l.padding.end)),
            None if l.alignment is None else (_enum_obs(l.alignment.horizontal, "HorizontalAlignmentEnum"),
                                               _enum_obs(l.alignment.vertical, "VerticalAlignmentEnum")),
            l.webvtt_positioning)


def close(a, b, rel=Fraction(1, 10 ** 11)):
    return abs(a - b) <= rel * max(abs(a), abs(b), 1)


def layouts_close(a, b, ignore_webvtt=True):
    if a is None or b is None:
        return a is None and b is None
    for i in range(3):
        x, y = a[i], b[i]
        if (x is None) != (y is None):
            return False
        if x is not None:
            if len(x) != len(y):
                return False
            for (v1, u1), (v2, u2) in zip(x, y):
                if u1 != u2 or not close(v1, v2):
                    return False
    if a[3] != b[3]:
        return False
    return ignore_webvtt or a[4] == b[4]


VALUES = [0, 1, 7, 10, 12.5, 33.33, 50, 64, 90, 100, 640, 0.004, 0.005, 2.675, 1.005, 99.995, 1e4, 0.125, 36, 35.0, 25, 80]


def rand_size(rng, units=UNITS, values=VALUES):
    g = G()
    return g.Size(rng.choice(values), g.UnitEnum(rng.choice(units)))


def rand_layout(rng, units=UNITS, values=VALUES, p_none=0.3, webvtt=False):
    g = G()
    def sz():
        return rand_size(rng, units, values)
    origin = None if rng.random() < p_none else g.Point(sz(), sz())
    extent = None if rng.random() < p_none else g.Stretch(sz(), sz())
    padding = None if rng.random() < max(p_none, 0.5) else g.Padding(sz(), sz(), sz(), sz())
    al = None
    if rng.random() > p_none:
        al = g.Alignment(rng.choice([None] + [g.HorizontalAlignmentEnum(x) for x in HAL]),
                         rng.choice([None] + [g.VerticalAlignmentEnum(x) for x in VAL]))
    w = rng.choice([None, "", "line:10%", "align:left"]) if webvtt else None
    return g.Layout(origin=origin, extent=extent, padding=padding, alignment=al, webvtt_positioning=w)
