"""Core of the checking harness: translate -> lake build -> audits -> correspondence -> decide.

See DESIGN.md §2.5.  Exit codes: 0 held / only known findings, 1 violation, 2 tool failure.
"""
import fcntl, json, os, random, re, shutil, subprocess, sys, time, hashlib, traceback

VERIF = os.path.dirname(os.path.dirname(os.path.dirname(os.path.abspath(__file__))))
LEAN = os.path.join(VERIF, "lean")
REPO = os.environ.get("PCV_REPO", "/repo")
DRIVER = os.path.join(LEAN, ".lake", "build", "bin", "pcdriver")
GEN = os.path.join(LEAN, "PcVerif", "Generated")
GEN_BASE = os.path.join(LEAN, "GeneratedBaseline")
ALLOWED_AXIOMS = {"propext", "Classical.choice", "Quot.sound"}
FORBIDDEN = re.compile(r"\b(sorry|admit|native_decide|bv_decide|implemented_by|unsafe)\b|^\s*axiom\s|maxHeartbeats\s+0\b", re.M)

TRUSTED_BASE = [
    "Lean 4.33.0 kernel (thorough tier: leanchecker re-check of the compiled .olean files)",
    "axioms per theorem audited on every run with #print axioms: subset of {propext, Classical.choice, Quot.sound}; no native_decide, no bv_decide, no sorry",
    "translate/gen_lean.py: the generated tables/constants/pattern strings/structure flags say what /repo says",
    "correspondence harness (harness/pcv): agreement of the hand-written Lean model with the Python implementation is sampled by differential execution, not proved",
    "the reading of the property into the Lean statements in lean/PcVerif/Props",
]


# ------------------------------------------------------------------ protocol
class ObjPool:
    """reader / writer objects that live as long as a check: `get(cls, reuse, **opts)` hands back the pooled object for
    (class, options) when `reuse` is true and a fresh one otherwise.  A property that holds for a fresh object must hold
    for one that has already been used (C09 / C10), so every harness alternates between the two."""
    def __init__(self):
        self._objs = {}
        self._calls = {}

    def get(self, cls, reuse=None, **opts):
        key = (cls.__module__, cls.__name__, json.dumps(opts, sort_keys=True, default=str))
        # counted per (class, options) -- a global counter can run in step with a harness that cycles through formats,
        # and then one class would always get a fresh object: fresh, pooled, pooled, fresh, ...
        k = self._calls.get(key, 0)
        self._calls[key] = k + 1
        if reuse is None:
            reuse = k % 3 != 0
        if not reuse:
            return cls(**opts)
        if key not in self._objs:
            self._objs[key] = cls(**opts)
        return self._objs[key]


POOL = ObjPool()


def enc(s):
    if s == "":
        return "_"
    return ".".join("%x" % ord(c) for c in s)


def dec(t):
    if t == "_":
        return ""
    return "".join(chr(int(h, 16)) for h in t.split("."))


def enc_list(items, f=enc):
    items = list(items)
    if not items:
        return "[]"
    return ",".join(f(x) for x in items)


def dec_list(t, f=dec):
    if t == "[]":
        return []
    return [f(x) for x in t.split(",")]


def enc_bool(b):
    return "1" if b else "0"


# ------------------------------------------------------------------ tools
def sh(cmd, cwd=None, timeout=3600, env=None):
    p = subprocess.run(cmd, cwd=cwd, stdout=subprocess.PIPE, stderr=subprocess.STDOUT, text=True,
                       timeout=timeout, env=env)
    return p.returncode, p.stdout


class BuildLock:
    def __enter__(self):
        self.f = open(os.path.join(LEAN, ".build.lock"), "w")
        fcntl.flock(self.f, fcntl.LOCK_EX)
        return self

    def __exit__(self, *a):
        fcntl.flock(self.f, fcntl.LOCK_UN)
        self.f.close()


def translate():
    rc, out = sh([sys.executable, os.path.join(VERIF, "translate", "gen_lean.py")],
                 env=dict(os.environ, PCV_REPO=REPO))
    return rc, out


def lake_build(targets, timeout=3000):
    rc, out = sh(["lake", "build"] + list(targets), cwd=LEAN, timeout=timeout)
    return rc, out


def restore_baseline_generated():
    """put the committed baseline of Generated/ back (used only to build a driver for the search
    when the regenerated definitions no longer elaborate)"""
    for f in os.listdir(GEN_BASE):
        shutil.copy(os.path.join(GEN_BASE, f), os.path.join(GEN, f))


def strip_comments(text):
    text = re.sub(r"/-.*?-/", "", text, flags=re.S)
    text = re.sub(r"--.*", "", text)
    return text


def forbidden_tokens():
    hits = []
    for root, _, files in os.walk(LEAN):
        if ".lake" in root or "GeneratedBaseline" in root:
            continue
        for fn in files:
            if fn.endswith(".lean"):
                p = os.path.join(root, fn)
                t = strip_comments(open(p, encoding="utf-8").read())
                # string literals may mention words; drop them
                t = re.sub(r'"(?:\\.|[^"\\])*"', '""', t)
                for m in FORBIDDEN.finditer(t):
                    hits.append("%s: %s" % (os.path.relpath(p, LEAN), m.group(0).strip()))
    return hits


def audit_axioms(module, theorems):
    """returns {theorem: sorted list of axioms | None when the theorem does not exist}"""
    tmp = os.path.join(LEAN, ".audit_%s_%d.lean" % (module.replace(".", "_"), os.getpid()))
    with open(tmp, "w") as f:
        f.write("import %s\n" % module)
        for t in theorems:
            f.write("#print axioms %s\n" % t)
    try:
        rc, out = sh(["lake", "env", "lean", tmp], cwd=LEAN, timeout=1200)
    finally:
        os.unlink(tmp)
    res = {t: None for t in theorems}
    out1 = re.sub(r"\s+", " ", out)
    for t in theorems:
        m = re.search(r"'%s' depends on axioms: \[([^\]]*)\]" % re.escape(t), out1)
        if m:
            res[t] = sorted(x.strip() for x in m.group(1).split(",") if x.strip())
        elif re.search(r"'%s' does not depend on any axioms" % re.escape(t), out1):
            res[t] = []
    return res, out


def run_driver(lines, timeout=3000):
    data = "\n".join(lines) + "\n"
    p = subprocess.run([DRIVER], input=data, stdout=subprocess.PIPE, stderr=subprocess.PIPE, text=True,
                       timeout=timeout)
    if p.returncode != 0:
        raise RuntimeError("driver failed: rc=%s %s" % (p.returncode, p.stderr[:2000]))
    outs = p.stdout.split("\n")
    if outs and outs[-1] == "":
        outs.pop()
    if len(outs) != len(lines):
        raise RuntimeError("driver returned %d lines for %d ops" % (len(outs), len(lines)))
    return outs


class Batch:
    """collect driver ops, run once, hand results back by index"""
    def __init__(self):
        self.lines = []
        self.out = None

    def add(self, op, *args):
        self.lines.append("\t".join((op,) + tuple(args)))
        return len(self.lines) - 1

    def run(self):
        self.out = run_driver(self.lines) if self.lines else []
        return self.out


# ------------------------------------------------------------------ known findings
def load_known():
    p = os.path.join(VERIF, "known_findings.json")
    if not os.path.exists(p):
        return {"findings": [], "fixed": []}
    return json.load(open(p))


# ------------------------------------------------------------------ check context
class Check:
    def __init__(self, pid, tier, seed, module, theorems, lake_targets=None, design_ref=""):
        self.pid, self.tier, self.seed = pid, tier, seed
        self.module, self.theorems = module, theorems
        self.lake_targets = lake_targets or [module, "pcdriver"]
        self.rng = random.Random(seed * 1000003 + int(hashlib.sha1(pid.encode()).hexdigest()[:8], 16))
        self._subs = {}
        self.t0 = time.time()
        self.evaluations = 0
        self.nontrivial = set()
        self.samples = []
        self.violations = []       # (kind, case) kind: 'property' | 'correspondence' | 'obligation'
        self.known_hits = {}
        self.counters = {}
        self.notes = []
        self.broken_obligations = []
        self.corr_failures = []
        self.axioms = {}
        self.exhaustive = False
        self.rule = ""
        self.assumptions = []
        self.extra_trusted = []
        self.known = [k for k in load_known()["findings"] if k["property"] == pid]
        self.driver_ok = False
        self.tool_failure = None
        self.predicates = {}      # name -> python predicate(case) for known findings

    # -------- phase 0-2
    def prepare(self):
        with BuildLock():
            rc, out = translate()
            if rc != 0:
                self.tool_failure = "translator crashed:\n" + out[-3000:]
                return
            rc, out = lake_build(self.lake_targets)
            self.build_log = out
            if rc != 0:
                # which part failed?  try the driver alone
                rc2, out2 = lake_build(["pcdriver"])
                if rc2 == 0:
                    self.driver_ok = True
                    self.broken_obligations.append({"what": "lake build %s failed" % self.module,
                                                    "log": tail_errors(out)})
                else:
                    self.broken_obligations.append({"what": "model no longer elaborates against the regenerated definitions",
                                                    "log": tail_errors(out2)})
                    # rebuild the driver from the committed baseline so that the search can run
                    restore_baseline_generated()
                    rc3, out3 = lake_build(["pcdriver"])
                    self.driver_ok = (rc3 == 0)
                    self.baseline_driver = True
                    if rc3 != 0:
                        self.tool_failure = "driver does not build even from baseline:\n" + out3[-3000:]
                        return
                self.axioms = {t: None for t in self.theorems}
            else:
                self.driver_ok = True
                hits = forbidden_tokens()
                if hits:
                    self.broken_obligations.append({"what": "forbidden tokens in Lean sources", "log": hits[:20]})
                self.axioms, raw = audit_axioms(self.module, self.theorems)
                for t, ax in self.axioms.items():
                    if ax is None:
                        self.broken_obligations.append({"what": "theorem %s missing" % t, "log": raw[-1500:]})
                    elif not set(ax) <= ALLOWED_AXIOMS:
                        self.broken_obligations.append({"what": "theorem %s uses axioms %s" % (t, ax), "log": ""})
                if self.tier == "thorough":
                    rc, out = sh(["lake", "env", "leanchecker", self.module], cwd=LEAN, timeout=3000)
                    self.counters["leanchecker_rc"] = rc
                    if rc != 0:
                        self.broken_obligations.append({"what": "leanchecker rejected " + self.module, "log": out[-1500:]})

    # -------- bookkeeping during exploration
    def count(self, key, n=1):
        self.counters[key] = self.counters.get(key, 0) + n

    def count_get(self, key):
        return self.counters.get(key, 0)

    def case(self, key=None, nontrivial=True, sample=None):
        self.evaluations += 1
        if nontrivial and key is not None:
            self.nontrivial.add(key if isinstance(key, (str, int, tuple)) else repr(key))
        if sample is not None and len(self.samples) < 6:
            self.samples.append(sample)

    def sub(self, name):
        """a generator of its own for one family of cases (seeded by check, seed and name): what is added to one family
        does not shift the random choices of the others"""
        if name not in self._subs:
            self._subs[name] = random.Random("%s|%d|%s" % (self.pid, self.seed, name))
        return self._subs[name]

    def remember(self, label, thunk, result, every=7, cap=400):
        """keep every `every`-th evaluation (label, thunk, repr of its result) for `recheck()`"""
        self._rem_n = getattr(self, "_rem_n", 0) + 1
        if not hasattr(self, "_remembered"):
            self._remembered = []
        if self._rem_n % every == 0 and len(self._remembered) < cap:
            self._remembered.append((label, thunk, repr(result)))

    def recheck(self, what):
        """evaluate the remembered calls once more, in reverse order: a function of its arguments gives the same result
        again, whatever was computed in between (nothing may be kept at class or module level)"""
        for label, thunk, first in reversed(getattr(self, "_remembered", [])):
            try:
                again = repr(thunk())
            except Exception as e:      # the harness's own thunk failed
                again = "raised " + type(e).__name__
            self.count("rechecked")
            if again != first:
                self.property_failure({"call": str(label)[:1500], "first_result": first[:1500], "second_result": again[:1500]},
                                      "%s: the same call gave a different result when repeated later in the same process" % what)
        self._remembered = []

    def property_failure(self, case, what):
        """implementation disagrees with the specification on a well-formed input"""
        for k in self.known:
            pred = self.predicates.get(k["predicate"])
            if pred is not None and pred(case):
                self.known_hits.setdefault(k["id"], {"entry": k, "n": 0, "example": case})["n"] += 1
                return
        self.violations.append({"kind": "property", "what": what, "case": case})

    def correspondence_failure(self, case, what):
        self.corr_failures.append({"kind": "correspondence", "what": what, "case": case})

    # -------- phase 4
    def finish(self):
        wall = time.time() - self.t0
        if self.tool_failure:
            print("TOOL-FAILURE property=%s\n%s" % (self.pid, self.tool_failure))
            self.write_evidence(wall, 0)
            sys.exit(2)
        lines = []
        for kid, h in self.known_hits.items():
            lines.append("KNOWN-FINDING: property=%s %s (%d cases this run)" % (self.pid, h["entry"]["what"], h["n"]))
        nviol = 0
        os.makedirs(os.path.join(VERIF, "replays"), exist_ok=True)
        if self.violations:
            # report the first few distinct ones
            seen = set()
            for v in self.violations:
                key = v["what"]
                if key in seen:
                    continue
                seen.add(key)
                if len(seen) > 5:
                    break
                path = os.path.join("replays", "%s-%d-%d.json" % (self.pid, self.seed, len(seen)))
                json.dump({"property": self.pid, "seed": self.seed, "tier": self.tier, "kind": "property-failure-on-implementation",
                           "what": v["what"], "case": v["case"]}, open(os.path.join(VERIF, path), "w"), indent=1, default=str)
                lines.append("VIOLATION property=%s replay=%s" % (self.pid, path))
                nviol += 1
        elif self.broken_obligations or self.corr_failures:
            path = os.path.join("replays", "%s-%d-unproved.json" % (self.pid, self.seed))
            json.dump({"property": self.pid, "seed": self.seed, "tier": self.tier,
                       "kind": "proof obligation or correspondence no longer checks; search found no failing input",
                       "broken_obligations": self.broken_obligations,
                       "correspondence_failures": self.corr_failures[:5],
                       "evaluations_searched": self.evaluations},
                      open(os.path.join(VERIF, path), "w"), indent=1, default=str)
            lines.append("VIOLATION property=%s replay=%s no-failing-input-found" % (self.pid, path))
            nviol += 1
        self.write_evidence(wall, nviol)
        for l in lines:
            print(l)
        if nviol:
            sys.exit(1)
        print("OK property=%s tier=%s seed=%d obligations=%d/%d evaluations=%d wall=%.1fs" % (
            self.pid, self.tier, self.seed, self.discharged(), len(self.theorems), self.evaluations, wall))
        sys.exit(0)

    def discharged(self):
        return sum(1 for t in self.theorems if self.axioms.get(t) is not None and set(self.axioms[t]) <= ALLOWED_AXIOMS)

    def write_evidence(self, wall, nviol):
        ev = {
            "property_id": self.pid, "tier": self.tier, "seed": self.seed, "level": "proof",
            "coverage": {
                "obligations": len(self.theorems),
                "discharged": self.discharged() if not self.broken_obligations or self.driver_ok else 0,
                "checker_cmd": "cd /verif/lean && lake build %s && lake env lean <#print axioms %s.*>" % (self.module, self.module)
                               + ("; lake env leanchecker %s" % self.module if self.tier == "thorough" else ""),
                "trusted_base": TRUSTED_BASE + self.extra_trusted,
                "theorems": {t: self.axioms.get(t) for t in self.theorems},
                "broken_obligations": self.broken_obligations,
                "evaluations": self.evaluations,
                "distinct_nontrivial": len(self.nontrivial),
                "rule": self.rule,
                "samples": self.samples,
                "exhaustive": self.exhaustive,
                "counters": self.counters,
                "correspondence_failures": len(self.corr_failures),
                "known_findings_hit": {k: v["n"] for k, v in self.known_hits.items()},
            },
            "assumptions": self.assumptions,
            "wall_s": round(wall, 2),
            "violations": nviol,
        }
        os.makedirs(os.path.join(VERIF, "evidence"), exist_ok=True)
        json.dump(ev, open(os.path.join(VERIF, "evidence", self.pid + ".json"), "w"), indent=1, default=str)


def tail_errors(out):
    errs = [l for l in out.splitlines() if "error" in l.lower()]
    return errs[:30] if errs else out.splitlines()[-30:]
