"""adversarial text generation and independent output parsers (C03, C04, C08)"""
import re, html

ATOMS = ["&", "<", ">", '"', "'", "-", "--", "-->", "->", "&amp;", "&lt;", "&gt;", "&#38;", "&#x26;", "&nbsp;", "&copy;", "&;", "& ",
         "</p>", "<br/>", "<p>", "</span>", "<i>", "</i>", "<b>", "]]>", "<![CDATA[", "<!--", "--&gt;", ";", "\\", "{", "}", "{1}{2}",
         " ", "‎", "‏", "\U0001F600", "é", "中文", "ß", "=", "/", "%", "#", "1", "42", "00:00:01,000 --> 00:00:02,000",
         "WEBVTT", "NOTE", "<v Bob>", "<c.x>", "</tt>", "<sami", "Scenarist_SCC V1.0", "a", "b", "word", "two words", "x y z", "I", "it's", "Q&A", "a<b", "1>0"]


def adv_line(rng, forbid=()):
    while True:
        n = rng.choice([1, 1, 2, 2, 3, 4])
        parts = [rng.choice(ATOMS) if rng.random() < 0.7 else rng.choice(["hello", "world", "caption", "fox"]) for _ in range(n)]
        s = rng.choice(["", " ", ""]).join(parts) if rng.random() < 0.5 else " ".join(parts)
        if rng.random() < 0.15:
            s = " " + s
        if rng.random() < 0.15:
            s = s + " "
        if any(f in s for f in forbid):
            continue
        if s.strip("  ‎‏") == "":
            continue
        return s


def adv_nodes(rng, forbid=(), max_lines=4, empty_lines=True, styles=False):
    """(abstract nodes, expected lines); with `styles`, a balanced pair of style nodes is sometimes put around a stretch
    of the nodes -- often one that renders as nothing in the target format (no italics/bold/underline), so that a break
    directly follows a node that is neither text nor break"""
    nl = rng.randint(1, max_lines)
    lines = [adv_line(rng, forbid) for _ in range(nl)]
    nodes = []
    if empty_lines and rng.random() < 0.1:
        nodes.append(("B",))
    elif empty_lines and not forbid and rng.random() < 0.08:
        # the caption opens with an empty line spelled as a text node without visible characters
        nodes += [("T", rng.choice(["", "", " ", "\u00a0"])), ("B",)]
        if rng.random() < 0.3:
            nodes += [("T", ""), ("B",)]
    for i, ln in enumerate(lines):
        if i:
            nodes.append(("B",))
            if empty_lines and rng.random() < 0.3:
                if rng.random() < 0.35 and not forbid:
                    # an "empty" line spelled as a text node without visible characters (what the WebVTT reader returns
                    # for a line holding only &nbsp;, what wrapped markup leaves behind)
                    nodes.append(("T", rng.choice(["\u00a0", " ", "", "\u3000", "\u00a0 \u00a0"])))
                nodes.append(("B",))
                if rng.random() < 0.3:
                    nodes.append(("B",))
        nodes.append(("T", ln))
    if empty_lines and rng.random() < 0.1:
        nodes.append(("B",))
    if styles and rng.random() < 0.45:
        fl = rng.choice([(False, False, False), (False, False, False), (True, False, False), (False, True, True), (True, True, False)])
        p = rng.randint(0, len(nodes))
        q = rng.randint(p, len(nodes))
        nodes = nodes[:p] + [("S", True) + fl] + nodes[p:q] + [("S", False) + fl] + nodes[q:]
    return nodes, lines


def norm_lines(lines):
    """per-line trim; empty / NBSP-only lines dropped"""
    out = []
    for l in lines:
        t = l.strip()
        if t.strip(" ") == "":
            continue
        out.append(t)
    return out


# ---------------------------------------------------------------- independent parsers of writer output
def parse_srt(doc):
    """SRT block grammar: blocks separated by blank lines; index line, timing line, text lines"""
    cues = []
    # a line without any visible character counts as blank (what parsers that trim lines do): a writer is only safe if
    # it leaves no such line inside a cue
    for block in re.split(r"\n[^\S\n]*\n", doc.strip("\n") + "\n"):
        ls = block.split("\n")
        ls = [l for l in ls]
        while ls and ls[-1] == "":
            ls.pop()
        if not ls:
            continue
        if len(ls) < 2 or not ls[0].strip().isdigit() or "-->" not in ls[1]:
            cues.append(("?", ls))
            continue
        cues.append((ls[1], ls[2:]))
    return cues


def vtt_decode(s):
    s = re.sub(r"<[^>]*>", "", s)        # cue span tags
    out = []
    i = 0
    ents = {"&amp;": "&", "&lt;": "<", "&gt;": ">", "&nbsp;": " ", "&lrm;": "‎", "&rlm;": "‏"}
    while i < len(s):
        if s[i] == "&":
            for k, v in ents.items():
                if s.startswith(k, i):
                    out.append(v); i += len(k); break
            else:
                out.append("&"); i += 1
        else:
            out.append(s[i]); i += 1
    return "".join(out)


def parse_vtt(doc):
    """WebVTT cue grammar: blocks separated by blank lines; optional identifier, timing line, payload until a blank
    line or a line containing '-->'"""
    lines = doc.split("\n")
    cues = []
    i = 0
    # header block
    while i < len(lines) and lines[i] != "":
        i += 1
    while i < len(lines):
        if lines[i] == "":
            i += 1; continue
        if "-->" not in lines[i]:
            if i + 1 < len(lines) and "-->" in lines[i + 1]:
                i += 1      # identifier
            else:
                # a block without timing (NOTE etc.): skip to blank
                while i < len(lines) and lines[i] != "":
                    i += 1
                continue
        timing = lines[i]; i += 1
        payload = []
        while i < len(lines) and lines[i] != "" and "-->" not in lines[i]:
            payload.append(lines[i]); i += 1
        cues.append((timing, [vtt_decode(p) for p in payload]))
    return cues


def parse_microdvd(doc):
    cues = []
    for l in doc.split("\n"):
        if l == "":
            continue
        m = re.match(r"\{(\d+)\}\{(\d+)\}(.*)$", l)
        if not m:
            cues.append(("?", [l])); continue
        cues.append(((m.group(1), m.group(2)), m.group(3).split("|")))
    return cues


def parse_dfxp(doc):
    """strict XML; per div the list of (begin, end, lines)"""
    from lxml import etree
    root = etree.fromstring(doc.encode("utf-8"))
    ns = "{http://www.w3.org/ns/ttml}"
    out = []
    for div in root.iter(ns + "div"):
        cues = []
        for p in div.iter(ns + "p"):
            buf = []
            def walk(e):
                if e.text: buf.append(e.text)
                for ch in e:
                    if ch.tag == ns + "br":
                        buf.append("\n")
                    else:
                        walk(ch)
                    if ch.tail: buf.append(ch.tail)
            walk(p)
            cues.append((p.get("begin"), p.get("end"), "".join(buf).split("\n")))
        out.append((div.get("{http://www.w3.org/XML/1998/namespace}lang"), cues))
    return out


def parse_sami(doc):
    """HTML; list of (start, class, lines) for every <p>"""
    from html.parser import HTMLParser
    res = []
    class P(HTMLParser):
        def __init__(s):
            super().__init__(convert_charrefs=True)
            s.sync = None; s.inp = False; s.buf = []; s.cls = None
        def handle_starttag(s, tag, attrs):
            d = dict(attrs)
            if tag == "sync": s.sync = d.get("start")
            elif tag == "p": s.inp = True; s.buf = []; s.cls = d.get("class")
            elif tag == "br" and s.inp: s.buf.append("\n")
        def handle_startendtag(s, tag, attrs):
            s.handle_starttag(tag, attrs)
        def handle_endtag(s, tag):
            if tag == "p" and s.inp:
                res.append((s.sync, s.cls, "".join(s.buf).split("\n"))); s.inp = False
        def handle_data(s, data):
            if s.inp: s.buf.append(data)
    P().feed(doc)
    return res
