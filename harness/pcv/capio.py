"""protocol encoding of captions / caption sets, and observation of pycaption objects"""
from fractions import Fraction
from pcv import core


def enc_node_abs(n):
    """abstract node: ('T', text) | ('B',) | ('S', start, i, b, u)"""
    if n[0] == "T":
        return "T" + core.enc(n[1])
    if n[0] == "B":
        return "B"
    return "S" + "".join("1" if x else "0" for x in n[1:5])


def dec_node(t):
    if t == "B":
        return ("B",)
    if t[0] == "T":
        return ("T", core.dec(t[1:]))
    return ("S",) + tuple(c == "1" for c in t[1:5])


def dec_nodes(t):
    return [] if t == "_" else [dec_node(x) for x in t.split(" ")]


def fr(x):
    x = Fraction(x)
    return "%d/%d" % (x.numerator, x.denominator)


def enc_rcap(c):
    """c = (start, end, [abstract nodes])"""
    return "%s;%s;%s" % (fr(c[0]), fr(c[1]), " ".join(enc_node_abs(n) for n in c[2]) if c[2] else "_")


def enc_langs(langs):
    """langs: list of caption lists"""
    if not langs:
        return "[]"
    return "|".join(core.enc_list(caps, enc_rcap) for caps in langs)


def dec_captions(t):
    """'ok:...' payload of a read op -> [(start, end, nodes)]"""
    def one(x):
        parts = x.split(";")
        c = (int(parts[0]), int(parts[1]), dec_nodes(parts[2]))
        if len(parts) > 3:
            c = c + (None if parts[3] == "N" else core.dec(parts[3][1:]),)
        return c
    return core.dec_list(t, one)


def obs_nodes(nodes):
    from pycaption import CaptionNode
    out = []
    for n in nodes:
        if n.type_ == CaptionNode.TEXT:
            out.append(("T", n.content))
        elif n.type_ == CaptionNode.BREAK:
            out.append(("B",))
        else:
            c = n.content or {}
            out.append(("S", bool(n.start), bool(c.get("italics")), bool(c.get("bold")), bool(c.get("underline"))))
    return out


def obs_captions(caps):
    return [(c.start, c.end, obs_nodes(c.nodes)) for c in caps]


def nodes_from_lines(lines):
    out = []
    for i, ln in enumerate(lines):
        if i:
            out.append(("B",))
        out.append(("T", ln))
    return out


def build_caption(start, end, nodes, layout=None, style=None):
    from pycaption import Caption, CaptionNode
    ns = []
    for n in nodes:
        if n[0] == "T":
            ns.append(CaptionNode.create_text(n[1], layout_info=n[2] if len(n) > 2 else None))
        elif n[0] == "B":
            ns.append(CaptionNode.create_break())
        else:
            d = {}
            if n[2]: d["italics"] = True
            if n[3]: d["bold"] = True
            if n[4]: d["underline"] = True
            ns.append(CaptionNode.create_style(n[1], d))
    return Caption(start, end, ns, style=style if style is not None else {}, layout_info=layout)


def build_set(langs):
    """langs: ordered dict lang -> [(start, end, nodes)]"""
    from pycaption import CaptionSet, CaptionList
    d = {}
    for lang, caps in langs.items():
        d[lang] = CaptionList([build_caption(*c) for c in caps])
    return CaptionSet(d, styles={})


def err_kind(e):
    n = type(e).__name__
    return {"IndexError": "indexError", "ValueError": "valueError", "CaptionReadSyntaxError": "syntaxError",
            "CaptionReadTimingError": "timingError", "CaptionReadNoCaptions": "noCaptions", "CaptionReadError": "readError",
            "ZeroDivisionError": "timingError"}.get(n, n)
