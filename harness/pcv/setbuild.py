"""Serialisable abstract caption sets -> pycaption objects (used in-process and in pristine sub-processes),
deep structural snapshots, random generation."""
import json


def mk_size(s):
    from pycaption.geometry import Size
    return Size.from_string(s)


def mk_layout(d):
    if d is None:
        return None
    from pycaption.geometry import Layout, Point, Stretch, Padding, Alignment, HorizontalAlignmentEnum, VerticalAlignmentEnum
    origin = Point(mk_size(d["origin"][0]), mk_size(d["origin"][1])) if d.get("origin") else None
    extent = Stretch(mk_size(d["extent"][0]), mk_size(d["extent"][1])) if d.get("extent") else None
    padding = Padding(*[mk_size(x) for x in d["padding"]]) if d.get("padding") else None
    al = None
    if d.get("align"):
        h, v = d["align"]
        al = Alignment(HorizontalAlignmentEnum(h) if h else None, VerticalAlignmentEnum(v) if v else None)
    return Layout(origin=origin, extent=extent, padding=padding, alignment=al, webvtt_positioning=d.get("webvtt"))


def build(desc):
    from pycaption import CaptionSet, CaptionList, Caption, CaptionNode
    langs = {}
    for L in desc["langs"]:
        cl = CaptionList(layout_info=mk_layout(L.get("layout")))
        for c in L["caps"]:
            nodes = []
            for n in c["nodes"]:
                if n[0] == "T":
                    nodes.append(CaptionNode.create_text(n[1], layout_info=mk_layout(n[2] if len(n) > 2 else None)))
                elif n[0] == "B":
                    nodes.append(CaptionNode.create_break(layout_info=mk_layout(n[1] if len(n) > 1 else None)))
                else:
                    nodes.append(CaptionNode.create_style(n[1], dict(n[2]), layout_info=mk_layout(n[3] if len(n) > 3 else None)))
            cl.append(Caption(c["start"], c["end"], nodes, style=dict(c.get("style") or {}), layout_info=mk_layout(c.get("layout"))))
        langs[L["lang"]] = cl
    return CaptionSet(langs, styles={k: dict(v) for k, v in (desc.get("styles") or {}).items()}, layout_info=mk_layout(desc.get("layout")))


def snap_layout(l):
    if l is None:
        return None
    def sz(s): return None if s is None else (s.value, s.unit.value)
    return (None if l.origin is None else (sz(l.origin.x), sz(l.origin.y)),
            None if l.extent is None else (sz(l.extent.horizontal), sz(l.extent.vertical)),
            None if l.padding is None else tuple(sz(getattr(l.padding, a)) for a in ("before", "after", "start", "end")),
            None if l.alignment is None else (getattr(l.alignment.horizontal, "value", None), getattr(l.alignment.vertical, "value", None)),
            l.webvtt_positioning)


def snap_style(d):
    if d is None:
        return None
    return tuple((k, snap_style(v) if isinstance(v, dict) else (tuple(v) if isinstance(v, list) else v)) for k, v in d.items())


def snapshot(cs):
    """deep structural snapshot: languages in order, captions, nodes, styles, layouts (dict orders included)"""
    out = []
    for lang in cs.get_languages():
        caps = cs.get_captions(lang)
        cl = []
        for c in caps:
            ns = tuple((n.type_, n.content if not isinstance(n.content, dict) else snap_style(n.content), n.start, snap_layout(n.layout_info),
                        getattr(n, "position", None)) for n in c.nodes)
            cl.append((c.start, c.end, ns, snap_style(c.style), snap_layout(c.layout_info)))
        out.append((lang, snap_layout(getattr(caps, "layout_info", None)), tuple(cl)))
    return (tuple(out), snap_style(cs._styles), snap_layout(cs.layout_info))


WRITERS = ["srt", "webvtt", "dfxp", "single", "legacy", "sami", "microdvd", "scc"]


def make_writer(kind, opts=None):
    import pycaption
    from pycaption.dfxp.extras import SinglePositioningDFXPWriter, LegacyDFXPWriter
    cls = {"srt": pycaption.SRTWriter, "webvtt": pycaption.WebVTTWriter, "dfxp": pycaption.DFXPWriter, "single": SinglePositioningDFXPWriter,
           "legacy": LegacyDFXPWriter, "sami": pycaption.SAMIWriter, "microdvd": pycaption.MicroDVDWriter, "scc": pycaption.SCCWriter}[kind]
    return cls(**(opts or {}))


def run_write(writer, cs):
    try:
        return ("ok", writer.write(cs))
    except Exception as e:
        return ("err", type(e).__name__)


READERS = ["srt", "webvtt", "dfxp", "sami", "microdvd", "scc"]


def make_reader(kind, **init):
    import pycaption
    return {"srt": pycaption.SRTReader, "webvtt": pycaption.WebVTTReader, "dfxp": pycaption.DFXPReader, "sami": pycaption.SAMIReader,
            "microdvd": pycaption.MicroDVDReader, "scc": pycaption.SCCReader}[kind](**init)


# ---------------------------------------------------------------- random descriptions
WORDS = ["hello", "world", "caption", "a", "I", "quick", "fox", "time", "two", "words", "ok", "Q&A", "x<y"]


def rand_layout(rng, absolute=False):
    if rng.random() < 0.4:
        return None
    u = rng.choice(["px", "px", "c", "em", "pt"]) if absolute and rng.random() < 0.7 else "%"
    d = {}
    if rng.random() < 0.7:
        d["origin"] = ["%d%s" % (rng.choice([0, 5, 10, 25, 64]), u), "%d%s" % (rng.choice([0, 5, 10, 36, 80]), u)]
    if rng.random() < 0.4:
        d["extent"] = ["%d%s" % (rng.choice([20, 50, 80]), u), "%d%s" % (rng.choice([10, 15, 90]), u)]
    if rng.random() < 0.3:
        d["padding"] = ["%d%s" % (rng.choice([0, 1, 2, 5]), u) for _ in range(4)]
    if rng.random() < 0.5:
        d["align"] = [rng.choice(["left", "center", "right", "start", "end", None]), rng.choice(["top", "center", "bottom", None])]
    return d or None


def rand_desc(rng, nlang=None, unbalanced=0.15, absolute=0.15, with_layout=0.5, style_layout=0.0):
    langs = []
    names = ["en-US", "fr-FR", "de"]
    abs_ = rng.random() < absolute
    for li in range(nlang or rng.choice([1, 1, 2])):
        caps = []
        t = rng.choice([1000000, 4000000, 3600000000])
        for _ in range(rng.randint(1, 4)):
            nodes = []
            nl = rng.randint(1, 3)
            open_ = False
            for k in range(nl):
                if k:
                    nodes.append(["B"])
                if rng.random() < 0.5 and not open_:
                    st = {rng.choice(["italics", "bold", "underline"]): True}
                    if rng.random() < style_layout:
                        # a style node that carries a layout of its own, sometimes with no style rule at all
                        # (what <span region="..."> without tts attributes reads as)
                        nodes.append(["S", True, {} if rng.random() < 0.5 else st, rand_layout(rng, abs_)]); open_ = nodes[-1][2]
                        if not open_:
                            open_ = {"_empty": True}
                    else:
                        nodes.append(["S", True, st]); open_ = st
                nodes.append(["T", " ".join(rng.choice(WORDS) for _ in range(rng.randint(1, 4)))] +
                             ([rand_layout(rng, abs_)] if rng.random() < with_layout * 0.3 else []))
                if open_ and rng.random() < 0.6:
                    nodes.append(["S", False, {} if "_empty" in open_ else open_]); open_ = False
            if open_ and rng.random() > unbalanced:
                nodes.append(["S", False, {} if "_empty" in open_ else open_])
            d = rng.choice([1500000, 2000000])
            caps.append({"start": t, "end": t + d, "nodes": nodes,
                         "style": rng.choice([{}, {}, {"class": "p"}, {"italics": True}, {"text-align": "center"}]),
                         "layout": rand_layout(rng, abs_) if rng.random() < with_layout else None})
            t += d + rng.choice([2000000, 3000000])
        langs.append({"lang": names[li], "layout": rand_layout(rng, abs_) if rng.random() < with_layout * 0.5 else None, "caps": caps})
    styles = rng.choice([{}, {}, {"p": {"color": "#ffffff", "font-family": "Arial"}}, {"p": {"text-align": "center", "font-size": "10pt"}, "b1": {"italics": True}}])
    return {"langs": langs, "styles": styles, "layout": rand_layout(rng, abs_) if rng.random() < with_layout * 0.4 else None}


if __name__ == "__main__":
    # pristine sub-process: stdin = JSON list of jobs {"kind","opts","desc"} -> stdout JSON list of results
    import sys, warnings
    warnings.filterwarnings("ignore")
    jobs = json.load(sys.stdin)
    res = []
    for j in jobs:
        if j.get("op") == "read":
            try:
                cs = make_reader(j["kind"], **(j.get("init") or {})).read(j["doc"], **(j.get("kwargs") or {}))
                res.append(["ok", repr(snapshot(cs))])
            except Exception as e:
                res.append(["err", type(e).__name__])
        else:
            res.append(list(run_write(make_writer(j["kind"], j.get("opts")), build(j["desc"]))))
    json.dump(res, sys.stdout)
