import PcVerif.Ops
open PcVerif

partial def loop (h : IO.FS.Stream) (out : IO.FS.Stream) : IO Unit := do
  let line ← h.getLine
  if line.isEmpty then return ()
  let line := if line.endsWith "\n" then (line.dropEnd 1).toString else line
  let fields := line.splitOn "\t"
  let res := match fields with
    | op :: args => match Ops.table.find? (fun e => e.1 == op) with
        | some e => e.2 args
        | none => "bad-op"
    | [] => "bad-op"
  out.putStrLn res
  loop h out

def main : IO Unit := do
  let stdin ← IO.getStdin
  let stdout ← IO.getStdout
  loop stdin stdout
