import PcVerif.Ops.Util
import PcVerif.Ops.Detect
import PcVerif.Ops.Base
import PcVerif.Ops.Geometry
import PcVerif.Ops.TextFormats
import PcVerif.Ops.Xml
import PcVerif.Ops.TextWriters
import PcVerif.Ops.Scc
namespace PcVerif.Ops
def table : List (String × Proto.Handler) := utilOps ++ detectOps ++ baseOps ++ geoOps ++ textFormatOps ++ xmlOps ++ samiWriterOps ++ textWriterOps ++ xmlTextOps ++ sccOps ++ sccWriterOps ++ worldOps ++ langOps ++ xmlTreeOps ++ vttPosOps ++ dfxpLayoutOps
end PcVerif.Ops
