import PcVerif.Ops.Util
import PcVerif.Ops.Detect
namespace PcVerif.Ops
def table : List (String × Proto.Handler) := utilOps ++ detectOps
end PcVerif.Ops
