import PcVerif.Ops.Util
import PcVerif.Ops.Detect
import PcVerif.Ops.Base
namespace PcVerif.Ops
def table : List (String × Proto.Handler) := utilOps ++ detectOps ++ baseOps
end PcVerif.Ops
