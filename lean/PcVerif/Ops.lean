import PcVerif.Ops.Util
import PcVerif.Ops.Detect
import PcVerif.Ops.Base
import PcVerif.Ops.Geometry
namespace PcVerif.Ops
def table : List (String × Proto.Handler) := utilOps ++ detectOps ++ baseOps ++ geoOps
end PcVerif.Ops
