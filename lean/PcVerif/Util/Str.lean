/-
  Python `str` operations over `List Char`, import-free, structural recursion only.
  Code-point classes (isspace, splitlines boundaries, isdigit) come from
  `PcVerif.Generated.PyChars`, which the translator regenerates from the running interpreter.
-/
import PcVerif.Generated.PyChars

namespace PcVerif
abbrev Str := List Char

deriving instance DecidableEq for Except

namespace Str

def inRanges (rs : List (Nat × Nat)) (n : Nat) : Bool :=
  rs.any fun r => r.1 ≤ n && n ≤ r.2

/-- `c.isspace()` (equals regex `\s` for `str` patterns). -/
def isSpace (c : Char) : Bool := Generated.isspaceCps.contains c.toNat
/-- `c.isdigit()` -/
def isPyDigit (c : Char) : Bool := inRanges Generated.isdigitRanges c.toNat
/-- regex `\d` / what `int()` accepts: category Nd -/
def isDecimal (c : Char) : Bool := inRanges Generated.decimalRanges c.toNat
/-- ASCII digit -/
def isAsciiDigit (c : Char) : Bool := '0' ≤ c && c ≤ '9'
def isLineBreak (c : Char) : Bool := Generated.linebreakCps.contains c.toNat

def digitVal (c : Char) : Nat := c.toNat - 48

/-- value of an ASCII digit string read left to right with accumulator -/
def natOfDigitsAux : Nat → Str → Nat
  | acc, [] => acc
  | acc, c :: s => natOfDigitsAux (acc * 10 + digitVal c) s

def natOfDigits (s : Str) : Nat := natOfDigitsAux 0 s

def allAsciiDigits : Str → Bool
  | [] => true
  | c :: s => isAsciiDigit c && allAsciiDigits s

/-- `int(s)` restricted to non-empty ASCII digit strings (the model's domain);
    `none` = outside that domain (Python may raise ValueError or accept exotic spellings). -/
def parseNat? (s : Str) : Option Nat :=
  if s ≠ [] ∧ allAsciiDigits s then some (natOfDigits s) else none

/-- `str.isdigit()` -/
def isDigitStr (s : Str) : Bool := s ≠ [] && s.all isPyDigit

def lstripBy (p : Char → Bool) : Str → Str
  | [] => []
  | c :: s => if p c then lstripBy p s else c :: s

def rstripBy (p : Char → Bool) (s : Str) : Str := (lstripBy p s.reverse).reverse
def stripBy (p : Char → Bool) (s : Str) : Str := rstripBy p (lstripBy p s)

/-- `s.strip()` -/
def strip (s : Str) : Str := stripBy isSpace s
def lstrip (s : Str) : Str := lstripBy isSpace s
def rstrip (s : Str) : Str := rstripBy isSpace s
/-- `s.strip(chars)` -/
def stripChars (cs : Str) (s : Str) : Str := stripBy (fun c => cs.contains c) s

/-- `s.split(d)` for a one-character separator -/
def splitChar (d : Char) : Str → List Str
  | [] => [[]]
  | c :: s =>
    if c = d then [] :: splitChar d s
    else match splitChar d s with
      | [] => [[c]]
      | h :: t => (c :: h) :: t

def dropPrefix? : Str → Str → Option Str
  | s, [] => some s
  | [], _ :: _ => none
  | c :: s, p :: ps => if c = p then dropPrefix? s ps else none

def isPrefix (p s : Str) : Bool := (dropPrefix? s p).isSome

/-- `needle in s` -/
def contains (needle : Str) : Str → Bool
  | [] => needle.isEmpty
  | c :: s => isPrefix needle (c :: s) || contains needle s

/-- `s.split(sep)` for a non-empty separator; `skip` counts the characters of a matched
    separator still to be dropped (keeps the recursion structural). -/
def splitOnAux (sep : Str) : Nat → Str → List Str
  | _, [] => [[]]
  | (k + 1), _ :: s => splitOnAux sep k s
  | 0, c :: s =>
    if isPrefix sep (c :: s) then [] :: splitOnAux sep (sep.length - 1) s
    else match splitOnAux sep 0 s with
      | [] => [[c]]
      | h :: t => (c :: h) :: t

def splitOn (sep : Str) (s : Str) : List Str := splitOnAux sep 0 s

/-- `s.replace(old, new)` for non-empty `old` -/
def replaceAux (old new : Str) : Nat → Str → Str
  | _, [] => []
  | (k + 1), _ :: s => replaceAux old new k s
  | 0, c :: s =>
    if isPrefix old (c :: s) then new ++ replaceAux old new (old.length - 1) s
    else c :: replaceAux old new 0 s

def replace (old new : Str) (s : Str) : Str := replaceAux old new 0 s

/-- `s.splitlines()` : boundaries from the generated class, `\r\n` counts once, no trailing
    empty element. `cur` is the reversed current line. -/
def splitlinesAux : Bool → Str → Str → List Str
  | _, cur, [] => if cur.isEmpty then [] else [cur.reverse]
  | afterCR, cur, c :: s =>
    if afterCR && c = '\n' then splitlinesAux false cur s
    else if c = '\r' then cur.reverse :: splitlinesAux true [] s
    else if isLineBreak c then cur.reverse :: splitlinesAux false [] s
    else splitlinesAux false (c :: cur) s

def splitlines (s : Str) : List Str := splitlinesAux false [] s

/-- ASCII lower-casing of one character -/
def lowerAsciiChar (c : Char) : Char :=
  if 'A' ≤ c && c ≤ 'Z' then Char.ofNat (c.toNat + 32) else c

/-- `s.lower()` as far as ASCII content is concerned: ASCII letters are lower-cased, the
    generated exotic code points (U+0130, U+212A) expand to what Python gives, every other
    non-ASCII character is kept (Python maps it to non-ASCII characters only). -/
def lower : Str → Str
  | [] => []
  | c :: s =>
    match Generated.lowerToAscii.find? (fun e => e.1 = c.toNat) with
    | some e => e.2.map Char.ofNat ++ lower s
    | none => lowerAsciiChar c :: lower s

/-- longest prefix of `\d` characters and the rest -/
def spanDecimals : Str → Str × Str
  | [] => ([], [])
  | c :: s => if isDecimal c then let r := spanDecimals s; (c :: r.1, r.2) else ([], c :: s)

/-- exactly `n` `\d` characters -/
def takeDec : Nat → Str → Option (Str × Str)
  | 0, s => some ([], s)
  | _ + 1, [] => none
  | n + 1, c :: s => if isDecimal c then (match takeDec n s with | some (a, r) => some (c :: a, r) | none => none) else none

/-- drop one expected character -/
def dropChar (c : Char) : Str → Option Str
  | [] => none
  | x :: s => if x = c then some s else none

def join (sep : Str) : List Str → Str
  | [] => []
  | [a] => a
  | a :: b :: t => a ++ sep ++ join sep (b :: t)

def ofNat (n : Nat) : Str := (Nat.repr n).toList

/-- `f"{n:0kd}"` -/
def padLeft (k : Nat) (c : Char) (s : Str) : Str := List.replicate (k - s.length) c ++ s

end Str
end PcVerif
