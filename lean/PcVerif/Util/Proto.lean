/-
  Line protocol helpers for the driver: strings are hex code points joined by '.', "_" is the
  empty string; lists are joined by ','; "[]" is the empty list.
-/
import PcVerif.Util.Str
namespace PcVerif.Proto

def hexDigit (n : Nat) : Char := if n < 10 then Char.ofNat (48 + n) else Char.ofNat (87 + n)

def hexAux : Nat → Nat → List Char → List Char
  | 0, _, acc => acc
  | fuel + 1, n, acc => if n < 16 then hexDigit n :: acc else hexAux fuel (n / 16) (hexDigit (n % 16) :: acc)

def toHex (n : Nat) : String := String.ofList (hexAux 8 n [])

def hexVal (c : Char) : Nat :=
  if '0' ≤ c && c ≤ '9' then c.toNat - 48 else if 'a' ≤ c && c ≤ 'f' then c.toNat - 87 else 0

def ofHex (s : String) : Nat := s.toList.foldl (fun a c => a * 16 + hexVal c) 0

def encStr (s : Str) : String :=
  if s.isEmpty then "_" else String.intercalate "." (s.map fun c => toHex c.toNat)

def decStr (s : String) : Str :=
  if s = "_" then [] else (s.splitOn ".").map fun h => Char.ofNat (ofHex h)

def encList (f : α → String) (l : List α) : String :=
  if l.isEmpty then "[]" else String.intercalate "," (l.map f)

def decList (f : String → α) (s : String) : List α :=
  if s = "[]" then [] else (s.splitOn ",").map f

def encStrs (l : List Str) : String := encList encStr l
def decStrs (s : String) : List Str := decList decStr s

def decInt (s : String) : Int :=
  if s.startsWith "-" then - (Int.ofNat (s.drop 1).toNat!) else Int.ofNat s.toNat!
def decNat (s : String) : Nat := s.toNat!
def encBool (b : Bool) : String := if b then "1" else "0"
def decBool (s : String) : Bool := s = "1"
def encOpt (f : α → String) : Option α → String
  | none => "N"
  | some a => "S" ++ f a

abbrev Handler := List String → String

end PcVerif.Proto

namespace PcVerif.Proto
/-- rationals as "num/den" -/
def decRat (s : String) : Rat :=
  match s.splitOn "/" with
  | [n, d] => mkRat (decInt n) (decNat d)
  | [n] => mkRat (decInt n) 1
  | _ => 0
def encRat (r : Rat) : String := toString r.num ++ "/" ++ toString r.den
def encNats (l : List Nat) : String := if l.isEmpty then "_" else String.intercalate " " (l.map toString)
def decNats (s : String) : List Nat := if s = "_" then [] else (s.splitOn " ").map decNat
end PcVerif.Proto
