import PcVerif.Util.Proto
import PcVerif.Model.Caption
namespace PcVerif.Ops
open Proto

def encNode : Node → String
  | .text s => "T" ++ encStr s
  | .brk => "B"
  | .style st f => "S" ++ encBool st ++ encBool f.italics ++ encBool f.bold ++ encBool f.underline

def decNode (s : String) : Node :=
  if s = "B" then .brk
  else if s.startsWith "T" then .text (decStr (s.drop 1).toString)
  else match s.toList with
    | ['S', a, i, b, u] => .style (a = '1') { italics := i = '1', bold := b = '1', underline := u = '1' }
    | _ => .brk

def encNodes (l : List Node) : String := if l.isEmpty then "_" else String.intercalate " " (l.map encNode)
def decNodes (s : String) : List Node := if s = "_" then [] else (s.splitOn " ").map decNode

def encCaption (c : Caption) : String := toString c.start ++ ";" ++ toString c.stop ++ ";" ++ encNodes c.nodes
def encCaptions (l : List Caption) : String := encList encCaption l

def decRCap (s : String) : RCap :=
  match s.splitOn ";" with
  | [a, b, n] => { start := decRat a, stop := decRat b, nodes := decNodes n }
  | _ => { start := 0, stop := 0, nodes := [] }
def decRCaps (s : String) : List RCap := decList decRCap s
/-- languages separated by '|' -/
def decLangs (s : String) : List (List RCap) := if s = "[]" then [] else (s.splitOn "|").map decRCaps

def encPErr {α : Type} (f : α → String) : Except PErr α → String
  | .ok a => "ok:" ++ f a
  | .error e => "err:" ++ e.name

end PcVerif.Ops
