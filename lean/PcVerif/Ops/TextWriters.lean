import PcVerif.Ops.Caption
import PcVerif.Spec.TextDecode
import PcVerif.Spec.VttDecode
import PcVerif.Model.XmlText
import PcVerif.Model.World
import PcVerif.Model.XmlTree
namespace PcVerif.Ops
open Proto TextW

def decLNode (s : String) : LNode :=
  if s = "B" then .brk
  else if s.startsWith "T" then
    match (s.drop 1).toString.splitOn "@" with
    | [t, l] => .text (decStr t) (decNat l)
    | [t] => .text (decStr t) 0
    | _ => .brk
  else match s.toList with
    | ['S', a, i, b, u] => .style (a = '1') { italics := i = '1', bold := b = '1', underline := u = '1' }
    | _ => .brk
def decLNodes (s : String) : List LNode := if s = "_" then [] else (s.splitOn " ").map decLNode

def encTextRes (r : Str × Bool) : String := encStr r.1 ++ ";" ++ encBool r.2

def textWriterOps : List (String × Handler) := [
  ("dfxp.text", fun a => match a with | [o, n] => encTextRes (dfxpText (decBool o) (decNodes n)) | _ => "bad-args"),
  ("legacy.text", fun a => match a with | [o, n] => encTextRes (legacyText (decBool o) (decNodes n)) | _ => "bad-args"),
  ("sami.text", fun a => match a with | [o, n] => encTextRes (samiText (decBool o) (decNodes n)) | _ => "bad-args"),
  ("vtt.groups", fun a => match a with
    | [n] => encList (fun (g : Str × Nat) => encStr g.1 ++ ":" ++ toString g.2) (vttGroups (decLNodes n)) | _ => "bad-args"),
  ("xml.escape", fun a => match a with | [s] => encStr (escape (decStr s)) | _ => "bad-args"),
  ("spec.xml.unescape", fun a => match a with | [s] => encStr (Spec.xmlUnescape (decStr s)) | _ => "bad-args"),
  ("vttw.encode", fun a => match a with | [s] => encStr (vttEncode (decStr s)) | _ => "bad-args"),
  ("spec.vtt.decode", fun a => match a with | [s] => encStr (Spec.vttDecode (decStr s)) | _ => "bad-args")
]
end PcVerif.Ops

namespace PcVerif.Ops
open Proto
def xmlTextOps : List (String × Handler) := [
  ("xml.leaf", fun a => match a with | [s] => encOpt encStr (XmlText.leafText (decStr s)) | _ => "bad-args"),
  ("py.splitws", fun a => match a with | [s] => encStrs (XmlText.splitWs (decStr s)) | _ => "bad-args")
]
end PcVerif.Ops

namespace PcVerif.Ops
open Proto World
def worldOps : List (String × Handler) := [
  ("world.flag", fun a => match a with
    | [k, st, doc] =>
      let w := if k = "dfxp" then SpanWriter.dfxp else if k = "legacy" then SpanWriter.legacy else SpanWriter.sami
      let caps := if doc = "[]" then [] else (doc.splitOn "|").map decNodes
      encBool (writeDoc w (decBool st) caps).2
    | _ => "bad-args")
]
end PcVerif.Ops

namespace PcVerif.Ops
open Proto XmlTree

/-- tokens: `T<hex>` text, `B` br, `S<i><b><u>` open styled element, `O` open other element, `)` close -/
def parseTree : Nat → List String → List XNode → List (List XNode × (List XNode → XNode)) → List XNode
  | 0, _, cur, _ => cur
  | _, [], cur, _ => cur
  | fuel + 1, tok :: rest, cur, stack =>
    if tok = ")" then
      match stack with
      | (parent, mk) :: st => parseTree fuel rest (parent ++ [mk cur]) st
      | [] => cur
    else if tok = "B" then parseTree fuel rest (cur ++ [XNode.br]) stack
    else if tok = "O" then parseTree fuel rest [] ((cur, XNode.other) :: stack)
    else if tok.startsWith "T" then parseTree fuel rest (cur ++ [XNode.text (decStr (tok.drop 1).toString)]) stack
    else match tok.toList with
      | ['S', i, b, u] => parseTree fuel rest [] ((cur, XNode.styled { italics := i = '1', bold := b = '1', underline := u = '1' }) :: stack)
      | _ => parseTree fuel rest cur stack

def xmlTreeOps : List (String × Handler) := [
  ("xml.nodes", fun a => match a with
    | [toks] =>
      let ts := if toks = "_" then [] else toks.splitOn " "
      encNodes (nodesList (parseTree (ts.length + 1) ts [] []))
    | _ => "bad-args")
]
end PcVerif.Ops
