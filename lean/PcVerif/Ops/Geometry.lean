import PcVerif.Util.Proto
import PcVerif.Spec.Geometry
import PcVerif.Model.VttPos
import PcVerif.Model.DfxpLayout
namespace PcVerif.Ops
open Proto Geo

def decUnit (s : String) : Geo.Unit :=
  if s = "px" then .px else if s = "em" then .em else if s = "%" then .pct else if s = "c" then .c else .pt
def encUnit (u : Geo.Unit) : String := String.ofList u.text

def decSize (s : String) : Size :=
  match s.splitOn ":" with
  | [v, u] => ⟨decRat v, decUnit u⟩
  | _ => ⟨0, .px⟩
def encSize (s : Size) : String := encRat s.value ++ ":" ++ encUnit s.unit

def decPoint (s : String) : Point := match s.splitOn "|" with | [a, b] => ⟨decSize a, decSize b⟩ | _ => ⟨⟨0, .px⟩, ⟨0, .px⟩⟩
def encPoint (p : Point) : String := encSize p.x ++ "|" ++ encSize p.y
def decStretch (s : String) : Stretch := match s.splitOn "|" with | [a, b] => ⟨decSize a, decSize b⟩ | _ => ⟨⟨0, .px⟩, ⟨0, .px⟩⟩
def encStretch (p : Stretch) : String := encSize p.h ++ "|" ++ encSize p.v
def decPadding (s : String) : Padding :=
  match s.splitOn "|" with
  | [a, b, c, d] => ⟨decSize a, decSize b, decSize c, decSize d⟩
  | _ => ⟨⟨0, .pct⟩, ⟨0, .pct⟩, ⟨0, .pct⟩, ⟨0, .pct⟩⟩
def encPadding (p : Padding) : String :=
  encSize p.before ++ "|" ++ encSize p.after ++ "|" ++ encSize p.start ++ "|" ++ encSize p.end_

def decH (s : String) : Option HAlign :=
  if s = "left" then some .left else if s = "center" then some .center else if s = "right" then some .right
  else if s = "start" then some .start else if s = "end" then some .end_ else none
def encH : Option HAlign → String
  | none => "N" | some .left => "left" | some .center => "center" | some .right => "right"
  | some .start => "start" | some .end_ => "end"
def decV (s : String) : Option VAlign :=
  if s = "top" then some .top else if s = "center" then some .center else if s = "bottom" then some .bottom else none
def encV : Option VAlign → String
  | none => "N" | some .top => "top" | some .center => "center" | some .bottom => "bottom"
def decAlignment (s : String) : Alignment := match s.splitOn "|" with | [a, b] => ⟨decH a, decV b⟩ | _ => ⟨none, none⟩
def encAlignment (a : Alignment) : String := encH a.h ++ "|" ++ encV a.v

def decOptWith {α : Type} (f : String → α) (s : String) : Option α := if s = "N" then none else some (f s)
def encOptWith {α : Type} (f : α → String) : Option α → String | none => "N" | some a => f a

def decLayout (s : String) : Layout :=
  match s.splitOn ";" with
  | [o, e, p, a, w] => ⟨decOptWith decPoint o, decOptWith decStretch e, decOptWith decPadding p,
      decOptWith decAlignment a, decOptWith decStr w⟩
  | _ => ⟨none, none, none, none, none⟩
def encLayout (l : Layout) : String :=
  encOptWith encPoint l.origin ++ ";" ++ encOptWith encStretch l.extent ++ ";" ++ encOptWith encPadding l.padding
    ++ ";" ++ encOptWith encAlignment l.alignment ++ ";" ++ encOptWith encStr l.webvtt

def encGeoErr : Geo.Err → String
  | .syntaxError => "err:syntaxError" | .relativization => "err:relativization" | .valueError => "err:valueError"
def encExc {α : Type} (f : α → String) : Except Geo.Err α → String
  | .ok a => "ok:" ++ f a
  | .error e => encGeoErr e

def geoOps : List (String × Handler) := [
  ("geo.eq", fun a => match a with
    | [k, x, y] =>
      if k = "size" then encBool ((decSize x).pyEq (decOptWith decSize y))
      else if k = "point" then encBool ((decPoint x).pyEq (decOptWith decPoint y))
      else if k = "stretch" then encBool ((decStretch x).pyEq (decOptWith decStretch y))
      else if k = "padding" then encBool ((decPadding x).pyEq (decOptWith decPadding y))
      else if k = "alignment" then encBool ((decAlignment x).pyEq (decOptWith decAlignment y))
      else if k = "layout" then encBool ((decLayout x).pyEq (decLayout y))
      else "bad-args"
    | _ => "bad-args"),
  ("geo.parse", fun a => match a with | [s] => encExc encSize (Size.fromString (decStr s)) | _ => "bad-args"),
  ("geo.print", fun a => match a with | [s] => encStr (decSize s).toStr | _ => "bad-args"),
  ("geo.padding", fun a => match a with | [s] => encExc encPadding (Padding.fromAttr (decStr s)) | _ => "bad-args"),
  ("geo.paddingprint", fun a => match a with | [p] => encStr (decPadding p).toAttr | _ => "bad-args"),
  ("geo.pct", fun a => match a with
    | [s, d, h] => encExc encSize ((decSize s).asPct (decNat d) (decBool h)) | _ => "bad-args"),
  ("spec.geo.pct", fun a => match a with
    | [s, d, h] => encRat (specPct (decSize s) (decNat d) (decBool h)) | _ => "bad-args"),
  ("geo.layoutpct", fun a => match a with
    | [l, w, h] => encExc encLayout ((decLayout l).asPct (decNat w) (decNat h)) | _ => "bad-args"),
  ("geo.fit", fun a => match a with | [l] => encExc encLayout (decLayout l).fit | _ => "bad-args"),
  ("geo.relfit", fun a => match a with
    | [r, f, w, h, l] => encExc (encOptWith encLayout) (relativizeAndFit (decBool r) (decBool f) (decNat w) (decNat h) (decOptWith decLayout l))
    | _ => "bad-args")
]
end PcVerif.Ops

namespace PcVerif.Ops
open Proto Geo
def vttPosOps : List (String × Handler) := [
  ("vtt.settings", fun a => match a with
    | [r, f, w, h, l] => encExc encStr (VttPos.convert (decBool r) (decBool f) (decNat w) (decNat h) (decOptWith decLayout l))
    | _ => "bad-args")
]
end PcVerif.Ops

namespace PcVerif.Ops
open Proto Geo
def encAttrs (a : DfxpLayout.Attrs) : String :=
  String.intercalate ";" [encOptWith encStr a.origin, encOptWith encStr a.extent, encOptWith encStr a.padding,
    encOptWith encStr a.textAlign, encOptWith encStr a.displayAlign]
def decAttrs (s : String) : DfxpLayout.Attrs :=
  match s.splitOn ";" with
  | [o, e, p, t, d] => ⟨decOptWith decStr o, decOptWith decStr e, decOptWith decStr p, decOptWith decStr t, decOptWith decStr d⟩
  | _ => ⟨none, none, none, none, none⟩
/-- C12: a layout as region attributes (`_convert_layout_to_attributes`) and a region's attributes as a layout -/
def dfxpLayoutOps : List (String × Handler) := [
  ("dfxp.layoutattrs", fun a => match a with
    | [l] => encAttrs (DfxpLayout.layoutAttrs (decOptWith decLayout l)) | _ => "bad-args"),
  ("dfxp.readregion", fun a => match a with
    | [x] => encExc (encOptWith encLayout) (DfxpLayout.readRegion (decAttrs x)) | _ => "bad-args")
]
end PcVerif.Ops
