import PcVerif.Util.Proto
namespace PcVerif.Ops
open Proto

def utilOps : List (String × Handler) := [
  ("echo", fun a => match a with | [s] => encStr (decStr s) | _ => "bad-args"),
  ("py.splitlines", fun a => match a with | [s] => encStrs (Str.splitlines (decStr s)) | _ => "bad-args"),
  ("py.strip", fun a => match a with | [s] => encStr (Str.strip (decStr s)) | _ => "bad-args"),
  ("py.lower", fun a => match a with | [s] => encStr (Str.lower (decStr s)) | _ => "bad-args"),
  ("py.isdigit", fun a => match a with | [s] => encBool (Str.isDigitStr (decStr s)) | _ => "bad-args"),
  ("py.split", fun a => match a with | [sep, s] => encStrs (Str.splitOn (decStr sep) (decStr s)) | _ => "bad-args"),
  ("py.replace", fun a => match a with | [o, n, s] => encStr (Str.replace (decStr o) (decStr n) (decStr s)) | _ => "bad-args"),
  ("py.contains", fun a => match a with | [n, s] => encBool (Str.contains (decStr n) (decStr s)) | _ => "bad-args")
]
end PcVerif.Ops
