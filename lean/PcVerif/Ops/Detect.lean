import PcVerif.Util.Proto
import PcVerif.Model.Detect
namespace PcVerif.Ops
open Proto Detect

def encDetectOne : Except Detect.Err Bool → String
  | .ok b => encBool b
  | .error e => "err:" ++ e.name

def detectOps : List (String × Handler) := [
  ("detect.format", fun a => match a with
    | [s] => (match detectFormat (decStr s) with
        | .ok (some k) => "ok:" ++ k.name
        | .ok none => "none"
        | .error e => "err:" ++ e.name)
    | _ => "bad-args"),
  ("detect.one", fun a => match a with
    | [k, s] =>
      let kind := [Kind.dfxp, .microdvd, .webvtt, .sami, .srt, .scc].find? (fun x => x.name == k)
      (match kind with
       | some kd => encDetectOne (detectOne kd (decStr s))
       | none => "bad-args")
    | _ => "bad-args")
]
end PcVerif.Ops
