import PcVerif.Model.Regions
import PcVerif.Ops.Caption
import PcVerif.Model.DfxpTime
import PcVerif.Model.SamiTime
import PcVerif.Model.SamiWriter
import PcVerif.Model.SamiStyle
import PcVerif.Model.SamiInline
import PcVerif.Model.Langs
namespace PcVerif.Ops
open Proto

def decOptStr (s : String) : Option Str := if s = "N" then none else some (decStr s)

def xmlOps : List (String × Handler) := [
  ("dfxp.time", fun a => match a with | [s] => encPErr toString (Dfxp.timeExpr (decStr s)) | _ => "bad-args"),
  ("dfxp.times", fun a => match a with
    | [b, e, d] => encPErr (fun p => toString p.1 ++ ";" ++ toString p.2) (Dfxp.times (decOptStr b) (decOptStr e) (decOptStr d))
    | _ => "bad-args"),
  ("sami.lang", fun a => match a with
    | [ps] =>
      let l := decList (fun x => match x.splitOn ":" with | [m, t] => (decNat m, decBool t) | _ => (0, false)) ps
      encList (fun (p : Int × Int) => toString p.1 ++ ";" ++ toString p.2) (Sami.translateLang l)
    | _ => "bad-args"),
  -- C11: the inline style attribute of a SAMI element (`SAMIReader._translate_style`), from a reader whose first alignment is `al`
  ("sami.inlinestyle", fun a => match a with
    | [al, st] =>
      let r := SamiInline.translateStyle { align := decOptStr al } (decStr st)
      let o := fun (x : Option Str) => match x with | none => "N" | some s => encStr s
      String.intercalate ";" [encBool r.italics, encBool r.bold, encBool r.underline, o r.fontFamily, o r.fontSize, o r.lang, o r.color, o r.align]
    | _ => "bad-args")
]
end PcVerif.Ops

namespace PcVerif.Ops
open Proto
def decTimes (s : String) : List (Rat × Rat) :=
  decList (fun x => match x.splitOn ";" with | [a, b] => (decRat a, decRat b) | _ => (0, 0)) s
def encSync (s : SamiW.Sync) : String :=
  toString s.start ++ ":" ++ (if s.ps.isEmpty then "_" else
    String.intercalate " " (s.ps.map fun p => toString p.lang ++ "." ++ encBool p.blank ++ "." ++ toString p.cap))
def samiWriterOps : List (String × Handler) := [
  ("sami.plan", fun a => match a with
    | [ls] => encList encSync (SamiW.plan (if ls = "[]" then [] else (ls.splitOn "|").map decTimes))
    | _ => "bad-args"),
  -- the language rules of the stylesheet: languages, which of them label paragraphs with their own code, and what the set's
  -- own styles gave
  ("sami.stylesheet", fun a => match a with
    | [ls, lab, sheet0] =>
      let langs := decStrs ls
      let flags := (lab.splitOn ",").map (· == "1")
      let labels := fun (l : Str) => match langs.zip flags |>.find? (fun p => p.1 == l) with | some p => p.2 | none => false
      encStr (SamiW.stylesheet (fun _ => []) labels (decStr sheet0) langs)
    | _ => "bad-args")
]
end PcVerif.Ops

namespace PcVerif.Ops
open Proto
def langOps : List (String × Handler) := [
  ("dfxp.langs", fun a => match a with
    | [tt, d, divs] => encStrs (Langs.readLanguages (decOptStr tt) (decStr d) (decList decOptStr divs))
    | _ => "bad-args"),
  -- the default region's id and the ids handed out to `n` layouts when the styles use the ids `taken`
  ("dfxp.regionids", fun a => match a with
    | [taken, n] =>
      let t := (decStrs taken).map String.ofList
      encStrs ((Regions.defaultRegionIdFor t :: Regions.freshIds t n.toNat! 0).map String.toList)
    | _ => "bad-args")
]
end PcVerif.Ops
