import PcVerif.Ops.Caption
import PcVerif.Model.DfxpTime
import PcVerif.Model.SamiTime
namespace PcVerif.Ops
open Proto

def decOptStr (s : String) : Option Str := if s = "N" then none else some (decStr s)

def xmlOps : List (String × Handler) := [
  ("dfxp.time", fun a => match a with | [s] => encPErr toString (Dfxp.timeExpr (decStr s)) | _ => "bad-args"),
  ("dfxp.times", fun a => match a with
    | [b, e, d] => encPErr (fun p => toString p.1 ++ ";" ++ toString p.2) (Dfxp.times (decOptStr b) (decOptStr e) (decOptStr d))
    | _ => "bad-args"),
  ("sami.lang", fun a => match a with
    | [ps] =>
      let l := decList (fun x => match x.splitOn ":" with | [m, t] => (decNat m, decBool t) | _ => (0, false)) ps
      encList (fun (p : Int × Int) => toString p.1 ++ ";" ++ toString p.2) (Sami.translateLang l)
    | _ => "bad-args")
]
end PcVerif.Ops
