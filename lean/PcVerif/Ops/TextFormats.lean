import PcVerif.Model.VttWriter
import PcVerif.Ops.Caption
import PcVerif.Model.Srt
import PcVerif.Model.Vtt
import PcVerif.Model.MicroDvd
namespace PcVerif.Ops
open Proto

def encRCue (c : Vtt.RCue) : String :=
  toString c.start ++ ";" ++ toString c.stop ++ ";" ++ encNodes c.nodes ++ ";" ++ encOpt encStr c.settings

def textFormatOps : List (String × Handler) := [
  ("srt.stamp", fun a => match a with | [s] => encPErr toString (Srt.toMicro (decStr s)) | _ => "bad-args"),
  ("srt.read", fun a => match a with | [s] => encPErr encCaptions (Srt.read (decStr s)) | _ => "bad-args"),
  ("srt.write", fun a => match a with | [l] => encStr (Srt.write (decLangs l)) | _ => "bad-args"),
  ("fmt.ts", fun a => match a with | [t, sep] => encStr (Fmt.formatTimestamp (decRat t) ((decStr sep).headD '.')) | _ => "bad-args"),
  ("vtt.ts", fun a => match a with | [t] => encStr (Fmt.vttTimestamp (decRat t)) | _ => "bad-args"),
  ("mdvd.frames", fun a => match a with | [t] => toString (Fmt.microToFrames (decRat t)) | _ => "bad-args"),
  ("vtt.stamp", fun a => match a with | [s] => encPErr toString (Vtt.parseTimestamp (decStr s)) | _ => "bad-args"),
  ("vtt.decode", fun a => match a with | [s] => encStr (Vtt.decode (decStr s)) | _ => "bad-args"),
  ("vtt.encode", fun a => match a with | [s] => encStr (Vtt.encodeIllegal (decStr s)) | _ => "bad-args"),
  ("vtt.read", fun a => match a with
    | [shift, ign, s] => encPErr (encList encRCue) (Vtt.read { shiftUs := decInt shift, ignoreErrors := decBool ign } (decStr s))
    | _ => "bad-args"),
  ("mdvd.read", fun a => match a with | [s] => encPErr encCaptions (MicroDvd.read (decStr s)) | _ => "bad-args"),
  ("mdvd.write", fun a => match a with | [l] => encStr (MicroDvd.write (decLangs l)) | _ => "bad-args"),
  ("vtt.write", fun a => match a with | [l] => encStr (VttW.writePlain ((decLangs l).headD [])) | _ => "bad-args")
]
end PcVerif.Ops
