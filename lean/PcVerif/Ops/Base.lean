import PcVerif.Util.Proto
import PcVerif.Spec.Base
namespace PcVerif.Ops
open Proto Base

def decCap (s : String) : Cap Nat :=
  match s.splitOn ";" with
  | [a, b, n] => { start := decRat a, stop := decRat b, nodes := decNats n }
  | _ => { start := 0, stop := 0, nodes := [] }
def encCap (c : Cap Nat) : String := encRat c.start ++ ";" ++ encRat c.stop ++ ";" ++ encNats c.nodes
def decCaps (s : String) : List (Cap Nat) := decList decCap s
def encCaps (l : List (Cap Nat)) : String := encList encCap l

def baseOps : List (String × Handler) := [
  ("base.merge", fun a => match a with | [cs] => encCaps (mergeConcurrent 0 (decCaps cs)) | _ => "bad-args"),
  ("spec.base.merge", fun a => match a with | [cs] => encCaps ((runs (decCaps cs)).map (specCap 0)) | _ => "bad-args"),
  ("base.adjust", fun a => match a with
    | [sk, off, cs] => encCaps (adjust (decRat sk) (decRat off) (decCaps cs)) | _ => "bad-args"),
  ("spec.base.adjust", fun a => match a with
    | [sk, off, cs] => encCaps (((decCaps cs).map (retime (decRat sk) (decRat off))).filter (fun c => decide (0 ≤ c.start)))
    | _ => "bad-args")
]
end PcVerif.Ops
