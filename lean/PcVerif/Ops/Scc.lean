import PcVerif.Util.Proto
import PcVerif.Model.Scc.Finish
import PcVerif.Model.Scc.Writer
namespace PcVerif.Ops
open Proto Scc

def encPos (p : Pos) : String := toString p.1 ++ "." ++ toString p.2
def encCNode : CNode → String
  | .text s p => "T" ++ encStr s ++ "@" ++ encPos p
  | .brk p => "B@" ++ encPos p
  | .style on p => "S" ++ encBool on ++ "@" ++ encPos p
def encSccCap (c : Cap) : String :=
  encRat c.start ++ ";" ++ encRat c.stop ++ ";" ++ (if c.nodes.isEmpty then "_" else String.intercalate " " (c.nodes.map encCNode))
    ++ ";" ++ (match c.layout with | some p => encPos p | none => "N")

def sccOps : List (String × Handler) := [
  ("scc.read", fun a => match a with
    | [off, s] =>
      (match Scc.read (decStr s) (decRat off) with
       | .ok caps => "ok:" ++ encList encSccCap caps
       | .lineLength msg => "err:lineLength:" ++ encStr msg
       | .timing => "err:timingError"
       | .noCaptions => "err:noCaptions"
       | .pyError => "err:pyError")
    | _ => "bad-args"),
  ("scc.layout", fun a => match a with
    | [r, c] => let p := layoutOf (decNat r, decNat c); encRat p.1 ++ ";" ++ encRat p.2
    | _ => "bad-args")
]
end PcVerif.Ops

namespace PcVerif.Ops
open Proto
def decWCap (s : String) : List Str × Rat × Rat :=
  match s.splitOn ";" with
  | [ls, a, b] => ((if ls = "~" then [] else (ls.splitOn "^").map decStr), decRat a, decRat b)
  | _ => ([], 0, 0)
def sccWriterOps : List (String × Handler) := [
  ("sccw.write", fun a => match a with
    | [cs] => encStr (SccW.write (if cs = "[]" then [] else (cs.splitOn "|").map decWCap))
    | _ => "bad-args"),
  ("sccw.code", fun a => match a with
    | [ls] => encStr (SccW.textToCode (if ls = "~" then [] else (ls.splitOn "^").map decStr))
    | _ => "bad-args"),
  ("sccw.ts", fun a => match a with | [t] => encStr (SccW.formatTimestamp (decRat t)) | _ => "bad-args")
]
end PcVerif.Ops
