/- Specification side of C19: maximal runs of equal timespans, the merged caption of a run, the affine map. -/
import PcVerif.Model.Base
namespace PcVerif.Base
variable {α : Type}

/-- maximal runs of consecutive captions with identical (start, end); each run is (head, tail) -/
def runs : List (Cap α) → List (Cap α × List (Cap α))
  | [] => []
  | c :: cs =>
    match runs cs with
    | [] => [(c, [])]
    | (d, r) :: rest => if c.span = d.span then (c, d :: r) :: rest else (c, []) :: (d, r) :: rest

/-- node lists joined with a line break between consecutive ones -/
def joinBrk (brk : α) : List (List α) → List α
  | [] => []
  | [x] => x
  | x :: y :: t => x ++ brk :: joinBrk brk (y :: t)

/-- what a run becomes: the run's times, all nodes in order separated by line breaks -/
def specCap (brk : α) (run : Cap α × List (Cap α)) : Cap α :=
  { start := run.1.start, stop := run.1.stop,
    nodes := joinBrk brk ((run.1 :: run.2).map (·.nodes)) }

def retime (skew off : Rat) (c : Cap α) : Cap α :=
  { c with start := c.start * skew + off, stop := c.stop * skew + off }

/-- every caption has at least one node (enforced by `Caption.__init__`) -/
def WF (cs : List (Cap α)) : Prop := ∀ c ∈ cs, c.nodes ≠ []

end PcVerif.Base
