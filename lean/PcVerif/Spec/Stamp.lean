/- Independent readers of written time stamps (C02): fixed-width `hh:mm:ss<sep>mmm`, WebVTT `[hh:]mm:ss.mmm`. -/
import PcVerif.Model.Format
namespace PcVerif.Spec
open Str

def dv (c : Char) : Option Nat := if isAsciiDigit c then some (c.toNat - 48) else none

/-- `hh:mm:ss?mmm` (12 characters, any separator character) → milliseconds, fields checked to be in range -/
def readStamp12 (s : Str) : Option Nat :=
  match s with
  | [h1, h2, ':', m1, m2, ':', s1, s2, _, f1, f2, f3] =>
    match dv h1, dv h2, dv m1, dv m2, dv s1, dv s2, dv f1, dv f2, dv f3 with
    | some a, some b, some c, some d, some e, some f, some g, some h, some i =>
      let mm := c * 10 + d
      let ss := e * 10 + f
      if mm < 60 ∧ ss < 60 then some ((((a * 10 + b) * 60 + mm) * 60 + ss) * 1000 + (g * 100 + h * 10 + i)) else none
    | _, _, _, _, _, _, _, _, _ => none
  | _ => none

/-- WebVTT `mm:ss.mmm` (9 characters, hours absent) or `hh:mm:ss.mmm` (12) -/
def readVttStamp (s : Str) : Option Nat :=
  if s.length = 9 then readStamp12 ('0' :: '0' :: ':' :: s) else readStamp12 s

end PcVerif.Spec
