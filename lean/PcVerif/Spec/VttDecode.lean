/-
  Reference decoder of WebVTT cue text (C03): a single left-to-right pass that replaces the six character
  references a WebVTT consumer knows in plain cue text; anything else is literal.
-/
import PcVerif.Model.TextWriters
namespace PcVerif.Spec
open Str

/-- `skip` = characters of an already matched reference still to be dropped -/
def vttDecodeAux : Nat → Str → Str
  | _, [] => []
  | k + 1, _ :: s => vttDecodeAux k s
  | 0, c :: s =>
    if c = '&' then
      if isPrefix "amp;".toList s then '&' :: vttDecodeAux 4 s
      else if isPrefix "lt;".toList s then '<' :: vttDecodeAux 3 s
      else if isPrefix "gt;".toList s then '>' :: vttDecodeAux 3 s
      else if isPrefix "nbsp;".toList s then ' ' :: vttDecodeAux 5 s
      else if isPrefix "lrm;".toList s then '‎' :: vttDecodeAux 4 s
      else if isPrefix "rlm;".toList s then '‏' :: vttDecodeAux 4 s
      else '&' :: vttDecodeAux 0 s
    else c :: vttDecodeAux 0 s

def vttDecode (s : Str) : Str := vttDecodeAux 0 s

end PcVerif.Spec
