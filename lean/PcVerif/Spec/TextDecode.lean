/- Reference decoders (C03): XML character data with the predefined references. -/
import PcVerif.Model.TextWriters
namespace PcVerif.Spec
open Str

/-- XML character data → text: the five predefined references are decoded, anything else is literal -/
def xmlUnescapeF : Nat → Str → Str
  | 0, _ => []
  | _ + 1, [] => []
  | f + 1, c :: s =>
    if c = '&' then
      match dropPrefix? s "amp;".toList with
      | some r => '&' :: xmlUnescapeF f r
      | none =>
        match dropPrefix? s "lt;".toList with
        | some r => '<' :: xmlUnescapeF f r
        | none =>
          match dropPrefix? s "gt;".toList with
          | some r => '>' :: xmlUnescapeF f r
          | none =>
            match dropPrefix? s "quot;".toList with
            | some r => '"' :: xmlUnescapeF f r
            | none =>
              match dropPrefix? s "apos;".toList with
              | some r => '\'' :: xmlUnescapeF f r
              | none => c :: xmlUnescapeF f s
    else c :: xmlUnescapeF f s

def xmlUnescape (s : Str) : Str := xmlUnescapeF (s.length + 1) s

end PcVerif.Spec
