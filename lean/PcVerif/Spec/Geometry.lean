/- Specification side of C18/C13: the size language, percentages. -/
import PcVerif.Model.Geometry
namespace PcVerif.Geo
open Str

def IsDecimals (s : Str) : Prop := s ≠ [] ∧ ∀ c ∈ s, isDecimal c = true

/-- a non-negative decimal number followed by px, em, %, c or pt — or a bare 0; `nl` is the one
    deviation of the pinned pattern: `$` also matches before a final newline -/
inductive SizeLang : Str → Prop
  | num (ip fp : Str) (u : Unit) (nl : Bool) : IsDecimals ip → (fp = [] ∨ IsDecimals fp) →
      SizeLang (ip ++ (if fp = [] then [] else '.' :: fp) ++ (u.text ++ (if nl then ['\n'] else [])))
  | zero (nl : Bool) : SizeLang ('0' :: (if nl then ['\n'] else []))

/-- percentage denoted by an absolute length (C13): px*100/dimension, 1em = 16px, 1pt = 4/3 px, 32x15 cells -/
def specPct (s : Size) (dim : Nat) (horizontal : Bool) : Rat :=
  match s.unit with
  | .pct => s.value
  | .px => s.value * 100 / dim
  | .em => s.value * 16 * 100 / dim
  | .pt => s.value * (4 / 3) * 100 / dim
  | .c => s.value * 100 / (if horizontal then 32 else 15)

end PcVerif.Geo
