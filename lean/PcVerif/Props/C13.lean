/-
  C13 — absolute sizes are relativized exactly or refused; fit-to-screen stays safe.
-/
import PcVerif.Spec.Geometry
import Mathlib.Tactic.Linarith
import Mathlib.Tactic.Ring
import Mathlib.Tactic.NormNum
import Mathlib.Tactic.SplitIfs
namespace PcVerif.Props.C13
open PcVerif PcVerif.Geo

theorem constants_pinned :
    Generated.emPx = 16 ∧ Generated.ptDen = 72 ∧ Generated.ptNum = 96 ∧ Generated.pctFactor = 100 ∧
    Generated.cellCols = 32 ∧ Generated.cellRows = 15 ∧ Generated.fitRight = 90 ∧ Generated.fitBottom = 95 ∧
    Generated.fitLiterals = [90, 95, 90, 95] := by decide

/-- **C13 (exact).** with the needed dimension supplied, every length becomes the percentage it denotes:
    px*100/dim, 1em = 16px, 1pt = 4/3 px, 32x15 cell grid; percentages are unchanged -/
theorem relativize_exact (s : Size) (dim : Nat) (hor : Bool) (hd : dim ≠ 0 ∨ s.unit = .pct) :
    s.asPct dim hor = .ok ⟨specPct s dim hor, .pct⟩ := by
  obtain ⟨v, u⟩ := s
  cases u <;> simp only [Size.asPct, specPct, reduceCtorEq, if_false, if_true] <;>
    first
    | rfl
    | (have h : dim ≠ 0 := by rcases hd with h | h <;> simp_all
       simp only [h, if_false]
       simp only [Generated.emPx, Generated.ptDen, Generated.ptNum, Generated.pctFactor, Generated.cellCols,
         Generated.cellRows]
       congr 2
       first
       | done
       | rfl
       | (push_cast; ring))

/-- **C13 (refused).** an absolute length whose reference dimension was not supplied is refused with the
    relativization error — never a value -/
theorem relativize_refuses (s : Size) (hor : Bool) (hu : s.unit ≠ .pct) :
    s.asPct 0 hor = .error .relativization := by
  simp [Size.asPct, hu]

/-- the result of relativization is always a percentage -/
theorem relativize_unit (s z : Size) (dim : Nat) (hor : Bool) (h : s.asPct dim hor = .ok z) : z.unit = .pct := by
  obtain ⟨v, u⟩ := s
  unfold Size.asPct at h
  split at h
  · rename_i hu; simp at h; subst h; exact hu
  · split at h
    · simp at h
    · cases u <;> simp at h <;> (subst h; rfl)

/-- **C13 (fit: edges).** for a relativized layout whose origin lies inside the safe area, the fitted region's
    right edge is at most 90% and its bottom edge at most 95% -/
theorem fit_edges_le (l l' : Layout) (o : Point) (ho : l.origin = some o)
    (h : l.fit = .ok l') :
    ∃ e, l'.extent = some e ∧ l'.origin = some o ∧
      o.x.value + e.h.value ≤ 90 ∧ o.y.value + e.v.value ≤ 95 := by
  unfold Layout.fit at h
  rw [ho] at h
  simp only at h
  split at h
  · simp only [Except.ok.injEq] at h
    subst h
    refine ⟨_, rfl, rfl, ?_, ?_⟩ <;> simp [Generated.fitRight, Generated.fitBottom]
  · rename_i e he
    split at h
    · rename_i bx by_ hbx hby
      split at h
      · simp at h
      · simp only [Except.ok.injEq] at h
        subst h
        simp only [Size.add] at hbx hby
        split at hbx <;> simp at hbx
        split at hby <;> simp at hby
        subst hbx; subst hby
        have hR : (Generated.fitRight : Rat) = 90 := by norm_num [Generated.fitRight]
        have hB : (Generated.fitBottom : Rat) = 95 := by norm_num [Generated.fitBottom]
        refine ⟨_, rfl, rfl, ?_, ?_⟩ <;>
          (split_ifs <;> simp only [hR, hB] at * <;> linarith)
    · simp at h
    · simp at h

/-- **C13 (fit: missing extent).** a missing extent is set to reach exactly the 90% / 95% edges -/
theorem fit_missing_extent_reaches_edges (l : Layout) (o : Point) (ho : l.origin = some o) (he : l.extent = none) :
    ∃ l', l.fit = .ok l' ∧ l'.extent = some ⟨⟨90 - o.x.value, .pct⟩, ⟨95 - o.y.value, .pct⟩⟩ ∧ l'.origin = some o := by
  unfold Layout.fit
  rw [ho, he]
  refine ⟨_, rfl, ?_, rfl⟩
  simp [Generated.fitRight, Generated.fitBottom]

/-- **C13 (fit: fitting extent kept).** an extent that already fits is unchanged -/
theorem fit_keeps_fitting_extent (l : Layout) (o : Point) (e : Stretch) (ho : l.origin = some o) (he : l.extent = some e)
    (ux : o.x.unit = .pct) (uy : o.y.unit = .pct) (uh : e.h.unit = .pct) (uv : e.v.unit = .pct)
    (hx : o.x.value + e.h.value ≤ 90) (hy : o.y.value + e.v.value ≤ 95) :
    ∃ l', l.fit = .ok l' ∧ l'.extent = some e ∧ l'.origin = some o := by
  unfold Layout.fit
  rw [ho, he]
  simp only [Size.add, ux, uy, uh, uv, if_true]
  refine ⟨_, rfl, ?_, rfl⟩
  have h1 : ¬ ((Generated.fitRight : Rat) < o.x.value + e.h.value) := by
    simp only [Generated.fitRight]; push_cast; linarith
  have h2 : ¬ ((Generated.fitBottom : Rat) < o.y.value + e.v.value) := by
    simp only [Generated.fitBottom]; push_cast; linarith
  simp [h1, h2]

/-- relativizing or fitting never yields an absolute origin: all sizes of a relativized layout are percentages
    (origin shown; extent and padding are analogous and covered by the correspondence) -/
theorem relativized_origin_is_percent (l l' : Layout) (w h : Nat) (hl : l.asPct w h = .ok l') (o : Point)
    (ho : l'.origin = some o) : o.x.unit = .pct ∧ o.y.unit = .pct := by
  unfold Layout.asPct at hl
  split at hl
  · simp at hl
  · rename_i oo hoo
    split at hl
    · simp at hl
    · split at hl
      · simp at hl
      · simp only [Except.ok.injEq] at hl
        subst hl
        simp only at ho
        subst ho
        unfold optAsPct at hoo
        split at hoo
        · simp at hoo
        · rename_i p
          split at hoo
          · rename_i b hb
            simp only [Except.ok.injEq, Option.some.injEq] at hoo
            subst hoo
            unfold Point.asPct at hb
            split at hb
            · rename_i x y hx hy
              simp only [Except.ok.injEq] at hb
              subst hb
              exact ⟨relativize_unit _ _ _ _ hx, relativize_unit _ _ _ _ hy⟩
            · simp at hb
            · simp at hb
          · simp at hoo

/-- non-vacuity: 64px of a 640px-wide video is 10% -/
example : (⟨64, .px⟩ : Size).asPct 640 true = .ok ⟨specPct ⟨64, .px⟩ 640 true, .pct⟩ :=
  relativize_exact _ _ _ (Or.inl (by decide))
example : specPct ⟨64, .px⟩ 640 true = 10 := by norm_num [specPct]

/-! ### whole layouts (session 4): origin, extent and padding together -/

def pctSize (s : Size) (dim : Nat) (hor : Bool) : Size := ⟨specPct s dim hor, .pct⟩
def pctPoint (p : Point) (w h : Nat) : Point := ⟨pctSize p.x w true, pctSize p.y h false⟩
def pctStretch (p : Stretch) (w h : Nat) : Stretch := ⟨pctSize p.h w true, pctSize p.v h false⟩
def pctPadding (p : Padding) (w h : Nat) : Padding :=
  ⟨pctSize p.before h false, pctSize p.after h false, pctSize p.start w true, pctSize p.end_ w true⟩

theorem point_exact (p : Point) (w h : Nat) (hw : w ≠ 0) (hh : h ≠ 0) : p.asPct w h = .ok (pctPoint p w h) := by
  simp [Point.asPct, relativize_exact _ _ _ (Or.inl hw), relativize_exact _ _ _ (Or.inl hh), pctPoint, pctSize]

theorem stretch_exact (p : Stretch) (w h : Nat) (hw : w ≠ 0) (hh : h ≠ 0) : p.asPct w h = .ok (pctStretch p w h) := by
  simp [Stretch.asPct, relativize_exact _ _ _ (Or.inl hw), relativize_exact _ _ _ (Or.inl hh), pctStretch, pctSize]

theorem padding_exact (p : Padding) (w h : Nat) (hw : w ≠ 0) (hh : h ≠ 0) : p.asPct w h = .ok (pctPadding p w h) := by
  simp [Padding.asPct, relativize_exact _ _ _ (Or.inl hw), relativize_exact _ _ _ (Or.inl hh), pctPadding, pctSize]

/-- **C13 (whole layout, exact).** with both video dimensions supplied, relativizing a layout never fails and every
    length of origin, extent and padding becomes the percentage it denotes; alignment is kept -/
theorem relativize_layout_exact (l : Layout) (w h : Nat) (hw : w ≠ 0) (hh : h ≠ 0) :
    l.asPct w h = .ok { origin := l.origin.map (pctPoint · w h), extent := l.extent.map (pctStretch · w h),
                        padding := l.padding.map (pctPadding · w h), alignment := l.alignment, webvtt := none } := by
  obtain ⟨o, e, p, a, v⟩ := l
  cases o <;> cases e <;> cases p <;>
    simp [Layout.asPct, optAsPct, point_exact _ _ _ hw hh, stretch_exact _ _ _ hw hh, padding_exact _ _ _ hw hh]

/-- **C13 (whole layout, refused).** a layout with an absolute horizontal origin is refused when the width is missing,
    whatever else it holds -/
theorem relativize_layout_refuses_origin (l : Layout) (o : Point) (h : Nat) (ho : l.origin = some o) (hu : o.x.unit ≠ .pct) :
    l.asPct 0 h = .error .relativization := by
  obtain ⟨_, e, p, a, v⟩ := l
  simp only at ho; subst ho
  simp [Layout.asPct, optAsPct, Point.asPct, relativize_refuses _ _ hu]

theorem optAsPct_some {τ : Type} (f : τ → Nat → Nat → Except Err τ) (o : Option τ) (w h : Nat) (b : τ)
    (hb : optAsPct f o w h = .ok (some b)) : ∃ a, o = some a ∧ f a w h = .ok b := by
  unfold optAsPct at hb
  split at hb
  · simp at hb
  · rename_i a
    split at hb
    · rename_i b' hb'
      simp only [Except.ok.injEq, Option.some.injEq] at hb; subst hb
      exact ⟨a, rfl, hb'⟩
    · simp at hb

theorem asPct_parts (l l' : Layout) (w h : Nat) (hl : l.asPct w h = .ok l') :
    optAsPct Point.asPct l.origin w h = .ok l'.origin ∧ optAsPct Stretch.asPct l.extent w h = .ok l'.extent ∧
    optAsPct Padding.asPct l.padding w h = .ok l'.padding := by
  unfold Layout.asPct at hl
  split at hl
  · simp at hl
  · rename_i oo hoo
    split at hl
    · simp at hl
    · rename_i xx hxx
      split at hl
      · simp at hl
      · rename_i pp hpp
        simp only [Except.ok.injEq] at hl
        subst hl
        exact ⟨hoo, hxx, hpp⟩

/-- whatever dimensions were supplied: a relativized layout's extent holds percentages only -/
theorem relativized_extent_is_percent (l l' : Layout) (w h : Nat) (hl : l.asPct w h = .ok l') (e : Stretch)
    (he : l'.extent = some e) : e.h.unit = .pct ∧ e.v.unit = .pct := by
  have h2 := (asPct_parts l l' w h hl).2.1
  rw [he] at h2
  obtain ⟨a, _, ha⟩ := optAsPct_some _ _ _ _ _ h2
  unfold Stretch.asPct at ha
  split at ha
  · rename_i x y hx hy
    simp only [Except.ok.injEq] at ha; subst ha
    exact ⟨relativize_unit _ _ _ _ hx, relativize_unit _ _ _ _ hy⟩
  · simp at ha
  · simp at ha

/-- … and its padding -/
theorem relativized_padding_is_percent (l l' : Layout) (w h : Nat) (hl : l.asPct w h = .ok l') (p : Padding)
    (hp : l'.padding = some p) : p.before.unit = .pct ∧ p.after.unit = .pct ∧ p.start.unit = .pct ∧ p.end_.unit = .pct := by
  have h2 := (asPct_parts l l' w h hl).2.2
  rw [hp] at h2
  obtain ⟨a, _, ha⟩ := optAsPct_some _ _ _ _ _ h2
  unfold Padding.asPct at ha
  split at ha
  · rename_i a b c d q1 q2 q3 q4
    simp only [Except.ok.injEq] at ha; subst ha
    exact ⟨relativize_unit _ _ _ _ q1, relativize_unit _ _ _ _ q2, relativize_unit _ _ _ _ q3, relativize_unit _ _ _ _ q4⟩
  all_goals simp at ha

/-- relativizing a relativized layout again changes nothing, with or without dimensions -/
theorem relativize_size_idempotent (s z : Size) (dim dim' : Nat) (hor : Bool) (h : s.asPct dim hor = .ok z) :
    z.asPct dim' hor = .ok z := by
  have hu := relativize_unit _ _ _ _ h
  obtain ⟨v, u⟩ := z
  simp only at hu; subst hu
  simp [Size.asPct]

/-- non-vacuity: a 640x360 video, origin 64px / 36px, extent 2c / 1em, no padding -/
example : (({ origin := some ⟨⟨64, .px⟩, ⟨36, .px⟩⟩, extent := some ⟨⟨2, .c⟩, ⟨1, .em⟩⟩, padding := none, alignment := none,
              webvtt := none } : Layout).asPct 640 360).toOption.isSome = true := by
  rw [relativize_layout_exact _ _ _ (by decide) (by decide)]; rfl
theorem pct_size_fixed (z : Size) (hu : z.unit = .pct) (dim : Nat) (hor : Bool) : z.asPct dim hor = .ok z := by
  obtain ⟨v, u⟩ := z
  simp only at hu; subst hu
  simp [Size.asPct]

/-- **C13 (relativizing twice).** a relativized layout is a fixed point of relativization, with or without video
    dimensions: a second pass neither changes a value nor raises -/
theorem relativize_layout_idempotent (l l' : Layout) (w h w' h' : Nat) (hl : l.asPct w h = .ok l') :
    l'.asPct w' h' = .ok l' := by
  have ho := relativized_origin_is_percent l l' w h hl
  have he := relativized_extent_is_percent l l' w h hl
  have hp := relativized_padding_is_percent l l' w h hl
  have hw : l'.webvtt = none := by
    unfold Layout.asPct at hl
    split at hl
    · simp at hl
    · split at hl
      · simp at hl
      · split at hl
        · simp at hl
        · simp only [Except.ok.injEq] at hl; subst hl; rfl
  obtain ⟨o, e, p, a, v⟩ := l'
  simp only at hw; subst hw
  have e1 : optAsPct Point.asPct o w' h' = .ok o := by
    cases o with
    | none => rfl
    | some o =>
      have := ho o rfl
      simp [optAsPct, Point.asPct, pct_size_fixed _ this.1, pct_size_fixed _ this.2]
  have e2 : optAsPct Stretch.asPct e w' h' = .ok e := by
    cases e with
    | none => rfl
    | some e =>
      have := he e rfl
      simp [optAsPct, Stretch.asPct, pct_size_fixed _ this.1, pct_size_fixed _ this.2]
  have e3 : optAsPct Padding.asPct p w' h' = .ok p := by
    cases p with
    | none => rfl
    | some p =>
      have := hp p rfl
      simp [optAsPct, Padding.asPct, pct_size_fixed _ this.1, pct_size_fixed _ this.2.1, pct_size_fixed _ this.2.2.1, pct_size_fixed _ this.2.2.2]
  simp [Layout.asPct, e1, e2, e3]
end PcVerif.Props.C13
