/-
  C13 — absolute sizes are relativized exactly or refused; fit-to-screen stays safe.
-/
import PcVerif.Spec.Geometry
import Mathlib.Tactic.Linarith
import Mathlib.Tactic.Ring
import Mathlib.Tactic.NormNum
import Mathlib.Tactic.SplitIfs
namespace PcVerif.Props.C13
open PcVerif PcVerif.Geo

theorem constants_pinned :
    Generated.emPx = 16 ∧ Generated.ptDen = 72 ∧ Generated.ptNum = 96 ∧ Generated.pctFactor = 100 ∧
    Generated.cellCols = 32 ∧ Generated.cellRows = 15 ∧ Generated.fitRight = 90 ∧ Generated.fitBottom = 95 ∧
    Generated.fitLiterals = [90, 95, 90, 95] := by decide

/-- **C13 (exact).** with the needed dimension supplied, every length becomes the percentage it denotes:
    px*100/dim, 1em = 16px, 1pt = 4/3 px, 32x15 cell grid; percentages are unchanged -/
theorem relativize_exact (s : Size) (dim : Nat) (hor : Bool) (hd : dim ≠ 0 ∨ s.unit = .pct) :
    s.asPct dim hor = .ok ⟨specPct s dim hor, .pct⟩ := by
  obtain ⟨v, u⟩ := s
  cases u <;> simp only [Size.asPct, specPct, reduceCtorEq, if_false, if_true] <;>
    first
    | rfl
    | (have h : dim ≠ 0 := by rcases hd with h | h <;> simp_all
       simp only [h, if_false]
       simp only [Generated.emPx, Generated.ptDen, Generated.ptNum, Generated.pctFactor, Generated.cellCols,
         Generated.cellRows]
       congr 2
       first
       | done
       | rfl
       | (push_cast; ring))

/-- **C13 (refused).** an absolute length whose reference dimension was not supplied is refused with the
    relativization error — never a value -/
theorem relativize_refuses (s : Size) (hor : Bool) (hu : s.unit ≠ .pct) :
    s.asPct 0 hor = .error .relativization := by
  simp [Size.asPct, hu]

/-- the result of relativization is always a percentage -/
theorem relativize_unit (s z : Size) (dim : Nat) (hor : Bool) (h : s.asPct dim hor = .ok z) : z.unit = .pct := by
  obtain ⟨v, u⟩ := s
  unfold Size.asPct at h
  split at h
  · rename_i hu; simp at h; subst h; exact hu
  · split at h
    · simp at h
    · cases u <;> simp at h <;> (subst h; rfl)

/-- **C13 (fit: edges).** for a relativized layout whose origin lies inside the safe area, the fitted region's
    right edge is at most 90% and its bottom edge at most 95% -/
theorem fit_edges_le (l l' : Layout) (o : Point) (ho : l.origin = some o)
    (h : l.fit = .ok l') :
    ∃ e, l'.extent = some e ∧ l'.origin = some o ∧
      o.x.value + e.h.value ≤ 90 ∧ o.y.value + e.v.value ≤ 95 := by
  unfold Layout.fit at h
  rw [ho] at h
  simp only at h
  split at h
  · simp only [Except.ok.injEq] at h
    subst h
    refine ⟨_, rfl, rfl, ?_, ?_⟩ <;> simp [Generated.fitRight, Generated.fitBottom]
  · rename_i e he
    split at h
    · rename_i bx by_ hbx hby
      split at h
      · simp at h
      · simp only [Except.ok.injEq] at h
        subst h
        simp only [Size.add] at hbx hby
        split at hbx <;> simp at hbx
        split at hby <;> simp at hby
        subst hbx; subst hby
        have hR : (Generated.fitRight : Rat) = 90 := by norm_num [Generated.fitRight]
        have hB : (Generated.fitBottom : Rat) = 95 := by norm_num [Generated.fitBottom]
        refine ⟨_, rfl, rfl, ?_, ?_⟩ <;>
          (split_ifs <;> simp only [hR, hB] at * <;> linarith)
    · simp at h
    · simp at h

/-- **C13 (fit: missing extent).** a missing extent is set to reach exactly the 90% / 95% edges -/
theorem fit_missing_extent_reaches_edges (l : Layout) (o : Point) (ho : l.origin = some o) (he : l.extent = none) :
    ∃ l', l.fit = .ok l' ∧ l'.extent = some ⟨⟨90 - o.x.value, .pct⟩, ⟨95 - o.y.value, .pct⟩⟩ ∧ l'.origin = some o := by
  unfold Layout.fit
  rw [ho, he]
  refine ⟨_, rfl, ?_, rfl⟩
  simp [Generated.fitRight, Generated.fitBottom]

/-- **C13 (fit: fitting extent kept).** an extent that already fits is unchanged -/
theorem fit_keeps_fitting_extent (l : Layout) (o : Point) (e : Stretch) (ho : l.origin = some o) (he : l.extent = some e)
    (ux : o.x.unit = .pct) (uy : o.y.unit = .pct) (uh : e.h.unit = .pct) (uv : e.v.unit = .pct)
    (hx : o.x.value + e.h.value ≤ 90) (hy : o.y.value + e.v.value ≤ 95) :
    ∃ l', l.fit = .ok l' ∧ l'.extent = some e ∧ l'.origin = some o := by
  unfold Layout.fit
  rw [ho, he]
  simp only [Size.add, ux, uy, uh, uv, if_true]
  refine ⟨_, rfl, ?_, rfl⟩
  have h1 : ¬ ((Generated.fitRight : Rat) < o.x.value + e.h.value) := by
    simp only [Generated.fitRight]; push_cast; linarith
  have h2 : ¬ ((Generated.fitBottom : Rat) < o.y.value + e.v.value) := by
    simp only [Generated.fitBottom]; push_cast; linarith
  simp [h1, h2]

/-- relativizing or fitting never yields an absolute origin: all sizes of a relativized layout are percentages
    (origin shown; extent and padding are analogous and covered by the correspondence) -/
theorem relativized_origin_is_percent (l l' : Layout) (w h : Nat) (hl : l.asPct w h = .ok l') (o : Point)
    (ho : l'.origin = some o) : o.x.unit = .pct ∧ o.y.unit = .pct := by
  unfold Layout.asPct at hl
  split at hl
  · simp at hl
  · rename_i oo hoo
    split at hl
    · simp at hl
    · split at hl
      · simp at hl
      · simp only [Except.ok.injEq] at hl
        subst hl
        simp only at ho
        subst ho
        unfold optAsPct at hoo
        split at hoo
        · simp at hoo
        · rename_i p
          split at hoo
          · rename_i b hb
            simp only [Except.ok.injEq, Option.some.injEq] at hoo
            subst hoo
            unfold Point.asPct at hb
            split at hb
            · rename_i x y hx hy
              simp only [Except.ok.injEq] at hb
              subst hb
              exact ⟨relativize_unit _ _ _ _ hx, relativize_unit _ _ _ _ hy⟩
            · simp at hb
            · simp at hb
          · simp at hoo

/-- non-vacuity: 64px of a 640px-wide video is 10% -/
example : (⟨64, .px⟩ : Size).asPct 640 true = .ok ⟨specPct ⟨64, .px⟩ 640 true, .pct⟩ :=
  relativize_exact _ _ _ (Or.inl (by decide))
example : specPct ⟨64, .px⟩ 640 true = 10 := by norm_num [specPct]

end PcVerif.Props.C13
