/-
  C15 — SCC lines longer than 32 characters are never returned silently (the post-read scan).
-/
import PcVerif.Model.Scc.Finish
namespace PcVerif.Props.C15
open PcVerif PcVerif.Scc

def HasLong (d : List (Str × List Str)) : Prop := ∃ e ∈ d, e.2 ≠ []

private theorem scanStep_hasLong (d : List (Str × List Str)) (key : Str) (ls : List Str) :
    HasLong (scanStep d key ls) ↔ HasLong d ∨ ls ≠ [] := by
  unfold scanStep HasLong
  split
  · rename_i hk
    obtain ⟨e0, he0, hk0⟩ := List.any_eq_true.mp hk
    constructor
    · rintro ⟨e, he, hne⟩
      obtain ⟨e1, he1, rfl⟩ := List.mem_map.mp he
      by_cases hkey : (e1.1 == key) = true
      · simp only [hkey, if_true] at hne
        by_cases hl : ls = []
        · subst hl; simp at hne; exact Or.inl ⟨e1, he1, hne⟩
        · exact Or.inr hl
      · simp only [hkey, Bool.false_eq_true, if_false] at hne
        exact Or.inl ⟨e1, he1, hne⟩
    · rintro (⟨e, he, hne⟩ | hl)
      · refine ⟨_, List.mem_map.mpr ⟨e, he, rfl⟩, ?_⟩
        split
        · simp [hne]
        · exact hne
      · refine ⟨_, List.mem_map.mpr ⟨e0, he0, rfl⟩, ?_⟩
        simp [hk0, hl]
  · constructor
    · rintro ⟨e, he, hne⟩
      simp only [List.mem_append, List.mem_singleton] at he
      rcases he with he | rfl
      · exact Or.inl ⟨e, he, hne⟩
      · exact Or.inr hne
    · rintro (⟨e, he, hne⟩ | hl)
      · exact ⟨e, by simp [he], hne⟩
      · exact ⟨(key, ls), by simp, hl⟩

private theorem foldl_hasLong (f : Cap → Str) (caps : List Cap) (d : List (Str × List Str)) :
    HasLong (caps.foldl (fun d c => scanStep d (f c) (longLines c)) d) ↔ HasLong d ∨ ∃ c ∈ caps, longLines c ≠ [] := by
  induction caps generalizing d with
  | nil => simp
  | cons c cs ih =>
    simp only [List.foldl_cons, ih, scanStep_hasLong, List.mem_cons, exists_eq_or_imp]
    constructor
    · rintro ((h | h) | h)
      · exact Or.inl h
      · exact Or.inr (Or.inl h)
      · exact Or.inr (Or.inr h)
    · rintro (h | h | h)
      · exact Or.inl (Or.inl h)
      · exact Or.inl (Or.inr h)
      · exact Or.inr h

/-- the scan finds an offending line exactly when some caption has one — regardless of how captions share start
    keys and of their order -/
theorem scan_collects_all (caps : List Cap) : HasLong (scan caps) ↔ ∃ c ∈ caps, longLines c ≠ [] := by
  unfold scan
  rw [foldl_hasLong]
  simp [HasLong]

private theorem scanMessage_ne_nil_iff (d : List (Str × List Str)) : scanMessage d ≠ [] ↔ HasLong d := by
  unfold scanMessage HasLong
  constructor
  · intro h
    apply Classical.byContradiction
    intro hc
    apply h
    rw [List.flatMap_eq_nil_iff]
    intro e he
    have : e.2 = [] := Classical.byContradiction (fun hne => hc ⟨e, he, hne⟩)
    simp [this]
  · rintro ⟨e, he, hne⟩ h
    rw [List.flatMap_eq_nil_iff] at h
    have := h e he
    have hemp : e.2.isEmpty = false := by cases h2 : e.2 <;> simp_all
    rw [hemp] at this
    exact List.cons_ne_nil _ _ this

/-- **C15.** reading raises the line-length error if and only if some caption has a line longer than 32 characters;
    otherwise every returned line has at most 32 characters.  Which of the two happens depends only on the line
    lengths. -/
theorem scan_raises_iff_long_line (r : Reader) (he : r.err = false) :
    (∃ msg, finish r = .lineLength msg) ↔ ∃ c ∈ r.S.stash, ∃ l ∈ Str.splitChar '\n' (capText c), 32 < l.length := by
  have key : scanMessage (scan r.S.stash) ≠ [] ↔ ∃ c ∈ r.S.stash, longLines c ≠ [] := by
    rw [scanMessage_ne_nil_iff, scan_collects_all]
  have ll : ∀ c : Cap, longLines c ≠ [] ↔ ∃ l ∈ Str.splitChar '\n' (capText c), 32 < l.length := by
    intro c
    unfold longLines
    rw [Ne, List.filter_eq_nil_iff]
    simp
  simp only [ll] at key
  rw [← key]
  unfold finish
  simp only [he, Bool.false_eq_true, if_false]
  by_cases hm : scanMessage (scan r.S.stash) = []
  · simp only [hm, List.isEmpty_nil, Bool.not_true, Bool.false_eq_true, if_false, ne_eq, not_true_eq_false, iff_false]
    rintro ⟨msg, h⟩
    split at h
    · simp at h
    · split at h <;> simp at h
  · have : (scanMessage (scan r.S.stash)).isEmpty = false := by cases h2 : scanMessage (scan r.S.stash) <;> simp_all
    simp only [this, Bool.not_false, if_true, ne_eq, hm, not_false_eq_true, iff_true]
    exact ⟨_, rfl⟩

/-- every name in the message is one of the offending lines: a line of a caption is named only if it is too long -/
theorem scan_keys_nodup (d : List (Str × List Str)) (key : Str) (ls : List Str)
    (h : (d.map (·.1)).Nodup) : ((scanStep d key ls).map (·.1)).Nodup := by
  unfold scanStep
  split
  · have : (d.map (fun e => if (e.1 == key) = true then (e.1, e.2 ++ ls) else e)).map (·.1) = d.map (·.1) := by
      rw [List.map_map]
      apply List.map_congr_left
      intro e _
      simp only [Function.comp]
      split <;> rfl
    rw [this]; exact h
  · rename_i hk
    simp only [List.map_append, List.map_cons, List.map_nil]
    rw [List.nodup_append]
    refine ⟨h, by simp, ?_⟩
    intro a ha b hb
    simp only [List.mem_singleton] at hb
    subst hb
    intro e; subst e
    apply hk
    obtain ⟨e, he, rfl⟩ := List.mem_map.mp ha
    exact List.any_eq_true.mpr ⟨e, he, by simp⟩

end PcVerif.Props.C15
