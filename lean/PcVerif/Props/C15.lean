/-
  C15 — SCC lines longer than 32 characters are never returned silently (the post-read scan).
-/
import PcVerif.Model.Scc.Finish
namespace PcVerif.Props.C15
open PcVerif PcVerif.Scc

def HasLong (d : List (Str × List Str)) : Prop := ∃ e ∈ d, e.2 ≠ []

private theorem scanStep_hasLong (d : List (Str × List Str)) (key : Str) (ls : List Str) :
    HasLong (scanStep d key ls) ↔ HasLong d ∨ ls ≠ [] := by
  unfold scanStep HasLong
  split
  · rename_i hk
    obtain ⟨e0, he0, hk0⟩ := List.any_eq_true.mp hk
    constructor
    · rintro ⟨e, he, hne⟩
      obtain ⟨e1, he1, rfl⟩ := List.mem_map.mp he
      by_cases hkey : (e1.1 == key) = true
      · simp only [hkey, if_true] at hne
        by_cases hl : ls = []
        · subst hl; simp at hne; exact Or.inl ⟨e1, he1, hne⟩
        · exact Or.inr hl
      · simp only [hkey, Bool.false_eq_true, if_false] at hne
        exact Or.inl ⟨e1, he1, hne⟩
    · rintro (⟨e, he, hne⟩ | hl)
      · refine ⟨_, List.mem_map.mpr ⟨e, he, rfl⟩, ?_⟩
        split
        · simp [hne]
        · exact hne
      · refine ⟨_, List.mem_map.mpr ⟨e0, he0, rfl⟩, ?_⟩
        simp [hk0, hl]
  · constructor
    · rintro ⟨e, he, hne⟩
      simp only [List.mem_append, List.mem_singleton] at he
      rcases he with he | rfl
      · exact Or.inl ⟨e, he, hne⟩
      · exact Or.inr hne
    · rintro (⟨e, he, hne⟩ | hl)
      · exact ⟨e, by simp [he], hne⟩
      · exact ⟨(key, ls), by simp, hl⟩

private theorem foldl_hasLong (f : Cap → Str) (caps : List Cap) (d : List (Str × List Str)) :
    HasLong (caps.foldl (fun d c => scanStep d (f c) (longLines c)) d) ↔ HasLong d ∨ ∃ c ∈ caps, longLines c ≠ [] := by
  induction caps generalizing d with
  | nil => simp
  | cons c cs ih =>
    simp only [List.foldl_cons, ih, scanStep_hasLong, List.mem_cons, exists_eq_or_imp]
    constructor
    · rintro ((h | h) | h)
      · exact Or.inl h
      · exact Or.inr (Or.inl h)
      · exact Or.inr (Or.inr h)
    · rintro (h | h | h)
      · exact Or.inl (Or.inl h)
      · exact Or.inl (Or.inr h)
      · exact Or.inr h

/-- the scan finds an offending line exactly when some caption has one — regardless of how captions share start
    keys and of their order -/
theorem scan_collects_all (caps : List Cap) : HasLong (scan caps) ↔ ∃ c ∈ caps, longLines c ≠ [] := by
  unfold scan
  rw [foldl_hasLong]
  simp [HasLong]

private theorem scanMessage_ne_nil_iff (d : List (Str × List Str)) : scanMessage d ≠ [] ↔ HasLong d := by
  unfold scanMessage HasLong
  constructor
  · intro h
    apply Classical.byContradiction
    intro hc
    apply h
    rw [List.flatMap_eq_nil_iff]
    intro e he
    have : e.2 = [] := Classical.byContradiction (fun hne => hc ⟨e, he, hne⟩)
    simp [this]
  · rintro ⟨e, he, hne⟩ h
    rw [List.flatMap_eq_nil_iff] at h
    have := h e he
    have hemp : e.2.isEmpty = false := by cases h2 : e.2 <;> simp_all
    rw [hemp] at this
    exact List.cons_ne_nil _ _ this

/-- **C15.** reading raises the line-length error if and only if some caption has a line longer than 32 characters;
    otherwise every returned line has at most 32 characters.  Which of the two happens depends only on the line
    lengths. -/
theorem scan_raises_iff_long_line (r : Reader) (he : r.err = false) :
    (∃ msg, finish r = .lineLength msg) ↔ ∃ c ∈ r.S.stash, ∃ l ∈ Str.splitChar '\n' (capText c), 32 < l.length := by
  have key : scanMessage (scan r.S.stash) ≠ [] ↔ ∃ c ∈ r.S.stash, longLines c ≠ [] := by
    rw [scanMessage_ne_nil_iff, scan_collects_all]
  have ll : ∀ c : Cap, longLines c ≠ [] ↔ ∃ l ∈ Str.splitChar '\n' (capText c), 32 < l.length := by
    intro c
    unfold longLines
    rw [Ne, List.filter_eq_nil_iff]
    simp
  simp only [ll] at key
  rw [← key]
  unfold finish
  simp only [he, Bool.false_eq_true, if_false]
  by_cases hm : scanMessage (scan r.S.stash) = []
  · simp only [hm, List.isEmpty_nil, Bool.not_true, Bool.false_eq_true, if_false, ne_eq, not_true_eq_false, iff_false]
    rintro ⟨msg, h⟩
    split at h
    · simp at h
    · split at h <;> simp at h
  · have : (scanMessage (scan r.S.stash)).isEmpty = false := by cases h2 : scanMessage (scan r.S.stash) <;> simp_all
    simp only [this, Bool.not_false, if_true, ne_eq, hm, not_false_eq_true, iff_true]
    exact ⟨_, rfl⟩

/-- every name in the message is one of the offending lines: a line of a caption is named only if it is too long -/
theorem scan_keys_nodup (d : List (Str × List Str)) (key : Str) (ls : List Str)
    (h : (d.map (·.1)).Nodup) : ((scanStep d key ls).map (·.1)).Nodup := by
  unfold scanStep
  split
  · have : (d.map (fun e => if (e.1 == key) = true then (e.1, e.2 ++ ls) else e)).map (·.1) = d.map (·.1) := by
      rw [List.map_map]
      apply List.map_congr_left
      intro e _
      simp only [Function.comp]
      split <;> rfl
    rw [this]; exact h
  · rename_i hk
    simp only [List.map_append, List.map_cons, List.map_nil]
    rw [List.nodup_append]
    refine ⟨h, by simp, ?_⟩
    intro a ha b hb
    simp only [List.mem_singleton] at hb
    subst hb
    intro e; subst e
    apply hk
    obtain ⟨e, he, rfl⟩ := List.mem_map.mp ha
    exact List.any_eq_true.mpr ⟨e, he, by simp⟩

/-- a line is held by the scan's dict: some entry lists it -/
def Holds (d : List (Str × List Str)) (l : Str) : Prop := ∃ e ∈ d, l ∈ e.2

private theorem scanStep_keeps (d : List (Str × List Str)) (key : Str) (ls : List Str) (l : Str) (h : Holds d l) :
    Holds (scanStep d key ls) l := by
  obtain ⟨e, he, hl⟩ := h
  unfold scanStep
  split
  · refine ⟨_, List.mem_map.mpr ⟨e, he, rfl⟩, ?_⟩
    split
    · exact List.mem_append_left _ hl
    · exact hl
  · exact ⟨e, List.mem_append_left _ he, hl⟩

private theorem scanStep_adds (d : List (Str × List Str)) (key : Str) (ls : List Str) (l : Str) (h : l ∈ ls) :
    Holds (scanStep d key ls) l := by
  unfold scanStep
  split
  · rename_i hk
    obtain ⟨e0, he0, hk0⟩ := List.any_eq_true.mp hk
    refine ⟨_, List.mem_map.mpr ⟨e0, he0, rfl⟩, ?_⟩
    simp only [hk0, if_true]
    exact List.mem_append_right _ h
  · exact ⟨(key, ls), by simp, h⟩

private theorem foldl_holds (f : Cap → Str) (caps : List Cap) (d : List (Str × List Str)) (l : Str)
    (h : Holds d l ∨ ∃ c ∈ caps, l ∈ longLines c) :
    Holds (caps.foldl (fun d c => scanStep d (f c) (longLines c)) d) l := by
  induction caps generalizing d with
  | nil =>
    rcases h with h | ⟨c, hc, _⟩
    · exact h
    · simp at hc
  | cons c cs ih =>
    simp only [List.foldl_cons]
    apply ih
    rcases h with h | ⟨c', hc', hl⟩
    · exact Or.inl (scanStep_keeps _ _ _ _ h)
    · rcases List.mem_cons.mp hc' with rfl | hc'
      · exact Or.inl (scanStep_adds _ _ _ _ hl)
      · exact Or.inr ⟨c', hc', hl⟩

/-- every offending line of every caption is held by the scan, whatever keys the captions share and in whatever order they come -/
theorem scan_holds_each (caps : List Cap) (c : Cap) (hc : c ∈ caps) (l : Str) (hl : l ∈ longLines c) : Holds (scan caps) l :=
  foldl_holds _ caps [] l (Or.inr ⟨c, hc, hl⟩)

/-- how the message spells one offending line -/
def named (l : Str) : Str := l ++ " - Length ".toList ++ Str.ofNat l.length ++ ['\n']

theorem message_names (d : List (Str × List Str)) (l : Str) (h : Holds d l) : named l <:+: scanMessage d := by
  obtain ⟨e, he, hl⟩ := h
  unfold scanMessage
  rw [List.flatMap_def]
  refine List.IsInfix.trans ?_ (List.infix_of_mem_flatten (List.mem_map.mpr ⟨e, he, rfl⟩))
  have hne : e.2.isEmpty = false := by cases h2 : e.2 <;> simp_all
  simp only [hne, Bool.false_eq_true, if_false]
  have h1 : named l <:+: e.2.flatMap (fun l => l ++ " - Length ".toList ++ Str.ofNat l.length ++ ['\n']) := by
    rw [List.flatMap_def]
    exact List.infix_of_mem_flatten (List.mem_map.mpr ⟨l, hl, rfl⟩)
  refine List.IsInfix.trans h1 ?_
  exact ⟨'a' :: ("round ".toList ++ e.1 ++ " - ".toList), [], by simp⟩

/-- **C15 (the error names each offending line).** whenever some line of some stored caption is longer than 32 characters, reading
    raises the line-length error and its message contains, for EVERY such line of EVERY caption — whichever row of the caption it is,
    however many captions share its start time, in whatever order they were stored — the line itself followed by ` - Length n` -/
theorem error_names_each_offending_line (r : Reader) (he : r.err = false) (c : Cap) (hc : c ∈ r.S.stash) (l : Str)
    (hl : l ∈ Str.splitChar '\n' (capText c)) (hlen : 32 < l.length) :
    ∃ msg, finish r = .lineLength msg ∧ named l <:+: msg := by
  have hll : l ∈ longLines c := by
    unfold longLines
    exact List.mem_filter.mpr ⟨hl, by simpa using hlen⟩
  have hin := message_names _ l (scan_holds_each r.S.stash c hc l hll)
  refine ⟨scanMessage (scan r.S.stash), ?_, hin⟩
  unfold finish
  simp only [he, Bool.false_eq_true, if_false]
  have hne : (scanMessage (scan r.S.stash)).isEmpty = false := by
    cases h2 : scanMessage (scan r.S.stash) with
    | nil =>
      rw [h2] at hin
      have : named l = [] := List.infix_nil.mp hin
      unfold named at this
      simp at this
    | cons _ _ => rfl
  simp [hne]

private theorem scanStep_only (d : List (Str × List Str)) (key : Str) (ls : List Str) (l : Str) (h : Holds (scanStep d key ls) l) :
    Holds d l ∨ l ∈ ls := by
  obtain ⟨e, he, hl⟩ := h
  unfold scanStep at he
  split at he
  · obtain ⟨e1, he1, rfl⟩ := List.mem_map.mp he
    split at hl
    · rcases List.mem_append.mp hl with hl | hl
      · exact Or.inl ⟨e1, he1, hl⟩
      · exact Or.inr hl
    · exact Or.inl ⟨e1, he1, hl⟩
  · rcases List.mem_append.mp he with he | he
    · exact Or.inl ⟨e, he, hl⟩
    · simp only [List.mem_singleton] at he
      subst he
      exact Or.inr hl

private theorem foldl_only (f : Cap → Str) (caps : List Cap) (d : List (Str × List Str)) (l : Str)
    (h : Holds (caps.foldl (fun d c => scanStep d (f c) (longLines c)) d) l) :
    Holds d l ∨ ∃ c ∈ caps, l ∈ longLines c := by
  induction caps generalizing d with
  | nil => exact Or.inl h
  | cons c cs ih =>
    simp only [List.foldl_cons] at h
    rcases ih _ h with h | ⟨c', hc', hl⟩
    · rcases scanStep_only _ _ _ _ h with h | h
      · exact Or.inl h
      · exact Or.inr ⟨c, List.mem_cons_self, h⟩
    · exact Or.inr ⟨c', List.mem_cons_of_mem _ hc', hl⟩

/-- the scan holds nothing but offending lines: every line it lists is a line longer than 32 characters of some stored caption -/
theorem scan_holds_only (caps : List Cap) (l : Str) (h : Holds (scan caps) l) :
    ∃ c ∈ caps, l ∈ Str.splitChar '\n' (capText c) ∧ 32 < l.length := by
  rcases foldl_only _ caps [] l h with ⟨e, he, _⟩ | ⟨c, hc, hl⟩
  · simp at he
  · refine ⟨c, hc, ?_⟩
    unfold longLines at hl
    have := List.mem_filter.mp hl
    exact ⟨this.1, by simpa using this.2⟩

/-- non-vacuity, and the shape one of the seeded changes broke: a caption of five rows whose FIFTH row has 33 characters -/
def fiveRows : Reader :=
  { S := { stash := [{ start := 1000000, stop := 3000000,
                       nodes := [.text "one".toList (15, 0), .brk (15, 0), .text "two".toList (15, 0), .brk (15, 0), .text "three".toList (15, 0), .brk (15, 0),
                                 .text "four".toList (15, 0), .brk (15, 0), .text "THIS ROW OF TEXT HAS 33 CHARS IN.".toList (15, 0)] }] } }

example : ∃ msg, finish fiveRows = .lineLength msg ∧ named "THIS ROW OF TEXT HAS 33 CHARS IN.".toList <:+: msg :=
  error_names_each_offending_line fiveRows (by decide) _ (List.mem_singleton.mpr rfl) _ (by decide) (by decide)

end PcVerif.Props.C15
