/-
  C17 — SCC output is structurally valid: every byte the writer can emit has odd parity, the writer's row table
  addresses exactly the rows the reader decodes, rows stay within 1–15.
-/
import PcVerif.Model.Scc.Writer
import PcVerif.Lemmas.SccRowLemmas
import PcVerif.Lemmas.SccFileLemmas
import PcVerif.Lemmas.PopOnStore
import PcVerif.Lemmas.PopOnTimes
import PcVerif.Lemmas.PopOnWriterTimes
namespace PcVerif.Props.C17
open PcVerif PcVerif.Scc PcVerif.SccW

def hexVal (c : Char) : Nat :=
  if '0' ≤ c && c ≤ '9' then c.toNat - 48 else if 'a' ≤ c && c ≤ 'f' then c.toNat - 87 else 0

def popcount : Nat → Nat → Nat
  | 0, _ => 0
  | fuel + 1, n => n % 2 + popcount fuel (n / 2)

/-- both hex digits present and the byte has an odd number of one bits -/
def oddParityByte (a b : Char) : Bool := popcount 8 (hexVal a * 16 + hexVal b) % 2 == 1

/-- a code (2 or 4 hex digits): every byte has odd parity -/
def oddParity (s : String) : Bool :=
  match s.toList with
  | [a, b] => oddParityByte a b
  | [a, b, c, d] => oddParityByte a b && oddParityByte c d
  | _ => false

/-- **C17 (parity).** every code the writer can emit for a character — basic, special or extended — and the
    fallback code for unknown characters has odd parity in every byte -/
theorem writer_bytes_odd_parity :
    Generated.Scc.charToCode.all (fun e => oddParity e.2) = true ∧
    Generated.Scc.specialOrExtendedToCode.all (fun e => oddParity e.2) = true ∧
    oddParity "91b6" = true ∧ oddParity "80" = true := by
  refine ⟨?_, ?_, ?_, ?_⟩ <;> decide +kernel

/-- the fixed control words written around every caption -/
theorem fixed_words_odd_parity :
    ["94ae", "9420", "942c", "942f"].all oddParity = true := by decide +kernel

/-- **C17 (rows).** for rows 1–15 the writer's preamble (high byte, restricted low byte) has odd parity and is
    decoded by the reader's table as exactly that row, column 0 -/
theorem writer_pac_decodes_to_row :
    (List.range 15).all (fun i =>
      let row := i + 1
      let w := Generated.Scc.pacHighByRow.getD row "" ++ Generated.Scc.pacLowByRowRestricted.getD row ""
      oddParity w && (pacPos w == some (row, 0))) = true := by
  decide +kernel

/-- bottom alignment keeps every row within 1–15 for 1–15 laid-out lines -/
theorem rows_1_15 (n i : Nat) (hn : 1 ≤ n) (hn' : n ≤ 15) (hi : i < n) : 1 ≤ 16 - n + i ∧ 16 - n + i ≤ 15 := by omega

/-- **C17 (same words).** every character the writer can encode is decoded by the reader's tables as that character:
    basic characters by the one-byte table, special and extended characters by their two-byte tables -/
theorem writer_chars_decode_back :
    Generated.Scc.charToCode.all (fun e => character e.2 == some e.1) = true ∧
    Generated.Scc.specialOrExtendedToCode.all (fun e => (special e.2 == some e.1) || (extended e.2 == some e.1)) = true := by
  refine ⟨?_, ?_⟩ <;> decide +kernel

/-- no two characters share a code, so a written code cannot be read as another character -/
theorem writer_codes_injective :
    (Generated.Scc.charToCode.map (·.2)).Nodup ∧ (Generated.Scc.specialOrExtendedToCode.map (·.2)).Nodup := by
  refine ⟨?_, ?_⟩ <;> decide +kernel

/-- the preamble written for rows 1–15 is one word and a blank -/
theorem pac_word_len : (List.range 15).all (fun i => (pacFor (i + 1)).length == 5) = true := by decide +kernel

/-- **C17 (what is written for a row).** for a line of characters of the basic table, written on a row 1–15 after any
    whole number of words: the row's preamble twice, then exactly `rowWords line` — two characters per word, a last single
    character completed by the filler byte `80` — each followed by a blank; nothing else -/
theorem written_line_is_words (code : Str) (row : Nat) (line : List Char) (hr : (pacFor row).length = 5)
    (hc : code.length % 5 = 0) (hb : ∀ c ∈ line, Basic c) :
    lineCode code row line = code ++ pacFor row ++ pacFor row ++ (rowWords line).flatMap (fun w => w.toList ++ [' ']) := by
  unfold lineCode
  exact line_words line hb _ (by simp [hr]; omega)

/-- **C17 (a written row re-reads to the same characters).** the reader — in whatever state, whatever mode — takes the
    words written for a line of basic characters for character words only (never for a command, a preamble, a special or
    an extended code) and the text it holds grows by exactly the line's characters, in order -/
theorem written_row_rereads (line : List Char) (hb : ∀ c ∈ line, Basic c) (r : Reader) :
    Props.C16.heldText (words r (rowWords line)) = Props.C16.heldText r ++ vis line :=
  SccW.written_row_rereads line hb r

/-- non-vacuity: the letters, digits, blank and punctuation of a typical caption are basic characters -/
example : ∀ c ∈ "Hello, World 42!".toList, Basic c := by
  intro c hc
  have key : ∀ c ∈ "Hello, World 42!".toList, Generated.Scc.charToCode.any (fun e => e.1 == String.singleton c) = true := by
    decide +kernel
  obtain ⟨e, he, hk⟩ := List.any_eq_true.mp (key c hc)
  exact ⟨e, he, by simpa using hk⟩

/-! ### whole captions and whole files -/

/-- **C17 (a whole written caption re-reads).** the words the writer sends for one caption — `94ae 94ae 9420 9420`, per row
    the preamble twice and the row's character words, `942c 942c 942f 942f` — read by the reader model between two captions
    (pop-on mode, nothing pending in the doubling memory but a character word, no text in the buffer being composed) and
    followed by any further words: every doubled control code is executed once, no character word is taken for anything
    else, and what the reader holds (stored captions, queued caption, buffer) grows by exactly the caption's characters, row
    by row, in order; afterwards the reader is between captions again -/
theorem written_caption_rereads (lines : List (List Char)) (hn : lines.length ≤ 15) (hb : ∀ l ∈ lines, ∀ c ∈ l, Basic c)
    (rest : List String) (r : Reader) (hq : Quiet r.lastCmd) (ha : r.active = .pop) (he : itext r.buf.coll = []) :
    ∃ r', words r (captionWords lines ++ rest) = words r' rest ∧ r'.lastCmd = "" ∧ r'.active = .pop ∧
      itext r'.buf.coll = [] ∧ heldQ r' = heldQ r ++ vis lines.flatten :=
  caption_read lines hn hb rest r hq ha he

/-- **C17 (the writer's output is such a file).** for every caption set (rows of basic characters, at most 15 per caption, any
    times) the text the writer model produces is: header, empty line, and per caption the line
    `<time code>\t<the caption's words separated by single blanks>` — the pre-roll pass moves time codes and drops clearing
    lines, never a code word -/
theorem write_is_file (caps : List (List Str × Rat × Rat)) (hok : ∀ c ∈ caps, c.1.length ≤ 15 ∧ ∀ l ∈ c.1, ∀ x ∈ l, Basic x) :
    ∃ fcs : List FileCap, write caps = fileText fcs ∧ (∀ c ∈ fcs, c.ok) ∧ fcs.map (·.lines) = caps.map (·.1) :=
  SccW.write_is_file caps hok

/-- **C17 (write, then read: the same characters).** for every such caption set and every reading offset the reader model,
    run on the text the writer model produces — header line, `splitlines`, lower-casing, time-code / word splitting, the
    doubling memory, every control code, the final flush — ends up holding exactly the captions' characters, caption by
    caption and row by row, in order: none lost, none doubled, none taken for a command -/
theorem written_file_rereads (caps : List (List Str × Rat × Rat)) (hok : ∀ c ∈ caps, c.1.length ≤ 15 ∧ ∀ l ∈ c.1, ∀ x ∈ l, Basic x)
    (off : Rat) : heldQ (run (write caps) off) = vis (caps.flatMap fun c => c.1.flatten) :=
  SccW.written_file_rereads caps hok off

/-- **C17 (a stored caption is its rows).** `create_and_store` on the buffer a written caption leaves appends exactly ONE
    caption — nodes: the rows' texts with break nodes between them; layout: the first row's position — whatever the stash
    holds and whatever retiming of earlier captions it triggers; the italics passes and the splitting at repositionings leave
    such a buffer alone -/
theorem stored_caption_is_rows (S : Stash) (c : Creator) (a b : Rat) (p : Pos) (l : Str) (ls : List Str)
    (hc : c.coll = bufNodes p (l :: ls)) (ht : ∀ m ∈ l :: ls, Tidy m) :
    (store S c a b).stash.map view = S.stash.map view ++ [(capNodes p (l :: ls), some p)] :=
  store_written S c a b p l ls hc ht

/-- **C17 (write, then read: one caption per caption, the same rows, in order).** for every caption set whose captions are
    1–15 rows of basic characters, each row non-empty and without white space at its end (what `textwrap.fill` lays out), any
    start and end times, any reading offset: the reader model run on the text the writer model produces stores — apart from
    the times — exactly one caption per input caption, in order, whose nodes are the caption's rows separated by break nodes
    and whose position is the first row's (row `16 − n`, column 0).  End to end over `write`, `splitlines`, `translateLine`,
    `handleDouble`, `command`, `interpret`, the position tracker, `addChars`, `popOn`, `store`, `formatItalics`, `toCaps`,
    `flush` -/
theorem written_file_restored (caps : List (List Str × Rat × Rat)) (hg : ∀ c ∈ caps, GoodLines c.1) (off : Rat) :
    (run (write caps) off).S.stash.map view = caps.map (fun c => capView c.1) :=
  SccW.written_file_restored caps hg off

/-- **C17 (the time code the writer prints, as the reader counts it).** for every instant `us ≥ 0` the reader computes from
    the time code the writer prints, for the `k`-th word of that line, exactly `⌊us in frames⌋ + k` frames of 1001/30 ms: hours,
    minutes, seconds and frames of `_format_timestamp` add up without a lost carry, and the reader's arithmetic inverts it -/
theorem written_stamp_instant (us : Rat) (hus : 0 ≤ us) (k : Nat) :
    timeOf (String.ofList (formatTimestamp us)) k 0
      = some ((((us / 1000000 * (1000 / 1001) * 30).floor.toNat + k : Nat) : Rat) * SccW.frameUs) :=
  SccW.written_stamp_instant us hus k

/-- **C17 (time codes are non-negative and keep the order of the instants).** the instant the reader attaches to a line stamped
    for `u` (`lineInstant`, by `written_stamp_instant` with no words before) is never negative, never after `u`, less than one
    frame before it, and `u ≤ v` gives `lineInstant u ≤ lineInstant v`: the written time codes are non-decreasing whenever the
    instants they are printed for are -/
theorem written_stamps_monotone (u v : Rat) (hu : 0 ≤ u) (h : u ≤ v) :
    timeOf (String.ofList (formatTimestamp u)) 0 0 = some (lineInstant u) ∧
    lineInstant u ≤ lineInstant v ∧ 0 ≤ lineInstant u ∧ lineInstant u ≤ u ∧ u < lineInstant u + SccW.frameUs :=
  ⟨lineInstant_is u hu, lineInstant_monotone u v hu h⟩

/-- **C17 (write, then read: every caption at the instant it was sent for).** as `written_file_restored`, with the start
    times: the caption re-read for an input caption starts at `shownAt` — the instant of its End-Of-Caption word, which is
    word number `words + 6` of a line stamped with the sending instant `start − (words + 8)` frames rounded down to a frame -/
theorem written_file_times (caps : List (List Str × Rat × Rat)) (hg : ∀ c ∈ caps, GoodLines c.1) :
    (run (write caps) 0).S.stash.map view3 = caps.map (fun c => capView3 (c.1, shownAt c.1 c.2.1)) :=
  SccW.written_file_times caps hg

/-- **C17 (visible within three frames of its start).** a caption whose start leaves room for its transmission
    (`start ≥ (words + 8)` frames) is shown between two and three frames BEFORE its start: never late, never three frames
    early — for every caption, every start, every number of words -/
theorem shown_within_three_frames (lines : List (List Char)) (start : Rat)
    (h : (((rowsWords (16 - lines.length) lines).length : Rat) + 8) * SccW.frameUs ≤ start) :
    2 * SccW.frameUs ≤ start - shownAt lines start ∧ start - shownAt lines start < 3 * SccW.frameUs :=
  SccW.shown_within_three_frames lines start h

/-- **C17 (write, then read: every caption with its start and its end).** for every caption set of 1–15 tidy rows of basic
    characters per caption whose cues are "spaced far enough apart to be transmitted" (`WellSpaced`: each start leaves
    `words + 8` frames of room, no cue ends before it starts, and each cue is sent at least four frames after the previous one
    ends): the reader model run on the writer model's file stores exactly the input captions, in order — rows as lines,
    first-row position — each starting at `shownAt` (two to three frames before its start, `shown_within_three_frames`) and
    ending at `lineInstant end` (less than one frame before its end, `written_stamps_monotone`); the pre-roll pass keeps every
    clearing line, no caption is joined to its neighbour, retimed or given the default four seconds -/
theorem written_file_start_end (caps : List (List Str × Rat × Rat)) (hg : ∀ c ∈ caps, GoodLines c.1) (hsp : WellSpaced none caps) :
    (run (write caps) 0).S.stash = caps.map (fun c => cap4 (c.1, shownAt c.1 c.2.1, lineInstant c.2.2)) :=
  SccW.written_file_start_end caps hg hsp

/-- non-vacuity: two one-row captions at 1–3 s and 5–6 s are `WellSpaced` -/
example : WellSpaced none [(["Hi".toList], (1000000 : Rat), (3000000 : Rat)), (["yo".toList], 5000000, 6000000)] := by
  have h1 : (rowsWords (16 - ["Hi".toList].length) ["Hi".toList]).length = 3 := by decide +kernel
  have h2 : (rowsWords (16 - ["yo".toList].length) ["yo".toList]).length = 3 := by decide +kernel
  have hF := SccW.frameUs_value
  refine ⟨?_, by norm_num, ?_, ?_, by norm_num, ?_, trivial⟩
  · show (((rowsWords (16 - ["Hi".toList].length) ["Hi".toList]).length : Rat) + 8) * SccW.frameUs ≤ 1000000
    rw [h1, hF]; norm_num
  · intro pe h; simp at h
  · show (((rowsWords (16 - ["yo".toList].length) ["yo".toList]).length : Rat) + 8) * SccW.frameUs ≤ 5000000
    rw [h2, hF]; norm_num
  · intro pe hpe
    simp only [Option.some.injEq] at hpe
    subst hpe
    show (3000000 : Rat) + 4 * SccW.frameUs ≤ 5000000 - (((rowsWords (16 - ["yo".toList].length) ["yo".toList]).length : Rat) + 8) * SccW.frameUs
    rw [h2, hF]; norm_num

/-- non-vacuity: a two-row caption of ordinary characters meets the hypotheses of `written_file_restored` -/
example : GoodLines ["Hello,".toList, "World 42!".toList] := by
  refine ⟨by decide, by decide, ?_⟩
  have key : ∀ l ∈ ["Hello,".toList, "World 42!".toList], ∀ x ∈ l,
      Generated.Scc.charToCode.any (fun e => e.1 == String.singleton x) = true := by decide +kernel
  have tidy : ∀ l ∈ ["Hello,".toList, "World 42!".toList], l ≠ [] ∧ Str.rstrip l = l := by decide +kernel
  intro m hm
  refine ⟨tidy m hm, ?_⟩
  intro x hx
  obtain ⟨e, he, hk⟩ := List.any_eq_true.mp (key m hm x hx)
  exact ⟨e, he, by simpa using hk⟩

/-- non-vacuity: a two-row caption of ordinary characters meets the hypotheses -/
example : ∀ c ∈ [("Hello,".toList :: ["World 42!".toList], (1000000 : Rat), (3000000 : Rat))],
    c.1.length ≤ 15 ∧ ∀ l ∈ c.1, ∀ x ∈ l, Basic x := by
  intro c hc
  simp only [List.mem_singleton] at hc
  subst hc
  refine ⟨by decide, ?_⟩
  have key : ∀ l ∈ ["Hello,".toList, "World 42!".toList], ∀ x ∈ l,
      Generated.Scc.charToCode.any (fun e => e.1 == String.singleton x) = true := by decide +kernel
  intro l hl x hx
  obtain ⟨e, he, hk⟩ := List.any_eq_true.mp (key l hl x hx)
  exact ⟨e, he, by simpa using hk⟩

end PcVerif.Props.C17
