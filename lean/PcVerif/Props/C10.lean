/-
  C10 — reading is a deterministic, isolated function of document and options.
-/
import PcVerif.Model.ReadWorld
namespace PcVerif.Props.C10
open PcVerif PcVerif.ReadWorld

theorem reader_flags_pinned :
    Generated.captionMutableDefault = false ∧ Generated.captionSetMutableDefault = false ∧
    Generated.sccReadResets = true ∧ Generated.samiLangsOrdered = true := by decide

/-- **C10 (reader reuse).** whatever state a reader object was left in by earlier reads, `read` gives what a fresh
    reader gives -/
theorem read_independent_of_history (r0 : Scc.Reader) (content : Str) (offset : Rat) :
    sccReadFrom Generated.sccReadResets r0 content offset = sccReadFrom Generated.sccReadResets {} content offset := by
  simp [sccReadFrom, reader_flags_pinned.2.2.1]

/-- **C10 (isolation).** the style dictionaries of two results are distinct objects, so an edit addressed to one of
    the first result's dictionaries changes no dictionary of the second -/
theorem fresh_results_isolated (shared : Nat) (a : Alloc) (n m : Nat) (store : Nat → List Nat) (v : Nat) :
    let r1 := readAlloc Generated.captionMutableDefault shared a n
    let r2 := readAlloc Generated.captionMutableDefault shared r1.2 m
    ∀ i ∈ r1.1, ∀ j ∈ r2.1, i ≠ j ∧ edit store i v j = store j := by
  simp only [readAlloc, reader_flags_pinned.1, Bool.false_eq_true, if_false]
  intro i hi j hj
  rw [List.mem_range'_1] at hi hj
  have : i ≠ j := by omega
  refine ⟨this, ?_⟩
  simp [edit, Ne.symm this]

/-- with a shared mutable default the same statement is false: the counterexample the fixed code no longer has -/
example : (readAlloc true 7 ⟨10⟩ 1).1 = (readAlloc true 7 (readAlloc true 7 ⟨10⟩ 1).2 1).1 := by decide

/-- the translator's scan of every module of the library (decorators named `lru_cache` / `cache` / …, weak-reference
    containers — the flyweight idiom) finds no function that remembers what it returned: nothing built during a read outlives it
    in a process-wide table -/
theorem no_process_wide_memo : Generated.memoisedSites = [] := by decide

/-- no function of the library — constructors of `Caption`, `CaptionSet`, `CaptionNode`, of the SCC reader's caption holders, any
    method, any lambda — has a parameter default that is a mutable object built once at definition time (the translator's scan of
    every module): an attribute initialised from a default is never one object shared by all instances -/
theorem no_shared_default_objects : Generated.mutableDefaultSites = [] := by decide

/-- **C10 (isolation of constructed objects).** with no memoising constructor, two objects built by the library — for the same
    key or for different ones, in one read or in two — are distinct objects, so an edit addressed to the first changes nothing
    of the second (a cue's layout edited in place does not show in another cue, another caption set or a later read) -/
theorem constructed_objects_distinct (table : List (Nat × Nat)) (a : Alloc) (k1 k2 : Nat) (store : Nat → List Nat) (v : Nat) :
    let c1 := construct (!Generated.memoisedSites.isEmpty) table a k1
    let c2 := construct (!Generated.memoisedSites.isEmpty) c1.2.1 c1.2.2 k2
    c1.1 ≠ c2.1 ∧ edit store c1.1 v c2.1 = store c2.1 := by
  simp only [no_process_wide_memo, List.isEmpty_nil, Bool.not_true, construct, Bool.false_eq_true, if_false]
  have : a.next ≠ a.next + 1 := by omega
  exact ⟨this, by simp [edit]⟩

/-- with a memoising constructor the statement is false: the same key gives the same object twice -/
example : (construct true [] ⟨10⟩ 3).1 = (construct true (construct true [] ⟨10⟩ 3).2.1 (construct true [] ⟨10⟩ 3).2.2 3).1 := by decide

private theorem firstAppearance_indep (π₁ π₂ : List Str → List Str) (ls : List Str) :
    collectLangs true π₁ ls = collectLangs true π₂ ls := rfl

/-- **C10 / C14 (language order).** the languages of a SAMI document are reported in order of first appearance,
    independently of any iteration-order permutation (hash seed) -/
theorem languages_in_first_appearance_order (π : List Str → List Str) (ls : List Str) :
    collectLangs Generated.samiLangsOrdered π ls = firstAppearance [] ls := by
  simp [collectLangs, reader_flags_pinned.2.2.2]

end PcVerif.Props.C10
