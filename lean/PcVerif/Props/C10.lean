/-
  C10 — reading is a deterministic, isolated function of document and options.
-/
import PcVerif.Model.ReadWorld
namespace PcVerif.Props.C10
open PcVerif PcVerif.ReadWorld

theorem reader_flags_pinned :
    Generated.captionMutableDefault = false ∧ Generated.captionSetMutableDefault = false ∧
    Generated.sccReadResets = true ∧ Generated.samiLangsOrdered = true := by decide

/-- **C10 (reader reuse).** whatever state a reader object was left in by earlier reads, `read` gives what a fresh
    reader gives -/
theorem read_independent_of_history (r0 : Scc.Reader) (content : Str) (offset : Rat) :
    sccReadFrom Generated.sccReadResets r0 content offset = sccReadFrom Generated.sccReadResets {} content offset := by
  simp [sccReadFrom, reader_flags_pinned.2.2.1]

/-- **C10 (isolation).** the style dictionaries of two results are distinct objects, so an edit addressed to one of
    the first result's dictionaries changes no dictionary of the second -/
theorem fresh_results_isolated (shared : Nat) (a : Alloc) (n m : Nat) (store : Nat → List Nat) (v : Nat) :
    let r1 := readAlloc Generated.captionMutableDefault shared a n
    let r2 := readAlloc Generated.captionMutableDefault shared r1.2 m
    ∀ i ∈ r1.1, ∀ j ∈ r2.1, i ≠ j ∧ edit store i v j = store j := by
  simp only [readAlloc, reader_flags_pinned.1, Bool.false_eq_true, if_false]
  intro i hi j hj
  rw [List.mem_range'_1] at hi hj
  have : i ≠ j := by omega
  refine ⟨this, ?_⟩
  simp [edit, Ne.symm this]

/-- with a shared mutable default the same statement is false: the counterexample the fixed code no longer has -/
example : (readAlloc true 7 ⟨10⟩ 1).1 = (readAlloc true 7 (readAlloc true 7 ⟨10⟩ 1).2 1).1 := by decide

private theorem firstAppearance_indep (π₁ π₂ : List Str → List Str) (ls : List Str) :
    collectLangs true π₁ ls = collectLangs true π₂ ls := rfl

/-- **C10 / C14 (language order).** the languages of a SAMI document are reported in order of first appearance,
    independently of any iteration-order permutation (hash seed) -/
theorem languages_in_first_appearance_order (π : List Str → List Str) (ls : List Str) :
    collectLangs Generated.samiLangsOrdered π ls = firstAppearance [] ls := by
  simp [collectLangs, reader_flags_pinned.2.2.2]

end PcVerif.Props.C10
