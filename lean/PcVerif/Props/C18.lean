/-
  C18 — geometry values compare, hash, parse and print consistently.  Property theorems.
-/
import PcVerif.Model.Geometry
import PcVerif.Generated.ReadWorld
import PcVerif.Lemmas.GeoLemmas
import PcVerif.Lemmas.GeoPrint
namespace PcVerif.Props.C18
open PcVerif PcVerif.Geo PcVerif.Str

theorem pattern_pinned :
    Generated.sizePattern = some "^(((?P<value>\\d+(\\.\\d+)?)(?P<unit>px|em|%|c|pt))|0)$" ∧
    Generated.unitTexts = ["px", "em", "%", "c", "pt"] ∧
    Generated.paddingOrder = ["before", "end", "after", "start"] := by decide

/-! #### equality is component-wise -/

theorem size_eq_iff (a b : Size) : a.pyEq (some b) = true ↔ a = b := by
  cases a; cases b; simp [Size.pyEq]

theorem size_ne_none (a : Size) : a.pyEq none = false := rfl

theorem point_eq_iff (a b : Point) : a.pyEq (some b) = true ↔ a = b := by
  cases a; cases b; simp [Point.pyEq, size_eq_iff]

theorem stretch_eq_iff (a b : Stretch) : a.pyEq (some b) = true ↔ a = b := by
  cases a; cases b; simp [Stretch.pyEq, size_eq_iff]

theorem padding_eq_iff (a b : Padding) : a.pyEq (some b) = true ↔ a = b := by
  cases a; cases b; simp [Padding.pyEq, size_eq_iff, and_assoc]

theorem alignment_eq_iff (a b : Alignment) : a.pyEq (some b) = true ↔ a = b := by
  cases a; cases b; simp [Alignment.pyEq]

private theorem optEq_iff {τ : Type} (eq : τ → Option τ → Bool)
    (h1 : ∀ a b, eq a (some b) = true ↔ a = b) (h2 : ∀ a, eq a none = false) (x y : Option τ) :
    optEq eq x y = true ↔ x = y := by
  cases x <;> cases y <;> simp [optEq, h1, h2]

/-- **C18 (equality).** two layouts are equal exactly when origin, extent, padding and alignment are equal
    (value and unit of every size); `webvtt_positioning` does not take part. -/
theorem layout_eq_iff (a b : Layout) :
    a.pyEq b = true ↔ a.origin = b.origin ∧ a.extent = b.extent ∧ a.padding = b.padding ∧ a.alignment = b.alignment := by
  simp only [Layout.pyEq, Bool.and_eq_true,
    optEq_iff Point.pyEq point_eq_iff (fun _ => rfl),
    optEq_iff Stretch.pyEq stretch_eq_iff (fun _ => rfl),
    optEq_iff Padding.pyEq padding_eq_iff (fun _ => rfl),
    optEq_iff Alignment.pyEq alignment_eq_iff (fun _ => rfl), and_assoc]

/-! #### equal values have equal hashes (for any component hash functions) -/

theorem size_eq_imp_hash_eq (e : HashEnv) (a b : Size) (h : a.pyEq (some b) = true) : a.hash e = b.hash e := by
  rw [(size_eq_iff a b).mp h]
theorem point_eq_imp_hash_eq (e : HashEnv) (a b : Point) (h : a.pyEq (some b) = true) : a.hash e = b.hash e := by
  rw [(point_eq_iff a b).mp h]
theorem stretch_eq_imp_hash_eq (e : HashEnv) (a b : Stretch) (h : a.pyEq (some b) = true) : a.hash e = b.hash e := by
  rw [(stretch_eq_iff a b).mp h]
theorem padding_eq_imp_hash_eq (e : HashEnv) (a b : Padding) (h : a.pyEq (some b) = true) : a.hash e = b.hash e := by
  rw [(padding_eq_iff a b).mp h]
theorem alignment_eq_imp_hash_eq (e : HashEnv) (a b : Alignment) (h : a.pyEq (some b) = true) : a.hash e = b.hash e := by
  rw [(alignment_eq_iff a b).mp h]
/-- **C18 (hash).** equal layouts hash equally although they may differ in `webvtt_positioning` -/
theorem layout_eq_imp_hash_eq (e : HashEnv) (a b : Layout) (h : a.pyEq b = true) : a.hash e = b.hash e := by
  obtain ⟨h1, h2, h3, h4⟩ := (layout_eq_iff a b).mp h
  simp [Layout.hash, h1, h2, h3, h4]

/-! #### parsing -/

/-- **C18 (reject kind).** whatever is rejected is rejected with the syntax error -/
theorem size_reject_error_kind (s : Str) (e : Err) (h : Size.fromString s = .error e) : e = .syntaxError := by
  unfold Size.fromString at h
  split at h
  · split at h
    · simp at h
    · split at h
      · simp at h
      · simpa using h.symm
  · simpa using h.symm

/-- **C18 (grammar, soundness).** whatever `Size.from_string` accepts is a decimal number followed by a unit,
    or a bare 0 (optionally followed by one final newline, the `$` of the pinned pattern) -/
theorem size_accepts_only_language (s : Str) (z : Size) (h : Size.fromString s = .ok z) : SizeLang s := by
  unfold Size.fromString at h
  split at h
  · rename_i ip fp r hm
    obtain ⟨h1, h2, e⟩ := matchNumber_spec s ip fp r hm
    split at h
    · rename_i u hu
      obtain ⟨nl, er⟩ := matchUnitDollar_spec r u hu
      rw [e, er]
      exact SizeLang.num ip fp u nl h1 h2
    · split at h
      · rename_i hz
        simp only [Bool.or_eq_true, beq_iff_eq] at hz
        rcases hz with hz | hz
        · rw [hz]; exact SizeLang.zero false
        · rw [hz]; exact SizeLang.zero true
      · simp at h
  · simp at h

/-- **C18 (grammar, completeness).** every string of the language is accepted -/
theorem size_accepts_language (s : Str) (h : SizeLang s) : ∃ z, Size.fromString s = .ok z := by
  cases h with
  | zero nl =>
    cases nl
    · exact ⟨⟨0, .px⟩, by decide⟩
    · exact ⟨⟨0, .px⟩, by decide⟩
  | num ip fp u nl hip hfp =>
    have hu' := matchUnitDollar_text u nl
    have hm := matchNumber_complete ip fp u nl hip hfp
    unfold Size.fromString
    rw [hm]
    simp only
    rw [hu']
    exact ⟨_, rfl⟩

/-- **C18 (print, then parse).** for every non-negative size, parsing what `__str__` printed gives the value rounded to
    two decimals (half to even, on the exact value) with the same unit — whatever the value: whole numbers print
    without a fraction, trailing zeros are stripped, and none of the three spellings is misread -/
theorem size_print_parse (s : Size) (h : 0 ≤ s.value) :
    Size.fromString s.toStr = .ok ⟨mkRat (roundHalfEven (s.value * 100)) 100, s.unit⟩ :=
  print_parse s h

/-- **C18 (re-parsing a printed value reproduces it).** a size with at most two decimals — in particular every value
    that was itself printed — survives print-then-parse exactly -/
theorem size_print_parse_exact (k : Nat) (u : Geo.Unit) :
    Size.fromString (Size.toStr ⟨mkRat k 100, u⟩) = .ok ⟨mkRat k 100, u⟩ :=
  print_parse_exact k u

/-- printing is stable under re-parsing: print (parse (print s)) = print s for every non-negative size -/
theorem size_print_idempotent (s z : Size) (h : 0 ≤ s.value) (hz : Size.fromString s.toStr = .ok z) :
    Size.fromString z.toStr = .ok z := by
  have h1 := print_parse s h
  rw [hz] at h1
  have e : z = ⟨mkRat (roundHalfEven (s.value * 100)) 100, s.unit⟩ := by simpa using h1
  have hn := roundHalfEven_nonneg (s.value * 100) (Rat.mul_nonneg h (by decide))
  obtain ⟨k, hk⟩ := Int.eq_ofNat_of_zero_le hn
  rw [e, hk]
  exact print_parse_exact k s.unit

/-- non-vacuity / concrete instance: 12.345 % prints as "12.34%" (half to even) and reads back as 12.34 % -/
example : Size.toStr ⟨mkRat 12345 1000, .pct⟩ = "12.34%".toList := by decide +kernel

/-- **C18 (padding shorthand).** one to four sizes expand in TTML order (before, end, after, start) -/
theorem padding_shorthand (s : Str) (l : List Size) (h : mapM' Size.fromString (splitChar ' ' s) = .ok l) :
    (∀ a, l = [a] → Padding.fromAttr s = .ok ⟨a, a, a, a⟩) ∧
    (∀ a b, l = [a, b] → Padding.fromAttr s = .ok { before := a, end_ := b, after := a, start := b }) ∧
    (∀ a b c, l = [a, b, c] → Padding.fromAttr s = .ok { before := a, end_ := b, after := c, start := b }) ∧
    (∀ a b c d, l = [a, b, c, d] → Padding.fromAttr s = .ok { before := a, end_ := b, after := c, start := d }) ∧
    (l.length = 0 ∨ 4 < l.length → Padding.fromAttr s = .error .valueError) := by
  unfold Padding.fromAttr
  rw [h]
  refine ⟨?_, ?_, ?_, ?_, ?_⟩
  · rintro a rfl; rfl
  · rintro a b rfl; rfl
  · rintro a b c rfl; rfl
  · rintro a b c d rfl; rfl
  · intro hl
    match l, hl with
    | [], _ => rfl
    | [_], hl => simp at hl
    | [_, _], hl => simp at hl
    | [_, _, _], hl => simp at hl
    | [_, _, _, _], hl => simp at hl
    | _ :: _ :: _ :: _ :: _ :: _, _ => rfl

/-- **C18 (padding print order).** printed as before, end, after, start -/
theorem padding_print_order (p : Padding) :
    p.toAttr = Str.join [' '] [p.before.toStr, p.end_.toStr, p.after.toStr, p.start.toStr] := by
  simp [Padding.toAttr, Str.join]

/-- non-vacuity / examples -/
example : (match Size.fromString "12.5%".toList with | .ok z => z.unit == .pct | _ => false) = true := by decide
example : Size.fromString "12.5 %".toList = .error .syntaxError := by decide
example : (⟨⟨1, .px⟩, ⟨2, .px⟩⟩ : Point).pyEq (some ⟨⟨1, .px⟩, ⟨2, .em⟩⟩) = false := by decide

/-- **C18 (parsing has no memory).** no function of the library remembers what it returned (the translator's scan for caching decorators and weak-reference flyweight tables over every module is empty): `from_string` / `from_xml_attribute` are the functions of their argument the model says they are, so parsing a text gives the same value whatever was parsed before -/
theorem no_process_wide_memo : Generated.memoisedSites = [] := by decide

end PcVerif.Props.C18
