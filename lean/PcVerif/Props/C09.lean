/-
  C09 — writing never alters its input and is deterministic.
-/
import PcVerif.Model.World
import PcVerif.Generated.ReadWorld
namespace PcVerif.Props.C09
open PcVerif PcVerif.World PcVerif.TextW

/-- every writer either copies its argument before using it or never stores into foreign objects
    (flags regenerated from the AST of the eight writer classes) -/
theorem writers_copy_or_pure :
    ["srt", "webvtt", "dfxp", "single", "legacy", "sami", "microdvd", "scc"].all
      (fun k => (flagsOf k).1 || (flagsOf k).2) = true := by decide

/-- **C09 (input unchanged).** a writer that copies first, or whose body is read-only, returns its argument exactly as
    it received it — whatever the body computes, also when it raises (the body's result then is an error value) -/
theorem write_preserves_input {Set Out : Type} (copies : Bool) (body : Set → Set × Out) (arg : Set)
    (h : copies = true ∨ ∀ a, (body a).1 = a) : (write copies body arg).1 = arg := by
  unfold write
  cases copies with
  | true => rfl
  | false =>
    rcases h with h | h
    · cases h
    · simpa using h arg

theorem span_writers_reset_pinned :
    Generated.dfxpResetsOpenSpan = true ∧ Generated.legacyResetsOpenSpan = true ∧ Generated.samiResetsOpenSpan = true := by decide

/-- **C09 (no state leaks into a document).** the text of a document does not depend on the flag the writer object
    was left with by earlier writes -/
theorem write_resets_state (w : SpanWriter) (st : Bool) (doc : List (List Node)) :
    (writeDoc w st doc).1 = (writeDoc w false doc).1 := by
  unfold writeDoc
  have : resetsAtEntry w = true := by
    cases w <;> simp [resetsAtEntry, span_writers_reset_pinned.1, span_writers_reset_pinned.2.1, span_writers_reset_pinned.2.2]
  simp [this]

/-- **C09 (history independence).** whatever was written before with the same writer object, the n-th output equals
    that of a fresh writer -/
theorem output_history_independent (w : SpanWriter) (st : Bool) (docs : List (List (List Node))) :
    history w st docs = docs.map (fun d => (writeDoc w false d).1) := by
  induction docs generalizing st with
  | nil => rfl
  | cons d ds ih =>
    simp only [history, List.map_cons]
    rw [ih, write_resets_state w st d]

/-- **C09 (no memory between writes).** no function of the library remembers what it returned (the translator's scan for caching decorators and weak-reference flyweight tables over every module is empty): what a writer computes for one document — rules of a language, converted sizes, region ids — is computed again for the next, which is what `output_history_independent` assumes of the functions the writers call -/
theorem no_process_wide_memo : Generated.memoisedSites = [] := by decide

end PcVerif.Props.C09
