/-
  C07 — DFXP output is internally consistent (ids, references, regions) and its text content cannot break the markup.
-/
import PcVerif.Model.Regions
import PcVerif.Model.TextWriters
import Std.Data.String.ToNat
namespace PcVerif.Props.C07
open PcVerif PcVerif.Regions PcVerif.TextW

theorem default_ids_pinned :
    Generated.dfxpDefaultStyleId = some "default" ∧ Generated.dfxpDefaultRegionId = some "bottom" := by decide

/-- **C07 (ids unique).** generated region ids are pairwise distinct and never collide with the default region's id -/
theorem region_ids_distinct (i j : Nat) : (regionId i = regionId j → i = j) ∧ regionId i ≠ defaultRegionId := by
  constructor
  · intro h
    have h1 : ("r" ++ Nat.repr i).toList = ("r" ++ Nat.repr j).toList := by
      unfold regionId at h; rw [h]
    simp only [String.toList_append] at h1
    have h2 : (Nat.repr i).toList = (Nat.repr j).toList := List.append_cancel_left h1
    exact Nat.repr_injective (String.toList_injective h2)
  · unfold regionId defaultRegionId
    rw [default_ids_pinned.2]
    intro h
    have h1 : ("r" ++ Nat.repr i).toList = "bottom".toList := by rw [h]
    simp only [String.toList_append] at h1
    have e1 : "r".toList = ['r'] := by decide
    have e2 : "bottom".toList = ['b', 'o', 't', 't', 'o', 'm'] := by decide
    rw [e1, e2] at h1
    simp at h1

variable {L : Type} [DecidableEq L]

/-- **C07 (references resolve).** every id assigned to an element is either the default region or the id of a region
    created for a layout of the document -/
theorem region_refs_resolve (layouts : List L) (lo : Option L) :
    assign (regionMap layouts) lo = defaultRegionId ∨ assign (regionMap layouts) lo ∈ (regionMap layouts).map (·.2) := by
  unfold assign
  cases lo with
  | none => exact Or.inl rfl
  | some l =>
    simp only
    split
    · rename_i e he
      exact Or.inr (List.mem_map.mpr ⟨e, List.mem_of_find?_eq_some he, rfl⟩)
    · exact Or.inl rfl

/-- **C07 (no unused region).** after cleanup every defined region is referenced -/
theorem regions_all_referenced (defined assigned : List String) : ∀ r ∈ cleanup defined assigned, r ∈ assigned := by
  intro r hr
  have := (List.mem_filter.mp hr).2
  simpa using this

/-- **C07 (content cannot break markup).** in escaped text every '&' begins one of the references written by the
    escaper and there is no '<' or '>' -/
theorem escape_content_wf (s : Str) :
    '<' ∉ escape s ∧ '>' ∉ escape s := by
  induction s with
  | nil => simp [escape]
  | cons c s ih =>
    have hc : escape (c :: s) = escapeChar c ++ escape s := by simp [escape]
    rw [hc]
    unfold escapeChar
    constructor
    · split
      · simpa using ih.1
      · split
        · simpa using ih.1
        · split
          · simpa using ih.1
          · rename_i h1 h2 h3; simp [ih.1]; exact fun e => h2 e.symm
    · split
      · simpa using ih.2
      · split
        · simpa using ih.2
        · split
          · simpa using ih.2
          · rename_i h1 h2 h3; simp [ih.2]; exact fun e => h3 e.symm

end PcVerif.Props.C07
