/-
  C07 — DFXP output is internally consistent (ids, references, regions) and its text content cannot break the markup.
-/
import PcVerif.Model.Regions
import PcVerif.Model.TextWriters
import Std.Data.String.ToNat
namespace PcVerif.Props.C07
open PcVerif PcVerif.Regions PcVerif.TextW

theorem default_ids_pinned :
    Generated.dfxpDefaultStyleId = some "default" ∧ Generated.dfxpDefaultRegionId = some "bottom" := by decide

/-- **C07 (ids unique).** generated region ids are pairwise distinct and never collide with the default region's id -/
theorem region_ids_distinct (i j : Nat) : (regionId i = regionId j → i = j) ∧ regionId i ≠ defaultRegionId := by
  constructor
  · intro h
    have h1 : ("r" ++ Nat.repr i).toList = ("r" ++ Nat.repr j).toList := by
      unfold regionId at h; rw [h]
    simp only [String.toList_append] at h1
    have h2 : (Nat.repr i).toList = (Nat.repr j).toList := List.append_cancel_left h1
    exact Nat.repr_injective (String.toList_injective h2)
  · unfold regionId defaultRegionId
    rw [default_ids_pinned.2]
    intro h
    have h1 : ("r" ++ Nat.repr i).toList = "bottom".toList := by rw [h]
    simp only [String.toList_append] at h1
    have e1 : "r".toList = ['r'] := by decide
    have e2 : "bottom".toList = ['b', 'o', 't', 't', 'o', 'm'] := by decide
    rw [e1, e2] at h1
    simp at h1

/-! ### ids of regions never repeat the ids of styles (both are `xml:id`s of one document) -/

private theorem regionId_inj {i j : Nat} (h : regionId i = regionId j) : i = j := (region_ids_distinct i j).1 h

/-- if `fuel` consecutive ids are all in use, at least `fuel` ids are in use -/
private theorem run_in_taken : ∀ (taken : List String) (fuel seed : Nat),
    (∀ k, k < fuel → regionId (seed + k) ∈ taken) → fuel ≤ taken.length := by
  intro taken
  induction h : taken.length generalizing taken with
  | zero =>
    intro fuel seed hall
    cases fuel with
    | zero => exact Nat.le_refl 0
    | succ f =>
      have := hall 0 (Nat.succ_pos f)
      rw [List.eq_nil_of_length_eq_zero h] at this
      simp at this
  | succ n ih =>
    intro fuel seed hall
    cases fuel with
    | zero => exact Nat.zero_le _
    | succ f =>
      have h0 : regionId seed ∈ taken := by simpa using hall 0 (Nat.succ_pos f)
      have hlen : (taken.erase (regionId seed)).length = n := by
        rw [List.length_erase_of_mem h0, h]; rfl
      have := ih (taken.erase (regionId seed)) hlen f (seed + 1) (by
        intro k hk
        have hm := hall (k + 1) (Nat.succ_lt_succ hk)
        have hne : regionId (seed + (k + 1)) ≠ regionId seed := by
          intro e; have := regionId_inj e; omega
        have : seed + 1 + k = seed + (k + 1) := by omega
        rw [this]
        exact (List.mem_erase_of_ne hne).mpr hm)
      omega

private theorem nextFree_spec (taken : List String) : ∀ (fuel seed : Nat),
    seed ≤ nextFree taken fuel seed ∧
    (regionId (nextFree taken fuel seed) ∉ taken ∨ ∀ k, k < fuel → regionId (seed + k) ∈ taken) := by
  intro fuel
  induction fuel with
  | zero => intro seed; exact ⟨Nat.le_refl _, Or.inr (by intro k hk; omega)⟩
  | succ f ih =>
    intro seed
    unfold nextFree
    by_cases hc : taken.contains (regionId seed) = true
    · rw [if_pos hc]
      obtain ⟨h1, h2⟩ := ih (seed + 1)
      refine ⟨by omega, ?_⟩
      rcases h2 with h2 | h2
      · exact Or.inl h2
      · right
        intro k hk
        cases k with
        | zero => simpa using hc
        | succ k =>
          have := h2 k (by omega)
          have e : seed + 1 + k = seed + (k + 1) := by omega
          rwa [e] at this
    · rw [if_neg hc]
      exact ⟨Nat.le_refl _, Or.inl (by simpa using hc)⟩

/-- the counter always stops at an id no style uses -/
theorem nextFree_free (taken : List String) (seed : Nat) :
    seed ≤ nextFree taken (taken.length + 1) seed ∧ regionId (nextFree taken (taken.length + 1) seed) ∉ taken := by
  obtain ⟨h1, h2⟩ := nextFree_spec taken (taken.length + 1) seed
  refine ⟨h1, ?_⟩
  rcases h2 with h2 | h2
  · exact h2
  · have := run_in_taken taken _ seed h2
    omega

/-- **C07 (ids unique).** the ids handed out to regions are not used by any style, are different from the default
    region's id, and are pairwise distinct (they come from strictly increasing counter values) -/
theorem fresh_ids_spec (taken : List String) : ∀ (n seed : Nat),
    (∀ r ∈ freshIds taken n seed, r ∉ taken ∧ ∃ i, seed ≤ i ∧ r = regionId i) ∧ (freshIds taken n seed).Nodup := by
  intro n
  induction n with
  | zero => intro seed; simp [freshIds]
  | succ n ih =>
    intro seed
    obtain ⟨hle, hfree⟩ := nextFree_free taken seed
    obtain ⟨ih1, ih2⟩ := ih (nextFree taken (taken.length + 1) seed + 1)
    simp only [freshIds]
    refine ⟨?_, ?_⟩
    · intro r hr
      rcases List.mem_cons.mp hr with rfl | hr
      · exact ⟨hfree, _, hle, rfl⟩
      · obtain ⟨a, i, hi, e⟩ := ih1 r hr
        exact ⟨a, i, by omega, e⟩
    · refine List.nodup_cons.mpr ⟨?_, ih2⟩
      intro hm
      obtain ⟨_, i, hi, e⟩ := ih1 _ hm
      have := regionId_inj e
      omega

/-- the default region's id, adapted, is not used by any style either -/
theorem default_region_id_free (taken : List String) : defaultRegionIdFor taken ∉ taken := by
  -- the candidates wanted, wanted_, wanted__, … are pairwise different (their lengths differ), so at most
  -- `taken.length` of them can be in use
  have key : ∀ (t : List String) (fuel : Nat) (w : String),
      (unusedId t fuel w ∉ t) ∨ (fuel ≤ (t.filter (fun x => w.length ≤ x.length)).length) := by
    intro t fuel
    induction fuel with
    | zero => intro w; exact Or.inr (Nat.zero_le _)
    | succ f ih =>
      intro w
      unfold unusedId
      by_cases hc : t.contains w = true
      · rw [if_pos hc]
        rcases ih (w ++ "_") with h | h
        · exact Or.inl h
        · right
          have hw : w ∈ t := by simpa using hc
          have hlen : (w ++ "_").length = w.length + 1 := by
            rw [String.length_append]; rfl
          -- w itself passes the weaker filter but not the stronger one
          have hsub : (t.filter (fun x => (w ++ "_").length ≤ x.length)).length + 1
              ≤ (t.filter (fun x => w.length ≤ x.length)).length := by
            have e : t.filter (fun x => (w ++ "_").length ≤ x.length)
                = (t.filter (fun x => w.length ≤ x.length)).filter (fun x => decide (x.length ≠ w.length)) := by
              rw [List.filter_filter]
              apply List.filter_congr
              intro x _
              rw [hlen]
              by_cases h1 : w.length + 1 ≤ x.length
              · have h2 : w.length ≤ x.length := by omega
                have h3 : x.length ≠ w.length := by omega
                simp [h1, h2, h3]
              · by_cases h2 : w.length ≤ x.length
                · have h3 : x.length = w.length := by omega
                  simp [h1, h2, h3]
                · simp [h1, h2]
            rw [e]
            have hwm : w ∈ t.filter (fun x => w.length ≤ x.length) := List.mem_filter.mpr ⟨hw, by simp⟩
            have : ((t.filter (fun x => w.length ≤ x.length)).filter (fun x => decide (x.length ≠ w.length))).length
                < (t.filter (fun x => w.length ≤ x.length)).length := by
              apply List.length_filter_lt_length_iff_exists.mpr
              exact ⟨w, hwm, by simp⟩
            omega
          omega
      · rw [if_neg hc]
        exact Or.inl (by simpa using hc)
  unfold defaultRegionIdFor
  rcases key taken (taken.length + 1) defaultRegionId with h | h
  · exact h
  · have := List.length_filter_le (fun x => defaultRegionId.length ≤ x.length) taken
    omega

variable {L : Type} [DecidableEq L]

/-- **C07 (references resolve).** every id assigned to an element is either the default region or the id of a region
    created for a layout of the document -/
theorem region_refs_resolve (taken : List String) (layouts : List L) (lo : Option L) :
    assign (defaultRegionIdFor taken) (regionMap taken layouts) lo = defaultRegionIdFor taken ∨
      assign (defaultRegionIdFor taken) (regionMap taken layouts) lo ∈ (regionMap taken layouts).map (·.2) := by
  unfold assign
  cases lo with
  | none => exact Or.inl rfl
  | some l =>
    simp only
    split
    · rename_i e he
      exact Or.inr (List.mem_map.mpr ⟨e, List.mem_of_find?_eq_some he, rfl⟩)
    · exact Or.inl rfl

/-- the ids in the region map are exactly the fresh ids: none is a style's id, none repeats -/
theorem region_map_ids (taken : List String) (layouts : List L) :
    (∀ r ∈ (regionMap taken layouts).map (·.2), r ∉ taken) ∧ ((regionMap taken layouts).map (·.2)).Nodup := by
  obtain ⟨h1, h2⟩ := fresh_ids_spec taken (orderedSet [] layouts).length 0
  have hlen : ∀ (n seed : Nat), (freshIds taken n seed).length = n := by
    intro n; induction n with
    | zero => intro _; rfl
    | succ n ih => intro seed; simp [freshIds, ih]
  have e : (regionMap taken layouts).map (·.2) = freshIds taken (orderedSet [] layouts).length 0 := by
    unfold regionMap
    rw [List.map_snd_zip]
    rw [hlen]; exact Nat.le_refl _
  rw [e]
  exact ⟨fun r hr => (h1 r hr).1, h2⟩

/-- **C07 (no unused region).** after cleanup every defined region is referenced -/
theorem regions_all_referenced (defined assigned : List String) : ∀ r ∈ cleanup defined assigned, r ∈ assigned := by
  intro r hr
  have := (List.mem_filter.mp hr).2
  simpa using this

/-- **C07 (content cannot break markup).** in escaped text every '&' begins one of the references written by the
    escaper and there is no '<' or '>' -/
theorem escape_content_wf (s : Str) :
    '<' ∉ escape s ∧ '>' ∉ escape s := by
  induction s with
  | nil => simp [escape]
  | cons c s ih =>
    have hc : escape (c :: s) = escapeChar c ++ escape s := by simp [escape]
    rw [hc]
    unfold escapeChar
    constructor
    · split
      · simpa using ih.1
      · split
        · simpa using ih.1
        · split
          · simpa using ih.1
          · rename_i h1 h2 h3; simp [ih.1]; exact fun e => h2 e.symm
    · split
      · simpa using ih.2
      · split
        · simpa using ih.2
        · split
          · simpa using ih.2
          · rename_i h1 h2 h3; simp [ih.2]; exact fun e => h3 e.symm

end PcVerif.Props.C07
