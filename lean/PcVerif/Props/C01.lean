/-
  C01 — reading preserves every cue's start and end instant.  Property theorems.
-/
import PcVerif.Model.Srt
import PcVerif.Model.Vtt
import PcVerif.Model.DfxpTime
import PcVerif.Model.SamiTime
import PcVerif.Model.MicroDvd
import PcVerif.Lemmas.StrLemmas
import PcVerif.Lemmas.SamiLemmas
import PcVerif.Lemmas.SrtDocLemmas
import PcVerif.Lemmas.VttDocLemmas
import PcVerif.Lemmas.MicroDvdDocLemmas
import PcVerif.Lemmas.DfxpOffsetLemmas
import Mathlib.Tactic.Ring
import Mathlib.Tactic.NormNum
namespace PcVerif.Props.C01
open PcVerif PcVerif.Str

theorem srt_multipliers_pinned : Generated.srtMultipliers = [3600000000, 60000000, 1000000, 1000] := by decide

private theorem pyInt_digits {s : Str} (h : Digits s) : pyInt s = .ok (natOfDigits s) := by
  simp [pyInt, h.parseNat]

/-- **C01 (SRT stamp, with milliseconds).**  For digit strings of ANY width (hours may be 24 and more),
    `hh:mm:ss,fff` denotes h·3600 s + m·60 s + s + f ms. -/
theorem srt_stamp_denotes (h m s f : Str) (hh : Digits h) (hm : Digits m) (hs : Digits s) (hf : Digits f) :
    Srt.toMicro (h ++ ':' :: m ++ ':' :: s ++ ',' :: f)
      = .ok (natOfDigits h * 3600000000 + natOfDigits m * 60000000 + natOfDigits s * 1000000 + natOfDigits f * 1000) := by
  have c1 : ':' ∉ h := hh.not_mem _ (by decide)
  have c2 : ':' ∉ m := hm.not_mem _ (by decide)
  have c3 : ':' ∉ s ++ ',' :: f := by
    simp only [List.mem_append, List.mem_cons, not_or]
    exact ⟨hs.not_mem _ (by decide), by decide, hf.not_mem _ (by decide)⟩
  have c4 : ',' ∉ s := hs.not_mem _ (by decide)
  have c5 : ',' ∉ f := hf.not_mem _ (by decide)
  have e1 : splitChar ':' (h ++ ':' :: m ++ ':' :: s ++ ',' :: f) = [h, m, s ++ ',' :: f] := by
    have : h ++ ':' :: m ++ ':' :: s ++ ',' :: f = h ++ ':' :: (m ++ ':' :: (s ++ ',' :: f)) := by simp
    rw [this, splitChar_append_sep _ _ _ c1, splitChar_append_sep _ _ _ c2, splitChar_no_sep _ _ c3]
  have e2 : splitChar ',' (s ++ ',' :: f) = [s, f] := by
    rw [splitChar_append_sep _ _ _ c4, splitChar_no_sep _ _ c5]
  have e3 : (s ++ ',' :: f).elem ',' = true := by simp
  unfold Srt.toMicro
  simp only [e1, pyIdx, List.getElem?_cons_zero, List.getElem?_cons_succ, e3, if_true, e2,
    pyInt_digits hh, pyInt_digits hm, pyInt_digits hs, pyInt_digits hf, bind, Except.bind, pure, Except.pure,
    Srt.mulH, Srt.mulM, Srt.mulS, Srt.mulMs, srt_multipliers_pinned]
  rfl

/-- **C01 (SRT stamp, fraction absent).** `hh:mm:ss` denotes whole seconds -/
theorem srt_stamp_no_fraction (h m s : Str) (hh : Digits h) (hm : Digits m) (hs : Digits s) :
    Srt.toMicro (h ++ ':' :: m ++ ':' :: s)
      = .ok (natOfDigits h * 3600000000 + natOfDigits m * 60000000 + natOfDigits s * 1000000) := by
  have c1 : ':' ∉ h := hh.not_mem _ (by decide)
  have c2 : ':' ∉ m := hm.not_mem _ (by decide)
  have c3 : ':' ∉ s := hs.not_mem _ (by decide)
  have c4 : ',' ∉ s := hs.not_mem _ (by decide)
  have e1 : splitChar ':' (h ++ ':' :: m ++ ':' :: s) = [h, m, s] := by
    have : h ++ ':' :: m ++ ':' :: s = h ++ ':' :: (m ++ ':' :: s) := by simp
    rw [this, splitChar_append_sep _ _ _ c1, splitChar_append_sep _ _ _ c2, splitChar_no_sep _ _ c3]
  have e2 : splitChar ',' (s ++ ",000".toList) = [s, "000".toList] := by
    have : s ++ ",000".toList = s ++ ',' :: "000".toList := rfl
    rw [this, splitChar_append_sep _ _ _ c4]
    rfl
  have e3 : s.elem ',' = false := by simpa using c4
  have z : pyInt "000".toList = .ok 0 := by decide
  unfold Srt.toMicro
  simp only [e1, pyIdx, List.getElem?_cons_zero, List.getElem?_cons_succ, e3, Bool.false_eq_true, if_false, e2,
    pyInt_digits hh, pyInt_digits hm, pyInt_digits hs, z, bind, Except.bind, pure, Except.pure,
    Srt.mulH, Srt.mulM, Srt.mulS, Srt.mulMs, srt_multipliers_pinned]
  simp

theorem vtt_constants_pinned :
    Generated.vttMicroLiterals = [3600, 60, 1000000, 1000] ∧
    Generated.vtt_TIMESTAMP_PATTERN = some "^(\\d+):(\\d{2})(:\\d{2})?\\.(\\d{3})" ∧
    Generated.vtt_TIMING_LINE_PATTERN = some "^(\\S+)\\s+-->\\s+(\\S+)(?:\\s+(.*?))?\\s*$" := ⟨rfl, rfl, rfl⟩

/-- two / three ASCII digits -/
def D2 (s : Str) : Prop := Digits s ∧ s.length = 2
def D3 (s : Str) : Prop := Digits s ∧ s.length = 3

/-- **C01 (WebVTT stamp with hours).** `h+:mm:ss.fff` — hours of any width — denotes its instant;
    whatever follows the milliseconds is ignored by the (unanchored) pattern -/
theorem vtt_stamp_hms (h m s f rest : Str) (hh : Digits h) (hm : D2 m) (hs : D2 s) (hf : D3 f) :
    Vtt.parseTimestamp (h ++ ':' :: m ++ ':' :: s ++ '.' :: f ++ rest)
      = .ok ((natOfDigits h * 3600 + natOfDigits m * 60 + natOfDigits s) * 1000000 + natOfDigits f * 1000) := by
  have a1 : h ++ ':' :: m ++ ':' :: s ++ '.' :: f ++ rest = h ++ (':' :: (m ++ (':' :: (s ++ ('.' :: (f ++ rest)))))) := by simp
  have hne : h.isEmpty = false := by cases h <;> simp_all [Digits]
  have m2 := takeDec_append m (':' :: (s ++ ('.' :: (f ++ rest)))) hm.1.allDecimal
  have s2 := takeDec_append s ('.' :: (f ++ rest)) hs.1.allDecimal
  have f3 := takeDec_append f rest hf.1.allDecimal
  rw [hm.2] at m2; rw [hs.2] at s2; rw [hf.2] at f3
  unfold Vtt.parseTimestamp Vtt.matchTimestamp
  rw [a1, spanDecimals_append h _ hh.allDecimal (by intro c r e; simp at e; obtain ⟨rfl, _⟩ := e; decide)]
  simp only [hne, Bool.false_eq_true, if_false, dropChar, if_true, m2, s2, f3]
  rw [pyInt_digits hh, pyInt_digits hm.1, pyInt_digits hs.1, pyInt_digits hf.1]
  simp only [bind, Except.bind, pure, Except.pure, Vtt.microseconds, Vtt.microFactors, vtt_constants_pinned.1]
  rfl

/-- **C01 (WebVTT stamp without hours).** `mm:ss.fff` -/
theorem vtt_stamp_ms (m s f rest : Str) (hm : Digits m) (hs : D2 s) (hf : D3 f) :
    Vtt.parseTimestamp (m ++ ':' :: s ++ '.' :: f ++ rest)
      = .ok ((natOfDigits m * 60 + natOfDigits s) * 1000000 + natOfDigits f * 1000) := by
  have a1 : m ++ ':' :: s ++ '.' :: f ++ rest = m ++ (':' :: (s ++ ('.' :: (f ++ rest)))) := by simp
  have hne : m.isEmpty = false := by cases m <;> simp_all [Digits]
  have s2 := takeDec_append s ('.' :: (f ++ rest)) hs.1.allDecimal
  have f3 := takeDec_append f rest hf.1.allDecimal
  rw [hs.2] at s2; rw [hf.2] at f3
  unfold Vtt.parseTimestamp Vtt.matchTimestamp
  rw [a1, spanDecimals_append m _ hm.allDecimal (by intro c r e; simp at e; obtain ⟨rfl, _⟩ := e; decide)]
  simp only [hne, Bool.false_eq_true, if_false, dropChar, if_true, s2, f3, Char.reduceEq]
  rw [pyInt_digits hm, pyInt_digits hs.1, pyInt_digits hf.1]
  simp only [bind, Except.bind, pure, Except.pure, Vtt.microseconds, Vtt.microFactors, vtt_constants_pinned.1]
  simp

theorem dfxp_constants_pinned :
    Generated.dfxpUsPerHour = 3600000000 ∧ Generated.dfxpUsPerMinute = 60000000 ∧ Generated.dfxpUsPerSecond = 1000000 ∧
    Generated.dfxpUsPerMs = 1000 ∧ Generated.dfxpFrameBase = 30 ∧
    Generated.dfxpTimePattern = some "^((?P<clock_time>(?P<hours>\\d+):(?P<minutes>\\d{2}):(?P<seconds>\\d{2})(:(?P<frames>\\d{2})|\\.(?P<sub_frames>\\d+))?)|(?P<offset_time>(?P<time_count>\\d+(\\.\\d+)?)(?P<metric>h|m|s|ms|f|t)))$" :=
  ⟨rfl, rfl, rfl, rfl, rfl, rfl⟩

private theorem digitsOk3 {a b c : Str} (ha : Digits a) (hb : Digits b) (hc : Digits c) :
    Dfxp.digitsOk [a, b, c] = true := by
  simp [Dfxp.digitsOk, ha.2, hb.2, hc.2]

/-- **C01 (DFXP clock time with a second fraction of ANY length).** `h+:mm:ss.d+` denotes
    ((h·60+m)·60+s) seconds plus the decimal fraction, truncated to whole microseconds -/
theorem dfxp_clock_fraction (h m s f : Str) (hh : Digits h) (hm : D2 m) (hs : D2 s) (hf : Digits f) :
    Dfxp.timeExpr (h ++ ':' :: m ++ ':' :: s ++ '.' :: f)
      = .ok (((natOfDigits h * 3600000000 + natOfDigits m * 60000000 + natOfDigits s * 1000000 : Nat) : Rat)
              + mkRat (natOfDigits f) (10 ^ f.length) * (1000000 : Nat)).floor := by
  have a1 : h ++ ':' :: m ++ ':' :: s ++ '.' :: f = h ++ (':' :: (m ++ (':' :: (s ++ ('.' :: (f ++ [])))))) := by simp
  have hne : h.isEmpty = false := by cases h <;> simp_all [Digits]
  have fne : f.isEmpty = false := by cases f <;> simp_all [Digits]
  have m2 := takeDec_append m (':' :: (s ++ ('.' :: (f ++ [])))) hm.1.allDecimal
  have s2 := takeDec_append s ('.' :: (f ++ [])) hs.1.allDecimal
  have f3 := spanDecimals_append f [] hf.allDecimal (by intro c r e; simp at e)
  rw [hm.2] at m2; rw [hs.2] at s2
  unfold Dfxp.timeExpr Dfxp.matchClock
  rw [a1, spanDecimals_append h _ hh.allDecimal (by intro c r e; simp at e; obtain ⟨rfl, _⟩ := e; decide)]
  simp only [hne, Bool.false_eq_true, if_false, dropChar, if_true, m2, s2, Char.reduceEq, f3, fne, Dfxp.atDollar,
    Bool.not_false, Bool.true_and, beq_self_eq_true, Bool.true_or, digitsOk3 hh hm.1 hs.1, Bool.not_true, hf.2]
  simp only [Dfxp.usH, Dfxp.usM, Dfxp.usS, dfxp_constants_pinned.1, dfxp_constants_pinned.2.1, dfxp_constants_pinned.2.2.1]

/-- **C01 (DFXP clock time, plain).** -/
theorem dfxp_clock_plain (h m s : Str) (hh : Digits h) (hm : D2 m) (hs : D2 s) :
    Dfxp.timeExpr (h ++ ':' :: m ++ ':' :: s)
      = .ok (natOfDigits h * 3600000000 + natOfDigits m * 60000000 + natOfDigits s * 1000000 : Nat) := by
  have a1 : h ++ ':' :: m ++ ':' :: s = h ++ (':' :: (m ++ (':' :: (s ++ [])))) := by simp
  have hne : h.isEmpty = false := by cases h <;> simp_all [Digits]
  have m2 := takeDec_append m (':' :: (s ++ [])) hm.1.allDecimal
  have s2 := takeDec_append s [] hs.1.allDecimal
  rw [hm.2] at m2; rw [hs.2] at s2
  unfold Dfxp.timeExpr Dfxp.matchClock
  rw [a1, spanDecimals_append h _ hh.allDecimal (by intro c r e; simp at e; obtain ⟨rfl, _⟩ := e; decide)]
  simp only [hne, Bool.false_eq_true, if_false, dropChar, if_true, m2, s2, Dfxp.atDollar,
    beq_self_eq_true, Bool.true_or, digitsOk3 hh hm.1 hs.1, Bool.not_true]
  simp only [Dfxp.usH, Dfxp.usM, Dfxp.usS, dfxp_constants_pinned.1, dfxp_constants_pinned.2.1, dfxp_constants_pinned.2.2.1]
  have : ((natOfDigits h * 3600000000 + natOfDigits m * 60000000 + natOfDigits s * 1000000 : Nat) : Rat)
      = (((natOfDigits h * 3600000000 + natOfDigits m * 60000000 + natOfDigits s * 1000000 : Nat) : Int) : Rat) :=
    (Rat.intCast_natCast _).symm
  rw [this, Rat.floor_intCast]

/-- **C01 (DFXP clock time with frames).** `h+:mm:ss:ff` adds ff/30 s -/
theorem dfxp_clock_frames (h m s f : Str) (hh : Digits h) (hm : D2 m) (hs : D2 s) (hf : D2 f) :
    Dfxp.timeExpr (h ++ ':' :: m ++ ':' :: s ++ ':' :: f)
      = .ok (((natOfDigits h * 3600000000 + natOfDigits m * 60000000 + natOfDigits s * 1000000 : Nat) : Rat)
              + mkRat (natOfDigits f) 30 * (1000000 : Nat)).floor := by
  have a1 : h ++ ':' :: m ++ ':' :: s ++ ':' :: f = h ++ (':' :: (m ++ (':' :: (s ++ (':' :: (f ++ [])))))) := by simp
  have hne : h.isEmpty = false := by cases h <;> simp_all [Digits]
  have m2 := takeDec_append m (':' :: (s ++ (':' :: (f ++ [])))) hm.1.allDecimal
  have s2 := takeDec_append s (':' :: (f ++ [])) hs.1.allDecimal
  have f2 := takeDec_append f [] hf.1.allDecimal
  rw [hm.2] at m2; rw [hs.2] at s2; rw [hf.2] at f2
  unfold Dfxp.timeExpr Dfxp.matchClock
  rw [a1, spanDecimals_append h _ hh.allDecimal (by intro c r e; simp at e; obtain ⟨rfl, _⟩ := e; decide)]
  simp only [hne, Bool.false_eq_true, if_false, dropChar, if_true, m2, s2, f2, Dfxp.atDollar,
    beq_self_eq_true, Bool.true_or, digitsOk3 hh hm.1 hs.1, Bool.not_true, hf.1.2]
  simp only [Dfxp.usH, Dfxp.usM, Dfxp.usS, Dfxp.frameBase, dfxp_constants_pinned.1, dfxp_constants_pinned.2.1,
    dfxp_constants_pinned.2.2.1, dfxp_constants_pinned.2.2.2.2.1]

theorem sami_tail_pinned : Generated.samiTailMs = 4000 := by decide

/-- **C01 (SAMI).** for a language whose <p> elements come in non-decreasing sync order — blank syncs and several
    paragraphs per sync included — every cue with text starts at its sync time and lasts until the next sync of its
    language with a different time; the cues of the last sync last four seconds -/
theorem sami_backfill (ps : List (Nat × Bool)) (hs : Sami.SortedFrom 0 ps) :
    Sami.translateLang ps = Sami.specLang ps := Sami.sami_backfill ps hs

/-! ### DFXP offset times and the three attributes -/

/-- **C01 (DFXP offset time).** `<count><metric>` with a whole or decimal count of ANY width and metric h, m, s, ms or f
    denotes count × (3600 s, 60 s, 1 s, 1 ms, 1/30 s), evaluated exactly and truncated to whole microseconds — `500ms`
    is milliseconds, not minutes -/
theorem dfxp_offset_whole (ip : Str) (m : Dfxp.Metric) (hip : Digits ip) (hm : m ≠ .t) :
    Dfxp.timeExpr (ip ++ m.text) = .ok (Dfxp.offsetValue ip [] m).floor := Dfxp.timeExpr_offset_int ip m hip hm

theorem dfxp_offset_decimal (ip fp : Str) (m : Dfxp.Metric) (hip : Digits ip) (hfp : Digits fp) (hm : m ≠ .t) :
    Dfxp.timeExpr (ip ++ '.' :: (fp ++ m.text)) = .ok (Dfxp.offsetValue ip fp m).floor :=
  Dfxp.timeExpr_offset_frac ip fp m hip hfp hm

/-- the factors are the ones the property names -/
theorem dfxp_offset_value (ip fp : Str) :
    Dfxp.offsetValue ip fp .h = Dfxp.decimalValue ip fp * (3600000000 : Nat) ∧
    Dfxp.offsetValue ip fp .m = Dfxp.decimalValue ip fp * (60000000 : Nat) ∧
    Dfxp.offsetValue ip fp .s = Dfxp.decimalValue ip fp * (1000000 : Nat) ∧
    Dfxp.offsetValue ip fp .ms = Dfxp.decimalValue ip fp * (1000 : Nat) ∧
    Dfxp.offsetValue ip fp .f = Dfxp.decimalValue ip fp / (30 : Nat) * (1000000 : Nat) := by
  obtain ⟨p1, p2, p3, p4, p5, _⟩ := dfxp_constants_pinned
  refine ⟨?_, ?_, ?_, ?_, ?_⟩ <;>
    simp only [Dfxp.offsetValue, Dfxp.usH, Dfxp.usM, Dfxp.usS, Dfxp.usMs, Dfxp.frameBase, p1, p2, p3, p4, p5]

/-- **C01 (DFXP begin / end / dur).** a cue with `begin` and `end` starts and ends at the two instants; with `begin` and
    `dur` it ends `dur` after its begin; without `begin` it is refused -/
theorem dfxp_begin_end (b e : Str) (x y : Int) (hb : b ≠ []) (he : e ≠ []) (durA : Option Str)
    (pb : Dfxp.timeExpr b = .ok x) (pe : Dfxp.timeExpr e = .ok y) : Dfxp.times (some b) (some e) durA = .ok (x, y) :=
  Dfxp.times_begin_end b e x y hb he durA pb pe

theorem dfxp_begin_dur (b d : Str) (x y : Int) (hb : b ≠ []) (hd : d ≠ [])
    (pb : Dfxp.timeExpr b = .ok x) (pd : Dfxp.timeExpr d = .ok y) : Dfxp.times (some b) none (some d) = .ok (x, x + y) :=
  Dfxp.times_begin_dur b d x y hb hd pb pd

/-- the hypotheses are satisfiable (`500ms`, `1.5s`) -/
example : Digits "500".toList ∧ Digits "1".toList ∧ Digits "5".toList ∧ Dfxp.Metric.ms ≠ .t ∧
    "500ms".toList = "500".toList ++ Dfxp.Metric.ms.text ∧ "1.5s".toList = "1".toList ++ '.' :: ("5".toList ++ Dfxp.Metric.s.text) :=
  ⟨⟨by decide, by decide⟩, ⟨by decide, by decide⟩, ⟨by decide, by decide⟩, by decide, by decide, by decide⟩

/-! ### SRT, document level -/

/-- `hh:mm:ss,fff` as written, and the microseconds it denotes -/
def srtStamp (h m s f : Str) : Str := h ++ ':' :: m ++ ':' :: s ++ ',' :: f
def srtStampVal (h m s f : Str) : Nat :=
  natOfDigits h * 3600000000 + natOfDigits m * 60000000 + natOfDigits s * 1000000 + natOfDigits f * 1000

private theorem srtStamp_shape (h m s f : Str) (hh : Digits h) (hf : Digits f) :
    ∃ c d mid, srtStamp h m s f = c :: (mid ++ [d]) ∧ isAsciiDigit c = true ∧ isAsciiDigit d = true := by
  obtain ⟨c, t, rfl, hc⟩ := Srt.digits_head h hh
  obtain ⟨u, d, rfl, hd⟩ := Srt.digits_last f hf
  exact ⟨c, d, t ++ ':' :: m ++ ':' :: s ++ ',' :: u, by simp [srtStamp], hc, hd⟩

private theorem srtStamp_no_dash (h m s f : Str) (hh : Digits h) (hm : Digits m) (hs : Digits s) (hf : Digits f) :
    '-' ∉ srtStamp h m s f := by
  unfold srtStamp
  simp only [List.mem_append, List.mem_cons, not_or]
  exact ⟨⟨⟨Srt.digits_no_dash h hh, by decide, Srt.digits_no_dash m hm⟩, by decide, Srt.digits_no_dash s hs⟩, by decide,
    Srt.digits_no_dash f hf⟩

/-- a cue block in the usual spelling — decimal index, `hh:mm:ss,fff --> hh:mm:ss,fff` with digit strings of any
    width, at least one text line, no blank text line — is well formed and denotes the instants of its stamps -/
theorem srt_block_wf (idx h1 m1 s1 f1 h2 m2 s2 f2 : Str) (texts : List Str) (gap : Nat)
    (hi : Digits idx) (a1 : Digits h1) (a2 : Digits m1) (a3 : Digits s1) (a4 : Digits f1)
    (b1 : Digits h2) (b2 : Digits m2) (b3 : Digits s2) (b4 : Digits f2)
    (hne : texts ≠ []) (hnb : ∀ t ∈ texts, Srt.blank t = false) :
    Srt.Block.WF ⟨idx, srtStamp h1 m1 s1 f1, srtStamp h2 m2 s2 f2, texts, gap⟩
      (srtStampVal h1 m1 s1 f1) (srtStampVal h2 m2 s2 f2) := by
  obtain ⟨c, d, mid, e1, hc, hd⟩ := srtStamp_shape h1 m1 s1 f1 a1 a4
  obtain ⟨c', d', mid', e2, hc', hd'⟩ := srtStamp_shape h2 m2 s2 f2 b1 b4
  refine ⟨(Srt.digits_index_line idx hi).1, (Srt.digits_index_line idx hi).2, srtStamp_no_dash _ _ _ _ a1 a2 a3 a4,
    srtStamp_no_dash _ _ _ _ b1 b2 b3 b4, ?_, ?_, hne, hnb⟩
  · show Srt.toMicro (Srt.stripTiming (srtStamp h1 m1 s1 f1 ++ [' '])) = _
    rw [e1, (Srt.stripTiming_between_digits c d mid hc hd).1, ← e1]
    exact srt_stamp_denotes h1 m1 s1 f1 a1 a2 a3 a4
  · show Srt.toMicro (Srt.stripTiming (' ' :: srtStamp h2 m2 s2 f2)) = _
    rw [e2, (Srt.stripTiming_between_digits c' d' mid' hc' hd').2, ← e2]
    exact srt_stamp_denotes h2 m2 s2 f2 b1 b2 b3 b4

/-- **C01 (SRT, whole documents).** for ANY number of well-formed cue blocks — each line ended by a line feed, one or
    more empty lines between blocks, any number (also none) after the last — `SRTReader.read` returns exactly one
    caption per block, in order, whose start and end are the instants the block's two stamps denote and whose nodes
    are the block's text lines separated by breaks.  No cue is created, lost, split or merged. -/
theorem srt_doc_cues (bs : List Srt.TBlock) (hne : bs ≠ []) (hwf : Srt.AllWF bs)
    (hnb : ∀ l ∈ Srt.docLines (bs.map (·.1)), Srt.NoBreak l) :
    Srt.read ((Srt.docLines (bs.map (·.1))).flatMap (· ++ ['\n'])) = .ok (Srt.caps bs) :=
  Srt.srt_document bs hne hwf hnb

/-- the hypotheses are satisfiable: a two-block document (second block: hour field of three digits, two text lines,
    no blank line at the end) is read as stated -/
example :
    Srt.read "1\n00:00:01,000 --> 00:00:02,500\nhello\n\n\n2\n100:00:03,000 --> 100:00:04,000\na - b\nc\n".toList
      = .ok [⟨1000000, 2500000, [.text "hello".toList]⟩,
             ⟨360003000000, 360004000000, [.text "a - b".toList, .brk, .text "c".toList]⟩] := by decide

/-! ### WebVTT, document level -/

/-- `h+:mm:ss.fff` as written, and the microseconds it denotes -/
def vttStamp (h m s f : Str) : Str := h ++ ':' :: m ++ ':' :: s ++ '.' :: f
def vttStampVal (h m s f : Str) : Nat := (natOfDigits h * 3600 + natOfDigits m * 60 + natOfDigits s) * 1000000 + natOfDigits f * 1000

private theorem digits_noSpace (s : Str) (h : Digits s) : ∀ c ∈ s, isSpace c = false :=
  fun c hc => (Srt.asciiDigit_facts c (allAsciiDigits_mem s h.2 c hc)).2.1

private theorem vttStamp_noSpace (h m s f : Str) (hh : Digits h) (hm : Digits m) (hs : Digits s) (hf : Digits f) :
    ∀ c ∈ vttStamp h m s f, isSpace c = false := by
  intro c hc
  unfold vttStamp at hc
  simp only [List.mem_append, List.mem_cons] at hc
  rcases hc with ((hc | hc | hc) | hc | hc) | hc | hc
  · exact digits_noSpace h hh c hc
  · subst hc; decide
  · exact digits_noSpace m hm c hc
  · subst hc; decide
  · exact digits_noSpace s hs c hc
  · subst hc; decide
  · exact digits_noSpace f hf c hc

private theorem vttStamp_ne_nil (h m s f : Str) (hh : Digits h) : vttStamp h m s f ≠ [] := by
  obtain ⟨c, t, rfl, _⟩ := Srt.digits_head h hh
  simp [vttStamp]

/-- a cue block in the usual spelling — optional identifier lines, `h+:mm:ss.fff --> h+:mm:ss.fff` (hours of any
    width), at least one text line, no empty text line, no `-->` in identifiers or text — is well formed for the
    default reader options and denotes the instants of its two stamps -/
theorem vtt_block_wf (ids texts : List Str) (gap : Nat) (h1 m1 s1 f1 h2 m2 s2 f2 : Str)
    (a1 : Digits h1) (a2 : D2 m1) (a3 : D2 s1) (a4 : D3 f1) (b1 : Digits h2) (b2 : D2 m2) (b3 : D2 s2) (b4 : D3 f2)
    (hids : ∀ l ∈ ids, l ≠ [] ∧ Str.contains Vtt.arrow l = false)
    (hne : texts ≠ []) (htx : ∀ t ∈ texts, t ≠ [] ∧ Str.contains Vtt.arrow t = false) :
    Vtt.VBlock.WF {} ⟨ids, vttStamp h1 m1 s1 f1 ++ " --> ".toList ++ vttStamp h2 m2 s2 f2, texts, gap⟩
      (vttStampVal h1 m1 s1 f1 : Nat) (vttStampVal h2 m2 s2 f2 : Nat) none := by
  refine ⟨hids, Vtt.timing_has_arrow _ _, ?_, hne, htx⟩
  intro last
  have p1 := vtt_stamp_hms h1 m1 s1 f1 [] a1 a2 a3 a4
  have p2 := vtt_stamp_hms h2 m2 s2 f2 [] b1 b2 b3 b4
  simp only [List.append_nil] at p1 p2
  exact Vtt.parseTimingLine_plain _ _ _ _ last (vttStamp_ne_nil _ _ _ _ a1) (vttStamp_ne_nil _ _ _ _ b1)
    (vttStamp_noSpace _ _ _ _ a1 a2.1 a3.1 a4.1) (vttStamp_noSpace _ _ _ _ b1 b2.1 b3.1 b4.1) p1 p2

/-- **C01 (WebVTT, whole documents).** a header without `-->` (the `WEBVTT` line, an empty line, …) followed by ANY
    number of well-formed cue blocks — each line ended by a line feed, one or more empty lines between blocks, any
    number after the last — is read as exactly one cue per block, in order, starting and ending at the instants of its
    timing line, its text lines decoded and separated by breaks.  No cue is created, lost, split or merged. -/
theorem vtt_doc_cues (o : Vtt.Opts) (header : List Str) (bs : List Vtt.VT) (hne : bs ≠ [])
    (hh : ∀ l ∈ header, Str.contains Vtt.arrow l = false)
    (hwf : ∀ b ∈ bs, b.1.WF o b.2.1 b.2.2.1 b.2.2.2)
    (hnb : ∀ l ∈ header ++ Vtt.vdocLines (bs.map (·.1)), Srt.NoBreak l) :
    Vtt.read o ((header ++ Vtt.vdocLines (bs.map (·.1))).flatMap (· ++ ['\n'])) = .ok (Vtt.vcues bs) :=
  Vtt.read_doc o _ header bs hne hh hwf (Srt.splitlines_terminated _ hnb)

/-- the hypotheses are satisfiable: header, identifier line, hours of one and of three digits, two blocks -/
example :
    Vtt.read {} "WEBVTT\n\nintro\n0:00:01.000 --> 0:00:02.500\nhello\nworld\n\n\n100:00:03.000 --> 100:00:04.000\n&lt;x\n".toList
      = .ok [⟨1000000, 2500000, [.text "hello".toList, .brk, .text "world".toList], none⟩,
             ⟨360003000000, 360004000000, [.text "<x".toList], none⟩] := by decide

/-! ### MicroDVD, document level -/

theorem microdvd_read_constants_pinned : Generated.microdvdReadDefaultFps = 25 ∧ Generated.microdvdReadMul = 1000000 := by decide

/-- **C01 (MicroDVD, whole documents).** ANY number of lines `{a}{b}text|text…` (frame numbers of any width, at least one
    non-empty text piece, no piece containing `|`), each ended by a line feed, is read as exactly one caption per line, in
    order, starting and ending at ⌊frame · 10⁶ / 25⌋ µs, its pieces separated by breaks -/
theorem microdvd_doc_cues (Ls : List MicroDvd.MLine) (hne : Ls ≠ []) (hw : ∀ L ∈ Ls, L.WF)
    (hnb : ∀ L ∈ Ls, Srt.NoBreak L.line) :
    MicroDvd.read ((Ls.map MicroDvd.MLine.line).flatMap (· ++ ['\n'])) = .ok (Ls.map (·.caption 25)) := by
  have := MicroDvd.read_lines Ls hne hw hnb
  rwa [microdvd_read_constants_pinned.1] at this

/-- with a declared frame rate `{0}{0}rate` (a decimal number other than zero) the instants are ⌊frame · 10⁶ / rate⌋ µs,
    evaluated exactly -/
theorem microdvd_doc_cues_rate (rate : Str) (f : Rat) (Ls : List MicroDvd.MLine) (hne : Ls ≠ []) (hw : ∀ L ∈ Ls, L.WF)
    (hp : MicroDvd.parseDecimal (strip rate) = some f) (hf : f ≠ 0)
    (hnb : ∀ l ∈ ('{' :: '0' :: '}' :: '{' :: '0' :: '}' :: rate) :: Ls.map MicroDvd.MLine.line, Srt.NoBreak l) :
    MicroDvd.read ((('{' :: '0' :: '}' :: '{' :: '0' :: '}' :: rate) :: Ls.map MicroDvd.MLine.line).flatMap (· ++ ['\n']))
      = .ok (Ls.map (·.caption f)) :=
  MicroDvd.read_lines_with_rate rate f Ls hne hw hp hf hnb

/-- at the default rate a frame is exactly 40 ms -/
theorem microdvd_frame_25 (n : Nat) : MicroDvd.framesToMicro n 25 = ((n * 40000 : Nat) : Int) := by
  unfold MicroDvd.framesToMicro
  rw [microdvd_read_constants_pinned.2]
  have : ((n : Rat) * ((1000000 : Nat) : Rat) / 25) = (((n * 40000 : Nat) : Int) : Rat) := by
    push_cast
    ring
  rw [this]
  exact Rat.floor_intCast _

/-- the hypotheses are satisfiable -/
example : (⟨"25".toList, "50".toList, ["hello".toList, "wor ld".toList]⟩ : MicroDvd.MLine).WF :=
  ⟨⟨by decide, by decide⟩, ⟨by decide, by decide⟩, by decide, by decide, by decide⟩

end PcVerif.Props.C01
