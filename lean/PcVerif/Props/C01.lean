/-
  C01 — reading preserves every cue's start and end instant.  Property theorems.
-/
import PcVerif.Model.Srt
import PcVerif.Model.Vtt
import PcVerif.Model.DfxpTime
import PcVerif.Model.SamiTime
import PcVerif.Model.MicroDvd
import PcVerif.Lemmas.StrLemmas
import PcVerif.Lemmas.SamiLemmas
namespace PcVerif.Props.C01
open PcVerif PcVerif.Str

theorem srt_multipliers_pinned : Generated.srtMultipliers = [3600000000, 60000000, 1000000, 1000] := by decide

private theorem pyInt_digits {s : Str} (h : Digits s) : pyInt s = .ok (natOfDigits s) := by
  simp [pyInt, h.parseNat]

/-- **C01 (SRT stamp, with milliseconds).**  For digit strings of ANY width (hours may be 24 and more),
    `hh:mm:ss,fff` denotes h·3600 s + m·60 s + s + f ms. -/
theorem srt_stamp_denotes (h m s f : Str) (hh : Digits h) (hm : Digits m) (hs : Digits s) (hf : Digits f) :
    Srt.toMicro (h ++ ':' :: m ++ ':' :: s ++ ',' :: f)
      = .ok (natOfDigits h * 3600000000 + natOfDigits m * 60000000 + natOfDigits s * 1000000 + natOfDigits f * 1000) := by
  have c1 : ':' ∉ h := hh.not_mem _ (by decide)
  have c2 : ':' ∉ m := hm.not_mem _ (by decide)
  have c3 : ':' ∉ s ++ ',' :: f := by
    simp only [List.mem_append, List.mem_cons, not_or]
    exact ⟨hs.not_mem _ (by decide), by decide, hf.not_mem _ (by decide)⟩
  have c4 : ',' ∉ s := hs.not_mem _ (by decide)
  have c5 : ',' ∉ f := hf.not_mem _ (by decide)
  have e1 : splitChar ':' (h ++ ':' :: m ++ ':' :: s ++ ',' :: f) = [h, m, s ++ ',' :: f] := by
    have : h ++ ':' :: m ++ ':' :: s ++ ',' :: f = h ++ ':' :: (m ++ ':' :: (s ++ ',' :: f)) := by simp
    rw [this, splitChar_append_sep _ _ _ c1, splitChar_append_sep _ _ _ c2, splitChar_no_sep _ _ c3]
  have e2 : splitChar ',' (s ++ ',' :: f) = [s, f] := by
    rw [splitChar_append_sep _ _ _ c4, splitChar_no_sep _ _ c5]
  have e3 : (s ++ ',' :: f).elem ',' = true := by simp
  unfold Srt.toMicro
  simp only [e1, pyIdx, List.getElem?_cons_zero, List.getElem?_cons_succ, e3, if_true, e2,
    pyInt_digits hh, pyInt_digits hm, pyInt_digits hs, pyInt_digits hf, bind, Except.bind, pure, Except.pure,
    Srt.mulH, Srt.mulM, Srt.mulS, Srt.mulMs, srt_multipliers_pinned]
  rfl

/-- **C01 (SRT stamp, fraction absent).** `hh:mm:ss` denotes whole seconds -/
theorem srt_stamp_no_fraction (h m s : Str) (hh : Digits h) (hm : Digits m) (hs : Digits s) :
    Srt.toMicro (h ++ ':' :: m ++ ':' :: s)
      = .ok (natOfDigits h * 3600000000 + natOfDigits m * 60000000 + natOfDigits s * 1000000) := by
  have c1 : ':' ∉ h := hh.not_mem _ (by decide)
  have c2 : ':' ∉ m := hm.not_mem _ (by decide)
  have c3 : ':' ∉ s := hs.not_mem _ (by decide)
  have c4 : ',' ∉ s := hs.not_mem _ (by decide)
  have e1 : splitChar ':' (h ++ ':' :: m ++ ':' :: s) = [h, m, s] := by
    have : h ++ ':' :: m ++ ':' :: s = h ++ ':' :: (m ++ ':' :: s) := by simp
    rw [this, splitChar_append_sep _ _ _ c1, splitChar_append_sep _ _ _ c2, splitChar_no_sep _ _ c3]
  have e2 : splitChar ',' (s ++ ",000".toList) = [s, "000".toList] := by
    have : s ++ ",000".toList = s ++ ',' :: "000".toList := rfl
    rw [this, splitChar_append_sep _ _ _ c4]
    rfl
  have e3 : s.elem ',' = false := by simpa using c4
  have z : pyInt "000".toList = .ok 0 := by decide
  unfold Srt.toMicro
  simp only [e1, pyIdx, List.getElem?_cons_zero, List.getElem?_cons_succ, e3, Bool.false_eq_true, if_false, e2,
    pyInt_digits hh, pyInt_digits hm, pyInt_digits hs, z, bind, Except.bind, pure, Except.pure,
    Srt.mulH, Srt.mulM, Srt.mulS, Srt.mulMs, srt_multipliers_pinned]
  simp

theorem vtt_constants_pinned :
    Generated.vttMicroLiterals = [3600, 60, 1000000, 1000] ∧
    Generated.vtt_TIMESTAMP_PATTERN = some "^(\\d+):(\\d{2})(:\\d{2})?\\.(\\d{3})" ∧
    Generated.vtt_TIMING_LINE_PATTERN = some "^(\\S+)\\s+-->\\s+(\\S+)(?:\\s+(.*?))?\\s*$" := ⟨rfl, rfl, rfl⟩

/-- two / three ASCII digits -/
def D2 (s : Str) : Prop := Digits s ∧ s.length = 2
def D3 (s : Str) : Prop := Digits s ∧ s.length = 3

/-- **C01 (WebVTT stamp with hours).** `h+:mm:ss.fff` — hours of any width — denotes its instant;
    whatever follows the milliseconds is ignored by the (unanchored) pattern -/
theorem vtt_stamp_hms (h m s f rest : Str) (hh : Digits h) (hm : D2 m) (hs : D2 s) (hf : D3 f) :
    Vtt.parseTimestamp (h ++ ':' :: m ++ ':' :: s ++ '.' :: f ++ rest)
      = .ok ((natOfDigits h * 3600 + natOfDigits m * 60 + natOfDigits s) * 1000000 + natOfDigits f * 1000) := by
  have a1 : h ++ ':' :: m ++ ':' :: s ++ '.' :: f ++ rest = h ++ (':' :: (m ++ (':' :: (s ++ ('.' :: (f ++ rest)))))) := by simp
  have hne : h.isEmpty = false := by cases h <;> simp_all [Digits]
  have m2 := takeDec_append m (':' :: (s ++ ('.' :: (f ++ rest)))) hm.1.allDecimal
  have s2 := takeDec_append s ('.' :: (f ++ rest)) hs.1.allDecimal
  have f3 := takeDec_append f rest hf.1.allDecimal
  rw [hm.2] at m2; rw [hs.2] at s2; rw [hf.2] at f3
  unfold Vtt.parseTimestamp Vtt.matchTimestamp
  rw [a1, spanDecimals_append h _ hh.allDecimal (by intro c r e; simp at e; obtain ⟨rfl, _⟩ := e; decide)]
  simp only [hne, Bool.false_eq_true, if_false, dropChar, if_true, m2, s2, f3]
  rw [pyInt_digits hh, pyInt_digits hm.1, pyInt_digits hs.1, pyInt_digits hf.1]
  simp only [bind, Except.bind, pure, Except.pure, Vtt.microseconds, Vtt.microFactors, vtt_constants_pinned.1]
  rfl

/-- **C01 (WebVTT stamp without hours).** `mm:ss.fff` -/
theorem vtt_stamp_ms (m s f rest : Str) (hm : Digits m) (hs : D2 s) (hf : D3 f) :
    Vtt.parseTimestamp (m ++ ':' :: s ++ '.' :: f ++ rest)
      = .ok ((natOfDigits m * 60 + natOfDigits s) * 1000000 + natOfDigits f * 1000) := by
  have a1 : m ++ ':' :: s ++ '.' :: f ++ rest = m ++ (':' :: (s ++ ('.' :: (f ++ rest)))) := by simp
  have hne : m.isEmpty = false := by cases m <;> simp_all [Digits]
  have s2 := takeDec_append s ('.' :: (f ++ rest)) hs.1.allDecimal
  have f3 := takeDec_append f rest hf.1.allDecimal
  rw [hs.2] at s2; rw [hf.2] at f3
  unfold Vtt.parseTimestamp Vtt.matchTimestamp
  rw [a1, spanDecimals_append m _ hm.allDecimal (by intro c r e; simp at e; obtain ⟨rfl, _⟩ := e; decide)]
  simp only [hne, Bool.false_eq_true, if_false, dropChar, if_true, s2, f3, Char.reduceEq]
  rw [pyInt_digits hm, pyInt_digits hs.1, pyInt_digits hf.1]
  simp only [bind, Except.bind, pure, Except.pure, Vtt.microseconds, Vtt.microFactors, vtt_constants_pinned.1]
  simp

theorem dfxp_constants_pinned :
    Generated.dfxpUsPerHour = 3600000000 ∧ Generated.dfxpUsPerMinute = 60000000 ∧ Generated.dfxpUsPerSecond = 1000000 ∧
    Generated.dfxpUsPerMs = 1000 ∧ Generated.dfxpFrameBase = 30 ∧
    Generated.dfxpTimePattern = some "^((?P<clock_time>(?P<hours>\\d+):(?P<minutes>\\d{2}):(?P<seconds>\\d{2})(:(?P<frames>\\d{2})|\\.(?P<sub_frames>\\d+))?)|(?P<offset_time>(?P<time_count>\\d+(\\.\\d+)?)(?P<metric>h|m|s|ms|f|t)))$" :=
  ⟨rfl, rfl, rfl, rfl, rfl, rfl⟩

private theorem digitsOk3 {a b c : Str} (ha : Digits a) (hb : Digits b) (hc : Digits c) :
    Dfxp.digitsOk [a, b, c] = true := by
  simp [Dfxp.digitsOk, ha.2, hb.2, hc.2]

/-- **C01 (DFXP clock time with a second fraction of ANY length).** `h+:mm:ss.d+` denotes
    ((h·60+m)·60+s) seconds plus the decimal fraction, truncated to whole microseconds -/
theorem dfxp_clock_fraction (h m s f : Str) (hh : Digits h) (hm : D2 m) (hs : D2 s) (hf : Digits f) :
    Dfxp.timeExpr (h ++ ':' :: m ++ ':' :: s ++ '.' :: f)
      = .ok (((natOfDigits h * 3600000000 + natOfDigits m * 60000000 + natOfDigits s * 1000000 : Nat) : Rat)
              + mkRat (natOfDigits f) (10 ^ f.length) * (1000000 : Nat)).floor := by
  have a1 : h ++ ':' :: m ++ ':' :: s ++ '.' :: f = h ++ (':' :: (m ++ (':' :: (s ++ ('.' :: (f ++ [])))))) := by simp
  have hne : h.isEmpty = false := by cases h <;> simp_all [Digits]
  have fne : f.isEmpty = false := by cases f <;> simp_all [Digits]
  have m2 := takeDec_append m (':' :: (s ++ ('.' :: (f ++ [])))) hm.1.allDecimal
  have s2 := takeDec_append s ('.' :: (f ++ [])) hs.1.allDecimal
  have f3 := spanDecimals_append f [] hf.allDecimal (by intro c r e; simp at e)
  rw [hm.2] at m2; rw [hs.2] at s2
  unfold Dfxp.timeExpr Dfxp.matchClock
  rw [a1, spanDecimals_append h _ hh.allDecimal (by intro c r e; simp at e; obtain ⟨rfl, _⟩ := e; decide)]
  simp only [hne, Bool.false_eq_true, if_false, dropChar, if_true, m2, s2, Char.reduceEq, f3, fne, Dfxp.atDollar,
    Bool.not_false, Bool.true_and, beq_self_eq_true, Bool.true_or, digitsOk3 hh hm.1 hs.1, Bool.not_true, hf.2]
  simp only [Dfxp.usH, Dfxp.usM, Dfxp.usS, dfxp_constants_pinned.1, dfxp_constants_pinned.2.1, dfxp_constants_pinned.2.2.1]

/-- **C01 (DFXP clock time, plain).** -/
theorem dfxp_clock_plain (h m s : Str) (hh : Digits h) (hm : D2 m) (hs : D2 s) :
    Dfxp.timeExpr (h ++ ':' :: m ++ ':' :: s)
      = .ok (natOfDigits h * 3600000000 + natOfDigits m * 60000000 + natOfDigits s * 1000000 : Nat) := by
  have a1 : h ++ ':' :: m ++ ':' :: s = h ++ (':' :: (m ++ (':' :: (s ++ [])))) := by simp
  have hne : h.isEmpty = false := by cases h <;> simp_all [Digits]
  have m2 := takeDec_append m (':' :: (s ++ [])) hm.1.allDecimal
  have s2 := takeDec_append s [] hs.1.allDecimal
  rw [hm.2] at m2; rw [hs.2] at s2
  unfold Dfxp.timeExpr Dfxp.matchClock
  rw [a1, spanDecimals_append h _ hh.allDecimal (by intro c r e; simp at e; obtain ⟨rfl, _⟩ := e; decide)]
  simp only [hne, Bool.false_eq_true, if_false, dropChar, if_true, m2, s2, Dfxp.atDollar,
    beq_self_eq_true, Bool.true_or, digitsOk3 hh hm.1 hs.1, Bool.not_true]
  simp only [Dfxp.usH, Dfxp.usM, Dfxp.usS, dfxp_constants_pinned.1, dfxp_constants_pinned.2.1, dfxp_constants_pinned.2.2.1]
  have : ((natOfDigits h * 3600000000 + natOfDigits m * 60000000 + natOfDigits s * 1000000 : Nat) : Rat)
      = (((natOfDigits h * 3600000000 + natOfDigits m * 60000000 + natOfDigits s * 1000000 : Nat) : Int) : Rat) :=
    (Rat.intCast_natCast _).symm
  rw [this, Rat.floor_intCast]

/-- **C01 (DFXP clock time with frames).** `h+:mm:ss:ff` adds ff/30 s -/
theorem dfxp_clock_frames (h m s f : Str) (hh : Digits h) (hm : D2 m) (hs : D2 s) (hf : D2 f) :
    Dfxp.timeExpr (h ++ ':' :: m ++ ':' :: s ++ ':' :: f)
      = .ok (((natOfDigits h * 3600000000 + natOfDigits m * 60000000 + natOfDigits s * 1000000 : Nat) : Rat)
              + mkRat (natOfDigits f) 30 * (1000000 : Nat)).floor := by
  have a1 : h ++ ':' :: m ++ ':' :: s ++ ':' :: f = h ++ (':' :: (m ++ (':' :: (s ++ (':' :: (f ++ [])))))) := by simp
  have hne : h.isEmpty = false := by cases h <;> simp_all [Digits]
  have m2 := takeDec_append m (':' :: (s ++ (':' :: (f ++ [])))) hm.1.allDecimal
  have s2 := takeDec_append s (':' :: (f ++ [])) hs.1.allDecimal
  have f2 := takeDec_append f [] hf.1.allDecimal
  rw [hm.2] at m2; rw [hs.2] at s2; rw [hf.2] at f2
  unfold Dfxp.timeExpr Dfxp.matchClock
  rw [a1, spanDecimals_append h _ hh.allDecimal (by intro c r e; simp at e; obtain ⟨rfl, _⟩ := e; decide)]
  simp only [hne, Bool.false_eq_true, if_false, dropChar, if_true, m2, s2, f2, Dfxp.atDollar,
    beq_self_eq_true, Bool.true_or, digitsOk3 hh hm.1 hs.1, Bool.not_true, hf.1.2]
  simp only [Dfxp.usH, Dfxp.usM, Dfxp.usS, Dfxp.frameBase, dfxp_constants_pinned.1, dfxp_constants_pinned.2.1,
    dfxp_constants_pinned.2.2.1, dfxp_constants_pinned.2.2.2.2.1]

theorem sami_tail_pinned : Generated.samiTailMs = 4000 := by decide

/-- **C01 (SAMI).** for a language whose <p> elements come in non-decreasing sync order — blank syncs and several
    paragraphs per sync included — every cue with text starts at its sync time and lasts until the next sync of its
    language with a different time; the cues of the last sync last four seconds -/
theorem sami_backfill (ps : List (Nat × Bool)) (hs : Sami.SortedFrom 0 ps) :
    Sami.translateLang ps = Sami.specLang ps := Sami.sami_backfill ps hs

end PcVerif.Props.C01
