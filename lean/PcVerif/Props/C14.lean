/-
  C14 — each language's captions stay under their language, in document order.
-/
import PcVerif.Model.Langs
import PcVerif.Model.SamiWriter
import PcVerif.Props.C02
import PcVerif.Lemmas.SamiStyleLemmas
import PcVerif.Lemmas.SamiPlanLemmas
namespace PcVerif.Props.C14
open PcVerif PcVerif.Langs PcVerif.SamiW

theorem dfxp_default_lang_pinned : Generated.dfxpDefaultLang = some "en" := by decide

/-- **C14 (DFXP language fallback).** a div is filed under its own xml:lang, else the document's, else the configured
    default -/
theorem dfxp_lang_fallback (tt : Option Str) (dflt : Str) (l : Str) :
    divLang tt dflt (some l) = l ∧ divLang (some l) dflt none = l ∧ divLang none dflt none = dflt := by
  simp [divLang]

private theorem dictKeys_spec (keys ls : List Str) (h : keys.Nodup) :
    (dictKeys keys ls).Nodup ∧ (∀ l, l ∈ dictKeys keys ls ↔ l ∈ keys ∨ l ∈ ls) ∧ ∃ t, dictKeys keys ls = keys ++ t := by
  induction ls generalizing keys with
  | nil => exact ⟨h, by simp [dictKeys], [], by simp [dictKeys]⟩
  | cons x xs ih =>
    unfold dictKeys
    split
    · rename_i hx
      have hx' : x ∈ keys := by simpa using hx
      obtain ⟨n, m, t, ht⟩ := ih keys h
      refine ⟨n, ?_, t, ht⟩
      intro l; rw [m l]; constructor
      · rintro (h1 | h1); exact Or.inl h1; exact Or.inr (List.mem_cons_of_mem _ h1)
      · rintro (h1 | h1)
        · exact Or.inl h1
        · rcases List.mem_cons.mp h1 with rfl | h2
          · exact Or.inl hx'
          · exact Or.inr h2
    · rename_i hx
      have hx' : x ∉ keys := by simpa using hx
      have hn : (keys ++ [x]).Nodup := by
        rw [List.nodup_append]; exact ⟨h, by simp, by intro a ha b hb; simp at hb; subst hb; intro e; subst e; exact hx' ha⟩
      obtain ⟨n, m, t, ht⟩ := ih (keys ++ [x]) hn
      refine ⟨n, ?_, x :: t, by rw [ht]; simp⟩
      intro l; rw [m l]
      simp only [List.mem_append, List.mem_cons, List.mem_nil_iff, or_false]
      constructor
      · rintro ((h1 | h1) | h1); exact Or.inl h1; exact Or.inr (Or.inl h1); exact Or.inr (Or.inr h1)
      · rintro (h1 | h1 | h1); exact Or.inl (Or.inl h1); exact Or.inl (Or.inr h1); exact Or.inr h1

/-- **C14 (DFXP languages).** the languages of a document are exactly the resolved languages of its divs, each
    listed once, in order of first appearance -/
theorem dfxp_languages_first_appearance (tt : Option Str) (dflt : Str) (divs : List (Option Str)) :
    (readLanguages tt dflt divs).Nodup ∧
    ∀ l, l ∈ readLanguages tt dflt divs ↔ l ∈ divs.map (divLang tt dflt) := by
  obtain ⟨n, m, _⟩ := dictKeys_spec [] (divs.map (divLang tt dflt)) (by simp)
  exact ⟨n, fun l => by rw [readLanguages, m l]; simp⟩

/-- sync starts are non-decreasing and all at least `lo` -/
def NonDecFrom : Nat → List Nat → Prop
  | _, [] => True
  | lo, x :: xs => lo ≤ x ∧ NonDecFrom x xs

/-- cues of one language sorted and non-overlapping at millisecond resolution, starting no earlier than `lo` -/
def WellTimed : Nat → List (Rat × Rat) → Prop
  | _, [] => True
  | lo, (a, b) :: cs => lo ≤ ms a ∧ ms a ≤ ms b ∧ WellTimed (ms b) cs

private theorem nonDecFrom_mono {lo lo' : Nat} {l : List Nat} (h : NonDecFrom lo l) (hl : lo' ≤ lo) : NonDecFrom lo' l := by
  cases l with
  | nil => trivial
  | cons x xs => exact ⟨Nat.le_trans hl h.1, h.2⟩

private theorem specPrimary_sorted (lang : Nat) (prev : Option Nat) (k lo : Nat) (caps : List (Rat × Rat))
    (hw : WellTimed lo caps) (hp : ∀ e, prev = some e → e = lo) :
    NonDecFrom lo ((specPrimary lang prev k caps).map (·.start)) := by
  induction caps generalizing prev k lo with
  | nil => simp [specPrimary, NonDecFrom]
  | cons c cs ih =>
    obtain ⟨a, b⟩ := c
    obtain ⟨h1, h2, h3⟩ := hw
    have rest := ih (some (ms b)) (k + 1) (ms b) h3 (by intro e he; cases he; rfl)
    have rest' : NonDecFrom (ms a) ((specPrimary lang (some (ms b)) (k + 1) cs).map (·.start)) := nonDecFrom_mono rest h2
    simp only [specPrimary]
    cases prev with
    | none => exact ⟨h1, rest'⟩
    | some e =>
      have he : e = lo := hp e rfl
      subst he
      by_cases hne : ms a = e
      · simp only [hne, ne_eq, not_true_eq_false, if_false, List.nil_append, List.map_cons]
        exact ⟨Nat.le_refl _, by simpa [hne] using rest'⟩
      · simp only [ne_eq, hne, not_false_eq_true, if_true, List.cons_append, List.nil_append, List.map_cons]
        exact ⟨Nat.le_refl _, h1, rest'⟩

/-- **C14 / C02 (SYNC order, one language).** for sorted, non-overlapping cues the SYNC blocks are written in
    non-decreasing time order -/
theorem primary_syncs_sorted (caps : List (Rat × Rat)) (hw : WellTimed 0 caps) :
    NonDecFrom 0 ((plan [caps]).map (·.start)) := by
  rw [Props.C02.sami_single_language_plan]
  exact specPrimary_sorted 0 none 0 0 caps hw (by intro e he; cases he)

private theorem nonDecFrom_pairwise : ∀ (l : List Nat) (lo : Nat), NonDecFrom lo l → (∀ x ∈ l, lo ≤ x) ∧ l.Pairwise (· ≤ ·) := by
  intro l
  induction l with
  | nil => intro lo _; exact ⟨by simp, List.Pairwise.nil⟩
  | cons x xs ih =>
    intro lo h
    obtain ⟨h1, h2⟩ := h
    obtain ⟨h3, h4⟩ := ih x h2
    refine ⟨?_, List.pairwise_cons.mpr ⟨h3, h4⟩⟩
    intro y hy
    rcases List.mem_cons.mp hy with rfl | hy
    · exact h1
    · exact Nat.le_trans h1 (h3 y hy)

/-- **C14 (SYNC order, any number of languages).** when the cues of the first (primary) language are sorted and do not
    overlap, the SYNC blocks of the whole document are in non-decreasing time order — whatever the cues of the other
    languages are (unsorted, overlapping, before the primary language's first cue): each of their blocks is looked up or
    inserted in place -/
theorem plan_sorted (first : List (Rat × Rat)) (others : List (List (Rat × Rat))) (hw : WellTimed 0 first) :
    Sorted (plan (first :: others)) := by
  unfold plan
  simp only [writeLoop]
  have h0 : langLoop 0 (decide True) [] none 0 first = plan [first] := by simp [plan, writeLoop]
  rw [h0]
  exact writeLoop_sorted others _ 1 (by decide) (nonDecFrom_pairwise _ 0 (primary_syncs_sorted first hw)).2

/-- **C14 (paragraphs in the block of their start time).** in the SAMI document written for ANY caption set — any number
    of languages, any cues — every paragraph that carries a cue's text is in a SYNC block whose start is that cue's start
    millisecond -/
theorem paragraphs_in_own_block (langs : List (List (Rat × Rat))) : InOwn langs (plan langs) :=
  SamiW.paragraphs_in_own_block langs

/-! ### SAMI output: every language is declared in the stylesheet -/

theorem sami_lang_test_pinned : Generated.samiLangTestPre = some "lang: " ∧ Generated.samiLangTestPost = some ";" :=
  SamiW.lang_test_pinned

/-- **C14 (SAMI, no language is lost on writing).** whatever the stylesheet holds already and whatever the language codes
    are — prefixes of one another included — after the writer's loop over the languages the stylesheet contains the rule
    `lang: <code>;` of every language of the set, so that every `<p class=code>` is read back under its language -/
theorem stylesheet_declares_every_language (extra : Str → Str) (labels : Str → Bool) (sheet : Str) (langs : List Str) :
    ∀ l ∈ langs, Str.contains (langRule l) (declareLangs langRule extra labels sheet langs) = true :=
  SamiW.declares_all extra labels langs sheet

/-- **C14 (SAMI, the class a paragraph is labelled with exists).** a language some of whose paragraphs are written with the
    language code as their class (their own class declares no language: styled through an id, say) gets a class rule of that
    name — whatever other classes already declare the language -/
theorem stylesheet_declares_label_class (extra : Str → Str) (labels : Str → Bool) (sheet : Str) (langs : List Str) :
    ∀ l ∈ langs, labels l = true → Str.contains (blockHead l) (declareLangs langRule extra labels sheet langs) = true :=
  SamiW.labelled_has_class extra labels langs sheet

/-- the test as it was before the repair c3a3023 (`'lang: es'`, no semicolon) left `es` undeclared after `est` -/
theorem stylesheet_old_test_counterexample :
    Str.contains (langRule "es".toList)
      (declareLangs (fun l => "lang: ".toList ++ l) (fun _ => []) (fun _ => false) "<!--".toList ["est".toList, "es".toList]) = false := by decide

end PcVerif.Props.C14
