/-
  C20 — format detection is total, consistent and recognises pycaption's own output.
  Property theorems only (helper lemmas are local and marked `private`).
-/
import PcVerif.Model.Detect
import PcVerif.Lemmas.StrLemmas
import PcVerif.Lemmas.DetectOwn
import PcVerif.Lemmas.DetectOwnScc
import PcVerif.Props.C08
import PcVerif.Props.C17
namespace PcVerif.Props.C20
open PcVerif PcVerif.Detect PcVerif.Str

/-- the documented order DFXP, MicroDVD, WebVTT, SAMI, SRT, SCC is what `SUPPORTED_READERS` says -/
theorem order_pinned : Detect.order = [.dfxp, .microdvd, .webvtt, .sami, .srt, .scc] := by decide

theorem markers_pinned :
    Generated.dfxpMarker = some "</tt>" ∧ Generated.dfxpLowers = true ∧
    Generated.samiMarker = some "<sami" ∧ Generated.samiLowers = true ∧
    Generated.webvttMarker = some "WEBVTT" ∧ Generated.srtArrow = some "-->" ∧
    Generated.sccHeader = some "Scenarist_SCC V1.0" ∧
    Generated.microdvdDetectPattern = some "{\\d+}{\\d+}" := by decide

/-- `SCCReader.detect` never raises on a non-empty string -/
theorem detectScc_total (s : Str) (h : s ≠ []) : ∃ b, detectScc s = .ok b := by
  unfold detectScc
  have := splitlines_ne_nil s h
  split
  · exact ⟨_, rfl⟩
  · contradiction

theorem detectOne_total (k : Kind) (s : Str) (h : s ≠ []) : ∃ b, detectOne k s = .ok b := by
  cases k <;> simp only [detectOne]
  all_goals first
    | exact ⟨_, rfl⟩
    | exact detectScc_total s h
    | (unfold detectSrt; split <;> exact ⟨_, rfl⟩)

private theorem firstAccepting_total (ks : List Kind) (s : Str) (h : s ≠ []) :
    ∃ r, firstAccepting ks s = .ok r := by
  induction ks with
  | nil => exact ⟨none, rfl⟩
  | cons k ks ih =>
    obtain ⟨b, hb⟩ := detectOne_total k s h
    unfold firstAccepting
    rw [hb]
    cases b
    · simpa using ih
    · exact ⟨_, rfl⟩

/-- **C20 (totality).**  For every non-empty string detection returns a reader or nothing; it never raises. -/
theorem detect_total (s : Str) (h : s ≠ []) : ∃ r, detectFormat s = .ok r := by
  unfold detectFormat
  have : s.isEmpty = false := by cases s <;> simp_all
  simp only [this, Bool.false_eq_true, if_false]
  exact firstAccepting_total _ s h

/-- **C20 (empty input).**  The empty string raises the documented no-captions error. -/
theorem detect_empty_raises : detectFormat [] = .error .noCaptions := by
  simp [detectFormat]

private theorem firstAccepting_some (ks : List Kind) (s : Str) (k : Kind) :
    firstAccepting ks s = .ok (some k) →
    ∃ pre post, ks = pre ++ k :: post ∧ detectOne k s = .ok true ∧ ∀ k' ∈ pre, detectOne k' s = .ok false := by
  induction ks with
  | nil => simp [firstAccepting]
  | cons k0 ks ih =>
    unfold firstAccepting
    split
    · simp
    · rename_i h0
      intro h
      have : k0 = k := by simpa using h
      subst this
      exact ⟨[], ks, rfl, h0, by simp⟩
    · rename_i h0
      intro h
      obtain ⟨pre, post, e, hk, hpre⟩ := ih h
      refine ⟨k0 :: pre, post, by simp [e], hk, ?_⟩
      intro k' hk'
      cases hk' with
      | head => exact h0
      | tail _ hm => exact hpre k' hm

private theorem firstAccepting_none (ks : List Kind) (s : Str) :
    firstAccepting ks s = .ok none → ∀ k ∈ ks, detectOne k s = .ok false := by
  induction ks with
  | nil => simp
  | cons k0 ks ih =>
    unfold firstAccepting
    split
    · simp
    · simp
    · rename_i h0
      intro h k hk
      cases hk with
      | head => exact h0
      | tail _ hm => exact ih h k hm

/-- **C20 (first accepting reader).**  A reader class is returned only if its own `detect` accepts the
    string and every reader before it in the documented order rejects it. -/
theorem detect_first_accepting (s : Str) (k : Kind) (h : detectFormat s = .ok (some k)) :
    ∃ pre post, Detect.order = pre ++ k :: post ∧ detectOne k s = .ok true ∧
      ∀ k' ∈ pre, detectOne k' s = .ok false := by
  unfold detectFormat at h
  split at h
  · simp at h
  · exact firstAccepting_some _ s k h

/-- **C20 (nothing returned).**  `None` is returned only when all six readers reject the string. -/
theorem detect_none_iff (s : Str) (h : detectFormat s = .ok none) :
    ∀ k : Kind, detectOne k s = .ok false := by
  unfold detectFormat at h
  split at h
  · simp at h
  · intro k
    have hk : k ∈ Detect.order := by rw [order_pinned]; cases k <;> simp
    exact firstAccepting_none _ s h k hk

/-- non-vacuity: a concrete SRT document is detected as SRT although SCC/… are later in the order -/
example : detectFormat "1\n00:00:01,000 --> 00:00:02,000\nhi\n".toList = .ok (some .srt) := by decide

/-! ### pycaption's own output (third clause) — for the writers modelled as whole documents -/

/-- **C20 (own output, SRT).** for every list of cues (any number, any instants, any nodes) whose cues have visible text
    and whose text lines contain no marker of another format (`</tt>` and `<sami` in any letter case, `WEBVTT`), the
    document the SRT writer produces is detected as SRT: no earlier reader in the order accepts it — a marker cannot
    arise across line boundaries or from index and timing lines — and `SRTReader.detect` does -/
theorem detect_own_srt (capsIn : List RCap)
    (hne : Srt.mergeSame [] capsIn ≠ [])
    (hv : ∀ c ∈ Srt.mergeSame [] capsIn, Srt.textsOf c.nodes ≠ [])
    (hbr : ∀ c ∈ Srt.mergeSame [] capsIn, ∀ t ∈ Srt.textsOf c.nodes, Srt.NoBreak t)
    (hmk : ∀ c ∈ Srt.mergeSame [] capsIn, ∀ t ∈ Srt.textsOf c.nodes, Detect.NoMarker t) :
    detectFormat (Srt.write [capsIn]) = .ok (some .srt) :=
  Detect.detect_own_srt capsIn hne hv hbr hmk

/-- **C20 (own output, WebVTT).** for every list of captions made of text lines — ANY characters: the writer escapes
    `<`, so `</tt>` cannot occur, and the document starts with `WEBVTT` — the WebVTT writer's document is detected as
    WebVTT -/
theorem detect_own_vtt (cs : List VttW.CapIn) (hok : ∀ c ∈ cs, c.OK) :
    detectFormat (VttW.writePlain (cs.map VttW.toRCap)) = .ok (some .webvtt) :=
  Detect.detect_own_vtt cs hok

/-- **C20 (own output, MicroDVD).** for every non-empty list of captions made of text lines none of which contains
    `</tt>` (in any letter case; DFXP is the only reader asked before MicroDVD), the MicroDVD writer's document is
    detected as MicroDVD -/
theorem detect_own_mdvd (cs : List VttW.CapIn) (hne : cs ≠ []) (hok : ∀ c ∈ cs, MicroDvd.CapOK c)
    (hmk : ∀ c ∈ cs, ∀ t ∈ c.2.2, Str.contains Detect.dfxpMarker (Str.lower t) = false) :
    detectFormat (MicroDvd.write [cs.map VttW.toRCap]) = .ok (some .microdvd) :=
  Detect.detect_own_mdvd cs hne hok hmk

/-- the marker hypothesis is needed: text carrying `</TT>` makes the SRT writer's document look like DFXP -/
example : Detect.NoMarker "see </TT> here".toList = False := by
  simp only [Detect.NoMarker, eq_iff_iff, iff_false, not_and]
  intro h; revert h; decide

/-- non-vacuity: an ordinary line — with `<`, `&` and capital letters — meets the marker hypothesis -/
example : Detect.NoMarker "Tom & <Jerry> WEB VTT".toList := by
  refine ⟨?_, ?_, ?_⟩ <;> decide

/-- **C20 (own output, SCC).** the document the SCC writer produces — for EVERY caption set of rows of basic characters (at most
    15 rows per caption), any times — is detected as SCC: its characters are those of the header, time codes, hexadecimal words,
    tabs, blanks and line feeds, so neither `<` (DFXP, SAMI) nor `W` (`WEBVTT`) nor a leading `{` (MicroDVD) occurs, the first
    line is no number (SRT), and it is the SCC header -/
theorem detect_own_scc (caps : List (List Str × Rat × Rat)) (hok : ∀ c ∈ caps, c.1.length ≤ 15 ∧ ∀ l ∈ c.1, ∀ x ∈ l, SccW.Basic x) :
    detectFormat (SccW.write caps) = .ok (some .scc) :=
  SccW.detect_own_scc caps hok

/-! ### "… and that reader reads the document" (session 4): detection and reading together, on the writer and reader models -/

/-- **C20 (own output is detected AND read, SRT).** the whole third clause for SRT: the document is detected as SRT and the
    SRT reader reads it — to one caption per written cue with the writer's lines and the millisecond instants -/
theorem own_srt_detected_and_read (capsIn : List RCap)
    (hne : Srt.mergeSame [] capsIn ≠ [])
    (hv : ∀ c ∈ Srt.mergeSame [] capsIn, Srt.textsOf c.nodes ≠ [])
    (hbr : ∀ c ∈ Srt.mergeSame [] capsIn, ∀ t ∈ Srt.textsOf c.nodes, Srt.NoBreak t)
    (hmk : ∀ c ∈ Srt.mergeSame [] capsIn, ∀ t ∈ Srt.textsOf c.nodes, Detect.NoMarker t) :
    detectFormat (Srt.write [capsIn]) = .ok (some .srt) ∧
    Srt.read (Srt.write [capsIn]) = .ok ((Srt.mergeSame [] capsIn).map Srt.readBack) :=
  ⟨detect_own_srt capsIn hne hv hbr hmk, C08.srt_hop capsIn hne hv hbr⟩

/-- … WebVTT -/
theorem own_vtt_detected_and_read (cs : List VttW.CapIn) (hne : cs ≠ []) (hok : ∀ c ∈ cs, c.OK) :
    detectFormat (VttW.writePlain (cs.map VttW.toRCap)) = .ok (some .webvtt) ∧
    Vtt.read {} (VttW.writePlain (cs.map VttW.toRCap)) = .ok (cs.map VttW.readBack) :=
  ⟨detect_own_vtt cs hok, C08.vtt_hop cs hne hok⟩

/-- … MicroDVD -/
theorem own_mdvd_detected_and_read (cs : List VttW.CapIn) (hne : cs ≠ []) (hok : ∀ c ∈ cs, MicroDvd.CapOK c)
    (hmk : ∀ c ∈ cs, ∀ t ∈ c.2.2, Str.contains Detect.dfxpMarker (Str.lower t) = false) :
    detectFormat (MicroDvd.write [cs.map VttW.toRCap]) = .ok (some .microdvd) ∧
    MicroDvd.read (MicroDvd.write [cs.map VttW.toRCap]) = .ok (cs.map MicroDvd.readBack) :=
  ⟨detect_own_mdvd cs hne hok hmk, C08.mdvd_hop cs hne hok⟩

section
open PcVerif.Scc PcVerif.SccW
/-- … SCC: for caption sets of 1–15 tidy rows of basic characters the written file is detected as SCC and the SCC reader model,
    whatever the offset, stores exactly one caption per written caption with its rows -/
theorem own_scc_detected_and_read (caps : List (List Str × Rat × Rat)) (hg : ∀ c ∈ caps, GoodLines c.1) (off : Rat) :
    detectFormat (SccW.write caps) = .ok (some .scc) ∧
    (run (write caps) off).S.stash.map view = caps.map (fun c => capView c.1) :=
  ⟨detect_own_scc caps (fun c hc => ⟨(hg c hc).2.1, fun l hl x hx => ((hg c hc).2.2 l hl).2 x hx⟩),
   C17.written_file_restored caps hg off⟩
end
end PcVerif.Props.C20
