/-
  C05 — SCC pop-on decoding reproduces the CEA-608 screen.  Table facts (over the generated tables), the layout
  mapping, and the italics passes of the reader.
-/
import PcVerif.Model.Scc.Finish
import PcVerif.Lemmas.ItalicsLemmas
import PcVerif.Lemmas.RollupLemmas
import Mathlib.Tactic.Linarith
import Mathlib.Tactic.NormNum
import Mathlib.Tactic.Positivity
import PcVerif.Lemmas.PopOnLemmas
import PcVerif.Lemmas.PopOnShape
namespace PcVerif.Props.C05
open PcVerif PcVerif.Scc

/-! ### tables -/

/-- every preamble address code addresses a row 1–15 and a column 0, 4, …, 28 -/
theorem pac_rows_cols :
    Generated.Scc.pacMap.all (fun e => decide (1 ≤ e.2.1) && decide (e.2.1 ≤ 15) && decide (e.2.2 % 4 = 0) && decide (e.2.2 ≤ 28)) = true := by
  decide +kernel

/-- all 15 × 8 row/indent addresses have a preamble address code -/
theorem pac_covers_grid :
    (List.range 15).all (fun r => (List.range 8).all (fun k =>
      Generated.Scc.pacMap.any (fun e => decide (e.2.1 = r + 1) && decide (e.2.2 = 4 * k)))) = true := by
  decide +kernel

theorem tab_offsets_1_3 : Generated.Scc.tabOffsets.map (·.2) = [1, 2, 3] := by decide

/-- a code word has one meaning: the special, extended, tab-offset and preamble tables are pairwise disjoint, and
    special / extended characters are not commands -/
theorem char_tables_disjoint :
    Generated.Scc.specialChars.all (fun e => !Generated.Scc.extendedChars.any (fun x => x.1 == e.1)
        && !Generated.Scc.pacMap.any (fun x => x.1 == e.1) && !Generated.Scc.commands.contains e.1) = true ∧
    Generated.Scc.extendedChars.all (fun e => !Generated.Scc.pacMap.any (fun x => x.1 == e.1)
        && !Generated.Scc.commands.contains e.1) = true ∧
    Generated.Scc.tabOffsets.all (fun e => !Generated.Scc.pacMap.any (fun x => x.1 == e.1)) = true := by
  refine ⟨?_, ?_, ?_⟩ <;> decide +kernel

/-! ### layout -/

/-- **C05 (position).** (row, column) is mapped linearly into the safe area: 10 % ≤ x < 90 % across 32 columns,
    5 % ≤ y < 95 % across 15 rows, strictly increasing in both -/
theorem layout_linear_safe (row col : Nat) (h1 : 1 ≤ row) (h2 : row ≤ 15) (h3 : col ≤ 31) :
    10 ≤ (layoutOf (row, col)).1 ∧ (layoutOf (row, col)).1 < 90 ∧ 5 ≤ (layoutOf (row, col)).2 ∧ (layoutOf (row, col)).2 < 95 := by
  have c1 : (0 : ℚ) ≤ col := by positivity
  have c2 : (col : ℚ) ≤ 31 := by exact_mod_cast h3
  have r1 : (1 : ℚ) ≤ row := by exact_mod_cast h1
  have r2 : (row : ℚ) ≤ 15 := by exact_mod_cast h2
  simp only [layoutOf]
  refine ⟨?_, ?_, ?_, ?_⟩ <;> linarith

theorem layout_strictly_monotone (r1 c1 r2 c2 : Nat) :
    (c1 < c2 → (layoutOf (r1, c1)).1 < (layoutOf (r2, c2)).1) ∧ (r1 < r2 → (layoutOf (r1, c1)).2 < (layoutOf (r2, c2)).2) := by
  simp only [layoutOf]
  constructor
  · intro h; have : (c1 : ℚ) < c2 := by exact_mod_cast h
    linarith
  · intro h; have : (r1 : ℚ) < r2 := by exact_mod_cast h
    linarith

/-! ### italics -/

/-- **C05 / C11 (italic spans are balanced).** for every instruction list the reader's state machine can collect —
    any interleaving of italic preambles, mid-row codes, text, line breaks and repositionings — the formatted list
    has alternating on/off switches, starting with "on", none left open at the end -/
theorem formatItalics_balanced (coll : List INode) : Balanced (styles (formatItalics coll)) :=
  Scc.formatItalics_balanced coll

/-- the redundant-switch pass alone already yields an alternating sequence that starts with "on" -/
theorem skipRedundant_alternates (l : List INode) : AltFrom true (styles (skipRedundant none l)) :=
  skipRedundant_alt none l

/-- non-vacuity: off, on, text, on, text, repositioning, text -/
example : styles (formatItalics [⟨.ioff, [], (1, 0)⟩, ⟨.ion, [], (1, 0)⟩, ⟨.text, ['a'], (1, 0)⟩, ⟨.ion, [], (1, 0)⟩,
    ⟨.text, ['b'], (1, 0)⟩, ⟨.repos, [], (3, 0)⟩, ⟨.text, ['c'], (3, 0)⟩]) = [true, false, true, false] := by decide

/-- **C05 (characters survive the italics normalisation).** the seven passes of `_format_italics` and the final clean-up
    keep every visible character exactly once and in order — they only add, move or drop style nodes, drop empty text
    nodes and trailing breaks, and trim blanks at line ends -/
theorem formatItalics_keeps_characters (coll : List INode) :
    vis (itext (formatItalics coll)) = vis (itext coll) := ivis_formatItalics coll

/-! ### doubled codes -/

/-- **C05 (the second copy of a doubled code is dropped).** in EVERY state of the reader whose doubling memory holds the word
    just read: a control code (other than backspace), a preamble or a special character that repeats it changes nothing but
    the doubling memory and the frame count — no buffer, no position, no stored caption, no mode -/
theorem second_copy_dropped (r : Reader) (w : String) (nxt : Option String)
    (hdt : ((w != "94a1" && isCommand w) || isPac w || (special w).isSome) = true) (h : r.lastCmd = w) :
    word r w nxt = { r with dbl := if isCueStarting w then true else r.dbl, lastCmd := "", frames := r.frames + 1 } :=
  SccW.word_swallowed r w nxt hdt h

/-- **C05 (a doubled control code counts once).** a control code or preamble sent twice after a character word (or with
    nothing remembered) acts exactly once: the reader continues with the rest of the words from the state the single
    execution leaves, the doubling memory cleared -/
theorem doubled_control_counts_once (r : Reader) (w : String) (ws : List String) (hc : SccW.Ctl w) (hq : SccW.Quiet r.lastCmd)
    (hl : (command (SccW.firstCopy r w) w (some w)).lastCmd = w) :
    ∃ r', words r (w :: w :: ws) = words r' ws ∧ r'.lastCmd = "" ∧
      r'.active = (command (SccW.firstCopy r w) w (some w)).active ∧
      SccW.heldQ r' = SccW.heldQ (command (SccW.firstCopy r w) w (some w)) ∧
      r'.buf = (command (SccW.firstCopy r w) w (some w)).buf :=
  SccW.ctl_pair r w ws hc hq hl

/-- **C05 (rows on consecutive screen rows become the lines of ONE caption, positioned at its first row).** a pop-on reader
    between two captions (pop-on mode; the word before was a character word or nothing is remembered) reads the words of a
    caption as the writer lays it out — `94ae 94ae 9420 9420`, rows `16 − n … 15` top to bottom, each with its column-0
    preamble twice and its characters two per word, `942c 942c 942f 942f`; 1–15 non-empty rows of basic characters — and
    whatever follows: the composed caption stands at the end of the queue as one buffer whose instruction nodes are exactly
    one text node per row holding that row's characters, a break node between consecutive rows, no style and no
    repositioning node, every node at (row `16 − n`, column 0); the buffer being composed is fresh again, and at most two
    older captions have left the queue (shown at `942c` and at `942f`).  Exact: preamble → position tracker → `add_chars`
    through the real `word` / `command` / `interpret` functions (`Lemmas/PopOnShape.lean`) -/
theorem written_caption_exact (l0 : List Char) (ls : List (List Char)) (rest : List String) (r : Reader) (hn : ls.length + 1 ≤ 15)
    (hb : ∀ l ∈ l0 :: ls, l ≠ [] ∧ ∀ c ∈ l, SccW.Basic c) (hq : SccW.Quiet r.lastCmd) (ha : r.active = .pop) :
    ∃ r', words r (SccW.captionWords (l0 :: ls) ++ rest) = words r' rest ∧ r'.lastCmd = "" ∧ r'.active = .pop ∧ r'.pop = {} ∧
      ∃ c t, r'.queue = r.queue.tail.tail ++ [(c, t)] ∧
        c.coll = SccW.bufNodes (16 - (ls.length + 1), 0) (l0 :: ls) ∧ c.last = none :=
  SccW.caption_exact l0 ls rest r hn hb hq ha

/-- non-vacuity: the fixed control words and the 15 row preambles the writer sends are such control codes -/
example : SccW.Ctl "94ae" ∧ SccW.Ctl "9420" ∧ SccW.Ctl "942c" ∧ SccW.Ctl "942f" := SccW.ctl_fixed

end PcVerif.Props.C05
