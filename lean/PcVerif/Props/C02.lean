/-
  C02 — writing preserves every cue's start and end instant.  Property theorems.
-/
import PcVerif.Spec.Stamp
import PcVerif.Lemmas.SamiEntryLemmas
import PcVerif.Model.SamiWriter
namespace PcVerif.Props.C02
open PcVerif PcVerif.Str PcVerif.Fmt PcVerif.Spec

theorem microdvd_constants_pinned : Generated.microdvdWriteFps = 25 ∧ Generated.microdvdWriteDiv = 1000000 := by decide

private theorem dv_digit_fin : ∀ k : Fin 10, dv (Char.ofNat (48 + k.val)) = some k.val := by decide

private theorem dv_digitChar (n : Nat) : dv (digitChar n) = some (n % 10) :=
  dv_digit_fin ⟨n % 10, Nat.mod_lt _ (by decide)⟩

/-- the fields handed to `:02d` / `:03d` are always in range -/
theorem fields_in_range (us : Nat) :
    us / 1000000 % 86400 / 3600 < 100 ∧ us / 1000000 % 86400 % 3600 / 60 < 60 ∧
    us / 1000000 % 86400 % 3600 % 60 < 60 ∧ us % 1000000 / 1000 < 1000 := by omega

/-- **C02 (shared formatter).** for every instant below 24 h (integer or fractional microseconds) the written
    `hh:mm:ss<sep>mmm` has two-digit hour/minute/second fields with mm, ss < 60, a three-digit millisecond field,
    and reads back as the instant truncated to milliseconds — all carries are correct -/
theorem format_denotes (t : Rat) (sep : Char) (ht : wholeMicro t < 86400000000) :
    readStamp12 (formatTimestamp t sep) = some (wholeMicro t / 1000) := by
  unfold formatTimestamp
  generalize wholeMicro t = us at ht
  obtain ⟨h1, h2, h3, h4⟩ := fields_in_range us
  have p1 : pad2 (us / 1000000 % 86400 / 3600) = [digitChar (us / 1000000 % 86400 / 3600 / 10), digitChar (us / 1000000 % 86400 / 3600)] := by
    unfold pad2; rw [if_pos h1]
  have p2 : pad2 (us / 1000000 % 86400 % 3600 / 60) = [digitChar (us / 1000000 % 86400 % 3600 / 60 / 10), digitChar (us / 1000000 % 86400 % 3600 / 60)] := by
    have : us / 1000000 % 86400 % 3600 / 60 < 100 := by omega
    unfold pad2; rw [if_pos this]
  have p3 : pad2 (us / 1000000 % 86400 % 3600 % 60) = [digitChar (us / 1000000 % 86400 % 3600 % 60 / 10), digitChar (us / 1000000 % 86400 % 3600 % 60)] := by
    have : us / 1000000 % 86400 % 3600 % 60 < 100 := by omega
    unfold pad2; rw [if_pos this]
  have p4 : pad3 (us % 1000000 / 1000) = [digitChar (us % 1000000 / 1000 / 100), digitChar (us % 1000000 / 1000 / 10), digitChar (us % 1000000 / 1000)] := by
    unfold pad3; rw [if_pos h4]
  simp only [p1, p2, p3, p4, List.cons_append, List.nil_append, List.take, readStamp12, dv_digitChar]
  have c1 : us / 1000000 % 86400 % 3600 / 60 / 10 % 10 * 10 + us / 1000000 % 86400 % 3600 / 60 % 10 < 60 := by omega
  have c2 : us / 1000000 % 86400 % 3600 % 60 / 10 % 10 * 10 + us / 1000000 % 86400 % 3600 % 60 % 10 < 60 := by omega
  simp only [c1, c2, and_self, if_true, Option.some.injEq]
  omega

/-- **C02 (WebVTT stamp).** `[hh:]mm:ss.mmm`, hours omitted exactly when zero, reads back as the instant
    truncated to milliseconds -/
theorem vtt_timestamp_denotes (t : Rat) (ht : wholeMicro t < 86400000000) :
    readVttStamp (vttTimestamp t) = some (wholeMicro t / 1000) := by
  unfold vttTimestamp
  generalize wholeMicro t = us at ht
  have p2 : pad2 (us / 1000000 % 86400 / 60 % 60) = [digitChar (us / 1000000 % 86400 / 60 % 60 / 10), digitChar (us / 1000000 % 86400 / 60 % 60)] := by
    have : us / 1000000 % 86400 / 60 % 60 < 100 := by omega
    unfold pad2; rw [if_pos this]
  have p3 : pad2 (us / 1000000 % 86400 % 60) = [digitChar (us / 1000000 % 86400 % 60 / 10), digitChar (us / 1000000 % 86400 % 60)] := by
    have : us / 1000000 % 86400 % 60 < 100 := by omega
    unfold pad2; rw [if_pos this]
  have p4 : pad3 (us % 1000000 / 1000) = [digitChar (us % 1000000 / 1000 / 100), digitChar (us % 1000000 / 1000 / 10), digitChar (us % 1000000 / 1000)] := by
    have : us % 1000000 / 1000 < 1000 := by omega
    unfold pad3; rw [if_pos this]
  have c1 : us / 1000000 % 86400 / 60 % 60 / 10 % 10 * 10 + us / 1000000 % 86400 / 60 % 60 % 10 < 60 := by omega
  have c2 : us / 1000000 % 86400 % 60 / 10 % 10 * 10 + us / 1000000 % 86400 % 60 % 10 < 60 := by omega
  have d0 : dv '0' = some 0 := by decide
  dsimp only
  split
  · rename_i hz
    simp only [p2, p3, p4, List.cons_append, List.nil_append, readVttStamp, List.length_cons, List.length_nil,
      Nat.reduceAdd, if_true, readStamp12, dv_digitChar, d0]
    simp only [c1, c2, and_self, if_true, Option.some.injEq]
    omega
  · rename_i hz
    have p1 : pad2 (us / 1000000 % 86400 / 60 / 60) = [digitChar (us / 1000000 % 86400 / 60 / 60 / 10), digitChar (us / 1000000 % 86400 / 60 / 60)] := by
      have : us / 1000000 % 86400 / 60 / 60 < 100 := by omega
      unfold pad2; rw [if_pos this]
    simp only [p1, p2, p3, p4, List.cons_append, List.nil_append, readVttStamp, List.length_cons, List.length_nil,
      Nat.reduceAdd, Nat.reduceEqDiff, if_false, readStamp12, dv_digitChar]
    simp only [c1, c2, and_self, if_true, Option.some.injEq]
    omega

/-- hours are written exactly when the instant is at least one hour -/
theorem vtt_hours_omitted_iff (t : Rat) (ht : wholeMicro t < 86400000000) :
    (vttTimestamp t).length = 9 ↔ wholeMicro t < 3600000000 := by
  unfold vttTimestamp
  generalize wholeMicro t = us at ht
  have l2 : ∀ n, n < 100 → (pad2 n).length = 2 := by intro n h; unfold pad2; rw [if_pos h]; rfl
  have l3 : ∀ n, n < 1000 → (pad3 n).length = 3 := by intro n h; unfold pad3; rw [if_pos h]; rfl
  have a : (pad2 (us / 1000000 % 86400 / 60 % 60)).length = 2 := l2 _ (by omega)
  have b : (pad2 (us / 1000000 % 86400 % 60)).length = 2 := l2 _ (by omega)
  have c : (pad3 (us % 1000000 / 1000)).length = 3 := l3 _ (by omega)
  have d : (pad2 (us / 1000000 % 86400 / 60 / 60)).length = 2 := l2 _ (by omega)
  dsimp only
  split
  · rename_i hz
    simp only [List.length_append, List.length_cons, a, b, c]
    constructor
    · intro _; omega
    · intro _; trivial
  · rename_i hz
    simp only [List.length_append, List.length_cons, a, b, c, d]
    constructor
    · intro h; omega
    · intro h; omega

open SamiW in
private theorem modify_append_last (body : Body) (s : Sync) (f : Sync → Sync) :
    (body ++ [s]).modify body.length f = body ++ [f s] := by
  induction body with
  | nil => rfl
  | cons b body ih => simp [List.modify_cons, ih]

open SamiW in
private theorem primary_step (body : Body) (time lang cap : Nat) (blank : Bool) :
    appendP (recreateSync body true time).1 (recreateSync body true time).2 ⟨lang, blank, cap⟩
      = body ++ [⟨time, [⟨lang, blank, cap⟩]⟩] := by
  simp [recreateSync, appendP, modify_append_last]

open SamiW in
/-- **C02 (SAMI sync plan, one language).** the writer emits, per cue, a blank sync at the previous cue's end
    millisecond unless the cue starts in that millisecond, then the cue's own sync at its start millisecond;
    nothing follows the last cue.  (Several languages: C14.) -/
theorem sami_sync_plan (lang : Nat) (body : Body) (lt : Option Nat) (k : Nat) (caps : List (Rat × Rat)) :
    langLoop lang true body lt k caps = body ++ specPrimary lang lt k caps := by
  induction caps generalizing body lt k with
  | nil => simp [langLoop, specPrimary]
  | cons c cs ih =>
    obtain ⟨a, b⟩ := c
    simp only [langLoop, recreateP, specPrimary]
    cases lt with
    | none =>
      simp only [primary_step, ih]
      simp
    | some e =>
      by_cases h : ms a = e
      · simp only [h, ne_eq, not_true_eq_false, if_false, primary_step, ih]
        simp
      · simp only [h, ne_eq, not_false_eq_true, if_true, primary_step, ih]
        simp

open SamiW in
theorem sami_single_language_plan (caps : List (Rat × Rat)) : plan [caps] = specPrimary 0 none 0 caps := by
  simp [plan, writeLoop, sami_sync_plan]

open SamiW in
/-- **C02 (SAMI, any number of languages).** the paragraphs of the written document — each with the start of the SYNC
    block it sits in — are, as a multiset, exactly what the per-language plans list: for every cue one paragraph at its
    start millisecond; a blank paragraph at the previous cue's end millisecond unless this cue starts in that very
    millisecond; nothing for the end of a language's last cue.  Nothing else is written and nothing is lost, whatever the
    languages' cues are (unsorted, overlapping, interleaved with the other languages). -/
theorem sami_plan_entries (langs : List (List (Rat × Rat))) :
    List.Perm (entries (plan langs)) ((langs.zipIdx 0).flatMap (fun p => langEntries p.2 none 0 p.1)) :=
  SamiW.plan_entries langs

/-! ### written stamps separate instants (session 4) -/

/-- **C02 (no two instants collide).** below 24 h two instants are written with the same stamp only if they lie in the
    same millisecond: a writer can never print one cue's time for another cue that starts at least a millisecond apart -/
theorem format_injective (t u : Rat) (sep : Char) (ht : wholeMicro t < 86400000000) (hu : wholeMicro u < 86400000000)
    (h : formatTimestamp t sep = formatTimestamp u sep) : wholeMicro t / 1000 = wholeMicro u / 1000 := by
  have a := format_denotes t sep ht
  have b := format_denotes u sep hu
  rw [h, b] at a
  exact (Option.some.inj a).symm

/-- the same for WebVTT's stamps (hours omitted below one hour) -/
theorem vtt_timestamp_injective (t u : Rat) (ht : wholeMicro t < 86400000000) (hu : wholeMicro u < 86400000000)
    (h : vttTimestamp t = vttTimestamp u) : wholeMicro t / 1000 = wholeMicro u / 1000 := by
  have a := vtt_timestamp_denotes t ht
  have b := vtt_timestamp_denotes u hu
  rw [h, b] at a
  exact (Option.some.inj a).symm

/-- the written millisecond count never runs ahead of the instant and lags it by less than a millisecond (truncation,
    not rounding), and written stamps are monotone: a later instant is never written as an earlier millisecond -/
theorem written_ms_truncates (us vs : Nat) (h : us ≤ vs) :
    us / 1000 * 1000 ≤ us ∧ us < us / 1000 * 1000 + 1000 ∧ us / 1000 ≤ vs / 1000 := by omega

/-- the bound is needed: the formatter drops whole days, so 0 s and 24 h are written alike (outside the property's domain) -/
example : formatTimestamp 0 ',' = formatTimestamp 86400000000 ',' := by decide +kernel
end PcVerif.Props.C02
