/-
  C04 — read text equals authored text.  Property theorems (leaf rule of the DFXP / SAMI readers).
-/
import PcVerif.Model.XmlText
import PcVerif.Generated.Dfxp
import PcVerif.Generated.Sami
import PcVerif.Lemmas.VttPassLemmas
import PcVerif.Lemmas.LeafLemmas
namespace PcVerif.Props.C04
open PcVerif PcVerif.Str PcVerif.XmlText

theorem indent_pattern_pinned :
    Generated.dfxpIndentPattern = some "^(?:[\n\r]+\\s*)?(.+)" ∧ Generated.samiIndentPattern = some "^(?:[\n\r]+\\s*)?(.+)" :=
  ⟨rfl, rfl⟩

/-- words: non-empty, no whitespace -/
def Word (w : Str) : Prop := w ≠ [] ∧ ∀ c ∈ w, isSpace c = false

theorem splitWs_no_space (w : Str) (h : Word w) : splitWs w = [w] := by
  have aux : ∀ (cur s : Str), (∀ c ∈ s, isSpace c = false) → (cur ≠ [] ∨ s ≠ []) →
      splitWsAux cur s = [cur.reverse ++ s] := by
    intro cur s
    induction s generalizing cur with
    | nil => intro _ h; cases h with
      | inl h => simp [splitWsAux, h]
      | inr h => exact absurd rfl h
    | cons c s ih =>
      intro hs _
      have hc : isSpace c = false := hs c (by simp)
      simp only [splitWsAux, hc, Bool.false_eq_true, if_false]
      rw [ih (c :: cur) (fun x hx => hs x (List.mem_cons_of_mem _ hx)) (Or.inl (by simp))]
      simp
  have := aux [] w h.2 (Or.inr h.1)
  simpa [splitWs] using this

private theorem takeWhile_all {α : Type} (p : α → Bool) (l : List α) (h : ∀ x ∈ l, p x = true) : l.takeWhile p = l := by
  induction l with
  | nil => rfl
  | cons a l ih =>
    have ha : p a = true := h a (by simp)
    simp [List.takeWhile, ha, ih (fun x hx => h x (List.mem_cons_of_mem _ hx))]

/-- **C04 (leaf, one source line).** a leaf that does not start with a line break and contains none is read
    verbatim: no character is lost or decoded a second time at this stage -/
theorem leaf_single_line (s : Str) (c : Char) (hc : isNlCr c = false) (hs : '\n' ∉ c :: s) :
    leafText (c :: s) = some (c :: s) := by
  unfold leafText matchStart
  simp only [hc, Bool.not_false, if_true, List.drop_zero]
  have : (c :: s).takeWhile (· ≠ '\n') = c :: s := by
    apply takeWhile_all
    intro x hx
    simp only [ne_eq, decide_not, Bool.not_eq_eq_eq_not, Bool.not_true, decide_eq_false_iff_not]
    intro e; subst e; exact hs hx
  rw [this]
  simp [splitWs, splitWsAux, join]

/-- **C04 (WebVTT lines).** for EVERY line whose first and last characters are not white space — `&`, `<`, `>`, `-->`,
    entity-looking and markup-looking substrings included — what `WebVTTReader._decode` makes of the line as escaped
    by `WebVTTWriter._encode_illegal_characters` is the line itself: nothing is decoded twice, nothing is left encoded.
    (The reader's decoding is a chain of whole-string replacements; on escaped text it is shown to act like the
    single-pass decoder of `Spec/VttDecode.lean`, token by token.) -/
theorem vtt_line_roundtrip (t : Str) (h : Spec.NoEdgeSpace t) : Vtt.decode (Vtt.encodeIllegal t) = t :=
  Spec.decode_vttEncode_line t h

example : Spec.NoEdgeSpace "Q&A &amp;lt; --> <i>x".toList := by
  constructor <;> (intro c hc; simp at hc; subst hc; decide)

/-- **C04 (an indented leaf).** a text leaf written on a line of its own — one or more line feeds / carriage returns, any
    indentation, the text, a line feed and the indentation of the closing tag, which is how pretty-printers (bs4's
    `prettify` in pycaption's own writers among them) and most authors write it — is read as exactly the text: the
    indentation is no part of it, nothing of the text is lost -/
theorem leaf_indented (nl ind t ind' : Str) (hnl : nl ≠ []) (hnl' : ∀ c ∈ nl, isNlCr c = true)
    (hind : ∀ c ∈ ind, isSpace c = true ∧ isNlCr c = false) (ht : Line t) (hind' : ∀ c ∈ ind', isSpace c = true) :
    leafText (nl ++ ind ++ t ++ '\n' :: ind') = some t :=
  XmlText.leaf_indented nl ind t ind' hnl hnl' hind ht hind'

/-- **C04 (a paragraph of lines).** a `<p>` whose children are one text leaf per line with `<br/>` elements between them — each
    leaf spelled on one source line, or indented on a line of its own with any indentation (`wrap`) — is read as exactly
    these lines, separated by break nodes: any number of lines, any text in them -/
theorem paragraph_lines_read (wrap : Str → Str) (lines : List Str) (h : ∀ l ∈ lines, leafText (wrap l) = some l) :
    XmlTree.nodesList (XmlTree.paraChildren wrap lines) = XmlTree.lineNodes lines :=
  XmlTree.paragraph_lines wrap lines h

/-- the two spellings the theorem above is meant for satisfy its hypothesis -/
theorem paragraph_lines_spellings (l : Str) (hl : Line l) (ind ind' : Str)
    (hind : ∀ c ∈ ind, isSpace c = true ∧ isNlCr c = false) (hind' : ∀ c ∈ ind', isSpace c = true) :
    leafText l = some l ∧ leafText ('\n' :: ind ++ l ++ '\n' :: ind') = some l := by
  constructor
  · obtain ⟨c, s, rfl⟩ : ∃ c s, l = c :: s := by
      cases l with
      | nil => exact absurd rfl hl.ne
      | cons a b => exact ⟨a, b, rfl⟩
    refine leaf_single_line s c (hl.noNl c (by simp)) ?_
    intro hm
    have := hl.noNl '\n' hm
    revert this; decide
  · have := XmlText.leaf_indented ['\n'] ind l ind' (by simp) (by intro c hc; simp at hc; subst hc; decide) hind hl hind'
    simpa using this

example : Line "Q&A — 100% <ok>".toList := by
  refine ⟨by decide, ?_, ?_⟩
  · intro c hc; revert c; decide
  · intro c hc; simp at hc; subst hc; decide

end PcVerif.Props.C04
