/-
  C04 — read text equals authored text.  Property theorems (leaf rule of the DFXP / SAMI readers).
-/
import PcVerif.Model.XmlText
import PcVerif.Generated.Dfxp
import PcVerif.Generated.Sami
import PcVerif.Lemmas.VttPassLemmas
namespace PcVerif.Props.C04
open PcVerif PcVerif.Str PcVerif.XmlText

theorem indent_pattern_pinned :
    Generated.dfxpIndentPattern = some "^(?:[\n\r]+\\s*)?(.+)" ∧ Generated.samiIndentPattern = some "^(?:[\n\r]+\\s*)?(.+)" :=
  ⟨rfl, rfl⟩

/-- words: non-empty, no whitespace -/
def Word (w : Str) : Prop := w ≠ [] ∧ ∀ c ∈ w, isSpace c = false

theorem splitWs_no_space (w : Str) (h : Word w) : splitWs w = [w] := by
  have aux : ∀ (cur s : Str), (∀ c ∈ s, isSpace c = false) → (cur ≠ [] ∨ s ≠ []) →
      splitWsAux cur s = [cur.reverse ++ s] := by
    intro cur s
    induction s generalizing cur with
    | nil => intro _ h; cases h with
      | inl h => simp [splitWsAux, h]
      | inr h => exact absurd rfl h
    | cons c s ih =>
      intro hs _
      have hc : isSpace c = false := hs c (by simp)
      simp only [splitWsAux, hc, Bool.false_eq_true, if_false]
      rw [ih (c :: cur) (fun x hx => hs x (List.mem_cons_of_mem _ hx)) (Or.inl (by simp))]
      simp
  have := aux [] w h.2 (Or.inr h.1)
  simpa [splitWs] using this

private theorem takeWhile_all {α : Type} (p : α → Bool) (l : List α) (h : ∀ x ∈ l, p x = true) : l.takeWhile p = l := by
  induction l with
  | nil => rfl
  | cons a l ih =>
    have ha : p a = true := h a (by simp)
    simp [List.takeWhile, ha, ih (fun x hx => h x (List.mem_cons_of_mem _ hx))]

/-- **C04 (leaf, one source line).** a leaf that does not start with a line break and contains none is read
    verbatim: no character is lost or decoded a second time at this stage -/
theorem leaf_single_line (s : Str) (c : Char) (hc : isNlCr c = false) (hs : '\n' ∉ c :: s) :
    leafText (c :: s) = some (c :: s) := by
  unfold leafText matchStart
  simp only [hc, Bool.not_false, if_true, List.drop_zero]
  have : (c :: s).takeWhile (· ≠ '\n') = c :: s := by
    apply takeWhile_all
    intro x hx
    simp only [ne_eq, decide_not, Bool.not_eq_eq_eq_not, Bool.not_true, decide_eq_false_iff_not]
    intro e; subst e; exact hs hx
  rw [this]
  simp [splitWs, splitWsAux, join]

/-- **C04 (WebVTT lines).** for EVERY line whose first and last characters are not white space — `&`, `<`, `>`, `-->`,
    entity-looking and markup-looking substrings included — what `WebVTTReader._decode` makes of the line as escaped
    by `WebVTTWriter._encode_illegal_characters` is the line itself: nothing is decoded twice, nothing is left encoded.
    (The reader's decoding is a chain of whole-string replacements; on escaped text it is shown to act like the
    single-pass decoder of `Spec/VttDecode.lean`, token by token.) -/
theorem vtt_line_roundtrip (t : Str) (h : Spec.NoEdgeSpace t) : Vtt.decode (Vtt.encodeIllegal t) = t :=
  Spec.decode_vttEncode_line t h

example : Spec.NoEdgeSpace "Q&A &amp;lt; --> <i>x".toList := by
  constructor <;> (intro c hc; simp at hc; subst hc; decide)

end PcVerif.Props.C04
