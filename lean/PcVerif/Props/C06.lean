/-
  C06 — SCC captions appear and disappear at the frames their commands are sent (timing part of the reader).
-/
import PcVerif.Model.Scc.Finish
namespace PcVerif.Props.C06
open PcVerif PcVerif.Scc

/-- one code word lasts 1001000/30 = 100100/3 microseconds -/
theorem frame_pinned : Generated.Scc.usPerCodewordNum = 100100 ∧ Generated.Scc.usPerCodewordDen = 3 := by decide

/-- **C06 (flash).** when the state machine finished normally and no line is too long, reading is rejected with the
    timing error exactly when some caption would be displayed for more than 0 but less than 0.05 s -/
theorem flash_rejected_iff (r : Reader) (he : r.err = false) (hl : scanMessage (scan r.S.stash) = []) :
    (∃ c ∈ r.S.stash, 0 < c.stop - c.start ∧ c.stop - c.start < 50000) ↔
      (match finish r with | .timing => True | _ => False) := by
  unfold finish
  simp only [he, Bool.false_eq_true, if_false, hl, List.isEmpty_nil, Bool.not_true]
  by_cases h : r.S.stash.any (fun c => decide (0 < c.stop - c.start) && decide (c.stop - c.start < 50000)) = true
  · simp only [h, if_true, iff_true]
    obtain ⟨c, hc, hp⟩ := List.any_eq_true.mp h
    simp only [Bool.and_eq_true, decide_eq_true_eq] at hp
    exact ⟨c, hc, hp⟩
  · simp only [h, Bool.false_eq_true, if_false]
    constructor
    · rintro ⟨c, hc, h1, h2⟩
      exact absurd (List.any_eq_true.mpr ⟨c, hc, by simp [h1, h2]⟩) h
    · split
      · rename_i heq; split at heq <;> simp at heq
      · intro hf; exact hf.elim

/-- **C06 (4 s tail).** a final caption that was never cleared lasts four seconds; earlier captions are treated
    the same way only while they, too, have no end -/
theorem tail4s_last (caps : List Cap) (c : Cap) (h : c.stop = 0) :
    tail4s (caps ++ [c]) = tail4s caps ++ [{ c with stop := c.start + 4000000 }] := by
  simp [tail4s, tailRev, h]

/-- a final caption that has an end is returned as it is, and so is everything before it -/
theorem tail4s_keeps_ended (caps : List Cap) (c : Cap) (h : c.stop ≠ 0) : tail4s (caps ++ [c]) = caps ++ [c] := by
  simp [tail4s, tailRev, h]

/-- **C06 (time floor).** instants never go below zero, whatever the offset -/
theorem clampZero_nonneg (x : Rat) : 0 ≤ clampZero x := by
  unfold clampZero
  split
  · exact Rat.le_refl
  · rename_i h; exact Rat.not_lt.mp h

theorem timeOf_floor_zero (tc : String) (frames : Nat) (off t : Rat) (h : timeOf tc frames off = some t) : 0 ≤ t := by
  unfold timeOf at h
  simp only at h
  repeat' split at h
  all_goals first
    | (simp at h; done)
    | (simp only [Option.some.injEq] at h; rw [← h]; exact clampZero_nonneg _)

/-- **C06 (joining).** the previous batch is closed at the new caption's start exactly when it has no end yet or
    the gap is shorter than five frames (+1 us); otherwise its end is left alone -/
theorem store_joins_iff (S : Stash) (c : Creator) (start stop : Rat) (hne : c.isEmpty = false)
    (li : Nat) (l new : Cap) (rest : List Cap)
    (hcaps : (toCaps start stop [{ start := start, stop := stop }] (formatItalics c.coll)).filter (fun cp => !cp.nodes.isEmpty) = new :: rest)
    (hlast : S.lastBatch.getLast? = some li) (hl : S.stash[li]? = some l) :
    (store S c start stop).stash =
      (if l.stop = 0 ∨ new.start - l.stop < 5 * frameUs + 1 then setEnd S.stash S.lastBatch new.start else S.stash) ++ (new :: rest) := by
  unfold store
  simp only [hne, Bool.false_eq_true, if_false, hcaps, hlast, hl]

end PcVerif.Props.C06
