/-
  C06 — SCC captions appear and disappear at the frames their commands are sent (timing part of the reader).
-/
import PcVerif.Model.Scc.Finish
import PcVerif.Lemmas.SccTimeLemmas
import PcVerif.Lemmas.SccFrameLemmas
import PcVerif.Lemmas.PopOnStops
namespace PcVerif.Props.C06
open PcVerif PcVerif.Scc

/-- one code word lasts 1001000/30 = 100100/3 microseconds -/
theorem frame_pinned : Generated.Scc.usPerCodewordNum = 100100 ∧ Generated.Scc.usPerCodewordDen = 3 := by decide

/-- **C06 (flash).** when the state machine finished normally and no line is too long, reading is rejected with the
    timing error exactly when some caption would be displayed for more than 0 but less than 0.05 s -/
theorem flash_rejected_iff (r : Reader) (he : r.err = false) (hl : scanMessage (scan r.S.stash) = []) :
    (∃ c ∈ r.S.stash, 0 < c.stop - c.start ∧ c.stop - c.start < 50000) ↔
      (match finish r with | .timing => True | _ => False) := by
  unfold finish
  simp only [he, Bool.false_eq_true, if_false, hl, List.isEmpty_nil, Bool.not_true]
  by_cases h : r.S.stash.any (fun c => decide (0 < c.stop - c.start) && decide (c.stop - c.start < 50000)) = true
  · simp only [h, if_true, iff_true]
    obtain ⟨c, hc, hp⟩ := List.any_eq_true.mp h
    simp only [Bool.and_eq_true, decide_eq_true_eq] at hp
    exact ⟨c, hc, hp⟩
  · simp only [h, Bool.false_eq_true, if_false]
    constructor
    · rintro ⟨c, hc, h1, h2⟩
      exact absurd (List.any_eq_true.mpr ⟨c, hc, by simp [h1, h2]⟩) h
    · split
      · rename_i heq; split at heq <;> simp at heq
      · intro hf; exact hf.elim

/-- **C06 (4 s tail).** a final caption that was never cleared lasts four seconds; earlier captions are treated
    the same way only while they, too, have no end -/
theorem tail4s_last (caps : List Cap) (c : Cap) (h : c.stop = 0) :
    tail4s (caps ++ [c]) = tail4s caps ++ [{ c with stop := c.start + 4000000 }] := by
  simp [tail4s, tailRev, h]

/-- a final caption that has an end is returned as it is, and so is everything before it -/
theorem tail4s_keeps_ended (caps : List Cap) (c : Cap) (h : c.stop ≠ 0) : tail4s (caps ++ [c]) = caps ++ [c] := by
  simp [tail4s, tailRev, h]

/-- **C06 (time floor).** instants never go below zero, whatever the offset -/
theorem clampZero_nonneg (x : Rat) : 0 ≤ clampZero x := by
  unfold clampZero
  split
  · exact Rat.le_refl
  · rename_i h; exact Rat.not_lt.mp h

theorem timeOf_floor_zero (tc : String) (frames : Nat) (off t : Rat) (h : timeOf tc frames off = some t) : 0 ≤ t := by
  unfold timeOf at h
  simp only at h
  repeat' split at h
  all_goals first
    | (simp at h; done)
    | (simp only [Option.some.injEq] at h; rw [← h]; exact clampZero_nonneg _)

/-- **C06 (joining).** the previous batch is closed at the new caption's start exactly when it has no end yet or
    the gap is shorter than five frames (+1 us); otherwise its end is left alone -/
theorem store_joins_iff (S : Stash) (c : Creator) (start stop : Rat) (hne : c.isEmpty = false)
    (li : Nat) (l new : Cap) (rest : List Cap)
    (hcaps : (toCaps start stop [{ start := start, stop := stop }] (formatItalics c.coll)).filter (fun cp => !cp.nodes.isEmpty) = new :: rest)
    (hlast : S.lastBatch.getLast? = some li) (hl : S.stash[li]? = some l) :
    (store S c start stop).stash =
      (if l.stop = 0 ∨ new.start - l.stop < 5 * frameUs + 1 then setEnd S.stash S.lastBatch new.start else S.stash) ++ (new :: rest) := by
  unfold store
  simp only [hne, Bool.false_eq_true, if_false, hcaps, hlast, hl]

/-! ### the instant of a code word -/

/-- **C06 (instant, non-drop-frame time code).** `h:m:s:ff` (fields of any width, two frame digits) and `frames` code words
    since the start of the line denote `(h·3600 + m·60 + s + (ff + frames)/30)` seconds, running 1001/1000 slower than the
    clock, minus the configured offset, never below zero -/
theorem instant_nondrop (h m s ff : Str) (frames : Nat) (off : Rat)
    (hh : Str.Digits h) (hm : Str.Digits m) (hs : Str.Digits s) (hf : Str.Digits ff) (hl : ff.length = 2) :
    timeOf (String.ofList (h ++ ':' :: (m ++ ':' :: (s ++ ':' :: ff)))) frames off
      = some (clampZero ((((Str.natOfDigits h * 3600 + Str.natOfDigits m * 60 + Str.natOfDigits s : Nat) : Rat)
          + mkRat (Str.natOfDigits ff + frames) 30) * mkRat 1001 1000 * 1000000 - off)) :=
  timeOf_nondrop h m s ff frames off hh hm hs hf hl

/-- **C06 (instant, drop-frame time code).** `h:m:s;ff`: the same count at clock speed -/
theorem instant_drop (h m s ff : Str) (frames : Nat) (off : Rat)
    (hh : Str.Digits h) (hm : Str.Digits m) (hs : Str.Digits s) (hf : Str.Digits ff) (hl : ff.length = 2) :
    timeOf (String.ofList (h ++ ':' :: (m ++ ':' :: (s ++ ';' :: ff)))) frames off
      = some (clampZero ((((Str.natOfDigits h * 3600 + Str.natOfDigits m * 60 + Str.natOfDigits s : Nat) : Rat)
          + mkRat (Str.natOfDigits ff + frames) 30) * 1 * 1000000 - off)) :=
  timeOf_drop h m s ff frames off hh hm hs hf hl

/-- **C06 (one frame per code word).** every word of a line — command, preamble, character word, or a second copy that is
    skipped — advances the frame count by exactly one and leaves the line's time code and the offset alone -/
theorem word_counts_one_frame (r : Reader) (w : String) (nxt : Option String) :
    (word r w nxt).frames = r.frames + 1 ∧ (word r w nxt).tc = r.tc ∧ (word r w nxt).off = r.off :=
  word_counts r w nxt

/-- after `k` words of a line the frame count is `k` more: whatever comes next is stamped with the line's time code plus
    one frame per preceding code word -/
theorem words_count_frames (ws : List String) (r : Reader) (h : ∀ w ∈ ws, IsWord w) :
    (words r ws).frames = r.frames + ws.length ∧ (words r ws).tc = r.tc ∧ (words r ws).off = r.off :=
  words_count ws r h

/-- **C06 (a caption starts when its End-Of-Caption code is sent).** the instant the reader records at `942f` is that of
    the line's time code plus the frames counted so far -/
theorem eoc_stamps_now (r : Reader) (nxt : Option String) (t : Rat) (h : timeOf r.tc r.frames r.off = some t) :
    (command r "942f" nxt).time = t :=
  eoc_time r nxt t h

/-- **C06 (the captions of a written file start and end at the frames their commands are sent).** for a file of pop-on
    captions as the SCC writer lays them out in which every caption has a clearing line of its own and begins at least five
    frames after the previous one was cleared (`SpacedFrom`), any time codes, any offset: the reader model stores exactly the
    written captions, in order, each starting at the instant of its End-Of-Caption word (`eoc`: the line's time code plus one
    frame per word before it) and ending at the instant of its clearing line's first word — no caption is joined to its
    neighbour, retimed, or given the default four seconds; nodes and position as in C17's `written_file_restored` -/
theorem written_captions_start_and_end (xs : List (SccW.FileCap × Rat × Rat)) (off : Rat)
    (h : ∀ x ∈ xs, SccW.Timed (off * 1000000) x) (hsp : SccW.SpacedFrom none xs) :
    (run (SccW.fileText (xs.map (·.1))) off).S.stash = xs.map (fun x => SccW.cap4 (x.1.lines, x.2.1, x.2.2)) :=
  SccW.file_stored4 xs off h hsp

/-- non-vacuity: a one-row caption sent at 00:00:01:00 and cleared at 00:00:03:00 meets `Timed` — its End-Of-Caption word is word
    number 9 of its line (1 301 300 µs), its clearing line stands for 3 003 000 µs — and a list of one caption is `SpacedFrom none` -/
example : SccW.Timed 0 (⟨"00:00:01:00".toList, ["Hi".toList], some "00:00:03:00".toList⟩, 1301300, 3003000) ∧
    SccW.SpacedFrom none [(⟨"00:00:01:00".toList, ["Hi".toList], some "00:00:03:00".toList⟩, 1301300, 3003000)] := by
  have hbasic : ∀ l ∈ ["Hi".toList], ∀ x ∈ l, SccW.Basic x := by
    have key : ∀ l ∈ ["Hi".toList], ∀ x ∈ l, Generated.Scc.charToCode.any (fun e => e.1 == String.singleton x) = true := by decide +kernel
    intro l hl x hx
    obtain ⟨e, he, hk⟩ := List.any_eq_true.mp (key l hl x hx)
    exact ⟨e, he, by simpa using hk⟩
  have hstamp : ∀ t ∈ ["00:00:01:00".toList, "00:00:03:00".toList], ∀ c ∈ t, SccW.isStamp c = true := by decide
  have htidy : ∀ l ∈ ["Hi".toList], l ≠ [] ∧ Str.rstrip l = l := by decide +kernel
  refine ⟨⟨⟨hstamp _ (by simp), by decide, hbasic, ?_⟩, ⟨by decide, by decide, fun m hm => ⟨htidy m hm, hbasic m hm⟩⟩, ?_, _, rfl, ?_⟩, ?_⟩
  · intro t ht; simp only [Option.some.injEq] at ht; subst ht; exact hstamp _ (by simp)
  · show timeOf "00:00:01:00" ((SccW.rowsWords 15 ["Hi".toList]).length + 6) 0 = some 1301300
    have : (SccW.rowsWords 15 ["Hi".toList]).length = 3 := by decide +kernel
    rw [this]; decide +kernel
  · show timeOf "00:00:03:00" 0 0 = some 3003000
    decide +kernel
  · exact ⟨fun s hs => by simp at hs, trivial⟩

end PcVerif.Props.C06
