import PcVerif.Spec.Base
import PcVerif.Lemmas.BaseLemmas
namespace PcVerif.Props.C19
open PcVerif.Base
variable {α : Type}

theorem adjustLoop_eq (skew off : Rat) (out cs : List (Cap α)) :
    adjustLoop skew off out cs = out ++ (cs.map (retime skew off)).filter (fun c => decide (0 ≤ c.start)) := by
  induction cs generalizing out with
  | nil => simp [adjustLoop]
  | cons c cs ih =>
    simp only [adjustLoop, List.map_cons, List.filter_cons]
    split
    · rename_i h
      rw [ih]
      simp [retime, h]
    · rename_i h
      rw [ih]
      simp [retime, h]

/-- **C19 (adjust).** every start/end t becomes t*skew+offset, nodes untouched, order kept, and exactly the
    captions whose new start is negative are dropped. -/
theorem adjust_affine_filter (skew off : Rat) (cs : List (Cap α)) :
    adjust skew off cs = (cs.map (retime skew off)).filter (fun c => decide (0 ≤ c.start)) := by
  simp [adjust, adjustLoop_eq]

/-- **C19 (merge).** each maximal run of consecutive captions with identical start and end becomes one
    caption carrying those times and all their nodes in order separated by line breaks. -/
theorem merge_runs (brk : α) (cs : List (Cap α)) (wf : WF cs) :
    mergeConcurrent brk cs = (runs cs).map (specCap brk) := by
  rw [mergeConcurrent_runs_merge1]
  apply List.map_congr_left
  intro r hr
  exact merge1_eq_specCap brk r.1 r.2 (wf _ (runs_head_mem cs r hr))

/-- **C19 (others untouched).** a caption that is a run by itself keeps its times and nodes. -/
theorem merge_others_untouched (brk : α) (c : Cap α) : specCap brk (c, []) = c := specCap_single brk c

/-- **C19 (idempotent).** merging again changes nothing. -/
theorem merge_idempotent (brk : α) (cs : List (Cap α)) (wf : WF cs) :
    mergeConcurrent brk (mergeConcurrent brk cs) = mergeConcurrent brk cs := by
  have wf' : WF (mergeConcurrent brk cs) := by
    rw [merge_runs brk cs wf]
    intro c hc
    obtain ⟨r, hr, rfl⟩ := List.mem_map.mp hc
    exact specCap_nodes_ne brk r (wf _ (runs_head_mem cs r hr))
  rw [merge_runs brk _ wf', merge_runs brk cs wf, runs_of_adjDistinct _ (runs_adjDistinct brk cs)]
  simp [specCap_single]

/-- runs partition the input: concatenating the runs gives back the caption list (no caption is lost,
    duplicated or reordered) -/
theorem runs_flatten (cs : List (Cap α)) : (runs cs).flatMap (fun r => r.1 :: r.2) = cs := by
  induction cs with
  | nil => simp [runs]
  | cons c cs ih =>
    simp only [runs]
    split
    · rename_i e; rw [e] at ih; simp at ih; simp [ih]
    · rename_i d r rest e
      rw [e] at ih
      split <;> simpa using ih

/-- non-vacuity: two concurrent captions followed by a third one -/
example : mergeConcurrent 0
    [⟨1, 2, [7]⟩, ⟨1, 2, [8]⟩, ⟨3, 4, [9]⟩] = [⟨1, 2, [7, 0, 8]⟩, (⟨3, 4, [9]⟩ : Cap Nat)] := by decide

/-- **C19 (runs are uniform).** all captions of a run have the start and end of its first caption -/
theorem runs_uniform (cs : List (Cap α)) : ∀ r ∈ runs cs, ∀ y ∈ r.2, y.span = r.1.span := by
  induction cs with
  | nil => simp [runs]
  | cons c cs ih =>
    intro r hr
    simp only [runs] at hr
    split at hr
    · simp only [List.mem_singleton] at hr; subst hr; simp
    · rename_i d r' rest e
      rw [e] at ih
      split at hr
      · rename_i hspan
        rcases List.mem_cons.mp hr with rfl | hr
        · intro y hy
          rcases List.mem_cons.mp hy with rfl | hy
          · exact hspan.symm
          · rw [hspan]; exact ih (d, r') (by simp) y hy
        · exact ih r (List.mem_cons_of_mem _ hr)
      · rcases List.mem_cons.mp hr with rfl | hr
        · simp
        · exact ih r hr

/-- **C19 (runs are maximal).** two neighbouring merged captions never have the same start and end: a run is not continued by the next one -/
theorem merged_neighbours_differ (brk : α) (cs : List (Cap α)) : AdjDistinct ((runs cs).map (specCap brk)) :=
  runs_adjDistinct brk cs

/-! ### adjust: consequences of `adjust_affine_filter` stated clause by clause (order kept, nodes untouched, exactly the negative starts dropped) -/

/-- order kept, nodes untouched: the node lists of the surviving captions are a subsequence of the input's -/
theorem adjust_nodes_sublist (skew off : Rat) (cs : List (Cap α)) :
    ((adjust skew off cs).map (·.nodes)).Sublist (cs.map (·.nodes)) := by
  rw [adjust_affine_filter]
  have h : cs.map (·.nodes) = (cs.map (retime skew off)).map (·.nodes) := by
    simp [List.map_map, Function.comp_def, retime]
  rw [h]
  exact (List.filter_sublist).map _

/-- membership: a caption survives iff its new start is not negative -/
theorem adjust_mem_iff (skew off : Rat) (cs : List (Cap α)) (c' : Cap α) :
    c' ∈ adjust skew off cs ↔ ∃ c ∈ cs, 0 ≤ c.start * skew + off ∧ c' = retime skew off c := by
  rw [adjust_affine_filter]
  simp only [List.mem_filter, List.mem_map, decide_eq_true_eq]
  constructor
  · rintro ⟨⟨c, hc, rfl⟩, h⟩; exact ⟨c, hc, h, rfl⟩
  · rintro ⟨c, hc, h, rfl⟩; exact ⟨⟨c, hc, rfl⟩, h⟩

/-- the number of surviving captions is the number of captions whose new start is not negative -/
theorem adjust_length (skew off : Rat) (cs : List (Cap α)) :
    (adjust skew off cs).length = cs.countP (fun c => decide (0 ≤ c.start * skew + off)) := by
  rw [adjust_affine_filter, List.filter_map, List.length_map, List.countP_eq_length_filter]
  rfl

/-- durations scale by the skew, whatever the offset -/
theorem retime_duration (skew off : Rat) (c : Cap α) :
    (retime skew off c).stop - (retime skew off c).start = (c.stop - c.start) * skew := by
  simp only [retime]; grind

/-- nothing is dropped when no start becomes negative; in particular for skew ≥ 0, offset ≥ 0 -/
theorem adjust_none_dropped (skew off : Rat) (cs : List (Cap α)) (hs : 0 ≤ skew) (ho : 0 ≤ off)
    (h : ∀ c ∈ cs, 0 ≤ c.start) : adjust skew off cs = cs.map (retime skew off) := by
  rw [adjust_affine_filter, List.filter_eq_self]
  intro c' hc'
  obtain ⟨c, hc, rfl⟩ := List.mem_map.mp hc'
  have := Rat.mul_nonneg (h c hc) hs
  simp only [retime]; grind

/-- a non-negative skew keeps captions sorted by start -/
theorem adjust_keeps_sorted (skew off : Rat) (cs : List (Cap α)) (hs : 0 ≤ skew)
    (h : cs.Pairwise (fun a b => a.start ≤ b.start)) :
    (adjust skew off cs).Pairwise (fun a b => a.start ≤ b.start) := by
  rw [adjust_affine_filter]
  apply List.Pairwise.filter
  rw [List.pairwise_map]
  apply h.imp
  intro a b hab
  simp only [retime]
  have := Rat.mul_le_mul_of_nonneg_right hab hs
  grind

/-- skew 1, offset 0 on captions with non-negative starts is the identity -/
theorem adjust_identity (cs : List (Cap α)) (h : ∀ c ∈ cs, 0 ≤ c.start) : adjust 1 0 cs = cs := by
  rw [adjust_none_dropped 1 0 cs (by decide) (by decide) h]
  conv => rhs; rw [← List.map_id cs]
  apply List.map_congr_left
  intro c _
  simp [retime, Rat.mul_one, Rat.add_zero]

/-- corner: everything dropped -/
example : adjust (1/2) (-10) [⟨1, 2, [7]⟩, (⟨3, 4, [9]⟩ : Cap Nat)] = [] := by decide +kernel
example : adjust 2 (-3) [⟨1, 2, [7]⟩, (⟨3, 4, [9]⟩ : Cap Nat)] = [⟨3, 5, [9]⟩] := by decide +kernel
/-! ### merge: conservation (nothing lost, nothing invented) -/

/-- **C19 (no concurrent captions).** a list in which no two neighbours share start and end is returned as it is -/
theorem merge_no_concurrent (brk : α) (cs : List (Cap α)) (wf : WF cs) (h : AdjDistinct cs) :
    mergeConcurrent brk cs = cs := by
  rw [merge_runs brk cs wf, runs_of_adjDistinct cs h, List.map_map]
  conv => rhs; rw [← List.map_id cs]
  exact List.map_congr_left (fun c _ => specCap_single brk c)

theorem joinBrk_length (brk : α) : ∀ (l : List (List α)), l ≠ [] →
    (joinBrk brk l).length + 1 = (l.map (·.length)).sum + l.length
  | [], h => absurd rfl h
  | [x], _ => by simp [joinBrk]
  | x :: y :: t, _ => by
    have ih := joinBrk_length brk (y :: t) (by simp)
    simp only [joinBrk, List.length_append, List.length_cons, List.map_cons, List.sum_cons] at ih ⊢
    omega

/-- a merged caption holds the nodes of its run plus exactly one break between consecutive captions -/
theorem specCap_node_count (brk : α) (r : Cap α × List (Cap α)) :
    (specCap brk r).nodes.length = ((r.1 :: r.2).map (·.nodes.length)).sum + r.2.length := by
  have := joinBrk_length brk ((r.1 :: r.2).map (·.nodes)) (by simp)
  simp only [specCap]
  simp only [List.map_cons, List.sum_cons, List.length_cons, List.map_map, Function.comp_def, List.length_map] at this ⊢
  omega

/-- **C19 (nothing lost, nothing invented).** the merged list holds all nodes of the input plus one break for every caption that was joined to its predecessor -/
theorem merge_node_count (brk : α) (cs : List (Cap α)) (wf : WF cs) :
    ((mergeConcurrent brk cs).map (·.nodes.length)).sum + (mergeConcurrent brk cs).length
      = (cs.map (·.nodes.length)).sum + cs.length := by
  rw [merge_runs brk cs wf]
  conv => rhs; rw [← runs_flatten cs]
  generalize runs cs = rs
  induction rs with
  | nil => simp
  | cons r rs ih =>
    simp only [List.map_cons, List.sum_cons, List.length_cons, List.flatMap_cons, List.map_append, List.sum_append, List.length_append] at ih ⊢
    rw [specCap_node_count]
    simp only [List.map_cons, List.sum_cons] at ih ⊢
    omega

/-- joined node lists contain every node list of the run as a contiguous block -/
theorem joinBrk_infix (brk : α) : ∀ (l : List (List α)) (x : List α), x ∈ l → x <:+: joinBrk brk l
  | [y], x, h => by simp at h; subst h; simp [joinBrk]
  | y :: z :: t, x, h => by
    simp only [joinBrk]
    rcases List.mem_cons.mp h with rfl | h
    · exact (List.prefix_append _ _).isInfix
    · have := joinBrk_infix brk (z :: t) x h
      exact this.trans ((List.suffix_cons _ _).isInfix.trans (List.suffix_append _ _).isInfix)

/-- **C19 (every caption's nodes survive intact).** the nodes of every input caption occur, contiguous and in order, in some merged caption with the same start and end -/
theorem merge_keeps_each (brk : α) (cs : List (Cap α)) (wf : WF cs) (c : Cap α) (hc : c ∈ cs) :
    ∃ m ∈ mergeConcurrent brk cs, m.span = c.span ∧ c.nodes <:+: m.nodes := by
  rw [merge_runs brk cs wf]
  have hc' := hc
  rw [← runs_flatten cs, List.mem_flatMap] at hc'
  obtain ⟨r, hr, hcr⟩ := hc'
  refine ⟨specCap brk r, List.mem_map_of_mem hr, ?_, ?_⟩
  · rw [specCap_span]
    rcases List.mem_cons.mp hcr with rfl | h
    · rfl
    · exact (runs_uniform cs r hr c h).symm
  · exact joinBrk_infix brk _ _ (List.mem_map_of_mem hcr)

/-- non-vacuity of the count: 3 captions, 4 nodes -> 2 captions, 5 nodes (one break) -/
example : ((mergeConcurrent 0 [⟨1, 2, [7]⟩, ⟨1, 2, [8, 6]⟩, (⟨3, 4, [9]⟩ : Cap Nat)]).map (·.nodes.length)).sum = 5 := by decide
theorem flatten_runs_length (rs : List (Cap α × List (Cap α))) :
    rs.length ≤ (rs.flatMap (fun r => r.1 :: r.2)).length := by
  induction rs with
  | nil => simp
  | cons r rs ih => simp only [List.flatMap_cons, List.length_append, List.length_cons]; omega

/-- **C19 (merging never creates a caption).** the merged list is never longer than the input, and it is empty only for an empty input -/
theorem merge_length_le (brk : α) (cs : List (Cap α)) (wf : WF cs) :
    (mergeConcurrent brk cs).length ≤ cs.length ∧ (mergeConcurrent brk cs = [] ↔ cs = []) := by
  rw [merge_runs brk cs wf]
  have h := flatten_runs_length (runs cs)
  rw [runs_flatten] at h
  refine ⟨by simpa using h, ?_⟩
  constructor
  · intro e
    have e' : runs cs = [] := by simpa using e
    have := runs_flatten cs
    rw [e'] at this
    simpa using this.symm
  · intro e; subst e; simp [runs]
/-- **C19 (a later drop is a drop).** with a non-negative skew, once a caption list is sorted by start the dropped captions are
    a prefix: if a caption survives, every later one survives too -/
theorem adjust_drops_prefix (skew off : Rat) (hs : 0 ≤ skew) (a b : Cap α) (hab : a.start ≤ b.start)
    (ha : 0 ≤ (retime skew off a).start) : 0 ≤ (retime skew off b).start := by
  simp only [retime] at *
  have := Rat.mul_le_mul_of_nonneg_right hab hs
  grind
end PcVerif.Props.C19
