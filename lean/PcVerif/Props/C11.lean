/-
  C11 — italic, bold and underline spans survive conversion and stay balanced.
-/
import PcVerif.Model.XmlTree
import PcVerif.Model.TextWriters
import PcVerif.Lemmas.ItalicsLemmas
import PcVerif.Lemmas.VttBalance
import PcVerif.Lemmas.SamiInlineLemmas
namespace PcVerif.Props.C11
open PcVerif PcVerif.XmlTree PcVerif.TextW

/-! ### readers: every caption read from a DFXP / SAMI element tree has balanced, properly nested style nodes -/

private theorem depthAfter_append (a b : List Node) (d : Nat) :
    depthAfter d (a ++ b) = (depthAfter d a).bind (fun d' => depthAfter d' b) := by
  induction a generalizing d with
  | nil => simp [depthAfter]
  | cons n ns ih =>
    cases n with
    | text s => simp [depthAfter, ih]
    | brk => simp [depthAfter, ih]
    | style st f =>
      cases st
      · simp only [List.cons_append, depthAfter]
        split
        · simp
        · exact ih _
      · simp only [List.cons_append, depthAfter]; exact ih _

mutual
private theorem nodes_depth (t : XNode) (d : Nat) : depthAfter d t.nodes = some d := by
  cases t with
  | text s => simp only [XNode.nodes]; split <;> simp [depthAfter]
  | br => simp [XNode.nodes, depthAfter]
  | styled f cs =>
    simp only [XNode.nodes, depthAfter]
    rw [depthAfter_append, nodesList_depth cs (d + 1)]
    simp [depthAfter]
  | other cs => simp only [XNode.nodes]; exact nodesList_depth cs d
private theorem nodesList_depth (l : List XNode) (d : Nat) : depthAfter d (nodesList l) = some d := by
  cases l with
  | nil => simp [nodesList, depthAfter]
  | cons c cs =>
    simp only [nodesList]
    rw [depthAfter_append, nodes_depth c d]
    simp only [Option.bind_some]
    exact nodesList_depth cs d
end

/-- **C11 (readers).** whatever the element tree — any nesting of styled elements, text and line breaks — the node
    list produced for a caption has balanced and properly nested style nodes -/
theorem reader_nodes_balanced (p : XNode) : WellNested p.nodes := nodes_depth p 0

/-- **C11 (SCC reader).** see C05: `formatItalics_balanced` -/
theorem scc_reader_italics_balanced (coll : List Scc.INode) : Scc.Balanced (Scc.styles (Scc.formatItalics coll)) :=
  Scc.formatItalics_balanced coll

/-! ### writers -/

/-- the `open_span` flag after a node list, as a function of the flag before: what the three span writers do to
    their state on a style node (`opens f` = the start node of these flags writes a span) -/
def flagAfter (opens : Flags → Bool) : Bool → List Node → Bool
  | st, [] => st
  | st, .style true f :: l => flagAfter opens (if opens f then true else st) l
  | st, .style false _ :: l => flagAfter opens false l
  | st, _ :: l => flagAfter opens st l

/-- flat (non-nesting) balanced spans: start and end nodes alternate, beginning with a start, none left open -/
def FlatBalanced : Bool → List Node → Prop
  | inside, [] => inside = false
  | inside, .style true _ :: l => inside = false ∧ FlatBalanced true l
  | inside, .style false _ :: l => inside = true ∧ FlatBalanced false l
  | inside, _ :: l => FlatBalanced inside l

/-- **C11 (writer state).** after a caption whose spans are flat and balanced no span is left open, whether or not the
    individual styles have a rendering in the target format -/
theorem no_span_left_open (opens : Flags → Bool) (nodes : List Node) (inside st : Bool)
    (h : FlatBalanced inside nodes) (hst : inside = false → st = false) : flagAfter opens st nodes = false := by
  induction nodes generalizing inside st with
  | nil => simp only [FlatBalanced] at h; simpa [flagAfter] using hst h
  | cons n ns ih =>
    cases n with
    | text s => exact ih inside st h hst
    | brk => exact ih inside st h hst
    | style s f =>
      cases s
      · obtain ⟨_, h2⟩ := h
        exact ih false false h2 (fun _ => rfl)
      · obtain ⟨_, h2⟩ := h
        exact ih true _ h2 (by intro e; cases e)

private theorem dfxpStyles_isEmpty (f : Flags) : (dfxpStyles f).isEmpty = !f.italics := by
  unfold dfxpStyles
  cases f.italics <;> simp

private theorem dfxpSpan_flag (line : Str) (st start : Bool) (styles : Str) :
    (dfxpSpan line st start styles).2 = if start then (if styles.isEmpty then st else true) else false := by
  unfold dfxpSpan
  cases start <;> cases st <;> cases h : styles.isEmpty <;> simp [h]

/-- the DFXP text function's flag is `flagAfter` with "italics has a rendering" -/
theorem dfxpText_flag (st : Bool) (nodes : List Node) :
    (dfxpText st nodes).2 = flagAfter (fun f => f.italics) st nodes := by
  have aux : ∀ (acc : Str × Bool), (nodes.foldl (dfxpStep false) acc).2 = flagAfter (fun f => f.italics) acc.2 nodes := by
    induction nodes with
    | nil => intro acc; rfl
    | cons n ns ih =>
      intro acc
      simp only [List.foldl_cons]
      rw [ih]
      cases n with
      | text s => rfl
      | brk => rfl
      | style s f =>
        obtain ⟨i, b, u⟩ := f
        simp only [dfxpStep, dfxpSpan_flag, dfxpStyles_isEmpty, flagAfter]
        cases s <;> cases i <;> simp [flagAfter]
  simpa [dfxpText] using aux ([], st)

/-- **C11 (DFXP writer).** a caption with flat, balanced spans leaves the DFXP writer with no span open -/
theorem dfxp_span_closed (nodes : List Node) (h : FlatBalanced false nodes) : (dfxpText false nodes).2 = false := by
  rw [dfxpText_flag]
  exact no_span_left_open _ nodes false false h (fun _ => rfl)

/-- **C11 (WebVTT tags are properly nested).** the closing tags of a style node are the opening tags in reverse order -/
def openNames (f : Flags) : List Char := (if f.italics then ['i'] else []) ++ (if f.underline then ['u'] else []) ++ (if f.bold then ['b'] else [])
def closeNames (f : Flags) : List Char := (if f.bold then ['b'] else []) ++ (if f.underline then ['u'] else []) ++ (if f.italics then ['i'] else [])

theorem vtt_tags_mirror (f : Flags) :
    closeNames f = (openNames f).reverse ∧
    vttTags true f = (openNames f).flatMap (fun c => ['<', c, '>']) ∧
    vttTags false f = (closeNames f).flatMap (fun c => ['<', '/', c, '>']) := by
  obtain ⟨i, b, u⟩ := f
  cases i <;> cases b <;> cases u <;> decide

/-- **C11 (every WebVTT cue is balanced).** for a caption whose style nodes are properly nested (`runNodes` accepts them:
    every closing node closes the innermost open span — flat, non-nesting spans in particular), and whatever the layouts
    of its text nodes, i.e. however the writer has to split the caption into cues: the cue texts `_group_cues_by_layout`
    returns are the renderings of token lists in which every closing tag closes the innermost open tag and no tag stays
    open.  A span that runs across a change of layout is closed in the cue that ends and opened again in the next. -/
theorem vtt_cues_balanced (nodes : List LNode) (h : runNodes [] nodes = some []) :
    ∃ cues : List (List Tok × Nat), vttGroups nodes = cues.map (fun g => (render g.1, g.2)) ∧ ∀ g ∈ cues, Balanced g.1 :=
  ⟨vttGroupsT nodes, groups_render nodes, groupsT_balanced nodes h⟩

/-- non-vacuity, and the shape that was written wrongly before the repair 029aea1: text in layout 1, then an italic
    span in layout 2 — two cues, `fox<i></i>` and `<i>hi</i>` -/
example : runNodes [] [.text "fox".toList 1, .style true ⟨true, false, false⟩, .text "hi".toList 2, .style false ⟨true, false, false⟩] = some [] ∧
    vttGroups [.text "fox".toList 1, .style true ⟨true, false, false⟩, .text "hi".toList 2, .style false ⟨true, false, false⟩]
      = [("fox<i></i>".toList, 1), ("<i>hi</i>".toList, 2)] := by
  constructor <;> decide

section SamiInlineStyle
open PcVerif.SamiInline PcVerif.Str

/-- **C11 (SAMI inline style).** a span is italic / underlined / bold after `_translate_style` exactly when it was before or SOME
    declaration of the style attribute says so — wherever in the attribute that declaration stands and whatever else the attribute
    holds (an alignment, a colour, a font, pieces that are no declaration at all) -/
theorem sami_style_flags (s : St) (style : Str) :
    (translateStyle s style).italics = (s.italics || (splitChar ';' style).any (says "font-style" "italic")) ∧
    (translateStyle s style).underline = (s.underline || (splitChar ';' style).any (says "text-decoration" "underline")) ∧
    (translateStyle s style).bold = (s.bold || (splitChar ';' style).any (says "font-weight" "bold")) :=
  ⟨SamiInline.foldl_flag (·.italics) _ SamiInline.decl_italics _ s, SamiInline.foldl_flag (·.underline) _ SamiInline.decl_underline _ s, SamiInline.foldl_flag (·.bold) _ SamiInline.decl_bold _ s⟩

/-- **C11 (the order of the declarations does not matter).** two style attributes whose declarations are a rearrangement of one
    another mark the span the same way -/
theorem sami_style_flags_any_order (s : St) (a b : Str) (h : (splitChar ';' a).Perm (splitChar ';' b)) :
    (translateStyle s a).italics = (translateStyle s b).italics ∧ (translateStyle s a).underline = (translateStyle s b).underline ∧
    (translateStyle s a).bold = (translateStyle s b).bold := by
  obtain ⟨a1, a2, a3⟩ := sami_style_flags s a
  obtain ⟨b1, b2, b3⟩ := sami_style_flags s b
  rw [a1, a2, a3, b1, b2, b3, h.any_eq, h.any_eq, h.any_eq]
  exact ⟨rfl, rfl, rfl⟩

/-- non-vacuity, and the shape one of the seeded changes broke: the alignment first, the italics after it -/
example : (translateStyle {} "text-align:center;font-style:italic;".toList).italics = true ∧
          (translateStyle {} "text-align:center;font-style:italic;".toList).align = some "center".toList := by decide

end SamiInlineStyle

end PcVerif.Props.C11
