/-
  C16 — roll-up and paint-on text is conserved and ordered: the parts of the reader that move text from the buffer
  into captions and that retime captions never create, drop or reorder characters.
-/
import PcVerif.Model.Scc.Finish
namespace PcVerif.Props.C16
open PcVerif PcVerif.Scc

/-- text carried by a list of instruction nodes / by captions -/
def instrText (l : List INode) : Str := l.flatMap fun n => if n.kind == .text then n.text else []
def capsText (l : List Cap) : Str := l.flatMap fun c => c.nodes.flatMap fun n => match n with | .text s _ => s | _ => []

private theorem capsText_append_node (acc : List Cap) (c : Cap) (cn : CNode) (lay : Option Pos) :
    capsText (acc ++ [{ c with nodes := c.nodes ++ [cn], layout := lay }])
      = capsText (acc ++ [c]) ++ (match cn with | .text s _ => s | _ => []) := by
  simp [capsText, List.flatMap_append]

/-- **C16 (conservation at storing).** splitting a formatted instruction list into captions keeps every character
    exactly once and in order -/
theorem toCaps_conserves_text (start stop : Rat) (l : List INode) (acc : List Cap) (hacc : acc ≠ []) :
    capsText (toCaps start stop acc l) = capsText acc ++ instrText l := by
  induction l generalizing acc with
  | nil => simp [toCaps, instrText]
  | cons n ns ih =>
    obtain ⟨init, c, rfl⟩ : ∃ init c, acc = init ++ [c] := by
      refine ⟨acc.dropLast, acc.getLast hacc, ?_⟩
      exact (List.dropLast_concat_getLast hacc).symm
    have hl : (init ++ [c]).getLast? = some c := by simp
    unfold toCaps
    simp only [hl, List.dropLast_concat]
    cases hk : n.kind <;> simp only
    · -- text
      split
      · rename_i he
        rw [ih _ (by simp)]
        simp [instrText, hk, List.isEmpty_iff.mp he]
      · rw [ih _ (by simp), capsText_append_node]
        simp [instrText, hk, List.append_assoc]
    · rw [ih _ (by simp), capsText_append_node]; simp [instrText, hk]
    · rw [ih _ (by simp), capsText_append_node]; simp [instrText, hk]
    · rw [ih _ (by simp), capsText_append_node]; simp [instrText, hk]
    · rw [ih _ (by simp)]
      simp [instrText, hk, capsText]

private theorem map_modify_inv {α β : Type} (g : α → β) (f : α → α) (h : ∀ a, g (f a) = g a) (l : List α) (i : Nat) :
    (l.modify i f).map g = l.map g := by
  induction l generalizing i with
  | nil => simp
  | cons a l ih =>
    cases i with
    | zero => simp [h]
    | succ i => simp [ih]

/-- retiming touches times only -/
theorem setEnd_preserves_nodes (stash : List Cap) (idxs : List Nat) (e : Rat) :
    (setEnd stash idxs e).map (·.nodes) = stash.map (·.nodes) := by
  unfold setEnd
  induction idxs generalizing stash with
  | nil => rfl
  | cons i is ih =>
    simp only [List.foldl_cons]
    rw [ih]
    exact map_modify_inv (fun (x : Cap) => x.nodes) (fun c => { c with stop := e }) (fun _ => rfl) stash i

theorem correctLast_only_times (S : Stash) (e : Rat) : (correctLast S e).stash.map (·.nodes) = S.stash.map (·.nodes) :=
  setEnd_preserves_nodes _ _ _

end PcVerif.Props.C16
