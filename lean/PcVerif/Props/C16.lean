/-
  C16 — roll-up and paint-on text is conserved and ordered: the parts of the reader that move text from the buffer
  into captions and that retime captions never create, drop or reorder characters.
-/
import PcVerif.Model.Scc.Finish
import PcVerif.Lemmas.RollupLemmas
import PcVerif.Lemmas.RollTimeLemmas
namespace PcVerif.Props.C16
open PcVerif PcVerif.Scc

/-- text carried by a list of instruction nodes / by captions -/
def instrText (l : List INode) : Str := l.flatMap fun n => if n.kind == .text then n.text else []
def capsText (l : List Cap) : Str := l.flatMap fun c => c.nodes.flatMap fun n => match n with | .text s _ => s | _ => []

private theorem capsText_append_node (acc : List Cap) (c : Cap) (cn : CNode) (lay : Option Pos) :
    capsText (acc ++ [{ c with nodes := c.nodes ++ [cn], layout := lay }])
      = capsText (acc ++ [c]) ++ (match cn with | .text s _ => s | _ => []) := by
  simp [capsText, List.flatMap_append]

/-- **C16 (conservation at storing).** splitting a formatted instruction list into captions keeps every character
    exactly once and in order -/
theorem toCaps_conserves_text (start stop : Rat) (l : List INode) (acc : List Cap) (hacc : acc ≠ []) :
    capsText (toCaps start stop acc l) = capsText acc ++ instrText l := by
  induction l generalizing acc with
  | nil => simp [toCaps, instrText]
  | cons n ns ih =>
    obtain ⟨init, c, rfl⟩ : ∃ init c, acc = init ++ [c] := by
      refine ⟨acc.dropLast, acc.getLast hacc, ?_⟩
      exact (List.dropLast_concat_getLast hacc).symm
    have hl : (init ++ [c]).getLast? = some c := by simp
    unfold toCaps
    simp only [hl, List.dropLast_concat]
    cases hk : n.kind <;> simp only
    · -- text
      split
      · rename_i he
        rw [ih _ (by simp)]
        simp [instrText, hk, List.isEmpty_iff.mp he]
      · rw [ih _ (by simp), capsText_append_node]
        simp [instrText, hk, List.append_assoc]
    · rw [ih _ (by simp), capsText_append_node]; simp [instrText, hk]
    · rw [ih _ (by simp), capsText_append_node]; simp [instrText, hk]
    · rw [ih _ (by simp), capsText_append_node]; simp [instrText, hk]
    · rw [ih _ (by simp)]
      simp [instrText, hk, capsText]

private theorem map_modify_inv {α β : Type} (g : α → β) (f : α → α) (h : ∀ a, g (f a) = g a) (l : List α) (i : Nat) :
    (l.modify i f).map g = l.map g := by
  induction l generalizing i with
  | nil => simp
  | cons a l ih =>
    cases i with
    | zero => simp [h]
    | succ i => simp [ih]

/-- retiming touches times only -/
theorem setEnd_preserves_nodes (stash : List Cap) (idxs : List Nat) (e : Rat) :
    (setEnd stash idxs e).map (·.nodes) = stash.map (·.nodes) := by
  unfold setEnd
  induction idxs generalizing stash with
  | nil => rfl
  | cons i is ih =>
    simp only [List.foldl_cons]
    rw [ih]
    exact map_modify_inv (fun (x : Cap) => x.nodes) (fun c => { c with stop := e }) (fun _ => rfl) stash i

theorem correctLast_only_times (S : Stash) (e : Rat) : (correctLast S e).stash.map (·.nodes) = S.stash.map (·.nodes) :=
  setEnd_preserves_nodes _ _ _

/-! ### from the buffer into the stash -/

theorem instrText_eq (l : List INode) : instrText l = itext l := by
  induction l with
  | nil => rfl
  | cons n ns ih => simp [instrText, itext] at ih ⊢; rw [ih]

private theorem capsText_nodes (a b : List Cap) (h : a.map (·.nodes) = b.map (·.nodes)) : capsText a = capsText b := by
  have : ∀ l : List Cap, capsText l = (l.map (·.nodes)).flatMap (fun ns => ns.flatMap fun n => match n with | .text s _ => s | _ => []) := by
    intro l; simp [capsText, List.flatMap_map]
  rw [this a, this b, h]

private theorem capsText_filter (l : List Cap) : capsText (l.filter fun c => !c.nodes.isEmpty) = capsText l := by
  induction l with
  | nil => rfl
  | cons c cs ih =>
    by_cases h : c.nodes.isEmpty = true
    · simp only [List.filter_cons, h, Bool.not_true, Bool.false_eq_true, if_false, ih]
      simp [capsText, List.isEmpty_iff.mp h]
    · simp only [List.filter_cons, h, Bool.not_false, if_true]
      simp only [capsText, List.flatMap_cons] at ih ⊢
      rw [ih]

/-- **C16 (storing a buffer).** `create_and_store` appends exactly the visible characters of the buffer to the stash —
    whatever the buffer holds (italics, repositionings, breaks, trailing blanks) and whatever retiming it triggers -/
theorem store_conserves_text (S : Stash) (c : Creator) (a b : Rat) :
    vis (capsText (store S c a b).stash) = vis (capsText S.stash) ++ vis (itext c.coll) := by
  unfold store
  by_cases he : c.isEmpty = true
  · -- nothing displayable in the buffer: nothing stored, and nothing visible was in it
    have hv : itext c.coll = [] := by
      have : ∀ l : List INode, (!l.any fun n => !n.text.isEmpty) = true → itext l = [] := by
        intro l
        induction l with
        | nil => intro _; rfl
        | cons n ns ih =>
          intro h
          simp only [List.any_cons, Bool.not_or, Bool.and_eq_true, Bool.not_not, List.isEmpty_iff] at h
          simp [itext, h.1, ih (by simpa using h.2)]
      exact this c.coll he
    simp [he, hv, vis]
  · simp only [he, Bool.false_eq_true, if_false]
    have hnew : capsText ((toCaps a b [{ start := a, stop := b }] (formatItalics c.coll)).filter fun cp => !cp.nodes.isEmpty)
        = itext (formatItalics c.coll) := by
      rw [capsText_filter, toCaps_conserves_text _ _ _ _ (by simp), instrText_eq]
      simp [capsText]
    have hold : ∀ st : List Cap, st.map (·.nodes) = S.stash.map (·.nodes) → 
        vis (capsText (st ++ (toCaps a b [{ start := a, stop := b }] (formatItalics c.coll)).filter fun cp => !cp.nodes.isEmpty))
          = vis (capsText S.stash) ++ vis (itext c.coll) := by
      intro st hst
      have : capsText (st ++ (toCaps a b [{ start := a, stop := b }] (formatItalics c.coll)).filter fun cp => !cp.nodes.isEmpty)
          = capsText st ++ itext (formatItalics c.coll) := by
        rw [← hnew]; simp [capsText]
      rw [this, vis_append, ivis_formatItalics, capsText_nodes st S.stash hst]
    -- whichever branch retimes the last batch, the stash keeps its nodes
    split
    · split
      · split
        · split
          · exact hold _ (setEnd_preserves_nodes _ _ _)
          · exact hold _ rfl
        · exact hold _ rfl
      · exact hold _ rfl
    · exact hold _ rfl

/-- **C16 (roll-up flush).** at a carriage return the visible characters of the roll-up buffer move into the stash, in
    order, and the buffer is left empty; the retiming that follows touches times only -/
theorem rollUp_conserves_text (r : Reader) :
    vis (capsText (rollUp r).S.stash) = vis (capsText r.S.stash) ++ vis (itext r.buf.coll) := by
  unfold rollUp
  simp only [Reader.now]
  have key : ∀ (r' : Reader) (t : Rat), capsText (correctLast r'.S t).stash = capsText r'.S.stash := by
    intro r' t
    exact capsText_nodes _ _ (correctLast_only_times _ _)
  split <;> (simp only [key]; cases r.active <;> simp [Reader.setBuf, store_conserves_text])

/-- **C16 (characters enter the buffer once).** `add_chars` extends the text of the buffer by exactly the characters of
    the word, whatever nodes the position tracker makes it insert first (break, repositioning, fresh text node) -/
theorem addChars_appends_text (c : Creator) (t : Tracker) (chars : Str) :
    itext (addChars c t chars).1.coll = itext c.coll ++ chars := itext_addChars c t chars

/-! ### word by word -/

/-- visible text a roll-up / paint-on reader holds: what is stored already, then what is in the active buffer -/
def heldText (r : Reader) : Str := vis (capsText r.S.stash) ++ vis (itext r.buf.coll)

/-- **C16 (one character word).** a word of two basic characters extends the held text by exactly these characters -/
theorem word_basic_held (r : Reader) (w : String) (nxt : Option String) (a b : String) (h : BasicWord w a b) :
    heldText (word r w nxt) = heldText r ++ vis (a.toList ++ b.toList) := by
  obtain ⟨h1, h2, _⟩ := word_basic r w nxt a b h
  unfold heldText
  rw [h1, h2, vis_append, List.append_assoc]

example : BasicWord "c1c2" "A" "B" := by
  constructor <;> decide +kernel

private theorem heldText_congr (r r' : Reader) (hS : r'.S = r.S) (hb : r'.buf = r.buf) : heldText r' = heldText r := by
  unfold heldText; rw [hS, hb]

private theorem heldText_frames (x : Reader) (n : Nat) : heldText { x with frames := n } = heldText x := by
  unfold heldText
  cases h : x.active <;> simp [Reader.buf, h]

/-- **C16 (carriage return).** the roll-up carriage return (first copy) keeps the held text: the buffer's characters
    move into the stash, nothing is lost or repeated -/
theorem word_cr_held (r : Reader) (nxt : Option String) (hl : r.lastCmd ≠ "94ad") :
    heldText (word r "94ad" nxt) = heldText r := by
  have c1 : isCommand "94ad" = true := by decide +kernel
  have c2 : isPac "94ad" = false := by decide +kernel
  have c3 : isCueStarting "94ad" = false := by decide +kernel
  have c4 : tabOffset "94ad" = none := by decide +kernel
  have c5 : ("94ad" == r.lastCmd) = false := by
    simp only [beq_eq_false_iff_ne, ne_eq]; exact fun e => hl e.symm
  have hd : handleDouble r "94ad" = (false, { r with lastCmd := "94ad" }) := by
    unfold handleDouble
    simp [c1, c2, c3, c4, c5]
  have hc : ∀ r' : Reader, command r' "94ad" nxt = if r'.buf.isEmpty then r' else rollUp r' := by
    intro r'; unfold command; simp
  have hw : word r "94ad" nxt =
      { (if ({ r with lastCmd := "94ad" } : Reader).buf.isEmpty then ({ r with lastCmd := "94ad" } : Reader) else rollUp { r with lastCmd := "94ad" }) with
        frames := (if ({ r with lastCmd := "94ad" } : Reader).buf.isEmpty then ({ r with lastCmd := "94ad" } : Reader) else rollUp { r with lastCmd := "94ad" }).frames + 1 } := by
    unfold word
    rw [hd]
    simp only [Bool.false_eq_true, if_false, c1, Bool.true_or, if_true, hc]
  rw [hw, heldText_frames]
  have hb : ({ r with lastCmd := "94ad" } : Reader).buf = r.buf := by cases hh : r.active <;> simp [Reader.buf, hh]
  by_cases he : r.buf.isEmpty = true
  · rw [hb, if_pos he]
    exact heldText_congr _ _ rfl hb
  · rw [hb, if_neg he]
    unfold heldText
    rw [rollUp_conserves_text, hb]
    have hB : (rollUp { r with lastCmd := "94ad" }).buf.coll = [] := by
      unfold rollUp Reader.now
      cases hh : r.active <;> (simp only [Reader.setBuf, hh]; split <;> simp [Reader.buf, hh])
    rw [hB]
    simp [itext, vis]

/-- the second copy of a doubled carriage return is dropped: nothing changes -/
theorem word_cr_repeated_held (r : Reader) (nxt : Option String) (hl : r.lastCmd = "94ad") :
    heldText (word r "94ad" nxt) = heldText r := by
  have c1 : isCommand "94ad" = true := by decide +kernel
  have c3 : isCueStarting "94ad" = false := by decide +kernel
  have hd : handleDouble r "94ad" = (true, { r with lastCmd := "" }) := by
    unfold handleDouble
    simp [c1, c3, hl]
  unfold word
  rw [hd]
  simp only [if_true]
  rw [heldText_frames]
  exact heldText_congr _ _ rfl (by cases hh : r.active <;> simp [Reader.buf, hh])

/-- a stream word of a roll-up row: two basic characters, or the carriage return -/
inductive RollWord
  | chars (w a b : String) (h : BasicWord w a b)
  | cr

def RollWord.code : RollWord → String
  | .chars w _ _ _ => w
  | .cr => "94ad"

def RollWord.text : RollWord → Str
  | .chars _ a b _ => a.toList ++ b.toList
  | .cr => []

/-- **C16 (a whole roll-up row sequence).** however many character words and carriage returns (single or doubled)
    follow one another, from any reader state: the visible text held by the reader — stored captions, then the
    buffer — grows by exactly the transmitted characters, in transmission order; none is lost, repeated or moved -/
theorem rollup_stream_conserves (ws : List (RollWord × Option String)) : ∀ (r : Reader),
    heldText (ws.foldl (fun r p => word r p.1.code p.2) r) = heldText r ++ vis (ws.flatMap (·.1.text)) := by
  induction ws with
  | nil => intro r; simp [vis]
  | cons p ps ih =>
    intro r
    simp only [List.foldl_cons, List.flatMap_cons]
    rw [ih]
    obtain ⟨rw_, nxt⟩ := p
    cases rw_ with
    | chars w a b h =>
      simp only [RollWord.code, RollWord.text]
      rw [word_basic_held r w nxt a b h]
      simp only [vis_append, List.append_assoc]
    | cr =>
      simp only [RollWord.code, RollWord.text]
      by_cases hl : r.lastCmd = "94ad"
      · rw [word_cr_repeated_held r nxt hl]; simp
      · rw [word_cr_held r nxt hl]; simp

/-- **C16 (each caption ends exactly when the next one begins).** at a roll-up carriage return the row that rolls out is
    stored from the time of the previous carriage return to the instant of this one — all the captions made from it carry
    exactly these two times — and that instant becomes the start of the next row -/
theorem rollup_rows_contiguous (r : Reader) (t : Rat) (hn : timeOf r.tc r.frames r.off = some t) (hne : r.buf.isEmpty = false) :
    (rollUp r).time = t ∧
    ∀ i ∈ (rollUp r).S.editing, ∃ c, (rollUp r).S.stash[i]? = some c ∧ c.start = r.time ∧ c.stop = t :=
  rollUp_contiguous r t hn hne

/-- what `create_and_store` appends carries exactly the start and end it was given, whatever the buffer holds -/
theorem stored_captions_carry_times (S : Stash) (c : Creator) (start stop : Rat) (hne : c.isEmpty = false) :
    ∀ i ∈ (store S c start stop).editing, ∃ cap, (store S c start stop).stash[i]? = some cap ∧ cap.start = start ∧ cap.stop = stop :=
  store_new_times S c start stop hne

end PcVerif.Props.C16
