/-
  C16 — roll-up and paint-on text is conserved and ordered: the parts of the reader that move text from the buffer
  into captions and that retime captions never create, drop or reorder characters.
-/
import PcVerif.Model.Scc.Finish
import PcVerif.Lemmas.RollupLemmas
namespace PcVerif.Props.C16
open PcVerif PcVerif.Scc

/-- text carried by a list of instruction nodes / by captions -/
def instrText (l : List INode) : Str := l.flatMap fun n => if n.kind == .text then n.text else []
def capsText (l : List Cap) : Str := l.flatMap fun c => c.nodes.flatMap fun n => match n with | .text s _ => s | _ => []

private theorem capsText_append_node (acc : List Cap) (c : Cap) (cn : CNode) (lay : Option Pos) :
    capsText (acc ++ [{ c with nodes := c.nodes ++ [cn], layout := lay }])
      = capsText (acc ++ [c]) ++ (match cn with | .text s _ => s | _ => []) := by
  simp [capsText, List.flatMap_append]

/-- **C16 (conservation at storing).** splitting a formatted instruction list into captions keeps every character
    exactly once and in order -/
theorem toCaps_conserves_text (start stop : Rat) (l : List INode) (acc : List Cap) (hacc : acc ≠ []) :
    capsText (toCaps start stop acc l) = capsText acc ++ instrText l := by
  induction l generalizing acc with
  | nil => simp [toCaps, instrText]
  | cons n ns ih =>
    obtain ⟨init, c, rfl⟩ : ∃ init c, acc = init ++ [c] := by
      refine ⟨acc.dropLast, acc.getLast hacc, ?_⟩
      exact (List.dropLast_concat_getLast hacc).symm
    have hl : (init ++ [c]).getLast? = some c := by simp
    unfold toCaps
    simp only [hl, List.dropLast_concat]
    cases hk : n.kind <;> simp only
    · -- text
      split
      · rename_i he
        rw [ih _ (by simp)]
        simp [instrText, hk, List.isEmpty_iff.mp he]
      · rw [ih _ (by simp), capsText_append_node]
        simp [instrText, hk, List.append_assoc]
    · rw [ih _ (by simp), capsText_append_node]; simp [instrText, hk]
    · rw [ih _ (by simp), capsText_append_node]; simp [instrText, hk]
    · rw [ih _ (by simp), capsText_append_node]; simp [instrText, hk]
    · rw [ih _ (by simp)]
      simp [instrText, hk, capsText]

private theorem map_modify_inv {α β : Type} (g : α → β) (f : α → α) (h : ∀ a, g (f a) = g a) (l : List α) (i : Nat) :
    (l.modify i f).map g = l.map g := by
  induction l generalizing i with
  | nil => simp
  | cons a l ih =>
    cases i with
    | zero => simp [h]
    | succ i => simp [ih]

/-- retiming touches times only -/
theorem setEnd_preserves_nodes (stash : List Cap) (idxs : List Nat) (e : Rat) :
    (setEnd stash idxs e).map (·.nodes) = stash.map (·.nodes) := by
  unfold setEnd
  induction idxs generalizing stash with
  | nil => rfl
  | cons i is ih =>
    simp only [List.foldl_cons]
    rw [ih]
    exact map_modify_inv (fun (x : Cap) => x.nodes) (fun c => { c with stop := e }) (fun _ => rfl) stash i

theorem correctLast_only_times (S : Stash) (e : Rat) : (correctLast S e).stash.map (·.nodes) = S.stash.map (·.nodes) :=
  setEnd_preserves_nodes _ _ _

/-! ### from the buffer into the stash -/

theorem instrText_eq (l : List INode) : instrText l = itext l := by
  induction l with
  | nil => rfl
  | cons n ns ih => simp [instrText, itext] at ih ⊢; rw [ih]

private theorem capsText_nodes (a b : List Cap) (h : a.map (·.nodes) = b.map (·.nodes)) : capsText a = capsText b := by
  have : ∀ l : List Cap, capsText l = (l.map (·.nodes)).flatMap (fun ns => ns.flatMap fun n => match n with | .text s _ => s | _ => []) := by
    intro l; simp [capsText, List.flatMap_map]
  rw [this a, this b, h]

private theorem capsText_filter (l : List Cap) : capsText (l.filter fun c => !c.nodes.isEmpty) = capsText l := by
  induction l with
  | nil => rfl
  | cons c cs ih =>
    by_cases h : c.nodes.isEmpty = true
    · simp only [List.filter_cons, h, Bool.not_true, Bool.false_eq_true, if_false, ih]
      simp [capsText, List.isEmpty_iff.mp h]
    · simp only [List.filter_cons, h, Bool.not_false, if_true]
      simp only [capsText, List.flatMap_cons] at ih ⊢
      rw [ih]

/-- **C16 (storing a buffer).** `create_and_store` appends exactly the visible characters of the buffer to the stash —
    whatever the buffer holds (italics, repositionings, breaks, trailing blanks) and whatever retiming it triggers -/
theorem store_conserves_text (S : Stash) (c : Creator) (a b : Rat) :
    vis (capsText (store S c a b).stash) = vis (capsText S.stash) ++ vis (itext c.coll) := by
  unfold store
  by_cases he : c.isEmpty = true
  · -- nothing displayable in the buffer: nothing stored, and nothing visible was in it
    have hv : itext c.coll = [] := by
      have : ∀ l : List INode, (!l.any fun n => !n.text.isEmpty) = true → itext l = [] := by
        intro l
        induction l with
        | nil => intro _; rfl
        | cons n ns ih =>
          intro h
          simp only [List.any_cons, Bool.not_or, Bool.and_eq_true, Bool.not_not, List.isEmpty_iff] at h
          simp [itext, h.1, ih (by simpa using h.2)]
      exact this c.coll he
    simp [he, hv, vis]
  · simp only [he, Bool.false_eq_true, if_false]
    have hnew : capsText ((toCaps a b [{ start := a, stop := b }] (formatItalics c.coll)).filter fun cp => !cp.nodes.isEmpty)
        = itext (formatItalics c.coll) := by
      rw [capsText_filter, toCaps_conserves_text _ _ _ _ (by simp), instrText_eq]
      simp [capsText]
    have hold : ∀ st : List Cap, st.map (·.nodes) = S.stash.map (·.nodes) → 
        vis (capsText (st ++ (toCaps a b [{ start := a, stop := b }] (formatItalics c.coll)).filter fun cp => !cp.nodes.isEmpty))
          = vis (capsText S.stash) ++ vis (itext c.coll) := by
      intro st hst
      have : capsText (st ++ (toCaps a b [{ start := a, stop := b }] (formatItalics c.coll)).filter fun cp => !cp.nodes.isEmpty)
          = capsText st ++ itext (formatItalics c.coll) := by
        rw [← hnew]; simp [capsText]
      rw [this, vis_append, ivis_formatItalics, capsText_nodes st S.stash hst]
    -- whichever branch retimes the last batch, the stash keeps its nodes
    split
    · split
      · split
        · split
          · exact hold _ (setEnd_preserves_nodes _ _ _)
          · exact hold _ rfl
        · exact hold _ rfl
      · exact hold _ rfl
    · exact hold _ rfl

/-- **C16 (roll-up flush).** at a carriage return the visible characters of the roll-up buffer move into the stash, in
    order, and the buffer is left empty; the retiming that follows touches times only -/
theorem rollUp_conserves_text (r : Reader) :
    vis (capsText (rollUp r).S.stash) = vis (capsText r.S.stash) ++ vis (itext r.buf.coll) := by
  unfold rollUp
  simp only [Reader.now]
  have key : ∀ (r' : Reader) (t : Rat), capsText (correctLast r'.S t).stash = capsText r'.S.stash := by
    intro r' t
    exact capsText_nodes _ _ (correctLast_only_times _ _)
  split <;> (simp only [key]; cases r.active <;> simp [Reader.setBuf, store_conserves_text])

/-- **C16 (characters enter the buffer once).** `add_chars` extends the text of the buffer by exactly the characters of
    the word, whatever nodes the position tracker makes it insert first (break, repositioning, fresh text node) -/
theorem addChars_appends_text (c : Creator) (t : Tracker) (chars : Str) :
    itext (addChars c t chars).1.coll = itext c.coll ++ chars := itext_addChars c t chars

end PcVerif.Props.C16
