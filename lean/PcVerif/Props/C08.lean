/-
  C08 — any chain of conversions preserves the cue timeline: the time grids of the formats are nested, so a chain
  coarsens to its coarsest format once and a second pass changes nothing.
-/
import PcVerif.Lemmas.SrtRoundTrip
import PcVerif.Lemmas.VttRoundTrip
import PcVerif.Lemmas.MicroDvdRoundTrip
import PcVerif.Lemmas.DfxpHopLemmas
namespace PcVerif.Props.C08

inductive Res | ms | frame
  deriving DecidableEq, Repr

/-- what one write+read hop does to an instant (microseconds): millisecond formats truncate to 1000 us, MicroDVD to
    25 fps frames = 40000 us (readers/writers shown to do exactly this in C01/C02) -/
def coarsen : Res → Nat → Nat
  | .ms, t => t / 1000 * 1000
  | .frame, t => t / 40000 * 40000

theorem coarsen_idempotent (r : Res) (t : Nat) : coarsen r (coarsen r t) = coarsen r t := by
  cases r <;> simp only [coarsen] <;> omega

/-- the grids are nested: frames of milliseconds = frames, milliseconds of frames = frames -/
theorem grids_nested (t : Nat) :
    coarsen .frame (coarsen .ms t) = coarsen .frame t ∧ coarsen .ms (coarsen .frame t) = coarsen .frame t := by
  simp only [coarsen]; omega

def chain (rs : List Res) (t : Nat) : Nat := rs.foldl (fun t r => coarsen r t) t

/-- **C08 (coarsest resolution).** a chain of hops brings every instant to the coarsest grid on the chain, nothing more -/
theorem chain_coarsest (rs : List Res) (t : Nat) :
    chain rs t = if Res.frame ∈ rs then coarsen .frame t else if rs = [] then t else coarsen .ms t := by
  induction rs generalizing t with
  | nil => simp [chain]
  | cons r rs ih =>
    have step : chain (r :: rs) t = chain rs (coarsen r t) := rfl
    rw [step, ih]
    cases r
    · by_cases hf : Res.frame ∈ rs
      · simp [hf, (grids_nested t).1]
      · by_cases he : rs = []
        · simp [he]
        · simp [hf, he, coarsen_idempotent]
    · by_cases hf : Res.frame ∈ rs
      · simp [hf, coarsen_idempotent]
      · by_cases he : rs = []
        · simp [he]
        · simp [hf, he, (grids_nested t).2]

/-- **C08 (no drift).** running the same chain a second time changes nothing -/
theorem second_pass_identity (rs : List Res) (t : Nat) : chain rs (chain rs t) = chain rs t := by
  rw [chain_coarsest rs (chain rs t), chain_coarsest rs t]
  by_cases hf : Res.frame ∈ rs
  · simp [hf, coarsen_idempotent]
  · by_cases he : rs = []
    · simp [he]
    · simp [hf, he, coarsen_idempotent]

/-! ### one real hop, proved end to end on the models of the writer and the reader: SRT -/

open PcVerif in
/-- **C08 (SRT hop).** for every list of cues with visible text (any number of cues, any instants, any nodes) reading
    what `SRTWriter` wrote returns exactly one caption per written cue, in order, with the written instants and the
    writer's text lines — no cue is created, lost, split or merged by the hop -/
theorem srt_hop (capsIn : List RCap)
    (hne : Srt.mergeSame [] capsIn ≠ [])
    (hv : ∀ c ∈ Srt.mergeSame [] capsIn, Srt.textsOf c.nodes ≠ [])
    (hbr : ∀ c ∈ Srt.mergeSame [] capsIn, ∀ t ∈ Srt.textsOf c.nodes, Srt.NoBreak t) :
    Srt.read (Srt.write [capsIn]) = .ok ((Srt.mergeSame [] capsIn).map Srt.readBack) :=
  Srt.srt_write_read capsIn hne hv hbr

open PcVerif in
/-- the instant that comes back from the SRT hop is the abstract `coarsen .ms` of this file (below 24 h) -/
theorem srt_hop_instant (t : Rat) (h : Fmt.wholeMicro t < 86400000000) :
    Srt.msT t = coarsen .ms (Fmt.wholeMicro t) := by
  unfold Srt.msT coarsen
  rw [Nat.mod_eq_of_lt h]

open PcVerif in
/-- the hypotheses of `srt_hop` are satisfiable (a cue with two lines, the second with markup-looking text) -/
example : ∃ c : RCap, Srt.mergeSame [] [c] ≠ [] ∧ (∀ x ∈ Srt.mergeSame [] [c], Srt.textsOf x.nodes ≠ []) ∧
    Srt.textsOf c.nodes = ["hi ".toList, "1 --> 2".toList] :=
  ⟨⟨0, 0, [.text "hi".toList, .brk, .text "".toList, .brk, .text "1 --> 2".toList]⟩, by simp [Srt.mergeSame],
    by intro x hx; simp [Srt.mergeSame] at hx; subst hx; decide, by decide⟩

/-! ### a second real hop: WebVTT -/

open PcVerif in
/-- **C08 (WebVTT hop).** for every list of captions made of text lines — any number of captions, any instants, lines of
    any characters (`&`, `<`, `>`, `-->`, entity-looking and tag-looking text included) as long as a line is not empty,
    has no white space at its ends and no line-break character — reading what `WebVTTWriter` wrote returns exactly these
    captions: the same lines, separated by breaks, and the instants truncated to whole milliseconds.  (Writer model:
    `Model/VttWriter.lean`, tied to the implementation on whole documents by C03's correspondence.) -/
theorem vtt_hop (cs : List VttW.CapIn) (hne : cs ≠ []) (hok : ∀ c ∈ cs, c.OK) :
    Vtt.read {} (VttW.writePlain (cs.map VttW.toRCap)) = .ok (cs.map VttW.readBack) :=
  VttW.vtt_write_read cs hne hok

open PcVerif in
/-- the hypotheses of `vtt_hop` are satisfiable -/
example : VttW.CapIn.OK ((0 : Rat), (1 : Rat), ["Q&A --> <i>".toList, "&lt;x".toList]) := by
  refine ⟨by simp, ?_⟩
  intro t ht
  simp only [List.mem_cons, List.mem_nil_iff, or_false] at ht
  rcases ht with rfl | rfl
  · exact ⟨by decide, ⟨by intro c hc; simp at hc; subst hc; decide, by intro c hc; simp at hc; subst hc; decide⟩,
      by unfold Srt.NoBreak; decide⟩
  · exact ⟨by decide, ⟨by intro c hc; simp at hc; subst hc; decide, by intro c hc; simp at hc; subst hc; decide⟩,
      by unfold Srt.NoBreak; decide⟩

/-! ### a third real hop: MicroDVD -/

open PcVerif in
/-- **C08 (MicroDVD hop).** for every list of captions made of text lines (any number, any instants; a line is not
    empty, has no white space at its ends, no `|` and no line-break character; a caption does not end in frame 0, which
    would spell the frame-rate line `{0}{0}`), reading what `MicroDVDWriter` wrote returns exactly these captions: the
    same lines, and the instants truncated to whole frames of 1/25 s -/
theorem mdvd_hop (cs : List VttW.CapIn) (hne : cs ≠ []) (hok : ∀ c ∈ cs, MicroDvd.CapOK c) :
    MicroDvd.read (MicroDvd.write [cs.map VttW.toRCap]) = .ok (cs.map MicroDvd.readBack) :=
  MicroDvd.mdvd_write_read cs hne hok

/-- **C08 (DFXP hop, instants).** the DFXP reader reads the `begin` / `end` stamp the DFXP writers print for an instant as
    that instant truncated to whole milliseconds — the grid `coarsen` assigns to the format — so a DFXP hop moves an
    instant to the millisecond grid and nothing more -/
theorem dfxp_hop_instant (t : Rat) : Dfxp.timeExpr (Fmt.formatTimestamp t '.') = .ok (Srt.msT t) :=
  Dfxp.dfxp_written_stamp t

/-! ### chains as a whole (session 4): bounded loss, order kept, format order irrelevant, any number of passes -/

/-- a chain never moves an instant forward, and never back by a frame (40 ms) or more; by less than a millisecond when no
    MicroDVD hop is on it -/
theorem chain_loss_bounded (rs : List Res) (t : Nat) :
    chain rs t ≤ t ∧ t < chain rs t + 40000 ∧ (Res.frame ∉ rs → t < chain rs t + 1000) := by
  rw [chain_coarsest]
  by_cases hf : Res.frame ∈ rs
  · simp only [hf, if_true, coarsen, not_true_eq_false, false_implies, and_true]; omega
  · by_cases he : rs = []
    · simp [he]
    · simp only [hf, he, if_false, coarsen, not_false_eq_true, true_implies]; omega

/-- a chain keeps instants in order: a cue that starts before it ends, or before the next one starts, still does -/
theorem chain_monotone (rs : List Res) (t u : Nat) (h : t ≤ u) : chain rs t ≤ chain rs u := by
  rw [chain_coarsest, chain_coarsest]
  by_cases hf : Res.frame ∈ rs
  · simp only [hf, if_true, coarsen]
    exact Nat.mul_le_mul_right _ (Nat.div_le_div_right h)
  · by_cases he : rs = []
    · simp [he, h]
    · simp only [hf, he, if_false, coarsen]
      exact Nat.mul_le_mul_right _ (Nat.div_le_div_right h)

/-- the order of the formats on a chain does not matter, nor how often each occurs: two chains over the same formats
    bring every instant to the same place -/
theorem chain_same_formats (rs rs' : List Res) (h : ∀ r, r ∈ rs ↔ r ∈ rs') (t : Nat) : chain rs t = chain rs' t := by
  rw [chain_coarsest, chain_coarsest]
  have he : rs = [] ↔ rs' = [] := by
    constructor
    · intro e; subst e
      cases rs' with
      | nil => rfl
      | cons a _ => exact absurd ((h a).2 (by simp)) (by simp)
    · intro e; subst e
      cases rs with
      | nil => rfl
      | cons a _ => exact absurd ((h a).1 (by simp)) (by simp)
  simp only [h Res.frame, he]

/-- chains compose: running one chain after another is the chain of both -/
theorem chain_append (rs rs' : List Res) (t : Nat) : chain (rs ++ rs') t = chain rs' (chain rs t) := by
  simp [chain, List.foldl_append]

/-- instants already on the coarsest grid of a chain are fixed points: no drift for any number of further passes -/
theorem chain_passes (rs : List Res) (n : Nat) (t : Nat) :
    chain (List.flatten (List.replicate (n + 1) rs)) t = chain rs t := by
  induction n generalizing t with
  | zero => simp [List.replicate]
  | succ n ih =>
    rw [List.replicate_succ, List.flatten_cons, chain_append, ih, second_pass_identity]

/-- non-vacuity: SRT, MicroDVD, DFXP from 1.234567 s: frame 30 = 1.2 s; the loss is 34567 us < 40000 us -/
example : chain [.ms, .frame, .ms] 1234567 = 1200000 := by decide
/-- **C08 (the cue timeline stays a timeline).** a sorted sequence of instants — the starts and ends of non-overlapping
    cues in order — is still sorted after any chain: no cue comes to start before the previous one ends or to end before
    it starts -/
theorem chain_keeps_timeline_sorted (rs : List Res) (ts : List Nat) (h : ts.Pairwise (· ≤ ·)) :
    (ts.map (chain rs)).Pairwise (· ≤ ·) := by
  rw [List.pairwise_map]
  exact h.imp (fun hab => chain_monotone rs _ _ hab)

/-- two instants at least a frame (40 ms) apart are never brought together by a chain; a millisecond apart when no
    MicroDVD hop is on it: distinct cues stay distinct -/
theorem chain_keeps_apart (rs : List Res) (t u : Nat) :
    (t + 40000 ≤ u → chain rs t < chain rs u) ∧ (Res.frame ∉ rs → t + 1000 ≤ u → chain rs t < chain rs u) := by
  rw [chain_coarsest, chain_coarsest]
  by_cases hf : Res.frame ∈ rs
  · simp only [hf, if_true, coarsen, not_true_eq_false, false_implies, and_true]; omega
  · by_cases he : rs = []
    · subst he; simp; omega
    · simp only [hf, he, if_false, coarsen, not_false_eq_true, true_implies]; omega
end PcVerif.Props.C08
