/-
  C08 — any chain of conversions preserves the cue timeline: the time grids of the formats are nested, so a chain
  coarsens to its coarsest format once and a second pass changes nothing.
-/
namespace PcVerif.Props.C08

inductive Res | ms | frame
  deriving DecidableEq, Repr

/-- what one write+read hop does to an instant (microseconds): millisecond formats truncate to 1000 us, MicroDVD to
    25 fps frames = 40000 us (readers/writers shown to do exactly this in C01/C02) -/
def coarsen : Res → Nat → Nat
  | .ms, t => t / 1000 * 1000
  | .frame, t => t / 40000 * 40000

theorem coarsen_idempotent (r : Res) (t : Nat) : coarsen r (coarsen r t) = coarsen r t := by
  cases r <;> simp only [coarsen] <;> omega

/-- the grids are nested: frames of milliseconds = frames, milliseconds of frames = frames -/
theorem grids_nested (t : Nat) :
    coarsen .frame (coarsen .ms t) = coarsen .frame t ∧ coarsen .ms (coarsen .frame t) = coarsen .frame t := by
  simp only [coarsen]; omega

def chain (rs : List Res) (t : Nat) : Nat := rs.foldl (fun t r => coarsen r t) t

/-- **C08 (coarsest resolution).** a chain of hops brings every instant to the coarsest grid on the chain, nothing more -/
theorem chain_coarsest (rs : List Res) (t : Nat) :
    chain rs t = if Res.frame ∈ rs then coarsen .frame t else if rs = [] then t else coarsen .ms t := by
  induction rs generalizing t with
  | nil => simp [chain]
  | cons r rs ih =>
    have step : chain (r :: rs) t = chain rs (coarsen r t) := rfl
    rw [step, ih]
    cases r
    · by_cases hf : Res.frame ∈ rs
      · simp [hf, (grids_nested t).1]
      · by_cases he : rs = []
        · simp [he]
        · simp [hf, he, coarsen_idempotent]
    · by_cases hf : Res.frame ∈ rs
      · simp [hf, coarsen_idempotent]
      · by_cases he : rs = []
        · simp [he]
        · simp [hf, he, (grids_nested t).2]

/-- **C08 (no drift).** running the same chain a second time changes nothing -/
theorem second_pass_identity (rs : List Res) (t : Nat) : chain rs (chain rs t) = chain rs t := by
  rw [chain_coarsest rs (chain rs t), chain_coarsest rs t]
  by_cases hf : Res.frame ∈ rs
  · simp [hf, coarsen_idempotent]
  · by_cases he : rs = []
    · simp [he]
    · simp [hf, he, coarsen_idempotent]

end PcVerif.Props.C08
