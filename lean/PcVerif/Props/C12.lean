/-
  C12 — positioning survives the DFXP region attributes and maps faithfully to WebVTT cue settings.
-/
import PcVerif.Model.VttPos
import PcVerif.Lemmas.DfxpLayoutLemmas
import PcVerif.Lemmas.RegionLemmas
namespace PcVerif.Props.C12
open PcVerif PcVerif.Geo PcVerif.VttPos PcVerif.DfxpLayout

/-- **C12 (WebVTT arithmetic).** for a percentage layout with origin (x, y), extent width w and padding
    (before b, start s, end e): position = x + s, line = y + b, size = w − s − e -/
theorem vtt_settings_arith (x y w hgt b a s e : Rat) (al : Option Alignment) :
    ofLayout { origin := some ⟨⟨x, .pct⟩, ⟨y, .pct⟩⟩, extent := some ⟨⟨w, .pct⟩, ⟨hgt, .pct⟩⟩,
               padding := some ⟨⟨b, .pct⟩, ⟨a, .pct⟩, ⟨s, .pct⟩, ⟨e, .pct⟩⟩, alignment := al, webvtt := none }
      = .ok { align := (if alignName (match al with | some a => a.h | none => none) = "center".toList then none
                        else some (alignName (match al with | some a => a.h | none => none))),
              position := some ⟨x + s, .pct⟩, line := some ⟨y + b, .pct⟩, size := some ⟨w - s - e, .pct⟩ } := by
  simp only [ofLayout, Size.add, sizeSub, bind, Except.bind, pure, Except.pure, Except.map, Option.map, if_true]
  rfl

/-- without padding the settings are the region's left edge, top edge and width -/
theorem vtt_settings_no_padding (x y w hgt : Rat) :
    ofLayout { origin := some ⟨⟨x, .pct⟩, ⟨y, .pct⟩⟩, extent := some ⟨⟨w, .pct⟩, ⟨hgt, .pct⟩⟩, padding := none, alignment := none, webvtt := none }
      = .ok { align := some "start".toList, position := some ⟨x, .pct⟩, line := some ⟨y, .pct⟩, size := some ⟨w, .pct⟩ } := by
  simp [ofLayout, bind, Except.bind, pure, Except.pure, alignName]

/-- **C12 (align).** `align` is omitted exactly for centred text; absent alignment means start -/
theorem vtt_align_names :
    alignName none = "start".toList ∧ alignName (some .center) = "center".toList ∧
    (∀ h : HAlign, h ≠ .center → alignName (some h) ≠ "center".toList) := by
  refine ⟨rfl, rfl, ?_⟩
  intro h hh
  cases h <;> first | exact absurd rfl hh | decide

/-- **C12 (verbatim).** cue settings read from a WebVTT file are written back verbatim, whatever the writer options -/
theorem vtt_settings_verbatim (rel fit : Bool) (w h : Nat) (l : Layout) (raw : Str) (hr : l.webvtt = some raw) (hne : raw ≠ []) :
    convert rel fit w h (some l) = .ok (' ' :: raw) := by
  have ht : l.truthy = true := by
    cases raw with
    | nil => exact absurd rfl hne
    | cons c cs => simp [Layout.truthy, hr]
  have he : raw.isEmpty = false := by cases raw <;> simp_all
  simp [convert, ht, hr, he]


/-! ### DFXP: layout → region attributes → layout -/

/-- **C12 (DFXP, the attributes of a region).** for EVERY layout with non-negative sizes (any units, any number of decimals, any
    parts absent) — and for no layout at all — the reader builds from the attributes the writer prints for it (`tts:origin`,
    `tts:extent`, `tts:padding`, `tts:textAlign`, `tts:displayAlign`) the same layout: every size is the written one rounded half
    to even to hundredths (what printing keeps), absent parts stay absent, and the alignment's absent parts take the DFXP
    defaults start / after.  Printing of sizes, splitting at blanks, the padding order before-end-after-start and the
    regenerated alignment name tables are all inside this statement. -/
theorem region_attrs_roundtrip (lo : Option Layout) (hnn : ∀ l, lo = some l → NonNegLayout l) :
    readRegion (layoutAttrs lo) = .ok (some (effective lo)) :=
  region_roundtrip lo hnn

/-- **C12 (DFXP, exact).** a layout whose sizes have at most two decimals (percentages like 12.5 % or 33.33 %) comes back
    exactly: same origin, extent and padding, alignment completed with start / after -/
theorem region_attrs_roundtrip_exact (l : Layout) (hh : HundredthsLayout l) (ht : l.truthy = true) :
    readRegion (layoutAttrs (some l)) = .ok (some ⟨l.origin, l.extent, l.padding, some (effAlign l.alignment), none⟩) :=
  region_roundtrip_exact l hh ht

/-- **C12 (DFXP, alignment names).** all 24 combinations of a horizontal and a vertical alignment, each possibly absent: written
    and read back, the alignment is the same with start / after in the absent places -/
theorem alignment_attrs_roundtrip (h : Option HAlign) (v : Option VAlign) :
    internalAlign (orDefault (alignAttrs (some ⟨h, v⟩)).1 (hAttr defaultAlignment.h))
      (orDefault (alignAttrs (some ⟨h, v⟩)).2 (vAttr defaultAlignment.v))
      = some ⟨some (h.getD .start), some (v.getD .bottom)⟩ :=
  align_roundtrip h v

/-- the default region's alignment, as the source says now -/
theorem default_alignment_pinned : defaultAlignment = ⟨some .start, some .bottom⟩ := default_alignment_is

/-- **C12 (DFXP, a layout's region is its own).** whatever layouts a document holds (`layouts`: those of all languages, captions
    and nodes, in order, repeats allowed) and whatever ids its styles use: a layout that occurs is assigned the region made for
    exactly this layout — not the fallback — no other layout is registered under that id, and two different layouts never get
    the same region.  (Equality of layouts is decidable equality of the model; that Python's `==` and `hash` agree with it is
    C18's `layout_eq_iff` / `layout_eq_imp_hash_eq`.) -/
theorem layout_gets_own_region {L : Type} [DecidableEq L] (dflt : String) (taken : List String) (layouts : List L) (l : L)
    (hl : l ∈ layouts) :
    (l, Regions.assign dflt (Regions.regionMap taken layouts) (some l)) ∈ Regions.regionMap taken layouts ∧
    (∀ l', (l', Regions.assign dflt (Regions.regionMap taken layouts) (some l)) ∈ Regions.regionMap taken layouts → l' = l) ∧
    (∀ l', l' ≠ l → l' ∈ layouts →
      Regions.assign dflt (Regions.regionMap taken layouts) (some l') ≠ Regions.assign dflt (Regions.regionMap taken layouts) (some l)) :=
  Regions.assign_own_region dflt taken layouts l hl

/-- non-vacuity: a layout with an origin at (12.5 %, 80 %), an extent and a one-sided alignment meets the hypotheses -/
example : HundredthsLayout ⟨some ⟨⟨mkRat 1250 100, .pct⟩, ⟨mkRat 8000 100, .pct⟩⟩, some ⟨⟨mkRat 7500 100, .pct⟩, ⟨mkRat 1000 100, .pct⟩⟩, none,
    some ⟨some .center, none⟩, none⟩ := by
  refine ⟨?_, ?_, ?_⟩
  · intro p h; cases h; exact ⟨⟨1250, rfl⟩, ⟨8000, rfl⟩⟩
  · intro p h; cases h; exact ⟨⟨7500, rfl⟩, ⟨1000, rfl⟩⟩
  · intro p h; cases h

/-! ### WebVTT settings of partial layouts, as the writer model computes them (session 4) -/

/-- **C12 (WebVTT, origin only).** a layout that is just an origin gives position and line, no size -/
theorem vtt_settings_origin_only (x y : Rat) :
    ofLayout { origin := some ⟨⟨x, .pct⟩, ⟨y, .pct⟩⟩, extent := none, padding := none, alignment := none, webvtt := none }
      = .ok { align := some "start".toList, position := some ⟨x, .pct⟩, line := some ⟨y, .pct⟩, size := none } := by
  simp [ofLayout, bind, Except.bind, pure, Except.pure, alignName]

/-- **C12 (WebVTT, no origin).** without an origin there is no position and no line; the size is the width minus the
    right padding only (the left padding moves a left edge that is not there) -/
theorem vtt_settings_no_origin (w hgt b a s e : Rat) :
    ofLayout { origin := none, extent := some ⟨⟨w, .pct⟩, ⟨hgt, .pct⟩⟩,
               padding := some ⟨⟨b, .pct⟩, ⟨a, .pct⟩, ⟨s, .pct⟩, ⟨e, .pct⟩⟩, alignment := none, webvtt := none }
      = .ok { align := some "start".toList, position := none, line := none, size := some ⟨w - e, .pct⟩ } := by
  simp [ofLayout, bind, Except.bind, pure, Except.pure, alignName, sizeSub, Except.map]

/-- **C12 (WebVTT, mixed units refused).** an absolute left edge with a percentage padding is refused, not added up -/
theorem vtt_settings_mixed_units_refused (x y b a s e : Rat) :
    ofLayout { origin := some ⟨⟨x, .px⟩, ⟨y, .pct⟩⟩, extent := none,
               padding := some ⟨⟨b, .pct⟩, ⟨a, .pct⟩, ⟨s, .pct⟩, ⟨e, .pct⟩⟩, alignment := none, webvtt := none }
      = .error .valueError := by
  simp [ofLayout, bind, Except.bind, Size.add]
end PcVerif.Props.C12
