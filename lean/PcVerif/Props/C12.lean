/-
  C12 — positioning maps faithfully to WebVTT cue settings (arithmetic part).
-/
import PcVerif.Model.VttPos
namespace PcVerif.Props.C12
open PcVerif PcVerif.Geo PcVerif.VttPos

/-- **C12 (WebVTT arithmetic).** for a percentage layout with origin (x, y), extent width w and padding
    (before b, start s, end e): position = x + s, line = y + b, size = w − s − e -/
theorem vtt_settings_arith (x y w hgt b a s e : Rat) (al : Option Alignment) :
    ofLayout { origin := some ⟨⟨x, .pct⟩, ⟨y, .pct⟩⟩, extent := some ⟨⟨w, .pct⟩, ⟨hgt, .pct⟩⟩,
               padding := some ⟨⟨b, .pct⟩, ⟨a, .pct⟩, ⟨s, .pct⟩, ⟨e, .pct⟩⟩, alignment := al, webvtt := none }
      = .ok { align := (if alignName (match al with | some a => a.h | none => none) = "center".toList then none
                        else some (alignName (match al with | some a => a.h | none => none))),
              position := some ⟨x + s, .pct⟩, line := some ⟨y + b, .pct⟩, size := some ⟨w - s - e, .pct⟩ } := by
  simp only [ofLayout, Size.add, sizeSub, bind, Except.bind, pure, Except.pure, Except.map, Option.map, if_true]
  rfl

/-- without padding the settings are the region's left edge, top edge and width -/
theorem vtt_settings_no_padding (x y w hgt : Rat) :
    ofLayout { origin := some ⟨⟨x, .pct⟩, ⟨y, .pct⟩⟩, extent := some ⟨⟨w, .pct⟩, ⟨hgt, .pct⟩⟩, padding := none, alignment := none, webvtt := none }
      = .ok { align := some "start".toList, position := some ⟨x, .pct⟩, line := some ⟨y, .pct⟩, size := some ⟨w, .pct⟩ } := by
  simp [ofLayout, bind, Except.bind, pure, Except.pure, alignName]

/-- **C12 (align).** `align` is omitted exactly for centred text; absent alignment means start -/
theorem vtt_align_names :
    alignName none = "start".toList ∧ alignName (some .center) = "center".toList ∧
    (∀ h : HAlign, h ≠ .center → alignName (some h) ≠ "center".toList) := by
  refine ⟨rfl, rfl, ?_⟩
  intro h hh
  cases h <;> first | exact absurd rfl hh | decide

/-- **C12 (verbatim).** cue settings read from a WebVTT file are written back verbatim, whatever the writer options -/
theorem vtt_settings_verbatim (rel fit : Bool) (w h : Nat) (l : Layout) (raw : Str) (hr : l.webvtt = some raw) (hne : raw ≠ []) :
    convert rel fit w h (some l) = .ok (' ' :: raw) := by
  have ht : l.truthy = true := by
    cases raw with
    | nil => exact absurd rfl hne
    | cons c cs => simp [Layout.truthy, hr]
  have he : raw.isEmpty = false := by cases raw <;> simp_all
  simp [convert, ht, hr, he]

end PcVerif.Props.C12
