/-
  C17: from the words of a caption to the lines of an SCC file — `translateLine` on a line `<time code>\t<words>` is `words` on
  the list of words, and a file of such lines is read line by line.
-/
import PcVerif.Lemmas.PopOnLemmas
import PcVerif.Lemmas.DetectLemmas
import PcVerif.Lemmas.SrtDocLemmas
import PcVerif.Lemmas.SrtRoundTrip
namespace PcVerif.SccW
open Str Scc PcVerif.Props.C16

/-- lower-case hexadecimal digit -/
def isHex (c : Char) : Bool := isAsciiDigit c || ('a' ≤ c && c ≤ 'f')

/-- a code word as written: four lower-case hexadecimal digits -/
structure HexWord (w : String) : Prop where
  len : w.toList.length = 4
  hex : ∀ c ∈ w.toList, isHex c = true

theorem hex_caseless (c : Char) (h : isHex c = true) : Str.Caseless c := by
  unfold isHex isAsciiDigit at h
  simp only [Bool.or_eq_true, Bool.and_eq_true, decide_eq_true_eq] at h
  unfold Str.Caseless
  rcases h with ⟨h1, h2⟩ | ⟨h1, h2⟩
  · have a : c.toNat ≤ 57 := h2
    left; omega
  · have a : 97 ≤ c.toNat := h1
    have b : c.toNat ≤ 102 := h2
    right; omega

theorem hex_not_space (c : Char) (h : isHex c = true) : isSpace c = false := by
  unfold isHex isAsciiDigit at h
  simp only [Bool.or_eq_true, Bool.and_eq_true, decide_eq_true_eq] at h
  have hr : 48 ≤ c.toNat ∧ c.toNat ≤ 102 := by
    rcases h with ⟨h1, h2⟩ | ⟨h1, h2⟩
    · have a : 48 ≤ c.toNat := h1
      have b : c.toNat ≤ 57 := h2
      omega
    · have a : 97 ≤ c.toNat := h1
      have b : c.toNat ≤ 102 := h2
      omega
  unfold isSpace
  have : ∀ n ∈ Generated.isspaceCps, n < 48 ∨ 102 < n := by decide
  cases hc : Generated.isspaceCps.contains c.toNat with
  | false => rfl
  | true =>
    have := this c.toNat (by simpa using hc)
    omega

theorem HexWord.four {w : String} (h : HexWord w) : Four w := ⟨h.len, fun c hc => hex_not_space c (h.hex c hc)⟩

/-- words separated by single blanks -/
def joinWords : List String → Str
  | [] => []
  | [w] => w.toList
  | w :: v :: ws => w.toList ++ ' ' :: joinWords (v :: ws)

theorem split_joinWords : ∀ (ws : List String), ws ≠ [] → (∀ w ∈ ws, ' ' ∉ w.toList) →
    splitChar ' ' (joinWords ws) = ws.map String.toList
  | [], h, _ => absurd rfl h
  | [w], _, h => by simp [joinWords, splitChar_no_sep ' ' _ (h w (by simp))]
  | w :: v :: ws, _, h => by
    simp only [joinWords, List.map_cons]
    rw [splitChar_append_sep ' ' _ _ (h w (by simp)), split_joinWords (v :: ws) (by simp) (fun x hx => h x (by simp [hx]))]
    simp

theorem joinWords_mem : ∀ (ws : List String) (c : Char), c ∈ joinWords ws → c = ' ' ∨ ∃ w ∈ ws, c ∈ w.toList
  | [], c, h => by simp [joinWords] at h
  | [w], c, h => Or.inr ⟨w, by simp, by simpa [joinWords] using h⟩
  | w :: v :: ws, c, h => by
    simp only [joinWords, List.mem_append, List.mem_cons] at h
    rcases h with h | h | h
    · exact Or.inr ⟨w, by simp, h⟩
    · exact Or.inl h
    · rcases joinWords_mem (v :: ws) c h with e | ⟨x, hx, hc⟩
      · exact Or.inl e
      · exact Or.inr ⟨x, by simp [List.mem_cons] at hx ⊢; right; exact hx, hc⟩

/-- the characters of a time code -/
def isStamp (c : Char) : Bool := isAsciiDigit c || c = ':' || c = ';'

theorem takeWhile_append_stop {p : Char → Bool} (a : Str) (c : Char) (rest : Str) (ha : ∀ x ∈ a, p x = true) (hc : p c = false) :
    (a ++ c :: rest).takeWhile p = a := by
  induction a with
  | nil => simp [hc]
  | cons x a ih => simp [ha x (by simp), ih (fun y hy => ha y (by simp [hy]))]

theorem takeWhile_all {p : Char → Bool} (a : Str) (ha : ∀ x ∈ a, p x = true) : a.takeWhile p = a := by
  induction a with
  | nil => rfl
  | cons x a ih => simp [ha x (by simp), ih (fun y hy => ha y (by simp [hy]))]

theorem mem_lstripBy (p : Char → Bool) (c : Char) (hc : p c = false) : ∀ (s : Str), c ∈ s → c ∈ lstripBy p s
  | [], h => by simp at h
  | x :: s, h => by
    unfold lstripBy
    split
    · rename_i hx
      rcases List.mem_cons.mp h with e | e
      · subst e; rw [hc] at hx; exact absurd hx (by decide)
      · exact mem_lstripBy p c hc s e
    · exact h

theorem strip_not_empty (s : Str) (c : Char) (hm : c ∈ s) (hc : isSpace c = false) : (strip s).isEmpty = false := by
  unfold strip stripBy rstripBy
  have h1 := mem_lstripBy isSpace c hc s hm
  have h2 := mem_lstripBy isSpace c hc _ (List.mem_reverse.mpr h1)
  cases h : (lstripBy isSpace (lstripBy isSpace s).reverse).reverse with
  | nil =>
    have : c ∈ (lstripBy isSpace (lstripBy isSpace s).reverse).reverse := List.mem_reverse.mpr h2
    rw [h] at this; simp at this
  | cons _ _ => rfl

/-- **a line of an SCC file.** time code, tab, words separated by blanks: the reader notes the time code, starts counting
    frames at zero and reads the words in order -/
theorem translateLine_words (r : Reader) (ts : Str) (ws : List String) (hts : ∀ c ∈ ts, isStamp c = true) (hne : ws ≠ [])
    (hw : ∀ w ∈ ws, HexWord w) :
    translateLine r (ts ++ '\t' :: joinWords ws) = words { r with tc := String.ofList ts, frames := 0 } ws := by
  obtain ⟨w0, ws', rfl⟩ : ∃ w0 ws', ws = w0 :: ws' := by
    cases ws with
    | nil => exact absurd rfl hne
    | cons a b => exact ⟨a, b, rfl⟩
  have hw0 := hw w0 (by simp)
  obtain ⟨c0, cs0, hc0⟩ : ∃ c0 cs0, w0.toList = c0 :: cs0 := by
    cases h : w0.toList with
    | nil => have := hw0.len; rw [h] at this; simp at this
    | cons a b => exact ⟨a, b, rfl⟩
  have hc0hex : isHex c0 = true := hw0.hex c0 (by rw [hc0]; simp)
  have hj : ∃ tl, joinWords (w0 :: ws') = c0 :: tl := by
    cases ws' with
    | nil => exact ⟨cs0, by simp [joinWords, hc0]⟩
    | cons v vs => exact ⟨cs0 ++ ' ' :: joinWords (v :: vs), by simp [joinWords, hc0]⟩
  obtain ⟨tl, htl⟩ := hj
  -- every character of the line is left alone by lower()
  have hlow : lower (ts ++ '\t' :: joinWords (w0 :: ws')) = ts ++ '\t' :: joinWords (w0 :: ws') := by
    apply Str.lower_caseless
    intro c hc
    simp only [List.mem_append, List.mem_cons] at hc
    rcases hc with h | h | h
    · have := hts c h
      unfold isStamp isAsciiDigit at this
      simp only [Bool.or_eq_true, Bool.and_eq_true, decide_eq_true_eq] at this
      unfold Str.Caseless
      rcases this with (⟨_, h2⟩ | h2) | h2
      · have a : c.toNat ≤ 57 := h2
        left; omega
      · subst h2; left; decide
      · subst h2; left; decide
    · subst h; left; decide
    · rcases joinWords_mem _ c h with e | ⟨x, hx, hcx⟩
      · subst e; left; decide
      · exact hex_caseless c ((hw x hx).hex c hcx)
  have hne' : (strip (ts ++ '\t' :: joinWords (w0 :: ws'))).isEmpty = false :=
    strip_not_empty _ c0 (by rw [htl]; simp) (hex_not_space c0 hc0hex)
  unfold translateLine
  rw [hne', hlow]
  simp only [Bool.false_eq_true, if_false]
  have hsplit : splitLine (ts ++ '\t' :: joinWords (w0 :: ws')) = (ts, joinWords (w0 :: ws')) := by
    unfold splitLine
    have ht : (ts ++ '\t' :: joinWords (w0 :: ws')).takeWhile (fun c => isAsciiDigit c || c = ':' || c = ';') = ts :=
      takeWhile_append_stop ts '\t' _ (fun x hx => by have := hts x hx; unfold isStamp at this; simpa using this) (by decide)
    simp only [ht, List.drop_left']
    have hl : lstripBy isSpace ('\t' :: joinWords (w0 :: ws')) = joinWords (w0 :: ws') := by
      rw [htl]
      have h1 : isSpace '\t' = true := by decide
      have h2 := hex_not_space c0 hc0hex
      simp [lstripBy, h1, h2]
    rw [hl]
    congr 1
    apply takeWhile_all
    intro x hx
    rcases joinWords_mem _ x hx with e | ⟨y, hy, hcy⟩
    · subst e; decide
    · have := hex_not_space x ((hw y hy).hex x hcy)
      have hn : x ≠ '\n' := by intro e; subst e; revert this; decide
      simpa using hn
  rw [hsplit]
  simp only
  rw [split_joinWords (w0 :: ws') (by simp) (fun w hwm hsp => by
    have := hex_not_space ' ' ((hw w hwm).hex ' ' hsp)
    revert this; decide)]
  simp [List.map_map]

/-! ### the words of a caption are hexadecimal words -/

theorem basic_codes_hex : Generated.Scc.charToCode.all (fun e => e.2.toList.length == 2 && e.2.toList.all isHex) = true := by
  decide +kernel

theorem charCode_hex (c : Char) (h : Basic c) : (charCode c).length = 2 ∧ ∀ x ∈ charCode c, isHex x = true := by
  obtain ⟨e, he, _, hc⟩ := charCode_basic c h
  have := List.all_eq_true.mp basic_codes_hex e he
  simp only [Bool.and_eq_true, beq_iff_eq, List.all_eq_true] at this
  rw [hc]
  exact this

theorem rowWords_hex : ∀ (line : List Char), (∀ c ∈ line, Basic c) → ∀ w ∈ rowWords line, HexWord w
  | [], _, w, hw => by simp [rowWords] at hw
  | [a], hb, w, hw => by
    simp only [rowWords, List.mem_singleton] at hw
    subst hw
    obtain ⟨h1, h2⟩ := charCode_hex a (hb a (by simp))
    refine ⟨by simp [h1], ?_⟩
    intro c hc
    simp only [String.toList_ofList, List.mem_append] at hc
    rcases hc with h | h
    · exact h2 c h
    · have : ∀ x ∈ "80".toList, isHex x = true := by decide
      exact this c h
  | a :: b :: rest, hb, w, hw => by
    simp only [rowWords, List.mem_cons] at hw
    rcases hw with rfl | hw
    · obtain ⟨h1, h2⟩ := charCode_hex a (hb a (by simp))
      obtain ⟨h3, h4⟩ := charCode_hex b (hb b (by simp))
      refine ⟨by simp [h1, h3], ?_⟩
      intro c hc
      simp only [String.toList_ofList, List.mem_append] at hc
      rcases hc with h | h
      · exact h2 c h
      · exact h4 c h
    · exact rowWords_hex rest (fun c hc => hb c (by simp [hc])) w hw

def hexWordB (w : String) : Bool := w.toList.length == 4 && w.toList.all isHex

theorem hexWord_of_B (w : String) (h : hexWordB w = true) : HexWord w := by
  unfold hexWordB at h
  simp only [Bool.and_eq_true, beq_iff_eq, List.all_eq_true] at h
  exact ⟨h.1, h.2⟩

theorem pacs_hex : (List.range 15).all (fun i => hexWordB (pacWord (i + 1))) = true := by decide +kernel

theorem pac_hex (row : Nat) (h1 : 1 ≤ row) (h2 : row ≤ 15) : HexWord (pacWord row) := by
  have := List.all_eq_true.mp pacs_hex (row - 1) (List.mem_range.mpr (by omega))
  have e : row - 1 + 1 = row := by omega
  exact hexWord_of_B _ (by simpa [e] using this)

theorem rowsWords_hex : ∀ (lines : List (List Char)) (row : Nat), 1 ≤ row → row + lines.length ≤ 16 →
    (∀ l ∈ lines, ∀ c ∈ l, Basic c) → ∀ w ∈ rowsWords row lines, HexWord w
  | [], _, _, _, _, w, hw => by simp [rowsWords] at hw
  | l :: ls, row, h1, h2, hb, w, hw => by
    simp only [List.length_cons] at h2
    simp only [rowsWords, List.mem_cons, List.mem_append] at hw
    rcases hw with rfl | rfl | hw | hw
    · exact pac_hex row h1 (by omega)
    · exact pac_hex row h1 (by omega)
    · exact rowWords_hex l (hb l (by simp)) w hw
    · exact rowsWords_hex ls (row + 1) (by omega) (by omega) (fun m hm => hb m (by simp [hm])) w hw

theorem captionWords_hex (lines : List (List Char)) (hn : lines.length ≤ 15) (hb : ∀ l ∈ lines, ∀ c ∈ l, Basic c) :
    ∀ w ∈ captionWords lines, HexWord w := by
  intro w hw
  unfold captionWords at hw
  simp only [List.mem_cons, List.mem_append, List.not_mem_nil, or_false] at hw
  have fixed : ∀ x ∈ ["94ae", "9420", "942c", "942f"], HexWord x := by
    intro x hx
    apply hexWord_of_B
    revert x; decide
  rcases hw with rfl | rfl | rfl | rfl | hw | rfl | rfl | rfl | rfl
  · exact fixed _ (by simp)
  · exact fixed _ (by simp)
  · exact fixed _ (by simp)
  · exact fixed _ (by simp)
  · exact rowsWords_hex lines _ (by omega) (by omega) hb w hw
  · exact fixed _ (by simp)
  · exact fixed _ (by simp)
  · exact fixed _ (by simp)
  · exact fixed _ (by simp)

/-! ### a file of captions -/

/-- one caption of a file: its time code, its laid-out lines, and the time code of the line that clears it (if any) -/
structure FileCap where
  ts : Str
  lines : List (List Char)
  clear : Option Str

def FileCap.ok (c : FileCap) : Prop :=
  (∀ x ∈ c.ts, isStamp x = true) ∧ c.lines.length ≤ 15 ∧ (∀ l ∈ c.lines, ∀ x ∈ l, Basic x) ∧
  (∀ t, c.clear = some t → ∀ x ∈ t, isStamp x = true)

/-- the lines the writer puts into the file for one caption (each followed by an empty line) -/
def FileCap.fileLines (c : FileCap) : List Str :=
  [c.ts ++ '\t' :: joinWords (captionWords c.lines), []] ++
    (match c.clear with
     | some t => [t ++ '\t' :: joinWords ["942c", "942c"], []]
     | none => [])

/-- a pop-on reader between two captions -/
def Between (r : Reader) : Prop := r.lastCmd = "" ∧ r.active = .pop ∧ itext r.buf.coll = []

theorem translateLine_empty (r : Reader) : translateLine r [] = r := by
  unfold translateLine
  simp [strip, stripBy, rstripBy, lstripBy]

theorem stamp_fields (r : Reader) (tc : String) : heldQ { r with tc := tc, frames := 0 } = heldQ r ∧
    ({ r with tc := tc, frames := 0 } : Reader).buf = r.buf :=
  ⟨heldQ_congr _ _ rfl rfl (buf_congr _ _ rfl rfl rfl rfl), buf_congr _ _ rfl rfl rfl rfl⟩

theorem fileCap_read (c : FileCap) (hc : c.ok) (r : Reader) (hr : Between r) :
    Between (c.fileLines.foldl translateLine r) ∧ heldQ (c.fileLines.foldl translateLine r) = heldQ r ++ vis c.lines.flatten := by
  obtain ⟨h1, h2, h3, h4⟩ := hc
  obtain ⟨l0, a0, b0⟩ := hr
  -- the caption's own line
  have step1 : ∃ r1, translateLine r (c.ts ++ '\t' :: joinWords (captionWords c.lines)) = r1 ∧ Between r1 ∧
      heldQ r1 = heldQ r ++ vis c.lines.flatten := by
    rw [translateLine_words r c.ts _ h1 (by simp [captionWords]) (captionWords_hex c.lines h2 h3)]
    obtain ⟨s1, s2⟩ := stamp_fields r (String.ofList c.ts)
    obtain ⟨r', e, l', a', b', t'⟩ := caption_read c.lines h2 h3 [] { r with tc := String.ofList c.ts, frames := 0 }
      (Or.inl l0) a0 (by rw [s2]; exact b0)
    rw [List.append_nil] at e
    refine ⟨_, e, ?_, ?_⟩
    · exact ⟨l', a', b'⟩
    · show heldQ (words r' []) = _
      simp only [words]
      rw [t', s1]
  obtain ⟨r1, e1, hb1, t1⟩ := step1
  unfold FileCap.fileLines
  simp only [List.foldl_append, List.foldl_cons, List.foldl_nil, e1, translateLine_empty]
  cases hcl : c.clear with
  | none => exact ⟨hb1, t1⟩
  | some t =>
    simp only [List.foldl_cons, List.foldl_nil, translateLine_empty]
    obtain ⟨l1, a1, b1⟩ := hb1
    have hx : ∀ w ∈ ["942c", "942c"], HexWord w := by
      intro w hw; apply hexWord_of_B; revert w; decide
    rw [translateLine_words r1 t _ (h4 t hcl) (by simp) hx]
    obtain ⟨s1, s2⟩ := stamp_fields r1 (String.ofList t)
    obtain ⟨r2, e2, l2, a2, t2, b2⟩ := edm_pair { r1 with tc := String.ofList t, frames := 0 } [] (Or.inl l1)
    rw [e2]
    simp only [words]
    exact ⟨⟨l2, by rw [a2]; exact a1, by rw [b2, s2]; exact b1⟩, by rw [t2, s1, t1]⟩

theorem file_read : ∀ (caps : List FileCap), (∀ c ∈ caps, c.ok) → ∀ (r : Reader), Between r →
    Between ((caps.flatMap FileCap.fileLines).foldl translateLine r) ∧
    heldQ ((caps.flatMap FileCap.fileLines).foldl translateLine r) = heldQ r ++ vis (caps.flatMap fun c => c.lines.flatten) := by
  intro caps
  induction caps with
  | nil => intro _ r hr; exact ⟨hr, by simp [vis]⟩
  | cons c cs ih =>
    intro h r hr
    obtain ⟨b1, t1⟩ := fileCap_read c (h c (by simp)) r hr
    obtain ⟨b2, t2⟩ := ih (fun x hx => h x (by simp [hx])) _ b1
    simp only [List.flatMap_cons, List.foldl_append]
    exact ⟨b2, by rw [t2, t1, vis_append, List.append_assoc]⟩

/-- the text of a file: the header, an empty line, then the captions' lines, each line ended by a line feed -/
def fileText (caps : List FileCap) : Str :=
  (Generated.Scc.header.toList :: [] :: caps.flatMap FileCap.fileLines).flatMap (· ++ ['\n'])

theorem stamp_noBreak (c : Char) (h : isStamp c = true) : isLineBreak c = false := by
  unfold isStamp isAsciiDigit at h
  simp only [Bool.or_eq_true, Bool.and_eq_true, decide_eq_true_eq] at h
  have hr : 48 ≤ c.toNat ∧ c.toNat ≤ 59 := by
    rcases h with (⟨h1, h2⟩ | h2) | h2
    · have a : 48 ≤ c.toNat := h1
      have b : c.toNat ≤ 57 := h2
      omega
    · subst h2; decide
    · subst h2; decide
  unfold isLineBreak
  have : ∀ n ∈ Generated.linebreakCps, n < 48 ∨ 102 < n := by decide
  cases hc : Generated.linebreakCps.contains c.toNat with
  | false => rfl
  | true => have := this c.toNat (by simpa using hc); omega

theorem hex_noBreak (c : Char) (h : isHex c = true) : isLineBreak c = false := by
  unfold isHex isAsciiDigit at h
  simp only [Bool.or_eq_true, Bool.and_eq_true, decide_eq_true_eq] at h
  have hr : 48 ≤ c.toNat ∧ c.toNat ≤ 102 := by
    rcases h with ⟨h1, h2⟩ | ⟨h1, h2⟩
    · have a : 48 ≤ c.toNat := h1
      have b : c.toNat ≤ 57 := h2
      omega
    · have a : 97 ≤ c.toNat := h1
      have b : c.toNat ≤ 102 := h2
      omega
  unfold isLineBreak
  have : ∀ n ∈ Generated.linebreakCps, n < 48 ∨ 102 < n := by decide
  cases hc : Generated.linebreakCps.contains c.toNat with
  | false => rfl
  | true => have := this c.toNat (by simpa using hc); omega

theorem wordsLine_noBreak (ts : Str) (ws : List String) (hts : ∀ c ∈ ts, isStamp c = true) (hw : ∀ w ∈ ws, HexWord w) :
    Srt.NoBreak (ts ++ '\t' :: joinWords ws) := by
  intro c hc
  simp only [List.mem_append, List.mem_cons] at hc
  rcases hc with h | h | h
  · exact stamp_noBreak c (hts c h)
  · subst h; decide
  · rcases joinWords_mem _ c h with e | ⟨x, hx, hcx⟩
    · subst e; decide
    · exact hex_noBreak c ((hw x hx).hex c hcx)

theorem fileLines_noBreak (c : FileCap) (hc : c.ok) : ∀ l ∈ c.fileLines, Srt.NoBreak l := by
  obtain ⟨h1, h2, h3, h4⟩ := hc
  intro l hl
  unfold FileCap.fileLines at hl
  simp only [List.mem_append, List.mem_cons, List.not_mem_nil, or_false] at hl
  rcases hl with (rfl | rfl) | hl
  · exact wordsLine_noBreak _ _ h1 (captionWords_hex c.lines h2 h3)
  · intro x hx; simp at hx
  · cases hcl : c.clear with
    | none => simp [hcl] at hl
    | some t =>
      simp only [hcl, List.mem_cons, List.not_mem_nil, or_false] at hl
      rcases hl with rfl | rfl
      · exact wordsLine_noBreak _ _ (h4 t hcl) (by intro w hw; apply hexWord_of_B; revert w; decide)
      · intro x hx; simp at hx

/-- **C17 (a written file re-reads to the same characters).** for every file of pop-on captions laid out as the writer lays
    them out — header, then per caption one line `<time code>\t94ae 94ae 9420 9420 <rows> 942c 942c 942f 942f` with each row's
    preamble twice and its characters two per word, optionally followed by a clearing line `<time code>\t942c 942c`, any time
    codes, any number of captions, 0–15 rows of characters of the basic table, any reading offset — what the reader model
    holds at the end (stored captions, then the caption still queued) is exactly the characters of the captions: in the
    order sent, none lost, none doubled, none taken for a command -/
theorem file_rereads (caps : List FileCap) (hok : ∀ c ∈ caps, c.ok) (off : Rat) :
    heldQ (run (fileText caps) off) = vis (caps.flatMap fun c => c.lines.flatten) := by
  unfold run fileText
  simp only
  rw [Srt.splitlines_terminated]
  · simp only [List.drop_succ_cons, List.drop_zero, List.foldl_cons, translateLine_empty]
    have hb0 : Between ({ off := off * 1000000 } : Reader) := ⟨rfl, rfl, rfl⟩
    obtain ⟨⟨_, a, _⟩, t⟩ := file_read caps hok _ hb0
    generalize (caps.flatMap FileCap.fileLines).foldl translateLine ({ off := off * 1000000 } : Reader) = rf at a t
    have h0 : heldQ ({ off := off * 1000000 } : Reader) = [] := rfl
    rw [h0, List.nil_append] at t
    rw [a]
    unfold flush
    simp only
    split
    · exact t
    · rw [(popOn_held rf 0).1]; exact t
  · intro l hl
    simp only [List.mem_cons, List.mem_flatMap] at hl
    rcases hl with rfl | rfl | ⟨c, hc, hl⟩
    · intro x hx
      have : ∀ y ∈ Generated.Scc.header.toList, isLineBreak y = false := by decide
      exact this x hx
    · intro x hx; simp at hx
    · exact fileLines_noBreak c (hok c hc) l hl

/-! ### what the writer model writes is such a file -/

theorem pacFor_word (row : Nat) : pacFor row = (pacWord row).toList ++ [' '] := by
  unfold pacFor pacWord
  rfl

theorem words_text_len : ∀ (ws : List String), (∀ w ∈ ws, HexWord w) →
    (ws.flatMap fun w => w.toList ++ [' ']).length % 5 = 0
  | [], _ => rfl
  | w :: ws, h => by
    have := words_text_len ws (fun x hx => h x (by simp [hx]))
    simp only [List.flatMap_cons, List.length_append, (h w (by simp)).len, List.length_singleton]
    omega

theorem rowsCode_words : ∀ (lines : List (List Char)) (row : Nat) (code : Str), 1 ≤ row → row + lines.length ≤ 16 →
    (∀ l ∈ lines, ∀ c ∈ l, Basic c) → code.length % 5 = 0 →
    rowsCode code row lines = code ++ (rowsWords row lines).flatMap fun w => w.toList ++ [' ']
  | [], _, code, _, _, _, _ => by simp [rowsCode, rowsWords]
  | l :: ls, row, code, h1, h2, hb, hc => by
    simp only [List.length_cons] at h2
    have hp := (pac_hex row h1 (by omega)).len
    have hl : lineCode code row l = code ++ pacFor row ++ pacFor row ++ (rowWords l).flatMap (fun w => w.toList ++ [' ']) := by
      unfold lineCode
      exact line_words l (hb l (by simp)) _ (by simp [pacFor_word, hp]; omega)
    have hlen : (lineCode code row l).length % 5 = 0 := by
      rw [hl]
      have := words_text_len (rowWords l) (rowWords_hex l (hb l (by simp)))
      simp only [List.length_append, pacFor_word, hp, List.length_singleton]
      omega
    unfold rowsCode
    rw [rowsCode_words ls (row + 1) _ (by omega) (by omega) (fun m hm => hb m (by simp [hm])) hlen, hl]
    simp only [rowsWords, List.flatMap_cons, List.flatMap_append, pacFor_word, List.append_assoc]

theorem textToCode_words (lines : List (List Char)) (hn : lines.length ≤ 15) (hb : ∀ l ∈ lines, ∀ c ∈ l, Basic c) :
    textToCode lines = (rowsWords (16 - lines.length) lines).flatMap fun w => w.toList ++ [' '] := by
  unfold textToCode
  rw [rowsCode_words lines _ [] (by omega) (by omega) hb rfl]
  rfl

theorem joinWords_append : ∀ (a b : List String), b ≠ [] → joinWords (a ++ b) = (a.flatMap fun w => w.toList ++ [' ']) ++ joinWords b
  | [], b, _ => by simp
  | [w], b, hb => by
    cases b with
    | nil => exact absurd rfl hb
    | cons v vs => simp [joinWords]
  | w :: v :: ws, b, hb => by
    have := joinWords_append (v :: ws) b hb
    simp only [List.cons_append] at this ⊢
    simp only [joinWords, this, List.flatMap_cons, List.append_assoc, List.cons_append, List.nil_append]

/-- the line the writer writes for a caption is time code, tab, the caption's words -/
theorem caption_line_text (lines : List (List Char)) (hn : lines.length ≤ 15) (hb : ∀ l ∈ lines, ∀ c ∈ l, Basic c) :
    "94ae 94ae 9420 9420 ".toList ++ textToCode lines ++ "942c 942c 942f 942f".toList = joinWords (captionWords lines) := by
  have e : captionWords lines = ["94ae", "94ae", "9420", "9420"] ++ (rowsWords (16 - lines.length) lines ++ ["942c", "942c", "942f", "942f"]) := rfl
  rw [e, joinWords_append _ _ (by simp), joinWords_append _ _ (by simp), textToCode_words lines hn hb]
  rfl

theorem two_stamp (n : Nat) : ∀ c ∈ two n, isStamp c = true := by
  have hd : Digits (two n) := by
    unfold two
    by_cases h : n < 100
    · exact (Srt.pad2_digits n h).1
    · unfold Fmt.pad2; rw [if_neg h]; exact Srt.digits_ofNat n
  intro c hc
  have := allAsciiDigits_mem _ hd.2 c hc
  unfold isStamp; simp [this]

theorem formatTimestamp_stamp (us : Rat) : ∀ c ∈ formatTimestamp us, isStamp c = true := by
  intro c hc
  unfold formatTimestamp at hc
  simp only [List.mem_append, List.mem_cons] at hc
  have hcol : isStamp ':' = true := by decide
  rcases hc with ((h | h | h) | h | h) | h | h
  · exact two_stamp _ c h
  · subst h; exact hcol
  · exact two_stamp _ c h
  · subst h; exact hcol
  · exact two_stamp _ c h
  · subst h; exact hcol
  · exact two_stamp _ c h

/-- a cue together with the lines its code was made from -/
structure LCue where
  lines : List (List Char)
  start : Rat
  stop : Option Rat

def LCue.cue (c : LCue) : Cue := ⟨textToCode c.lines, c.start, c.stop⟩
def LCue.fileCap (c : LCue) : FileCap := ⟨formatTimestamp c.start, c.lines, c.stop.map formatTimestamp⟩
def LCue.ok (c : LCue) : Prop := c.lines.length ≤ 15 ∧ ∀ l ∈ c.lines, ∀ x ∈ l, Basic x

theorem LCue.fileCap_ok (c : LCue) (h : c.ok) : c.fileCap.ok := by
  refine ⟨formatTimestamp_stamp _, h.1, h.2, ?_⟩
  intro t ht
  unfold LCue.fileCap at ht
  simp only [Option.map_eq_some_iff] at ht
  obtain ⟨e, _, rfl⟩ := ht
  exact formatTimestamp_stamp e

theorem writeCues_text : ∀ (cs : List LCue), (∀ c ∈ cs, c.ok) →
    writeCues (cs.map LCue.cue) = ((cs.map LCue.fileCap).flatMap FileCap.fileLines).flatMap (· ++ ['\n'])
  | [], _ => rfl
  | c :: cs, h => by
    have hc := h c (by simp)
    have ih := writeCues_text cs (fun x hx => h x (by simp [hx]))
    simp only [List.map_cons, writeCues, List.flatMap_cons, List.flatMap_append, ih]
    have e := caption_line_text c.lines hc.1 hc.2
    unfold LCue.cue LCue.fileCap FileCap.fileLines
    simp only
    cases hs : c.stop with
    | none =>
      simp only [Option.map_none, List.append_nil, List.flatMap_cons, List.flatMap_nil, List.nil_append, ← e]
      simp [List.append_assoc]
    | some t =>
      simp only [Option.map_some, List.flatMap_cons, List.flatMap_nil, List.flatMap_append, List.nil_append, ← e]
      simp [List.append_assoc, joinWords]

theorem map_code_replace_last (done : List Cue) (p q : Cue) (hl : done.getLast? = some p) (hq : q.code = p.code) :
    (done.dropLast ++ [q]).map (·.code) = done.map (·.code) := by
  obtain ⟨ys, rfl⟩ := List.getLast?_eq_some_iff.mp hl
  simp [hq]

/-- the pre-roll pass moves starts and drops ends; the codes stay, in order -/
theorem preroll_codes : ∀ (cs done : List Cue), (preroll done cs).map (·.code) = done.map (·.code) ++ cs.map (·.code)
  | [], done => by simp [preroll]
  | c :: cs, done => by
    unfold preroll
    simp only
    rw [preroll_codes cs]
    simp only [List.map_append, List.map_cons, List.map_nil, List.append_assoc, List.singleton_append]
    congr 1
    cases hl : done.getLast? with
    | none => rfl
    | some p =>
      simp only
      cases hp : p.stop with
      | none => rfl
      | some pe =>
        simp only
        rw [apply_ite (List.map fun x : Cue => x.code), map_code_replace_last done p { code := p.code, start := p.start, stop := none } hl rfl, ite_self]

theorem cues_with_lines : ∀ (out : List Cue) (ls : List (List (List Char))), out.map (·.code) = ls.map textToCode →
    ∃ lcs : List LCue, lcs.map LCue.cue = out ∧ lcs.map (·.lines) = ls
  | [], [], _ => ⟨[], rfl, rfl⟩
  | [], _ :: _, h => by simp at h
  | _ :: _, [], h => by simp at h
  | c :: out, l :: ls, h => by
    simp only [List.map_cons, List.cons.injEq] at h
    obtain ⟨lcs, e1, e2⟩ := cues_with_lines out ls h.2
    refine ⟨⟨l, c.start, c.stop⟩ :: lcs, ?_, by simp [e2]⟩
    simp only [List.map_cons, e1, LCue.cue, ← h.1]

/-- what the writer model writes for a set of captions is a file of the shape `fileText` describes, with the same lines -/
theorem write_is_file (caps : List (List Str × Rat × Rat)) (hok : ∀ c ∈ caps, c.1.length ≤ 15 ∧ ∀ l ∈ c.1, ∀ x ∈ l, Basic x) :
    ∃ fcs : List FileCap, write caps = fileText fcs ∧ (∀ c ∈ fcs, c.ok) ∧ fcs.map (·.lines) = caps.map (·.1) := by
  by_cases he : caps.isEmpty = true
  · have : caps = [] := List.isEmpty_iff.mp he
    subst this
    exact ⟨[], by simp [write, fileText], by simp, rfl⟩
  · have hcodes := preroll_codes (caps.map fun c => ({ code := textToCode c.1, start := c.2.1, stop := some c.2.2 } : Cue)) []
    simp only [List.map_nil, List.nil_append, List.map_map] at hcodes
    obtain ⟨lcs, e1, e2⟩ := cues_with_lines _ (caps.map (·.1)) (by rw [hcodes]; simp [List.map_map])
    have hlok : ∀ c ∈ lcs, c.ok := by
      intro c hc
      have : c.lines ∈ lcs.map (·.lines) := List.mem_map.mpr ⟨c, hc, rfl⟩
      rw [e2] at this
      obtain ⟨k, hk, hke⟩ := List.mem_map.mp this
      have := hok k hk
      rw [hke] at this
      exact this
    have hlines : (lcs.map LCue.fileCap).map (·.lines) = lcs.map (·.lines) := by
      simp [List.map_map, Function.comp_def, LCue.fileCap]
    refine ⟨lcs.map LCue.fileCap, ?_, ?_, by rw [hlines]; exact e2⟩
    · unfold write fileText
      simp only [he, Bool.false_eq_true, if_false]
      rw [← e1, writeCues_text lcs hlok]
      simp [List.flatMap_cons, List.append_assoc]
    · intro c hc
      obtain ⟨k, hk, rfl⟩ := List.mem_map.mp hc
      exact k.fileCap_ok (hlok k hk)

/-- **C17 (write, then read: the same characters).** for every caption set whose laid-out rows hold characters of the basic
    table (at most 15 rows per caption), any start and end times, any reading offset: the reader model, run on the file the
    writer model produces, ends up holding exactly the captions' characters, caption by caption and row by row, in order -/
theorem written_file_rereads (caps : List (List Str × Rat × Rat)) (hok : ∀ c ∈ caps, c.1.length ≤ 15 ∧ ∀ l ∈ c.1, ∀ x ∈ l, Basic x)
    (off : Rat) : heldQ (run (write caps) off) = vis (caps.flatMap fun c => c.1.flatten) := by
  obtain ⟨fcs, e, ok, hl⟩ := write_is_file caps hok
  rw [e, file_rereads fcs ok off]
  have : (fcs.flatMap fun c => c.lines.flatten) = ((fcs.map (·.lines)).flatMap fun l => l.flatten) := by
    simp [List.flatMap_map]
  rw [this, hl]
  simp [List.flatMap_map]

end PcVerif.SccW
