/-
  WebVTT write → read (C08 / C02 / C03 / C04 for WebVTT): what `WebVTTWriter.write` produces for captions made of text
  lines is a document of well-formed blocks in the sense of `VttDocLemmas`; the reader returns the same lines with the
  instants truncated to milliseconds.
-/
import PcVerif.Model.VttWriter
import PcVerif.Lemmas.VttDocLemmas
import PcVerif.Lemmas.VttPassLemmas
import PcVerif.Lemmas.SrtRoundTrip
namespace PcVerif.VttW
open Str TextW Fmt

/-- nodes of a caption made of text lines -/
def lineNodes : List Str → List Node
  | [] => []
  | t :: ts => Node.text t :: ts.flatMap fun x => [Node.brk, Node.text x]

/-! ### the cue text of such a caption -/

theorem groups_tail (ts : List Str) (hne : ∀ t ∈ ts, vttEncode t ≠ []) : ∀ (st : GState), st.first = false → st.cur = 0 →
    (ts.flatMap fun x => [LNode.brk, LNode.text x 0]).foldl vttStep { st with prevIsText := true } =
      { st with s := st.s ++ ts.flatMap (fun x => '\n' :: vttEncode x), prevIsText := true } := by
  induction ts with
  | nil => intro st _ _; simp
  | cons t ts ih =>
    intro st hf hc
    have hte : (vttEncode t).isEmpty = false := by
      cases h : vttEncode t with
      | nil => exact absurd h (hne t (by simp))
      | cons _ _ => rfl
    simp only [List.flatMap_cons, List.cons_append, List.nil_append, List.foldl_cons, vttStep, hf, Bool.not_false, Bool.not_true,
      Bool.false_eq_true, if_false, hc, ne_eq, not_true_eq_false, decide_false, Bool.and_false, hte]
    have h := ih (fun x hx => hne x (by simp [hx])) { st with s := st.s ++ ['\n'] ++ vttEncode t, cur := 0, prevIsText := true, first := false } rfl rfl
    have hs : ({ groups := st.groups, s := st.s ++ ['\n'] ++ vttEncode t, cur := 0, prevIsText := true, first := false,
                 openTags := st.openTags } : GState)
        = { st with s := st.s ++ ['\n'] ++ vttEncode t, cur := 0, prevIsText := true, first := false } := rfl
    rw [hs, h]
    simp

/-- the writer lays such a caption out as one cue: the escaped lines, one per line -/
theorem groups_lines (t : Str) (ts : List Str) (hne : ∀ x ∈ t :: ts, vttEncode x ≠ []) :
    vttGroups ((lineNodes (t :: ts)).map toL) = [(join ['\n'] ((t :: ts).map vttEncode), 0)] := by
  have hte : (vttEncode t).isEmpty = false := by
    cases h : vttEncode t with
    | nil => exact absurd h (hne t (by simp))
    | cons _ _ => rfl
  have hmap : (lineNodes (t :: ts)).map toL = LNode.text t 0 :: ts.flatMap fun x => [LNode.brk, LNode.text x 0] := by
    simp only [lineNodes, List.map_cons, toL, List.map_flatMap]
    rfl
  unfold vttGroups
  rw [hmap, List.foldl_cons]
  have h0 : vttStep {} (LNode.text t 0) = { ({ s := vttEncode t, first := false } : GState) with prevIsText := true } := by
    simp [vttStep, hte]
  rw [h0, groups_tail ts (fun x hx => hne x (by simp [hx])) _ rfl rfl]
  have hj : ∀ (t : Str) (ts : List Str),
      vttEncode t ++ ts.flatMap (fun x => '\n' :: vttEncode x) = join ['\n'] ((t :: ts).map vttEncode) := by
    intro t ts
    induction ts generalizing t with
    | nil => simp [join]
    | cons u us ih =>
      have := ih u
      simp only [List.map_cons, List.flatMap_cons] at this ⊢
      simp [join, ← this]
  have hne' : (vttEncode t ++ ts.flatMap (fun x => '\n' :: vttEncode x)).isEmpty = false := by
    cases h : vttEncode t with
    | nil => rw [h] at hte; simp at hte
    | cons _ _ => rfl
  rw [hj t ts] at hne'
  simp only [hj t ts, hne', Bool.false_eq_true, if_false, List.nil_append]

/-! ### stamps as written -/

open PcVerif.Props.C01 in
/-- what the writer prints for an instant parses back to the instant truncated to milliseconds (day dropped); it is not
    empty and contains no white space, no `-` and no line break -/
theorem written_vtt_stamp (t : Rat) :
    Vtt.parseTimestamp (vttTimestamp t) = .ok (Srt.msT t) ∧ vttTimestamp t ≠ [] ∧
      (∀ c ∈ vttTimestamp t, isSpace c = false) ∧ Srt.NoBreak (vttTimestamp t) := by
  unfold vttTimestamp Srt.msT
  generalize wholeMicro t = us
  have r1 : us / 1000000 % 86400 / 60 % 60 < 100 := by omega
  have r2 : us / 1000000 % 86400 % 60 < 100 := by omega
  have r3 : us % 1000000 / 1000 < 1000 := by omega
  have r4 : us / 1000000 % 86400 / 60 / 60 < 100 := by omega
  obtain ⟨d1, v1, l1⟩ := Srt.pad2_digits _ r1
  obtain ⟨d2, v2, l2⟩ := Srt.pad2_digits _ r2
  obtain ⟨d3, v3, l3⟩ := Srt.pad3_digits _ r3
  obtain ⟨d4, v4, l4⟩ := Srt.pad2_digits _ r4
  have ns : ∀ (s : Str), Digits s → (∀ c ∈ s, isSpace c = false) ∧ Srt.NoBreak s := fun s hs =>
    ⟨fun c hc => (Srt.asciiDigit_facts c (allAsciiDigits_mem s hs.2 c hc)).2.1, Srt.digits_noBreak s hs⟩
  have sep1 : isSpace ':' = false ∧ isLineBreak ':' = false := by decide
  have sep2 : isSpace '.' = false ∧ isLineBreak '.' = false := by decide
  simp only
  by_cases hh : us / 1000000 % 86400 / 60 / 60 = 0
  · rw [if_pos hh]
    have p := vtt_stamp_ms _ _ _ [] d1 ⟨d2, l2⟩ ⟨d3, l3⟩
    simp only [List.append_nil] at p
    refine ⟨?_, ?_, ?_, ?_⟩
    · rw [p, v1, v2, v3]; exact congrArg Except.ok (by omega)
    · obtain ⟨c, r, hr, _⟩ := Srt.digits_head _ d1
      rw [hr]; simp
    · intro c hc
      simp only [List.mem_append, List.mem_cons] at hc
      rcases hc with (hc | hc | hc) | hc | hc
      · exact (ns _ d1).1 c hc
      · subst hc; exact sep1.1
      · exact (ns _ d2).1 c hc
      · subst hc; exact sep2.1
      · exact (ns _ d3).1 c hc
    · intro c hc
      simp only [List.mem_append, List.mem_cons] at hc
      rcases hc with (hc | hc | hc) | hc | hc
      · exact (ns _ d1).2 c hc
      · subst hc; exact sep1.2
      · exact (ns _ d2).2 c hc
      · subst hc; exact sep2.2
      · exact (ns _ d3).2 c hc
  · rw [if_neg hh]
    have p := vtt_stamp_hms _ _ _ _ [] d4 ⟨d1, l1⟩ ⟨d2, l2⟩ ⟨d3, l3⟩
    simp only [List.append_nil] at p
    have e : pad2 (us / 1000000 % 86400 / 60 / 60) ++ ':' :: (pad2 (us / 1000000 % 86400 / 60 % 60) ++ ':' ::
        pad2 (us / 1000000 % 86400 % 60) ++ '.' :: pad3 (us % 1000000 / 1000)) =
        pad2 (us / 1000000 % 86400 / 60 / 60) ++ ':' :: pad2 (us / 1000000 % 86400 / 60 % 60) ++ ':' ::
        pad2 (us / 1000000 % 86400 % 60) ++ '.' :: pad3 (us % 1000000 / 1000) := by simp
    rw [e]
    refine ⟨?_, ?_, ?_, ?_⟩
    · rw [p, v1, v2, v3, v4]; exact congrArg Except.ok (by omega)
    · obtain ⟨c, r, hr, _⟩ := Srt.digits_head _ d4
      rw [hr]; simp
    · intro c hc
      simp only [List.mem_append, List.mem_cons] at hc
      rcases hc with ((hc | hc | hc) | hc | hc) | hc | hc
      · exact (ns _ d4).1 c hc
      · subst hc; exact sep1.1
      · exact (ns _ d1).1 c hc
      · subst hc; exact sep1.1
      · exact (ns _ d2).1 c hc
      · subst hc; exact sep2.1
      · exact (ns _ d3).1 c hc
    · intro c hc
      simp only [List.mem_append, List.mem_cons] at hc
      rcases hc with ((hc | hc | hc) | hc | hc) | hc | hc
      · exact (ns _ d4).2 c hc
      · subst hc; exact sep1.2
      · exact (ns _ d1).2 c hc
      · subst hc; exact sep1.2
      · exact (ns _ d2).2 c hc
      · subst hc; exact sep2.2
      · exact (ns _ d3).2 c hc

/-! ### the written document as blocks -/

/-- a caption given by its instants and its text lines -/
abbrev CapIn := Rat × Rat × List Str

def toRCap (c : CapIn) : RCap := ⟨c.1, c.2.1, lineNodes c.2.2⟩

def timingOf (c : CapIn) : Str := vttTimestamp c.1 ++ " --> ".toList ++ vttTimestamp c.2.1

def blockOf (c : CapIn) : Vtt.VBlock := ⟨[], timingOf c, c.2.2.map vttEncode, 0⟩

structure CapIn.OK (c : CapIn) : Prop where
  linesNe : c.2.2 ≠ []
  lineOK : ∀ t ∈ c.2.2, t ≠ [] ∧ Spec.NoEdgeSpace t ∧ Srt.NoBreak t

theorem vttEncode_ne_nil {t : Str} (h : t ≠ []) : vttEncode t ≠ [] := by
  intro e
  have := Spec.vttDecode_vttEncode t
  rw [e] at this
  exact h this.symm

theorem conv_lines (c : CapIn) (h : c.OK) :
    convPlain (toRCap c) = (timingOf c :: c.2.2.map vttEncode).flatMap (· ++ ['\n']) := by
  obtain ⟨a, b, ts⟩ := c
  cases ts with
  | nil => exact absurd rfl h.linesNe
  | cons t ts =>
    have hne : ∀ x ∈ t :: ts, vttEncode x ≠ [] := fun x hx => vttEncode_ne_nil (h.lineOK x hx).1
    unfold convPlain toRCap
    simp only [groups_lines t ts hne, List.flatMap_cons, List.flatMap_nil, List.append_nil, timingOf]
    have hj := Srt.join_terminated '\n' ((t :: ts).map vttEncode) (by simp)
    rw [← hj]
    simp

theorem doc_lines : ∀ (cs : List CapIn), (∀ c ∈ cs, c.OK) →
    join ['\n'] (cs.map fun c => convPlain (toRCap c)) = (Vtt.vdocLines (cs.map blockOf)).flatMap (· ++ ['\n']) := by
  intro cs
  induction cs with
  | nil => intro _; rfl
  | cons c cs ih =>
    intro hok
    have hc := conv_lines c (hok c (by simp))
    cases cs with
    | nil =>
      simp only [List.map_cons, List.map_nil, join, hc, Vtt.vdocLines, blockOf, List.replicate_zero, List.append_nil, List.nil_append]
    | cons c' cs' =>
      have := ih (fun x hx => hok x (by simp [hx]))
      simp only [List.map_cons] at this ⊢
      simp only [join, hc, this, Vtt.vdocLines, blockOf, List.nil_append]
      simp [List.replicate]

/-- `WebVTTWriter.write` of such captions, as lines ended by line feeds -/
theorem writePlain_doc (cs : List CapIn) (hok : ∀ c ∈ cs, c.OK) :
    writePlain (cs.map toRCap) = (["WEBVTT".toList, []] ++ Vtt.vdocLines (cs.map blockOf)).flatMap (· ++ ['\n']) := by
  unfold writePlain
  rw [List.map_map, List.flatMap_append, ← doc_lines cs hok]
  rfl

/-! ### round trip -/

theorem mem_vttEncode (c : Char) (t : Str) (h : c ∈ vttEncode t) :
    c ∈ t ∨ c ∈ ['&', 'a', 'm', 'p', ';', 'l', 't', 'g', '-'] := by
  rw [Spec.vttEncode_eq, Spec.encode_amp_lt] at h
  rcases Spec.mem_replaceAux _ _ _ _ _ h with h1 | h1
  · rw [List.mem_flatMap] at h1
    obtain ⟨x, hx, hc⟩ := h1
    unfold Spec.e2 at hc
    by_cases ha : x = '&'
    · rw [if_pos ha] at hc
      have key : ∀ y, y ∈ "&amp;".toList → y ∈ ['&', 'a', 'm', 'p', ';', 'l', 't', 'g', '-'] := by decide
      exact Or.inr (key c hc)
    · rw [if_neg ha] at hc
      by_cases hl : x = '<'
      · rw [if_pos hl] at hc
        have key : ∀ y, y ∈ "&lt;".toList → y ∈ ['&', 'a', 'm', 'p', ';', 'l', 't', 'g', '-'] := by decide
        exact Or.inr (key c hc)
      · rw [if_neg hl] at hc; simp at hc; subst hc; exact Or.inl hx
  · have key : ∀ y, y ∈ "--&gt;".toList → y ∈ ['&', 'a', 'm', 'p', ';', 'l', 't', 'g', '-'] := by decide
    exact Or.inr (key c h1)

theorem noBreak_vttEncode (t : Str) (h : Srt.NoBreak t) : Srt.NoBreak (vttEncode t) := by
  intro c hc
  rcases mem_vttEncode c t hc with h1 | h1
  · exact h c h1
  · have key : ∀ y, y ∈ ['&', 'a', 'm', 'p', ';', 'l', 't', 'g', '-'] → isLineBreak y = false := by decide
    exact key c h1

theorem blockOf_wf (c : CapIn) (h : c.OK) : (blockOf c).WF {} (Srt.msT c.1) (Srt.msT c.2.1) none := by
  obtain ⟨p1, n1, s1, _⟩ := written_vtt_stamp c.1
  obtain ⟨p2, n2, s2, _⟩ := written_vtt_stamp c.2.1
  refine ⟨by intro l hl; simp [blockOf] at hl, Vtt.timing_has_arrow _ _, ?_, ?_, ?_⟩
  · intro last
    exact Vtt.parseTimingLine_plain _ _ _ _ last n1 n2 s1 s2 p1 p2
  · simpa [blockOf] using h.linesNe
  · intro t ht
    simp only [blockOf, List.mem_map] at ht
    obtain ⟨u, hu, rfl⟩ := ht
    exact ⟨vttEncode_ne_nil (h.lineOK u hu).1, Spec.vttEncode_no_arrow u⟩

theorem vnodes_encoded (ts : List Str) (h : ∀ t ∈ ts, Spec.NoEdgeSpace t) :
    Vtt.vnodes (ts.map vttEncode) = lineNodes ts := by
  cases ts with
  | nil => rfl
  | cons t ts =>
    simp only [List.map_cons, Vtt.vnodes, lineNodes, Spec.decode_vttEncode_line t (h t (by simp))]
    congr 1
    induction ts with
    | nil => rfl
    | cons u us ih =>
      simp only [List.map_cons, List.flatMap_cons, Spec.decode_vttEncode_line u (h u (by simp))]
      rw [ih (fun x hx => h x (by
        rcases List.mem_cons.mp hx with rfl | hx
        · simp
        · simp [hx]))]

/-- the caption read back for a written one: same lines, instants truncated to milliseconds -/
def readBack (c : CapIn) : Vtt.RCue := ⟨Srt.msT c.1, Srt.msT c.2.1, lineNodes c.2.2, none⟩

theorem mem_vdocLines : ∀ (bs : List Vtt.VBlock) (l : Str), l ∈ Vtt.vdocLines bs →
    l = [] ∨ ∃ B ∈ bs, l ∈ B.ids ∨ l = B.timing ∨ l ∈ B.texts := by
  intro bs
  induction bs with
  | nil => intro l hl; simp [Vtt.vdocLines] at hl
  | cons B rest ih =>
    intro l hl
    cases rest with
    | nil =>
      simp only [Vtt.vdocLines, List.mem_cons, List.mem_append, List.mem_replicate] at hl
      rcases hl with h | h | h | h
      · exact Or.inr ⟨B, by simp, Or.inl h⟩
      · exact Or.inr ⟨B, by simp, Or.inr (Or.inl h)⟩
      · exact Or.inr ⟨B, by simp, Or.inr (Or.inr h)⟩
      · exact Or.inl h.2
    | cons B' rest' =>
      simp only [Vtt.vdocLines, List.mem_cons, List.mem_append, List.mem_replicate] at hl
      rcases hl with h | h | h | h | h
      · exact Or.inr ⟨B, by simp, Or.inl h⟩
      · exact Or.inr ⟨B, by simp, Or.inr (Or.inl h)⟩
      · exact Or.inr ⟨B, by simp, Or.inr (Or.inr h)⟩
      · exact Or.inl h.2
      · rcases ih l (by simpa [Vtt.vdocLines] using h) with h0 | ⟨X, hX, hx⟩
        · exact Or.inl h0
        · exact Or.inr ⟨X, by simp [hX], hx⟩

/-- **WebVTT write → read.** for every list of captions made of text lines (any number of captions, any instants, lines
    of any characters without white space at their ends and without line-break characters), reading what the WebVTT
    writer wrote returns exactly these captions: the same lines — `&`, `<`, `-->` and entity-looking text included —
    and the instants truncated to whole milliseconds -/
theorem vtt_write_read (cs : List CapIn) (hne : cs ≠ []) (hok : ∀ c ∈ cs, c.OK) :
    Vtt.read {} (writePlain (cs.map toRCap)) = .ok (cs.map readBack) := by
  rw [writePlain_doc cs hok]
  have hb : (cs.map fun c => ((blockOf c, (Srt.msT c.1 : Int), (Srt.msT c.2.1 : Int), (none : Option Str)) : Vtt.VT)).map (·.1)
      = cs.map blockOf := by simp
  rw [← hb]
  have := Vtt.read_doc {} _ ["WEBVTT".toList, []]
    (cs.map fun c => ((blockOf c, (Srt.msT c.1 : Int), (Srt.msT c.2.1 : Int), (none : Option Str)) : Vtt.VT))
    (by simpa using hne) (by decide)
    (by
      intro b hb'
      obtain ⟨c, hc, rfl⟩ := List.mem_map.mp hb'
      exact blockOf_wf c (hok c hc))
    (Srt.splitlines_terminated _ (by
      intro l hl
      rcases List.mem_append.mp hl with h | h
      · have key : ∀ y, y ∈ ["WEBVTT".toList, ([] : Str)] → ∀ ch ∈ y, isLineBreak ch = false := by decide
        exact key l h
      · rw [hb] at h
        rcases mem_vdocLines _ l h with rfl | ⟨B, hB, hl'⟩
        · intro c hc; simp at hc
        · obtain ⟨c, hc, rfl⟩ := List.mem_map.mp hB
          rcases hl' with h1 | rfl | h1
          · simp [blockOf] at h1
          · intro ch hch
            simp only [blockOf, timingOf, List.mem_append] at hch
            rcases hch with (hch | hch) | hch
            · exact (written_vtt_stamp c.1).2.2.2 ch hch
            · have key : ∀ y, y ∈ " --> ".toList → isLineBreak y = false := by decide
              exact key ch hch
            · exact (written_vtt_stamp c.2.1).2.2.2 ch hch
          · simp only [blockOf, List.mem_map] at h1
            obtain ⟨u, hu, rfl⟩ := h1
            exact noBreak_vttEncode u ((hok c hc).lineOK u hu).2.2))
  rw [this]
  congr 1
  simp only [Vtt.vcues, List.map_map]
  apply List.map_congr_left
  intro c hc
  simp only [Function.comp, Vtt.VBlock.cue, blockOf, readBack, vnodes_encoded c.2.2 (fun t ht => ((hok c hc).lineOK t ht).2.1)]

end PcVerif.VttW
