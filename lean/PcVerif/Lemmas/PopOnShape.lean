/-
  C05 / C17: the exact buffer a written pop-on caption leaves in the reader — one text node per row, break nodes between
  them, every node at the position of the first row.
-/
import PcVerif.Lemmas.SccFileLemmas
namespace PcVerif.SccW
open Str Scc PcVerif.Props.C16

/-! ### `interpret` on a plain preamble -/

/-- a preamble as the writer sends it: white, not underlined, column 0 — a style-setting code that is not italics -/
structure PlainPac (w : String) (row : Nat) : Prop where
  pos : pacPos w = some (row, 0)
  noTab : tabOffset w = none
  notBs : (w == "94a1") = false
  notMid : isMidRow w = false
  notBg : isBackground w = false
  style : isStyleSetting w = true
  notItalic : isItalics w = false

def plainPacB' (w : String) (row : Nat) : Bool :=
  (pacPos w == some (row, 0)) && (tabOffset w).isNone && !(w == "94a1") && !isMidRow w && !isBackground w && isStyleSetting w && !isItalics w

theorem pacs_plain' : (List.range 15).all (fun i => plainPacB' (pacWord (i + 1)) (i + 1)) = true := by decide +kernel

theorem plainPac_row (row : Nat) (h1 : 1 ≤ row) (h2 : row ≤ 15) : PlainPac (pacWord row) row := by
  have := List.all_eq_true.mp pacs_plain' (row - 1) (List.mem_range.mpr (by omega))
  have e : row - 1 + 1 = row := by omega
  rw [e] at this
  unfold plainPacB' at this
  simp only [Bool.and_eq_true, beq_iff_eq, Bool.not_eq_true', Option.isNone_iff_eq_none] at this
  obtain ⟨⟨⟨⟨⟨⟨a, b⟩, c⟩, d⟩, e'⟩, f⟩, g⟩ := this
  exact ⟨a, b, by simpa using c, d, e', f, g⟩

theorem interpret_plain_pac (c : Creator) (t : Tracker) (w : String) (row : Nat) (nxt : Option String) (hp : PlainPac w row)
    (hl : c.last = none) :
    interpret c t w nxt = ({ c with hidden := 0 }, (if c.isEmpty then t.reset else t).update (row, 0), false) := by
  unfold interpret
  simp only [hp.noTab, hp.pos, hp.notBs, hp.notMid, hp.notBg, hp.style, hp.notItalic, hl, Bool.false_eq_true, if_false, if_true,
    Bool.false_and, Option.isNone_none, Bool.not_false]
  split <;> simp

/-! ### exact steps in pop-on mode -/

theorem buf_pop (r : Reader) (ha : r.active = .pop) : r.buf = r.pop := by simp [Reader.buf, ha]
theorem setBuf_pop (r : Reader) (c : Creator) (ha : r.active = .pop) : r.setBuf c = { r with pop := c } := by
  simp [Reader.setBuf, ha]

theorem word_good_exact (r : Reader) (w : String) (nxt : Option String) (a b : String) (h : GoodWord w a b) (ha : r.active = .pop) :
    word r w nxt = { r with lastCmd := w, pop := (addChars r.pop r.tr (a.toList ++ b.toList)).1,
                            tr := (addChars r.pop r.tr (a.toList ++ b.toList)).2, frames := r.frames + 1 } := by
  have hb := h.basic
  have hd : handleDouble r w = (false, { r with lastCmd := w }) := by
    unfold handleDouble
    simp only [hb.notCommand, hb.notPac, hb.notSpecial, hb.notExtended, hb.notTab, hb.notCue, hb.notBs, Bool.and_false,
      Bool.or_false, Option.isSome_none, Bool.false_and, Bool.false_eq_true, if_false, ite_self]
  unfold word
  rw [hd]
  simp only [Bool.false_eq_true, if_false, hb.notCommand, hb.notPac, Bool.or_self, hb.notSpecial, hb.notExtended, hb.first, hb.second]
  have ha' : ({ r with lastCmd := w } : Reader).active = .pop := ha
  rw [buf_pop _ ha', setBuf_pop _ _ ha']

def pacCueB (w : String) : Bool := !isCueStarting w && !fixedWords.contains w
theorem pacs_cue : (List.range 15).all (fun i => pacCueB (pacWord (i + 1))) = true := by decide +kernel

theorem pac_not_cue (row : Nat) (h1 : 1 ≤ row) (h2 : row ≤ 15) : isCueStarting (pacWord row) = false := by
  have := List.all_eq_true.mp pacs_cue (row - 1) (List.mem_range.mpr (by omega))
  have e : row - 1 + 1 = row := by omega
  rw [e] at this
  unfold pacCueB at this
  simp only [Bool.and_eq_true, Bool.not_eq_true'] at this
  exact this.1

theorem command_pac_exact (r : Reader) (row : Nat) (nxt : Option String) (h1 : 1 ≤ row) (h2 : row ≤ 15) (ha : r.active = .pop)
    (hl : r.pop.last = none) :
    command r (pacWord row) nxt = { r with pop := { r.pop with hidden := 0 },
                                           tr := (if r.pop.isEmpty then r.tr.reset else r.tr).update (row, 0) } := by
  obtain ⟨_, _, _, hf⟩ := ctl_of_plain _ (pac_plain row h1 h2)
  have b1 : (pacWord row == "9420") = false := by simpa using hf _ (by decide)
  have b2 : (pacWord row == "9429") = false := by simpa using hf _ (by decide)
  have b3 : (pacWord row == "9425") = false := by simpa using hf _ (by decide)
  have b4 : (pacWord row == "9426") = false := by simpa using hf _ (by decide)
  have b5 : (pacWord row == "94a7") = false := by simpa using hf _ (by decide)
  have b6 : (pacWord row == "94ae") = false := by simpa using hf _ (by decide)
  have b7 : (pacWord row == "942f") = false := by simpa using hf _ (by decide)
  have b8 : (pacWord row == "94ad") = false := by simpa using hf _ (by decide)
  have b9 : (pacWord row == "942c") = false := by simpa using hf _ (by decide)
  unfold command
  simp only [b1, b2, b3, b4, b5, b6, b7, b8, b9, Bool.or_self, Bool.false_eq_true, if_false, Bool.false_and]
  rw [buf_pop r ha, interpret_plain_pac r.pop r.tr _ row nxt (plainPac_row row h1 h2) hl, setBuf_pop _ _ ha]
  simp

/-! ### `add_chars`, exactly -/

theorem appendToLast_snoc (pre : List INode) (n : INode) (chars : Str) :
    appendToLast (pre ++ [n]) chars = pre ++ [{ n with text := n.text ++ chars }] := by
  unfold appendToLast
  simp

/-- nothing in the buffer yet, no break or repositioning pending: a text node at the current position -/
theorem addChars_first (c : Creator) (t : Tracker) (chars : Str) (hne : chars ≠ []) (hc : c.coll = [])
    (hb : t.brk = false) (hr : t.rep = false) :
    addChars c t chars = ({ c with hidden := 0, coll := [⟨.text, chars, t.cur⟩] }, t) := by
  unfold addChars
  have he : chars.isEmpty = false := by cases chars <;> simp_all
  simp only [he, Bool.false_eq_true, if_false, hc, List.getLast?_nil, List.nil_append, hb, hr]
  have := appendToLast_snoc [] ⟨.text, [], t.cur⟩ chars
  simp only [List.nil_append] at this
  rw [this]

/-- the buffer ends in a text node, nothing pending: the characters go to the end of that node -/
theorem addChars_more (c : Creator) (t : Tracker) (chars : Str) (hne : chars ≠ []) (pre : List INode) (s : Str) (q : Pos)
    (hc : c.coll = pre ++ [⟨.text, s, q⟩]) (hb : t.brk = false) (hr : t.rep = false) :
    addChars c t chars = ({ c with hidden := 0, coll := pre ++ [⟨.text, s ++ chars, q⟩] }, t) := by
  unfold addChars
  have he : chars.isEmpty = false := by cases chars <;> simp_all
  simp only [he, Bool.false_eq_true, if_false, hc, hb, hr]
  simp only [List.getLast?_append, List.getLast?_singleton, Option.some_or, beq_self_eq_true, Bool.not_false, Bool.and_self, if_true]
  rw [appendToLast_snoc]

/-- the buffer ends in a text node and a line break is pending: a break node and a fresh text node, both at the caption's
    position -/
theorem addChars_break (c : Creator) (t : Tracker) (chars : Str) (hne : chars ≠ []) (pre : List INode) (s : Str) (q : Pos)
    (hc : c.coll = pre ++ [⟨.text, s, q⟩]) (hb : t.brk = true) (hr : t.rep = false) :
    addChars c t chars = ({ c with hidden := 0, coll := pre ++ [⟨.text, s, q⟩, ⟨.brk, [], t.cur⟩, ⟨.text, chars, t.cur⟩] },
      { t with brk := false, rep := false }) := by
  unfold addChars
  have he : chars.isEmpty = false := by cases chars <;> simp_all
  simp only [he, Bool.false_eq_true, if_false, hc, hb, hr]
  simp only [List.getLast?_append, List.getLast?_singleton, Option.some_or, beq_self_eq_true, Bool.not_false, Bool.and_self, if_true]
  have : pre ++ [⟨.text, s, q⟩] ++ [⟨.brk, [], t.cur⟩, ⟨.text, [], t.cur⟩]
      = (pre ++ [⟨.text, s, q⟩, ⟨.brk, [], t.cur⟩]) ++ [(⟨.text, [], t.cur⟩ : INode)] := by simp
  rw [this, appendToLast_snoc]
  simp

/-! ### the tracker -/

/-- the tracker inside a caption: first row at `p`, the row being written is `last`, nothing pending -/
structure TrOk (t : Tracker) (p last : Pos) : Prop where
  head : t.pos.head? = some p
  lst : t.pos.getLast? = some last
  brk : t.brk = false
  rep : t.rep = false

theorem update_first (t : Tracker) (p : Pos) :
    (t.reset).update p = { t with pos := [p], brk := false, rep := false, lastcol := 0, dflt := p } := by
  unfold Tracker.reset Tracker.update
  simp

theorem update_next_row (t : Tracker) (p : Pos) (row : Nat) (h : TrOk t p (row, 0)) :
    t.update (row + 1, 0) = { t with dflt := (row + 1, 0), pos := t.pos ++ [(row + 1, 0)], brk := true, lastcol := 0 } := by
  unfold Tracker.update
  simp only [h.lst, h.brk, Bool.false_eq_true, if_false, if_true]

theorem cur_of_head (t : Tracker) (p : Pos) (h : t.pos.head? = some p) : t.cur = p := by
  unfold Tracker.cur
  cases hp : t.pos with
  | nil => simp [hp] at h
  | cons a b => simp [hp] at h; simp [h]

/-! ### the nodes of a caption's rows -/

def bufNodes (p : Pos) : List Str → List INode
  | [] => []
  | l :: ls => ⟨.text, l, p⟩ :: ls.flatMap (fun m => [⟨.brk, [], p⟩, ⟨.text, m, p⟩])

theorem bufNodes_snoc (p : Pos) (l : Str) (ls : List Str) (m : Str) :
    bufNodes p (l :: ls ++ [m]) = bufNodes p (l :: ls) ++ [⟨.brk, [], p⟩, ⟨.text, m, p⟩] := by
  simp [bufNodes, List.flatMap_append]

/-- a non-empty list of rows ends in a text node -/
theorem bufNodes_last (p : Pos) : ∀ (ls : List Str) (l : Str), ∃ pre s, bufNodes p (l :: ls) = pre ++ [⟨.text, s, p⟩]
  | [], l => ⟨[], l, by simp [bufNodes]⟩
  | m :: ms, l => by
    obtain ⟨pre, s, e⟩ := bufNodes_last p ms m
    refine ⟨⟨.text, l, p⟩ :: ⟨.brk, [], p⟩ :: pre, s, ?_⟩
    have : bufNodes p (l :: m :: ms) = ⟨.text, l, p⟩ :: ⟨.brk, [], p⟩ :: bufNodes p (m :: ms) := by simp [bufNodes]
    rw [this, e]
    simp

/-! ### the character words of a row, exactly -/

def wordsText (ws : List (String × String × String)) : Str := ws.flatMap fun x => x.2.1.toList ++ x.2.2.toList

theorem good_words_exact : ∀ (ws : List (String × String × String)),
    (∀ x ∈ ws, GoodWord x.1 x.2.1 x.2.2 ∧ x.2.1.toList ≠ []) →
    ∀ (rest : List String) (r : Reader) (pre : List INode) (s : Str) (q : Pos), r.active = .pop →
    r.pop.coll = pre ++ [⟨.text, s, q⟩] → r.tr.brk = false → r.tr.rep = false → Quiet r.lastCmd →
    ∃ r', words r (ws.map (·.1) ++ rest) = words r' rest ∧ r'.active = .pop ∧ r'.S = r.S ∧ r'.queue = r.queue ∧
      r'.tr = r.tr ∧ r'.pop.last = r.pop.last ∧ r'.pop.coll = pre ++ [⟨.text, s ++ wordsText ws, q⟩] ∧ Quiet r'.lastCmd := by
  intro ws
  induction ws with
  | nil =>
    intro _ rest r pre s q ha hc _ _ hq
    exact ⟨r, rfl, ha, rfl, rfl, rfl, rfl, by simpa [wordsText] using hc, hq⟩
  | cons x ws ih =>
    intro h rest r pre s q ha hc hb hr _
    obtain ⟨hx, hxne⟩ := h x (by simp)
    have hne : x.2.1.toList ++ x.2.2.toList ≠ [] := by
      intro e; exact hxne (List.append_eq_nil_iff.mp e).1
    have e1 := word_good_exact r x.1 ((ws.map (·.1) ++ rest).head?) x.2.1 x.2.2 hx ha
    rw [addChars_more r.pop r.tr _ hne pre s q hc hb hr] at e1
    simp only at e1
    obtain ⟨r', e, a', s', q', t', l', c', lq⟩ := ih (fun y hy => h y (by simp [hy])) rest
      (word r x.1 ((ws.map (·.1) ++ rest).head?)) pre (s ++ (x.2.1.toList ++ x.2.2.toList)) q
      (by rw [e1]; exact ha) (by rw [e1]) (by rw [e1]; exact hb) (by rw [e1]; exact hr)
      (Or.inr ⟨x.2.1, x.2.2, by rw [e1]; exact hx⟩)
    refine ⟨r', ?_, a', by rw [s', e1], by rw [q', e1], by rw [t', e1], by rw [l', e1], ?_, lq⟩
    · simp only [List.map_cons, List.cons_append]
      rw [words_good r x.1 _ x.2.1 x.2.2 hx, e]
    · rw [c']
      simp [wordsText, List.append_assoc]

/-! ### a row's preamble, exactly -/

theorem pac_pair_exact (r : Reader) (row : Nat) (ws : List String) (h1 : 1 ≤ row) (h2 : row ≤ 15) (hq : Quiet r.lastCmd)
    (ha : r.active = .pop) (hl : r.pop.last = none) :
    ∃ r', words r (pacWord row :: pacWord row :: ws) = words r' ws ∧ r'.lastCmd = "" ∧ r'.active = .pop ∧ r'.S = r.S ∧
      r'.queue = r.queue ∧ r'.pop = { r.pop with hidden := 0 } ∧
      r'.tr = (if r.pop.isEmpty then r.tr.reset else r.tr).update (row, 0) := by
  obtain ⟨hc, _, _, _⟩ := ctl_of_plain _ (pac_plain row h1 h2)
  obtain ⟨hne, hpac⟩ := quiet_ne _ _ hq hc
  rw [words_four r _ _ hc.four, words_four _ _ _ hc.four]
  simp only [List.head?_cons]
  rw [word_executed r _ (some (pacWord row)) hc.cmd hne hc.noTab hpac]
  have hfa : (firstCopy r (pacWord row)).active = .pop := ha
  have hfl : (firstCopy r (pacWord row)).pop.last = none := hl
  rw [command_pac_exact (firstCopy r (pacWord row)) row (some (pacWord row)) h1 h2 hfa hfl]
  rw [word_swallowed _ (pacWord row) ws.head? hc.dt rfl]
  exact ⟨_, rfl, rfl, ha, rfl, rfl, rfl, rfl⟩

/-! ### one row, exactly -/

theorem rowWordsDecoded_ne : ∀ (line : List Char), ∀ x ∈ rowWordsDecoded line, x.2.1.toList ≠ []
  | [], x, hx => by simp [rowWordsDecoded] at hx
  | [a], x, hx => by
    simp only [rowWordsDecoded, List.mem_singleton] at hx
    subst hx; simp
  | a :: b :: rest, x, hx => by
    simp only [rowWordsDecoded, List.mem_cons] at hx
    rcases hx with rfl | hx
    · simp
    · exact rowWordsDecoded_ne rest x hx

theorem rowWordsDecoded_cons (a : Char) (l : List Char) : ∃ x xs, rowWordsDecoded (a :: l) = x :: xs := by
  cases l with
  | nil => exact ⟨_, _, rfl⟩
  | cons b rest => exact ⟨_, _, rfl⟩

theorem isEmpty_bufNodes (c : Creator) (p : Pos) (l : Str) (ls : List Str) (hl : l ≠ []) (hc : c.coll = bufNodes p (l :: ls)) :
    c.isEmpty = false := by
  unfold Creator.isEmpty
  rw [hc]
  simp [bufNodes, hl]

/-- the state of a pop-on reader inside a caption: the rows read so far are in the buffer, one text node each, breaks between
    them, all at the position of the first row -/
structure InCaption (r : Reader) (p : Pos) (row : Nat) (rows : List Str) : Prop where
  active : r.active = .pop
  quiet : Quiet r.lastCmd
  last : r.pop.last = none
  coll : r.pop.coll = bufNodes p rows
  tr : TrOk r.tr p (row, 0)

/-- the first row of a caption: preamble twice, then the words of a non-empty line -/
theorem first_row_exact (r : Reader) (row : Nat) (l : List Char) (rest : List String) (h1 : 1 ≤ row) (h2 : row ≤ 15)
    (hl : l ≠ []) (hb : ∀ c ∈ l, Basic c) (ha : r.active = .pop) (hq : Quiet r.lastCmd) (hlast : r.pop.last = none)
    (hc : r.pop.coll = []) :
    ∃ r', words r (pacWord row :: pacWord row :: (rowWords l ++ rest)) = words r' rest ∧ r'.S = r.S ∧ r'.queue = r.queue ∧
      InCaption r' (row, 0) row [l] := by
  obtain ⟨r1, e1, l1, a1, s1, q1, p1, t1⟩ := pac_pair_exact r row (rowWords l ++ rest) h1 h2 hq ha hlast
  have hemp : r.pop.isEmpty = true := by simp [Creator.isEmpty, hc]
  rw [hemp, if_pos rfl, update_first] at t1
  obtain ⟨a0, l', rfl⟩ : ∃ a0 l', l = a0 :: l' := by
    cases l with
    | nil => exact absurd rfl hl
    | cons a b => exact ⟨a, b, rfl⟩
  obtain ⟨x, xs, hx⟩ := rowWordsDecoded_cons a0 l'
  have hgood := rowWordsDecoded_good (a0 :: l') hb
  have hne := rowWordsDecoded_ne (a0 :: l')
  rw [hx] at hgood hne
  have hxg := hgood x (by simp)
  have hxn := hne x (by simp)
  have hchars : x.2.1.toList ++ x.2.2.toList ≠ [] := fun e => hxn (List.append_eq_nil_iff.mp e).1
  -- the first word
  have hw : rowWords (a0 :: l') = x.1 :: xs.map (·.1) := by rw [← rowWordsDecoded_fst, hx]; rfl
  rw [hw] at e1
  have e2 := word_good_exact r1 x.1 ((xs.map (·.1) ++ rest).head?) x.2.1 x.2.2 hxg a1
  have hc1 : r1.pop.coll = [] := by rw [p1]; exact hc
  have hb1 : r1.tr.brk = false := by rw [t1]
  have hr1 : r1.tr.rep = false := by rw [t1]
  rw [addChars_first r1.pop r1.tr _ hchars hc1 hb1 hr1] at e2
  simp only at e2
  have hcur : r1.tr.cur = (row, 0) := by rw [t1]; rfl
  -- the rest of the row
  obtain ⟨r3, e3, a3, s3, q3, t3, l3, c3, lq3⟩ := good_words_exact xs
    (fun y hy => ⟨hgood y (by simp [hy]), hne y (by simp [hy])⟩) rest
    (word r1 x.1 ((xs.map (·.1) ++ rest).head?)) [] (x.2.1.toList ++ x.2.2.toList) (row, 0)
    (by rw [e2]; exact a1) (by rw [e2, hcur]; rfl) (by rw [e2]; exact hb1) (by rw [e2]; exact hr1)
    (Or.inr ⟨x.2.1, x.2.2, by rw [e2]; exact hxg⟩)
  refine ⟨r3, ?_, by rw [s3, e2, s1], by rw [q3, e2, q1], ⟨a3, lq3, ?_, ?_, ?_⟩⟩
  · rw [hw, e1]
    simp only [List.cons_append]
    rw [words_good r1 x.1 _ x.2.1 x.2.2 hxg, e3]
  · rw [l3, e2]; simp only; rw [p1]; exact hlast
  · rw [c3]
    have : x.2.1.toList ++ x.2.2.toList ++ wordsText xs = a0 :: l' := by
      have := rowWordsDecoded_text (a0 :: l')
      rw [hx] at this
      simpa [wordsText] using this
    simp [this, bufNodes]
  · rw [t3, e2]
    simp only
    rw [t1]
    exact ⟨rfl, rfl, rfl, rfl⟩

/-- a further row on the next screen row: its preamble turns into a line break, its characters into a new text node at the
    position of the caption's first row -/
theorem next_row_exact (r : Reader) (p : Pos) (row : Nat) (l0 : Str) (done : List Str) (l : List Char) (rest : List String)
    (h2 : row + 1 ≤ 15) (hl0 : l0 ≠ []) (hl : l ≠ []) (hb : ∀ c ∈ l, Basic c) (hin : InCaption r p row (l0 :: done)) :
    ∃ r', words r (pacWord (row + 1) :: pacWord (row + 1) :: (rowWords l ++ rest)) = words r' rest ∧ r'.S = r.S ∧
      r'.queue = r.queue ∧ InCaption r' p (row + 1) (l0 :: done ++ [l]) := by
  obtain ⟨ha, hq, hlast, hc, htr⟩ := hin
  obtain ⟨r1, e1, l1, a1, s1, q1, p1, t1⟩ := pac_pair_exact r (row + 1) (rowWords l ++ rest) (by omega) h2 hq ha hlast
  rw [isEmpty_bufNodes r.pop p l0 done hl0 hc] at t1
  simp only [Bool.false_eq_true, if_false] at t1
  rw [update_next_row r.tr p row htr] at t1
  obtain ⟨a0, l', rfl⟩ : ∃ a0 l', l = a0 :: l' := by
    cases l with
    | nil => exact absurd rfl hl
    | cons a b => exact ⟨a, b, rfl⟩
  obtain ⟨x, xs, hx⟩ := rowWordsDecoded_cons a0 l'
  have hgood := rowWordsDecoded_good (a0 :: l') hb
  have hne := rowWordsDecoded_ne (a0 :: l')
  rw [hx] at hgood hne
  have hxg := hgood x (by simp)
  have hxn := hne x (by simp)
  have hchars : x.2.1.toList ++ x.2.2.toList ≠ [] := fun e => hxn (List.append_eq_nil_iff.mp e).1
  have hw : rowWords (a0 :: l') = x.1 :: xs.map (·.1) := by rw [← rowWordsDecoded_fst, hx]; rfl
  rw [hw] at e1
  have e2 := word_good_exact r1 x.1 ((xs.map (·.1) ++ rest).head?) x.2.1 x.2.2 hxg a1
  obtain ⟨pre, s0, hpre⟩ := bufNodes_last p done l0
  have hc1 : r1.pop.coll = pre ++ [⟨.text, s0, p⟩] := by rw [p1]; simp only; rw [hc, hpre]
  have hb1 : r1.tr.brk = true := by rw [t1]
  have hr1 : r1.tr.rep = false := by rw [t1]; exact htr.rep
  have hhead : r1.tr.pos.head? = some p := by
    rw [t1]
    simp only
    cases hp : r.tr.pos with
    | nil => have := htr.head; rw [hp] at this; simp at this
    | cons a b => have := htr.head; rw [hp] at this; simpa using this
  have hcur : r1.tr.cur = p := cur_of_head _ _ hhead
  rw [addChars_break r1.pop r1.tr _ hchars pre s0 p hc1 hb1 hr1, hcur] at e2
  simp only at e2
  obtain ⟨r3, e3, a3, s3, q3, t3, l3, c3, lq3⟩ := good_words_exact xs
    (fun y hy => ⟨hgood y (by simp [hy]), hne y (by simp [hy])⟩) rest
    (word r1 x.1 ((xs.map (·.1) ++ rest).head?)) (pre ++ [⟨.text, s0, p⟩, ⟨.brk, [], p⟩]) (x.2.1.toList ++ x.2.2.toList) p
    (by rw [e2]; exact a1) (by rw [e2]; simp) (by rw [e2]) (by rw [e2])
    (Or.inr ⟨x.2.1, x.2.2, by rw [e2]; exact hxg⟩)
  refine ⟨r3, ?_, by rw [s3, e2, s1], by rw [q3, e2, q1], ⟨a3, lq3, ?_, ?_, ?_⟩⟩
  · rw [hw, e1]
    simp only [List.cons_append]
    rw [words_good r1 x.1 _ x.2.1 x.2.2 hxg, e3]
  · rw [l3, e2]; simp only; rw [p1]; exact hlast
  · rw [c3]
    have : x.2.1.toList ++ x.2.2.toList ++ wordsText xs = a0 :: l' := by
      have := rowWordsDecoded_text (a0 :: l')
      rw [hx] at this
      simpa [wordsText] using this
    rw [this, bufNodes_snoc, hpre]
    simp
  · rw [t3, e2]
    simp only
    refine ⟨?_, ?_, rfl, rfl⟩
    · simpa [t1] using hhead
    · rw [t1]; simp

/-! ### all rows of a caption -/

theorem more_rows_exact : ∀ (ls : List (List Char)) (r : Reader) (p : Pos) (row : Nat) (l0 : Str) (done : List Str) (rest : List String),
    row + ls.length ≤ 15 → l0 ≠ [] → (∀ l ∈ ls, l ≠ [] ∧ ∀ c ∈ l, Basic c) → InCaption r p row (l0 :: done) →
    ∃ r', words r (rowsWords (row + 1) ls ++ rest) = words r' rest ∧ r'.S = r.S ∧ r'.queue = r.queue ∧
      InCaption r' p (row + ls.length) (l0 :: done ++ ls) := by
  intro ls
  induction ls with
  | nil => intro r p row l0 done rest _ _ _ hin; exact ⟨r, rfl, rfl, rfl, by simpa using hin⟩
  | cons l ls ih =>
    intro r p row l0 done rest h2 hl0 hb hin
    simp only [List.length_cons] at h2
    obtain ⟨hl, hbl⟩ := hb l (by simp)
    simp only [rowsWords, List.cons_append, List.append_assoc]
    obtain ⟨r1, e1, s1, q1, in1⟩ := next_row_exact r p row l0 done l (rowsWords (row + 1 + 1) ls ++ rest) (by omega) hl0 hl hbl hin
    obtain ⟨r2, e2, s2, q2, in2⟩ := ih r1 p (row + 1) l0 (done ++ [l]) rest (by omega) hl0 (fun m hm => hb m (by simp [hm])) in1
    refine ⟨r2, by rw [e1, e2], by rw [s2, s1], by rw [q2, q1], ?_⟩
    have e : row + 1 + ls.length = row + (ls.length + 1) := by omega
    simpa [e, List.append_assoc] using in2

/-- **the rows of a caption, exactly.** in a pop-on reader with an empty buffer: the rows of a written caption — first row's
    preamble twice and its words, then row after row on consecutive screen rows — leave in the buffer exactly one text node per
    row with break nodes between them, every node at the position of the first row; stored captions and queue untouched -/
theorem rows_exact (l0 : List Char) (ls : List (List Char)) (row : Nat) (rest : List String) (r : Reader) (h1 : 1 ≤ row)
    (h2 : row + ls.length ≤ 15) (hb : ∀ l ∈ l0 :: ls, l ≠ [] ∧ ∀ c ∈ l, Basic c) (ha : r.active = .pop) (hq : Quiet r.lastCmd)
    (hlast : r.pop.last = none) (hc : r.pop.coll = []) :
    ∃ r', words r (rowsWords row (l0 :: ls) ++ rest) = words r' rest ∧ r'.S = r.S ∧ r'.queue = r.queue ∧
      InCaption r' (row, 0) (row + ls.length) (l0 :: ls) := by
  obtain ⟨hl0, hb0⟩ := hb l0 (by simp)
  simp only [rowsWords, List.cons_append, List.append_assoc]
  obtain ⟨r1, e1, s1, q1, in1⟩ := first_row_exact r row l0 (rowsWords (row + 1) ls ++ rest) h1 (by omega) hl0 hb0 ha hq hlast hc
  obtain ⟨r2, e2, s2, q2, in2⟩ := more_rows_exact ls r1 (row, 0) row l0 [] rest h2 hl0 (fun m hm => hb m (by simp [hm])) in1
  exact ⟨r2, by rw [e1, e2], by rw [s2, s1], by rw [q2, q1], by simpa using in2⟩

/-! ### the control words around the rows, exactly -/

theorem ctl_pair' (r : Reader) (w : String) (ws : List String) (hc : Ctl w) (hq : Quiet r.lastCmd)
    (hl : (command (firstCopy r w) w (some w)).lastCmd = w) :
    ∃ r', words r (w :: w :: ws) = words r' ws ∧ r'.lastCmd = "" ∧
      r'.active = (command (firstCopy r w) w (some w)).active ∧ r'.S = (command (firstCopy r w) w (some w)).S ∧
      r'.queue = (command (firstCopy r w) w (some w)).queue ∧ r'.pop = (command (firstCopy r w) w (some w)).pop := by
  obtain ⟨hne, hpac⟩ := quiet_ne _ _ hq hc
  rw [words_four r w _ hc.four, words_four _ w _ hc.four]
  simp only [List.head?_cons]
  rw [word_executed r w (some w) hc.cmd hne hc.noTab hpac]
  generalize command (firstCopy r w) w (some w) = x at hl
  rw [word_swallowed _ w ws.head? hc.dt (by simpa using hl)]
  exact ⟨_, rfl, rfl, rfl, rfl, rfl, rfl⟩

theorem enm_pair_exact (r : Reader) (ws : List String) (hq : Quiet r.lastCmd) (ha : r.active = .pop) :
    ∃ r', words r ("94ae" :: "94ae" :: ws) = words r' ws ∧ r'.lastCmd = "" ∧ r'.active = .pop ∧ r'.S = r.S ∧
      r'.queue = r.queue ∧ r'.pop = {} := by
  have hfa : (firstCopy r "94ae").active = .pop := ha
  have hx : command (firstCopy r "94ae") "94ae" (some "94ae") = { firstCopy r "94ae" with pop := {} } := by
    rw [command_enm, setBuf_pop _ _ hfa]
  obtain ⟨r', e, l, a, s', q, p'⟩ := ctl_pair' r "94ae" ws ctl_fixed.1 hq (by rw [hx]; rfl)
  rw [hx] at a s' q p'
  exact ⟨r', e, l, by rw [a]; exact ha, s', q, p'⟩

theorem rcl_pair_exact (r : Reader) (ws : List String) (hq : Quiet r.lastCmd) (ha : r.active = .pop) :
    ∃ r', words r ("9420" :: "9420" :: ws) = words r' ws ∧ r'.lastCmd = "" ∧ r'.active = .pop ∧ r'.S = r.S ∧
      r'.queue = r.queue ∧ r'.pop = r.pop := by
  have hfa : (firstCopy r "9420").active = .pop := ha
  have hx := command_rcl (firstCopy r "9420") (some "9420") hfa
  obtain ⟨r', e, l, a, s', q, p'⟩ := ctl_pair' r "9420" ws ctl_fixed.2.1 hq (by rw [hx]; rfl)
  rw [hx] at a s' q p'
  exact ⟨r', e, l, by rw [a]; exact ha, s', q, p'⟩

theorem interpret_edm (c : Creator) (t : Tracker) (nxt : Option String) :
    interpret c t "942c" nxt = ({ c with hidden := 0 }, t, false) := by
  have f1 : tabOffset "942c" = none := by decide +kernel
  have f2 : pacPos "942c" = none := by decide +kernel
  have f3 : isMidRow "942c" = false := by decide +kernel
  have f4 : isBackground "942c" = false := by decide +kernel
  have f5 : isStyleSetting "942c" = false := by decide +kernel
  unfold interpret
  simp only [f1, f2, f3, f4, f5, Bool.false_eq_true, if_false, Bool.false_and]
  split <;> simp

/-- `942c` in pop-on mode: the buffer being composed stays as it is; a queued caption is shown -/
theorem command_edm_exact (r : Reader) (nxt : Option String) (ha : r.active = .pop) :
    (command r "942c" nxt).active = .pop ∧ (command r "942c" nxt).lastCmd = r.lastCmd ∧
    (command r "942c" nxt).pop.coll = r.pop.coll ∧ (command r "942c" nxt).pop.last = r.pop.last ∧
    (command r "942c" nxt).queue = r.queue.tail := by
  by_cases hq : r.queue.isEmpty = true
  · have e : command r "942c" nxt = { r with pop := { r.pop with hidden := 0 }, err := r.err || false } := by
      unfold command
      simp only [hq]
      simp only [show ("942c" == "9420") = false by decide, show ("942c" == "9429") = false by decide,
        show ("942c" == "9425") = false by decide, show ("942c" == "9426") = false by decide,
        show ("942c" == "94a7") = false by decide, show ("942c" == "94ae") = false by decide,
        show ("942c" == "942f") = false by decide, show ("942c" == "94ad") = false by decide,
        Bool.or_self, Bool.false_eq_true, if_false, Bool.not_true, Bool.and_false]
      rw [buf_pop r ha, interpret_edm, setBuf_pop _ _ ha]
    rw [e]
    have : r.queue = [] := List.isEmpty_iff.mp hq
    exact ⟨ha, rfl, rfl, rfl, by simp [this]⟩
  · have hq' : r.queue.isEmpty = false := by simpa using hq
    have e : command r "942c" nxt = popOn r.now.1 r.now.2 := by
      unfold command
      simp [hq']
    rw [e]
    obtain ⟨n1, n2, n3, n4, _, _, n7, _⟩ := now_fst r
    unfold popOn
    rw [n2]
    cases hqq : r.queue with
    | nil => simp [hqq] at hq'
    | cons x xs =>
      obtain ⟨c, st⟩ := x
      exact ⟨by simpa using n3 ▸ ha, n7, by simp [n4], by simp [n4], rfl⟩

theorem popOn_fields (r : Reader) (t : Rat) : (popOn r t).active = r.active ∧ (popOn r t).lastCmd = r.lastCmd ∧
    (popOn r t).pop = r.pop ∧ (popOn r t).queue = r.queue.tail := by
  unfold popOn
  cases hq : r.queue with
  | nil => simp [hq]
  | cons x xs => obtain ⟨c, st⟩ := x; simp

/-- `942f` in pop-on mode with text in the buffer: the buffer joins the queue as it is, a fresh buffer takes its place -/
theorem command_eoc_exact (r : Reader) (nxt : Option String) (ha : r.active = .pop) (hne : r.pop.isEmpty = false) :
    (command r "942f" nxt).active = .pop ∧ (command r "942f" nxt).lastCmd = r.lastCmd ∧
    (command r "942f" nxt).pop = {} ∧ (command r "942f" nxt).queue = r.queue.tail ++ [(r.pop, r.now.2)] := by
  have e : command r "942f" nxt = eocStep { r.now.1 with time := r.now.2 } r.now.2 := by
    unfold command eocStep
    simp
  rw [e]
  obtain ⟨_, n2, n3, n4, _, _, n7, _⟩ := now_fst r
  generalize hr2 : ({ r.now.1 with time := r.now.2 } : Reader) = r2
  have a2 : r2.active = .pop := by rw [← hr2]; simpa [n3] using ha
  have l2 : r2.lastCmd = r.lastCmd := by rw [← hr2]; exact n7
  have p2 : r2.pop = r.pop := by rw [← hr2]; exact n4
  have q2 : r2.queue = r.queue := by rw [← hr2]; exact n2
  unfold eocStep
  have r3 : ∃ r3 : Reader, (if r2.queue.isEmpty then r2 else popOn r2 r.now.2) = r3 ∧ r3.active = .pop ∧ r3.lastCmd = r.lastCmd ∧
      r3.pop = r.pop ∧ r3.queue = r.queue.tail := by
    by_cases hq : r2.queue.isEmpty = true
    · have : r2.queue = [] := List.isEmpty_iff.mp hq
      exact ⟨r2, by simp [hq], a2, l2, p2, by rw [← q2, this]; rfl⟩
    · obtain ⟨g1, g2, g3, g4⟩ := popOn_fields r2 r.now.2
      exact ⟨popOn r2 r.now.2, by simp [hq], by rw [g1, a2], by rw [g2, l2], by rw [g3, p2], by rw [g4, q2]⟩
  obtain ⟨r3, e3, a3, l3, p3, q3⟩ := r3
  simp only [e3]
  have hb3 : r3.buf.isEmpty = false := by rw [buf_pop r3 a3, p3]; exact hne
  rw [if_neg (by simp [hb3])]
  have ha3' : ({ r3 with queue := r3.queue ++ [(r3.buf, r.now.2)] } : Reader).active = .pop := a3
  rw [setBuf_pop _ _ ha3']
  refine ⟨a3, l3, rfl, ?_⟩
  simp only
  rw [q3, buf_pop r3 a3, p3]

/-- **C05 / C17 (a written caption, exactly).** a pop-on reader between two captions reads the words of a written caption of
    one or more non-empty rows: afterwards the buffer is fresh and the caption waits at the end of the queue as ONE buffer
    holding one text node per row, break nodes between them, all positioned at the first row — screen row `16 − rows`,
    column 0 — and no style node; at most two older captions have left the queue (shown at `942c` and at `942f`) -/
theorem caption_exact (l0 : List Char) (ls : List (List Char)) (rest : List String) (r : Reader) (hn : ls.length + 1 ≤ 15)
    (hb : ∀ l ∈ l0 :: ls, l ≠ [] ∧ ∀ c ∈ l, Basic c) (hq : Quiet r.lastCmd) (ha : r.active = .pop) :
    ∃ r', words r (captionWords (l0 :: ls) ++ rest) = words r' rest ∧ r'.lastCmd = "" ∧ r'.active = .pop ∧ r'.pop = {} ∧
      ∃ c t, r'.queue = r.queue.tail.tail ++ [(c, t)] ∧ c.coll = bufNodes (16 - (ls.length + 1), 0) (l0 :: ls) ∧ c.last = none := by
  unfold captionWords
  simp only [List.cons_append, List.append_assoc, List.nil_append, List.length_cons]
  obtain ⟨r1, e1, l1, a1, s1, q1, p1⟩ := enm_pair_exact r _ hq ha
  obtain ⟨r2, e2, l2, a2, s2, q2, p2⟩ := rcl_pair_exact r1 _ (Or.inl l1) a1
  have hp2 : r2.pop = {} := by rw [p2, p1]
  obtain ⟨r3, e3, s3, q3, in3⟩ := rows_exact l0 ls (16 - (ls.length + 1)) ("942c" :: "942c" :: "942f" :: "942f" :: rest) r2
    (by omega) (by omega) hb a2 (Or.inl l2) (by rw [hp2]) (by rw [hp2])
  -- 942c 942c
  have hfa : (firstCopy r3 "942c").active = .pop := in3.active
  obtain ⟨c1, c2, c3, c4, c5⟩ := command_edm_exact (firstCopy r3 "942c") (some "942c") hfa
  obtain ⟨r4, e4, l4, a4, _, q4, p4⟩ := ctl_pair' r3 "942c" ("942f" :: "942f" :: rest) ctl_fixed.2.2.1 in3.quiet (by rw [c2]; rfl)
  -- 942f 942f
  have hfa5 : (firstCopy r4 "942f").active = .pop := by show r4.active = .pop; rw [a4, c1]
  have hcoll4 : r4.pop.coll = bufNodes (16 - (ls.length + 1), 0) (l0 :: ls) := by
    rw [p4, c3]; exact in3.coll
  have hne5 : (firstCopy r4 "942f").pop.isEmpty = false :=
    isEmpty_bufNodes r4.pop _ l0 ls (hb l0 (by simp)).1 hcoll4
  obtain ⟨d1, d2, d3, d4⟩ := command_eoc_exact (firstCopy r4 "942f") (some "942f") hfa5 hne5
  obtain ⟨r5, e5, l5, a5, _, q5, p5⟩ := ctl_pair' r4 "942f" rest ctl_fixed.2.2.2 (Or.inl l4) (by rw [d2]; rfl)
  refine ⟨r5, by rw [e1, e2, e3, e4, e5], l5, by rw [a5, d1], by rw [p5, d3], r4.pop, (firstCopy r4 "942f").now.2, ?_, hcoll4, ?_⟩
  · rw [q5, d4]
    show r4.queue.tail ++ _ = _
    rw [q4, c5]
    show r3.queue.tail.tail ++ _ = _
    rw [q3, q2, q1]
    rfl
  · rw [p4, c4]; exact in3.last

end PcVerif.SccW
