/-
  C17 / C06: the SCC writer's own files, start AND end of every re-read caption, for caption sets spaced far enough apart.
-/
import PcVerif.Lemmas.PopOnStops
namespace PcVerif.SccW
open Str Scc PcVerif.Props.C16

/-- cues spaced far enough apart for the pre-roll pass to keep every clearing line: each cue is sent (`codeStart`) more than three
    frames after the previous one ends -/
def KeepsStops : Option Rat → List Cue → Prop
  | _, [] => True
  | p, c :: cs => (∀ pe, p = some pe → pe + 3 * frameUs < codeStart c.code.length c.start) ∧ KeepsStops c.stop cs

/-- under `KeepsStops` the pre-roll pass only moves the starts -/
theorem preroll_exact : ∀ (cs done : List Cue), KeepsStops ((done.getLast?).bind (·.stop)) cs →
    preroll done cs = done ++ cs.map (fun c => { c with start := codeStart c.code.length c.start })
  | [], done, _ => by simp [preroll]
  | c :: cs, done, h => by
    obtain ⟨h1, h2⟩ := h
    have hcs : (if c.start - ((c.code.length : Rat) / 5 + 8) * frameUs < 0 then 0 else c.start - ((c.code.length : Rat) / 5 + 8) * frameUs)
        = codeStart c.code.length c.start := by unfold codeStart; rfl
    have hlast : ∀ d : List Cue, ((d ++ [({ c with start := codeStart c.code.length c.start } : Cue)]).getLast?).bind (·.stop) = c.stop := by
      intro d; simp
    unfold preroll
    simp only [hcs]
    cases hl : done.getLast? with
    | none =>
      simp only
      rw [preroll_exact cs _ (by rw [hlast]; exact h2)]
      simp
    | some p =>
      simp only
      cases hp : p.stop with
      | none =>
        simp only
        rw [preroll_exact cs _ (by rw [hlast]; exact h2)]
        simp
      | some pe =>
        simp only
        have := h1 pe (by simp [hl, hp])
        rw [if_neg (not_le.mpr this)]
        rw [preroll_exact cs _ (by rw [hlast]; exact h2)]
        simp

/-- "cues spaced far enough apart to be transmitted": every caption starts at least `(words + 8)` frames after 0, does not end
    before it starts, and is sent (`start − (words + 8)` frames) at least four frames after the previous caption ends -/
def WellSpaced : Option Rat → List (List Str × Rat × Rat) → Prop
  | _, [] => True
  | p, c :: cs =>
    (((rowsWords (16 - c.1.length) c.1).length : Rat) + 8) * frameUs ≤ c.2.1 ∧ c.2.1 ≤ c.2.2 ∧
    (∀ pe, p = some pe → pe + 4 * frameUs ≤ c.2.1 - (((rowsWords (16 - c.1.length) c.1).length : Rat) + 8) * frameUs) ∧
    WellSpaced (some c.2.2) cs

theorem frameUs_pos : (0 : Rat) < frameUs := by rw [frameUs_value]; norm_num

theorem codeStart_of_room (W : Nat) (start : Rat) (h : ((W : Rat) + 8) * frameUs ≤ start) :
    codeStart (5 * W) start = start - ((W : Rat) + 8) * frameUs := by
  unfold codeStart
  simp only
  have e : ((5 * W : Nat) : Rat) / 5 = (W : Rat) := by push_cast; ring
  rw [e]
  have : ¬ (start - ((W : Rat) + 8) * frameUs < 0) := by linarith
  rw [if_neg this]

def mkCue (c : List Str × Rat × Rat) : Cue := { code := textToCode c.1, start := c.2.1, stop := some c.2.2 }

theorem keepsStops_of_wellSpaced : ∀ (caps : List (List Str × Rat × Rat)) (p : Option Rat),
    (∀ c ∈ caps, c.1.length ≤ 15 ∧ ∀ l ∈ c.1, ∀ x ∈ l, Basic x) → WellSpaced p caps → KeepsStops p (caps.map mkCue)
  | [], _, _, _ => trivial
  | c :: cs, p, hok, h => by
    obtain ⟨h1, _, h3, h4⟩ := h
    obtain ⟨hn, hb⟩ := hok c (by simp)
    refine ⟨?_, keepsStops_of_wellSpaced cs _ (fun x hx => hok x (by simp [hx])) h4⟩
    intro pe hpe
    show pe + 3 * frameUs < codeStart (textToCode c.1).length c.2.1
    rw [textToCode_length c.1 hn hb, codeStart_of_room _ _ h1]
    have := h3 pe hpe
    have := frameUs_pos
    linarith

/-- a caption of the set with the two instants the reader will see -/
def timedOf (c : List Str × Rat × Rat) : FileCap × Rat × Rat :=
  (⟨formatTimestamp (codeStart (textToCode c.1).length c.2.1), c.1, some (formatTimestamp c.2.2)⟩, shownAt c.1 c.2.1, lineInstant c.2.2)

theorem timedOf_timed (c : List Str × Rat × Rat) (hg : GoodLines c.1) (hend : 0 ≤ c.2.2) : Timed 0 (timedOf c) := by
  have hn := hg.2.1
  have hb : ∀ l ∈ c.1, ∀ x ∈ l, Basic x := fun l hl x hx => (hg.2.2 l hl).2 x hx
  refine ⟨⟨formatTimestamp_stamp _, hn, hb, ?_⟩, hg, ?_, formatTimestamp c.2.2, rfl, lineInstant_is c.2.2 hend⟩
  · intro t ht
    simp only [timedOf, Option.some.injEq] at ht
    subst ht
    exact formatTimestamp_stamp _
  · show timeOf (String.ofList (formatTimestamp (codeStart (textToCode c.1).length c.2.1)))
        ((rowsWords (16 - c.1.length) c.1).length + 6) 0 = some (shownAt c.1 c.2.1)
    rw [written_stamp_instant _ (codeStart_nonneg _ _)]
    unfold shownAt
    simp only
    rw [textToCode_length c.1 hn hb]

theorem spacedFrom_of_wellSpaced : ∀ (caps : List (List Str × Rat × Rat)) (p : Option Rat),
    (∀ pe, p = some pe → 8 * frameUs ≤ pe) → WellSpaced p caps → SpacedFrom (p.map lineInstant) (caps.map timedOf)
  | [], _, _, _ => trivial
  | c :: cs, p, hp, h => by
    obtain ⟨h1, h2, h3, h4⟩ := h
    have hF := frameUs_pos
    have hFv : frameUs = Scc.frameUs := rfl
    have hsh := shown_within_three_frames c.1 c.2.1 h1
    have hW : (0 : Rat) ≤ ((rowsWords (16 - c.1.length) c.1).length : Rat) := Nat.cast_nonneg _
    refine ⟨?_, ?_⟩
    · intro s hs
      cases hpp : p with
      | none => simp [hpp] at hs
      | some pe =>
        simp only [hpp, Option.map_some, Option.some.injEq] at hs
        subst hs
        have hpe := hp pe hpp
        obtain ⟨_, _, l3, l4⟩ := lineInstant_monotone pe pe (by linarith) (le_refl _)
        have hgap := h3 pe hpp
        show lineInstant pe ≠ 0 ∧ 5 * Scc.frameUs + 1 ≤ shownAt c.1 c.2.1 - lineInstant pe
        rw [← hFv]
        have hF1 : (1 : Rat) ≤ frameUs := by rw [frameUs_value]; norm_num
        constructor
        · intro e; rw [e] at l4; linarith
        · nlinarith
    · have := spacedFrom_of_wellSpaced cs (some c.2.2) (by
        intro pe hpe
        simp only [Option.some.injEq] at hpe
        subst hpe
        nlinarith) h4
      simpa [timedOf] using this

/-- **C17 / C06 (write, then read: every caption with its start and its end).** for every caption set of 1–15 tidy rows of basic
    characters per caption whose cues are spaced far enough apart to be transmitted (`WellSpaced`): the reader model run on the
    writer model's file stores exactly the input captions, in order — rows as lines, first-row position — each starting at
    `shownAt` (two to three frames before its start) and ending at `lineInstant end` (less than a frame before its end): the
    pre-roll pass keeps every clearing line, no caption is joined to its neighbour or given the default four seconds -/
theorem written_file_start_end (caps : List (List Str × Rat × Rat)) (hg : ∀ c ∈ caps, GoodLines c.1) (hsp : WellSpaced none caps) :
    (run (write caps) 0).S.stash = caps.map (fun c => cap4 (c.1, shownAt c.1 c.2.1, lineInstant c.2.2)) := by
  have hok : ∀ c ∈ caps, c.1.length ≤ 15 ∧ ∀ l ∈ c.1, ∀ x ∈ l, Basic x :=
    fun c hc => ⟨(hg c hc).2.1, fun l hlm x hx => ((hg c hc).2.2 l hlm).2 x hx⟩
  -- ends are not negative
  have hends : ∀ (cs : List (List Str × Rat × Rat)) (p : Option Rat), WellSpaced p cs → ∀ c ∈ cs, 0 ≤ c.2.2 := by
    intro cs
    induction cs with
    | nil => intro _ _ c hc; simp at hc
    | cons d ds ih =>
      intro p h c hc
      obtain ⟨h1, h2, _, h4⟩ := h
      rcases List.mem_cons.mp hc with rfl | hc'
      · have hW : (0 : Rat) ≤ ((rowsWords (16 - c.1.length) c.1).length : Rat) := Nat.cast_nonneg _
        have := frameUs_pos
        nlinarith
      · exact ih _ h4 c hc'
  -- the file
  have hfile : write caps = fileText ((caps.map timedOf).map (·.1)) := by
    by_cases he : caps.isEmpty = true
    · have : caps = [] := List.isEmpty_iff.mp he
      subst this
      simp [write, fileText]
    · have hk := keepsStops_of_wellSpaced caps none hok hsp
      have hpre := preroll_exact (caps.map mkCue) [] (by simpa using hk)
      let lcs : List LCue := caps.map fun c => ⟨c.1, codeStart (textToCode c.1).length c.2.1, some c.2.2⟩
      have hl : lcs.map LCue.cue = preroll [] (caps.map mkCue) := by
        rw [hpre]
        simp [lcs, List.map_map, Function.comp_def, LCue.cue, mkCue]
      have hlok : ∀ c ∈ lcs, c.ok := by
        intro c hc
        obtain ⟨k, hk', rfl⟩ := List.mem_map.mp hc
        exact hok k hk'
      unfold write fileText
      simp only [he, Bool.false_eq_true, if_false]
      have hmk : (caps.map fun c => ({ code := textToCode c.1, start := c.2.1, stop := some c.2.2 } : Cue)) = caps.map mkCue := rfl
      rw [hmk, ← hl, writeCues_text lcs hlok]
      have hfc : lcs.map LCue.fileCap = (caps.map timedOf).map (·.1) := by
        simp [lcs, List.map_map, Function.comp_def, LCue.fileCap, timedOf]
      rw [hfc]
      simp [List.flatMap_cons, List.append_assoc]
  rw [hfile]
  have hT : ∀ x ∈ caps.map timedOf, Timed ((0 : Rat) * 1000000) x := by
    intro x hx
    obtain ⟨c, hc, rfl⟩ := List.mem_map.mp hx
    rw [zero_mul]
    exact timedOf_timed c (hg c hc) (hends caps none hsp c hc)
  have hS := spacedFrom_of_wellSpaced caps none (by intro pe h; cases h) hsp
  rw [file_stored4 (caps.map timedOf) 0 hT (by simpa using hS)]
  simp [List.map_map, Function.comp_def, timedOf]

end PcVerif.SccW
