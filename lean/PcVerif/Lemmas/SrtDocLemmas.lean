/-
  Document level of the SRT reader (C01): the index machine of `SRTReader.read` / `_find_text_line` is refined to a
  structural scan over the remaining lines; for a document made of well-formed cue blocks separated by blank lines
  the reader returns exactly one caption per block, with the instants its two stamps denote.
-/
import PcVerif.Model.Srt
import PcVerif.Lemmas.StrLemmas
namespace PcVerif.Srt
open Str

abbrev blank (l : Str) : Bool := (strip l).isEmpty

/-- `_find_text_line` relative to the current line: how far `end_line` is from here -/
def scan : List Str → Bool → Nat
  | [], _ => 1
  | l :: ls, found =>
    if (strip l).isEmpty then 1 + scan ls true
    else if found then 0
    else 1 + scan ls found

theorem findTextLineAux_scan (lines : List Str) : ∀ (fuel i : Nat) (found : Bool),
    lines.length + 1 ≤ fuel + i → (found = true → 1 ≤ i) →
    findTextLineAux lines fuel i found = i + scan (lines.drop i) found := by
  intro fuel
  induction fuel with
  | zero =>
    intro i found hf _
    have hi : lines.length ≤ i := by omega
    simp [findTextLineAux, List.drop_eq_nil_of_le hi, scan]
  | succ fuel ih =>
    intro i found hf hfound
    unfold findTextLineAux
    cases hl : lines[i]? with
    | none =>
      have hi : lines.length ≤ i := by
        rcases Nat.lt_or_ge i lines.length with h | h
        · rw [List.getElem?_eq_getElem h] at hl; cases hl
        · exact h
      simp [List.drop_eq_nil_of_le hi, scan]
    | some l =>
      have hi : i < lines.length := by
        rcases Nat.lt_or_ge i lines.length with h | h
        · exact h
        · rw [List.getElem?_eq_none h] at hl; cases hl
      have hd : lines.drop i = l :: lines.drop (i + 1) := by
        rw [List.getElem?_eq_getElem hi] at hl
        cases hl
        exact List.drop_eq_getElem_cons hi
      simp only [hd, scan]
      by_cases hb : (strip l).isEmpty = true
      · rw [if_pos hb, if_pos hb]
        rw [ih (i + 1) true (by omega) (by intro _; omega)]
        omega
      · rw [if_neg hb, if_neg hb]
        by_cases hfd : found = true
        · have := hfound hfd
          rw [if_pos hfd, if_pos hfd]; omega
        · rw [if_neg hfd, if_neg hfd]
          rw [ih (i + 1) found (by omega) (by intro h; exact absurd h hfd)]
          omega

theorem findTextLine_scan (start : Nat) (lines : List Str) :
    findTextLine start lines = start + scan (lines.drop start) false :=
  findTextLineAux_scan lines _ start false (by omega) (by intro h; cases h)

theorem scan_nonblank_run (nb rest : List Str) (h : ∀ l ∈ nb, blank l = false) :
    scan (nb ++ rest) false = nb.length + scan rest false := by
  induction nb with
  | nil => simp
  | cons l ls ih =>
    have hl : blank l = false := h l (by simp)
    simp only [List.cons_append, scan, hl, Bool.false_eq_true, if_false, List.length_cons]
    rw [ih (fun x hx => h x (by simp [hx]))]; omega

theorem blank_nil : blank [] = true := by decide

theorem scan_blank_run (k : Nat) (rest : List Str) (found : Bool) :
    scan (List.replicate (k + 1) [] ++ rest) found = (k + 1) + scan rest true := by
  induction k generalizing found with
  | zero => simp [List.replicate, scan, blank_nil]
  | succ k ih =>
    rw [List.replicate_succ, List.cons_append]
    simp only [scan, blank_nil, if_true]
    rw [ih true]; omega

end PcVerif.Srt

namespace PcVerif.Str

theorem lstripBy_of_head (p : Char → Bool) (c : Char) (s : Str) (h : p c = false) : lstripBy p (c :: s) = c :: s := by
  simp [lstripBy, h]

/-- stripping stops at a first and a last character outside the class -/
theorem stripBy_keep (p : Char → Bool) (pre post mid : Str) (c d : Char)
    (hpre : ∀ x ∈ pre, p x = true) (hpost : ∀ x ∈ post, p x = true) (hc : p c = false) (hd : p d = false) :
    stripBy p (pre ++ c :: (mid ++ d :: post)) = c :: (mid ++ [d]) := by
  have l1 : ∀ (pre : Str) (r : Str), (∀ x ∈ pre, p x = true) → lstripBy p (pre ++ c :: r) = c :: r := by
    intro pre r hp
    induction pre with
    | nil => exact lstripBy_of_head p c r hc
    | cons x xs ih =>
      have hx : p x = true := hp x (by simp)
      simp only [List.cons_append, lstripBy, hx, if_true]
      exact ih (fun y hy => hp y (by simp [hy]))
  have l2 : ∀ (post : Str) (r : Str), (∀ x ∈ post, p x = true) → lstripBy p (post ++ d :: r) = d :: r := by
    intro post r hp
    induction post with
    | nil => exact lstripBy_of_head p d r hd
    | cons x xs ih =>
      have hx : p x = true := hp x (by simp)
      simp only [List.cons_append, lstripBy, hx, if_true]
      exact ih (fun y hy => hp y (by simp [hy]))
  unfold stripBy rstripBy
  rw [l1 pre _ hpre]
  have : (c :: (mid ++ d :: post)).reverse = post.reverse ++ d :: (mid.reverse ++ [c]) := by simp
  rw [this, l2 post.reverse _ (by intro x hx; exact hpost x (List.mem_reverse.mp hx))]
  simp

/-- a line with a character outside the class is not stripped to nothing -/
theorem stripBy_ne_nil (p : Char → Bool) (s : Str) (c : Char) (hc : c ∈ s) (hp : p c = false) : stripBy p s ≠ [] := by
  have l1 : ∀ s : Str, c ∈ s → c ∈ lstripBy p s := by
    intro s
    induction s with
    | nil => intro h; simp at h
    | cons x xs ih =>
      intro h
      simp only [lstripBy]
      by_cases hx : p x = true
      · rw [if_pos hx]
        rcases List.mem_cons.mp h with rfl | h'
        · rw [hp] at hx; cases hx
        · exact ih h'
      · rw [if_neg hx]; exact h
  unfold stripBy rstripBy
  intro h
  have h1 : c ∈ lstripBy p s := l1 s hc
  have h2 : c ∈ lstripBy p (lstripBy p s).reverse := l1 _ (List.mem_reverse.mpr h1)
  have h3 : c ∈ (lstripBy p (lstripBy p s).reverse).reverse := List.mem_reverse.mpr h2
  rw [h] at h3; simp at h3

theorem blank_false_of_mem (s : Str) (c : Char) (hc : c ∈ s) (hp : isSpace c = false) : (strip s).isEmpty = false := by
  have := stripBy_ne_nil isSpace s c hc hp
  cases h : strip s with
  | nil => exact absurd h this
  | cons _ _ => rfl

/-! ### `"a --> b".split("-->")` -/

theorem splitOnAux_ne_nil (sep : Str) : ∀ (s : Str) (k : Nat), splitOnAux sep k s ≠ [] := by
  intro s
  induction s with
  | nil => intro k; cases k <;> simp [splitOnAux]
  | cons c s ih =>
    intro k
    cases k with
    | succ k => simp only [splitOnAux]; exact ih k
    | zero =>
      simp only [splitOnAux]
      split
      · simp
      · split <;> simp

theorem isPrefix_arrow_ne (c : Char) (s : Str) (h : c ≠ '-') : isPrefix "-->".toList (c :: s) = false := by
  have : "-->".toList = ['-', '-', '>'] := by decide
  rw [this]; simp [isPrefix, dropPrefix?, h]

theorem splitOn_no_dash (a : Str) (h : '-' ∉ a) : splitOnAux "-->".toList 0 a = [a] := by
  induction a with
  | nil => rfl
  | cons c s ih =>
    have hc : c ≠ '-' := fun e => h (by simp [e])
    have hs : '-' ∉ s := fun e => h (by simp [e])
    simp only [splitOnAux, isPrefix_arrow_ne c s hc, Bool.false_eq_true, if_false, ih hs]

theorem splitOn_before_arrow (a r : Str) (h : '-' ∉ a) :
    splitOnAux "-->".toList 0 (a ++ r) =
      match splitOnAux "-->".toList 0 r with
      | hd :: tl => (a ++ hd) :: tl
      | [] => [a] := by
  induction a with
  | nil =>
    simp only [List.nil_append]
    cases hr : splitOnAux "-->".toList 0 r with
    | nil => exact absurd hr (splitOnAux_ne_nil _ _ _)
    | cons hd tl => rfl
  | cons c s ih =>
    have hc : c ≠ '-' := fun e => h (by simp [e])
    have hs : '-' ∉ s := fun e => h (by simp [e])
    simp only [List.cons_append, splitOnAux, isPrefix_arrow_ne c _ hc, Bool.false_eq_true, if_false, ih hs]
    cases hr : splitOnAux "-->".toList 0 r with
    | nil => exact absurd hr (splitOnAux_ne_nil _ _ _)
    | cons hd tl => rfl

/-- the timing line splits at its arrow into the two stamps (with the spaces around the arrow) -/
theorem splitOn_timing (a b : Str) (ha : '-' ∉ a) (hb : '-' ∉ b) :
    splitOn "-->".toList (a ++ " --> ".toList ++ b) = [a ++ [' '], ' ' :: b] := by
  have e : a ++ " --> ".toList ++ b = (a ++ [' ']) ++ ('-' :: '-' :: '>' :: ' ' :: b) := by
    have : " --> ".toList = [' ', '-', '-', '>', ' '] := by decide
    rw [this]; simp
  have ha' : '-' ∉ a ++ [' '] := by
    intro h; rcases List.mem_append.mp h with h | h
    · exact ha h
    · simp at h
  have hb' : '-' ∉ ' ' :: b := by
    intro h; rcases List.mem_cons.mp h with h | h
    · cases h
    · exact hb h
  have h2 : ∀ X : Str, splitOnAux "-->".toList 0 ('-' :: '-' :: '>' :: X) = [] :: splitOnAux "-->".toList 0 X := by
    intro X
    have hp : isPrefix "-->".toList ('-' :: '-' :: '>' :: X) = true := by
      have : "-->".toList = ['-', '-', '>'] := by decide
      rw [this]; simp [isPrefix, dropPrefix?]
    have hl : "-->".toList.length - 1 = 2 := by decide
    simp only [splitOnAux, hp, if_true, hl]
  unfold splitOn
  rw [e, splitOn_before_arrow _ _ ha', h2, splitOn_no_dash _ hb']
  simp

end PcVerif.Str

namespace PcVerif.Srt
open Str

/-- one cue block as written: index line, the two stamps of the timing line, text lines, extra blank lines after it -/
structure Block where
  idx : Str
  a : Str
  b : Str
  texts : List Str
  gap : Nat

def Block.timing (B : Block) : Str := B.a ++ " --> ".toList ++ B.b

def lineNodes (texts : List Str) : List Node := texts.flatMap fun t => [Node.text t, Node.brk]

/-- the caption a block stands for -/
def Block.caption (B : Block) (st en : Nat) : Caption :=
  { start := st, stop := en, nodes := (lineNodes B.texts).dropLast }

/-- well-formed block denoting the instants `st`, `en` -/
structure Block.WF (B : Block) (st en : Nat) : Prop where
  idxDigit : isDigitStr B.idx = true
  idxNonblank : blank B.idx = false
  aNoDash : '-' ∉ B.a
  bNoDash : '-' ∉ B.b
  aMicro : toMicro (stripTiming (B.a ++ [' '])) = .ok st
  bMicro : toMicro (stripTiming (' ' :: B.b)) = .ok en
  textsNe : B.texts ≠ []
  textsNonblank : ∀ t ∈ B.texts, blank t = false

/-- the lines of a document: blocks separated by one or more empty lines; after the last block any number (also none) -/
def docLines : List Block → List Str
  | [] => []
  | [B] => B.idx :: B.timing :: (B.texts ++ List.replicate B.gap [])
  | B :: B' :: Bs => B.idx :: B.timing :: (B.texts ++ (List.replicate (B.gap + 1) [] ++ docLines (B' :: Bs)))

theorem timing_nonblank (B : Block) : blank B.timing = false := by
  apply blank_false_of_mem _ '-'
  · unfold Block.timing
    have : " --> ".toList = [' ', '-', '-', '>', ' '] := by decide
    rw [this]; simp
  · decide

theorem nonblank_ne_nil {t : Str} (h : blank t = false) : t ≠ [] := by
  intro e; subst e; revert h; decide

theorem textNodes_texts (acc : List Node) (texts rest : List Str) (h : ∀ t ∈ texts, t ≠ []) :
    textNodes acc (texts ++ rest) = textNodes (acc ++ lineNodes texts) rest := by
  induction texts generalizing acc with
  | nil => simp [lineNodes]
  | cons t ts ih =>
    have ht : t ≠ [] := h t (by simp)
    simp only [List.cons_append, textNodes, ne_eq, ht, not_false_eq_true, decide_true, Bool.or_true, if_true]
    rw [ih _ (fun x hx => h x (by simp [hx]))]
    simp [lineNodes]

theorem textNodes_blanks (acc : List Node) (k : Nat) (h : acc ≠ []) : textNodes acc (List.replicate k []) = acc := by
  induction k with
  | zero => rfl
  | succ k ih =>
    have : acc.isEmpty = false := by cases acc <;> simp_all
    simp only [List.replicate_succ, textNodes, this, ne_eq, not_true_eq_false, decide_false, Bool.or_false,
      Bool.false_eq_true, if_false]
    exact ih

theorem lineNodes_ne_nil {texts : List Str} (h : texts ≠ []) : lineNodes texts ≠ [] := by
  cases texts with
  | nil => exact absurd rfl h
  | cons t ts => simp [lineNodes]

theorem body_nodes (B : Block) (k : Nat) (hne : B.texts ≠ []) (hnb : ∀ t ∈ B.texts, blank t = false) :
    textNodes [] (B.texts ++ List.replicate k []) = lineNodes B.texts := by
  rw [textNodes_texts _ _ _ (fun t ht => nonblank_ne_nil (hnb t ht))]
  simp only [List.nil_append]
  exact textNodes_blanks _ _ (lineNodes_ne_nil hne)

/-- what one iteration of the main loop does on a block, given what `_find_text_line` returns and what the body slice is -/
theorem readLoop_step (lines : List Str) (fuel start : Nat) (acc : List Caption) (B : Block) (st en k : Nat)
    (tail : List Str) (hw : B.WF st en)
    (hd : lines.drop start = B.idx :: B.timing :: tail)
    (hbody : (lines.take (findTextLine start lines - 1)).drop (start + 2) = B.texts ++ List.replicate k []) :
    readLoop lines (fuel + 1) start acc = readLoop lines fuel (findTextLine start lines) (acc ++ [B.caption st en]) := by
  have h0 : lines[start]? = some B.idx := by
    have := List.getElem?_drop (xs := lines) (i := start) (j := 0)
    rw [hd] at this; simpa using this.symm
  have h1 : lines[start + 1]? = some B.timing := by
    have := List.getElem?_drop (xs := lines) (i := start) (j := 1)
    rw [hd] at this; simpa using this.symm
  have hn : lineNodes B.texts ≠ [] := lineNodes_ne_nil hw.textsNe
  have hne : (lineNodes B.texts).isEmpty = false := by
    cases h : lineNodes B.texts with
    | nil => exact absurd h hn
    | cons _ _ => rfl
  conv => lhs; unfold readLoop
  simp only [h0, hw.idxDigit, Bool.not_true, Bool.false_eq_true, if_false, pyIdx, h1, bind, Except.bind]
  have hsplit := splitOn_timing B.a B.b hw.aNoDash hw.bNoDash
  unfold Block.timing at h1 ⊢
  simp only [hsplit, List.getElem?_cons_zero, List.getElem?_cons_succ, hw.aMicro, hw.bMicro, hbody,
    body_nodes B k hw.textsNe hw.textsNonblank, hne, Bool.false_eq_true, if_false, Block.caption]

end PcVerif.Srt

namespace PcVerif.Srt
open Str

theorem take_len_add {α : Type} (a b : List α) (k : Nat) : (a ++ b).take (a.length + k) = a ++ b.take k := by
  induction a with
  | nil => simp
  | cons x xs ih => simp only [List.cons_append, List.length_cons]; rw [show xs.length + 1 + k = (xs.length + k) + 1 by omega]; simp [ih]

theorem drop_len_add {α : Type} (a b : List α) (k : Nat) : (a ++ b).drop (a.length + k) = b.drop k := by
  induction a with
  | nil => simp
  | cons x xs ih => simp only [List.cons_append, List.length_cons]; rw [show xs.length + 1 + k = (xs.length + k) + 1 by omega]; simp [ih]

theorem take_replicate_succ {α : Type} (x : α) (g : Nat) (r : List α) : (List.replicate (g + 1) x ++ r).take g = List.replicate g x := by
  induction g with
  | zero => simp
  | succ g ih =>
    have e : List.replicate (g + 1 + 1) x ++ r = x :: (List.replicate (g + 1) x ++ r) := rfl
    rw [e, List.take_succ_cons, ih]; rfl

theorem drop_drop' {α : Type} (l : List α) (a b : Nat) : l.drop (a + b) = (l.drop a).drop b := by
  induction l generalizing a with
  | nil => simp
  | cons x xs ih =>
    cases a with
    | zero => simp
    | succ a => rw [show a + 1 + b = (a + b) + 1 by omega, List.drop_succ_cons, List.drop_succ_cons]; exact ih a

theorem take_drop' {α : Type} (l : List α) (n m : Nat) : (l.take n).drop m = (l.drop m).take (n - m) := by
  induction l generalizing n m with
  | nil => simp
  | cons x xs ih =>
    cases m with
    | zero => simp
    | succ m =>
      cases n with
      | zero => simp
      | succ n => simp only [List.take_succ_cons, List.drop_succ_cons]; rw [ih]; congr 1; omega

/-- a block followed by another block: where `_find_text_line` ends, what the body slice is, what remains -/
theorem block_nonfinal (lines : List Str) (start : Nat) (B : Block) (st en : Nat) (x : Str) (xs : List Str)
    (hw : B.WF st en) (hx : blank x = false)
    (hd : lines.drop start = B.idx :: B.timing :: (B.texts ++ (List.replicate (B.gap + 1) [] ++ x :: xs))) :
    findTextLine start lines = start + (2 + B.texts.length + B.gap + 1) ∧
    (lines.take (findTextLine start lines - 1)).drop (start + 2) = B.texts ++ List.replicate B.gap [] ∧
    lines.drop (findTextLine start lines) = x :: xs := by
  have hscan : scan (lines.drop start) false = 2 + B.texts.length + B.gap + 1 := by
    rw [hd]
    have e : B.idx :: B.timing :: (B.texts ++ (List.replicate (B.gap + 1) [] ++ x :: xs))
        = (B.idx :: B.timing :: B.texts) ++ (List.replicate (B.gap + 1) [] ++ x :: xs) := by simp
    rw [e, scan_nonblank_run, scan_blank_run]
    · have : scan (x :: xs) true = 0 := by simp [scan, hx]
      rw [this]; simp; omega
    · intro l hl
      rcases List.mem_cons.mp hl with rfl | hl
      · exact hw.idxNonblank
      · rcases List.mem_cons.mp hl with rfl | hl
        · exact timing_nonblank B
        · exact hw.textsNonblank l hl
  have hf : findTextLine start lines = start + (2 + B.texts.length + B.gap + 1) := by
    rw [findTextLine_scan, hscan]
  have hd2 : lines.drop (start + 2) = B.texts ++ (List.replicate (B.gap + 1) [] ++ x :: xs) := by
    rw [drop_drop', hd]; rfl
  refine ⟨hf, ?_, ?_⟩
  · rw [take_drop', hd2, hf]
    rw [show start + (2 + B.texts.length + B.gap + 1) - 1 - (start + 2) = B.texts.length + B.gap by omega]
    rw [take_len_add, take_replicate_succ]
  · rw [hf, show start + (2 + B.texts.length + B.gap + 1) = (start + 2) + (B.texts.length + (B.gap + 1)) by omega]
    rw [drop_drop', hd2, drop_len_add]
    have := drop_len_add (List.replicate (B.gap + 1) ([] : Str)) (x :: xs) 0
    rw [List.length_replicate, Nat.add_zero, List.drop_zero] at this
    exact this

/-- the last block -/
theorem block_final (lines : List Str) (start : Nat) (B : Block) (st en : Nat)
    (hw : B.WF st en) (hs : start ≤ lines.length)
    (hd : lines.drop start = B.idx :: B.timing :: (B.texts ++ List.replicate B.gap [])) :
    findTextLine start lines = lines.length + 1 ∧
    (lines.take (findTextLine start lines - 1)).drop (start + 2) = B.texts ++ List.replicate B.gap [] := by
  have hlen : lines.length = start + (2 + B.texts.length + B.gap) := by
    have := congrArg List.length hd
    simp at this; omega
  have hscan : scan (lines.drop start) false = 2 + B.texts.length + B.gap + 1 := by
    rw [hd]
    have e : B.idx :: B.timing :: (B.texts ++ List.replicate B.gap [])
        = (B.idx :: B.timing :: B.texts) ++ (List.replicate B.gap [] ++ []) := by simp
    rw [e, scan_nonblank_run]
    · cases hg : B.gap with
      | zero => simp [scan]; omega
      | succ g => rw [scan_blank_run]; simp [scan]; omega
    · intro l hl
      rcases List.mem_cons.mp hl with rfl | hl
      · exact hw.idxNonblank
      · rcases List.mem_cons.mp hl with rfl | hl
        · exact timing_nonblank B
        · exact hw.textsNonblank l hl
  have hf : findTextLine start lines = lines.length + 1 := by
    rw [findTextLine_scan, hscan, hlen]; omega
  refine ⟨hf, ?_⟩
  rw [hf, Nat.add_sub_cancel, List.take_length, drop_drop', hd]; rfl

end PcVerif.Srt

namespace PcVerif.Srt
open Str

abbrev TBlock := Block × Nat × Nat

def caps (bs : List TBlock) : List Caption := bs.map fun b => b.1.caption b.2.1 b.2.2

def AllWF (bs : List TBlock) : Prop := ∀ b ∈ bs, b.1.WF b.2.1 b.2.2

theorem readLoop_past_end (lines : List Str) (fuel i : Nat) (acc : List Caption) (h : lines.length ≤ i) :
    readLoop lines fuel i acc = .ok acc := by
  cases fuel with
  | zero => rfl
  | succ f => unfold readLoop; rw [List.getElem?_eq_none h]

theorem docLines_cons (B : Block) (Bs : List Block) : ∃ tl, docLines (B :: Bs) = B.idx :: tl := by
  cases Bs with
  | nil => exact ⟨_, rfl⟩
  | cons B' Bs => exact ⟨_, rfl⟩

/-- **the reader on a document of well-formed blocks**: one caption per block, in order, with the denoted instants -/
theorem readLoop_doc (bs : List TBlock) : ∀ (lines : List Str) (start fuel : Nat) (acc : List Caption),
    bs ≠ [] → AllWF bs → start ≤ lines.length → lines.drop start = docLines (bs.map (·.1)) → bs.length ≤ fuel →
    readLoop lines fuel start acc = .ok (acc ++ caps bs) := by
  induction bs with
  | nil => intro _ _ _ _ h; exact absurd rfl h
  | cons b rest ih =>
    intro lines start fuel acc _ hwf hs hd hfuel
    have hw : b.1.WF b.2.1 b.2.2 := hwf b (by simp)
    cases fuel with
    | zero => simp at hfuel
    | succ f =>
      cases rest with
      | nil =>
        have hd' : lines.drop start = b.1.idx :: b.1.timing :: (b.1.texts ++ List.replicate b.1.gap []) := hd
        obtain ⟨hf, hbody⟩ := block_final lines start b.1 b.2.1 b.2.2 hw hs hd'
        rw [readLoop_step lines f start acc b.1 b.2.1 b.2.2 b.1.gap _ hw hd' hbody, hf,
          readLoop_past_end _ _ _ _ (by omega)]
        simp [caps]
      | cons b' rest' =>
        obtain ⟨tl, htl⟩ := docLines_cons b'.1 (rest'.map (·.1))
        have hw' : b'.1.WF b'.2.1 b'.2.2 := hwf b' (by simp)
        have hd' : lines.drop start = b.1.idx :: b.1.timing ::
            (b.1.texts ++ (List.replicate (b.1.gap + 1) [] ++ b'.1.idx :: tl)) := by
          rw [hd, ← htl]; rfl
        obtain ⟨hf, hbody, hrest⟩ := block_nonfinal lines start b.1 b.2.1 b.2.2 b'.1.idx tl hw hw'.idxNonblank hd'
        rw [readLoop_step lines f start acc b.1 b.2.1 b.2.2 b.1.gap _ hw hd' hbody]
        have hlt : findTextLine start lines ≤ lines.length := by
          rcases Nat.lt_or_ge lines.length (findTextLine start lines) with h | h
          · rw [List.drop_eq_nil_of_le (Nat.le_of_lt h)] at hrest; cases hrest
          · exact h
        rw [ih lines (findTextLine start lines) f _ (by simp) (fun x hx => hwf x (by simp [hx])) hlt
          (by rw [hrest, ← htl]; rfl) (by simp at hfuel ⊢; omega)]
        simp [caps]

/-- `SRTReader.read` on such a document -/
theorem read_doc (content : Str) (bs : List TBlock) (hne : bs ≠ []) (hwf : AllWF bs)
    (hl : splitlines content = docLines (bs.map (·.1))) : read content = .ok (caps bs) := by
  unfold read
  have hlen : bs.length ≤ (splitlines content).length + 1 := by
    rw [hl]
    have : ∀ l : List Block, l.length ≤ (docLines l).length := by
      intro l
      induction l with
      | nil => simp [docLines]
      | cons B Bs ih =>
        cases Bs with
        | nil => simp [docLines]
        | cons B' Bs' => simp only [docLines, List.length_cons, List.length_append] at ih ⊢; omega
    have := this (bs.map (·.1)); simp at this; omega
  have := readLoop_doc bs (splitlines content) 0 ((splitlines content).length + 1) [] hne hwf (by omega) (by simpa using hl) hlen
  simp only [this, List.nil_append]
  cases hb : caps bs with
  | nil => cases bs with
    | nil => exact absurd rfl hne
    | cons b r => simp [caps] at hb
  | cons c cs => rfl

end PcVerif.Srt

namespace PcVerif.Srt
open Str

/-! ### from characters to lines, and canonical blocks -/

def NoBreak (l : Str) : Prop := ∀ c ∈ l, isLineBreak c = false

theorem splitlinesAux_line (l : Str) (h : NoBreak l) : ∀ (cur rest : Str),
    splitlinesAux false cur (l ++ '\n' :: rest) = (cur.reverse ++ l) :: splitlinesAux false [] rest := by
  induction l with
  | nil =>
    intro cur rest
    have h1 : ¬ ('\n' = '\r') := by decide
    have h2 : isLineBreak '\n' = true := by decide
    simp [splitlinesAux, h1, h2]
  | cons c l ih =>
    intro cur rest
    have hc : isLineBreak c = false := h c (by simp)
    have hr : c ≠ '\r' := by
      intro e; subst e; revert hc; decide
    simp only [List.cons_append, splitlinesAux, Bool.false_and, Bool.false_eq_true, if_false, hr, hc]
    rw [ih (fun x hx => h x (by simp [hx]))]
    simp

/-- every line terminated by a line feed: `splitlines` gives the lines back -/
theorem splitlines_terminated (ls : List Str) (h : ∀ l ∈ ls, NoBreak l) :
    splitlines (ls.flatMap (· ++ ['\n'])) = ls := by
  unfold splitlines
  induction ls with
  | nil => rfl
  | cons l ls ih =>
    simp only [List.flatMap_cons, List.append_assoc, List.singleton_append]
    rw [splitlinesAux_line l (h l (by simp)), ih (fun x hx => h x (by simp [hx]))]
    simp

/-- **C01, SRT document level.** a document of well-formed cue blocks (each line ended by a line feed, one or more empty
    lines between blocks, any number after the last) is read as exactly one caption per block, in order, starting and
    ending at the instants its stamps denote, with the block's text lines separated by breaks -/
theorem srt_document (bs : List TBlock) (hne : bs ≠ []) (hwf : AllWF bs)
    (hnb : ∀ l ∈ docLines (bs.map (·.1)), NoBreak l) :
    read ((docLines (bs.map (·.1))).flatMap (· ++ ['\n'])) = .ok (caps bs) :=
  read_doc _ bs hne hwf (splitlines_terminated _ hnb)

theorem asciiDigit_facts (c : Char) (h : isAsciiDigit c = true) :
    isPyDigit c = true ∧ isSpace c = false ∧ c ≠ '-' ∧ [' ', '\r', '\n'].contains c = false := by
  have hb : '0' ≤ c ∧ c ≤ '9' := by simpa [isAsciiDigit] using h
  have hn : 48 ≤ c.toNat ∧ c.toNat ≤ 57 := by
    obtain ⟨h1, h2⟩ := hb
    exact ⟨h1, h2⟩
  have hc : c = Char.ofNat c.toNat := (Char.ofNat_toNat c).symm
  have hd : c.toNat = 48 ∨ c.toNat = 49 ∨ c.toNat = 50 ∨ c.toNat = 51 ∨ c.toNat = 52 ∨ c.toNat = 53 ∨ c.toNat = 54
      ∨ c.toNat = 55 ∨ c.toNat = 56 ∨ c.toNat = 57 := by omega
  rcases hd with h | h | h | h | h | h | h | h | h | h <;> (rw [hc, h]; decide)

end PcVerif.Srt

namespace PcVerif.Srt
open Str

theorem stripTiming_between_digits (c d : Char) (mid : Str) (hc : isAsciiDigit c = true) (hd : isAsciiDigit d = true) :
    stripTiming (c :: (mid ++ [d]) ++ [' ']) = c :: (mid ++ [d]) ∧ stripTiming (' ' :: c :: (mid ++ [d])) = c :: (mid ++ [d]) := by
  have pc := (asciiDigit_facts c hc).2.2.2
  have pd := (asciiDigit_facts d hd).2.2.2
  unfold stripTiming stripChars
  constructor
  · have := stripBy_keep (fun x => [' ', '\r', '\n'].contains x) [] [' '] mid c d (by simp) (by simp) pc pd
    simpa using this
  · have := stripBy_keep (fun x => [' ', '\r', '\n'].contains x) [' '] [] mid c d (by simp) (by simp) pc pd
    simpa using this

/-- a string of ASCII digits is an index line: `isdigit()` and not blank -/
theorem digits_index_line (s : Str) (h : Digits s) : isDigitStr s = true ∧ blank s = false := by
  obtain ⟨hne, hall⟩ := h
  constructor
  · unfold isDigitStr
    have : s.all isPyDigit = true := by
      rw [List.all_eq_true]
      intro c hc
      exact (asciiDigit_facts c (allAsciiDigits_mem s hall c hc)).1
    simp [hne, this]
  · cases s with
    | nil => exact absurd rfl hne
    | cons c t =>
      exact blank_false_of_mem _ c (by simp) (asciiDigit_facts c (allAsciiDigits_mem _ hall c (by simp))).2.1

theorem digits_no_dash (s : Str) (h : Digits s) : '-' ∉ s := h.not_mem _ (by decide)

theorem digits_head (s : Str) (h : Digits s) : ∃ c t, s = c :: t ∧ isAsciiDigit c = true := by
  obtain ⟨hne, hall⟩ := h
  cases s with
  | nil => exact absurd rfl hne
  | cons c t => exact ⟨c, t, rfl, allAsciiDigits_mem _ hall c (by simp)⟩

theorem digits_last (s : Str) (h : Digits s) : ∃ t d, s = t ++ [d] ∧ isAsciiDigit d = true := by
  obtain ⟨hne, hall⟩ := h
  refine ⟨s.dropLast, s.getLast hne, (List.dropLast_concat_getLast hne).symm, ?_⟩
  exact allAsciiDigits_mem _ hall _ (List.getLast_mem hne)

end PcVerif.Srt
