/-
  C04: text leaves as pretty-printers and authors write them — indented on a line of their own — and paragraphs made of such
  leaves and `<br/>` elements.
-/
import PcVerif.Model.XmlTree
import PcVerif.Lemmas.StrLemmas
namespace PcVerif.XmlText
open Str

theorem takeWhile_append_stop' {p : Char → Bool} (a : Str) (c : Char) (rest : Str) (ha : ∀ x ∈ a, p x = true) (hc : p c = false) :
    (a ++ c :: rest).takeWhile p = a := by
  induction a with
  | nil => simp [hc]
  | cons x a ih => simp [ha x (by simp), ih (fun y hy => ha y (by simp [hy]))]

theorem takeWhile_all' {p : Char → Bool} (a : Str) (ha : ∀ x ∈ a, p x = true) : a.takeWhile p = a := by
  induction a with
  | nil => rfl
  | cons x a ih => simp [ha x (by simp), ih (fun y hy => ha y (by simp [hy]))]

theorem splitWs_spaces (s : Str) (h : ∀ c ∈ s, isSpace c = true) : splitWs s = [] := by
  unfold splitWs
  induction s with
  | nil => rfl
  | cons c s ih => simp [splitWsAux, h c (by simp), ih (fun x hx => h x (by simp [hx]))]

/-- a line of text: not empty, no line feed or carriage return, no white space at its start -/
structure Line (t : Str) : Prop where
  ne : t ≠ []
  noNl : ∀ c ∈ t, isNlCr c = false
  first : ∀ c, t.head? = some c → isSpace c = false

/-- **an indented leaf.** a text leaf written on a line of its own — line feeds, then indentation, then the text, then a line
    feed and the indentation of the closing tag — is read as the text, whatever the indentation -/
theorem leaf_indented (nl ind t ind' : Str) (hnl : nl ≠ []) (hnl' : ∀ c ∈ nl, isNlCr c = true)
    (hind : ∀ c ∈ ind, isSpace c = true ∧ isNlCr c = false) (ht : Line t) (hind' : ∀ c ∈ ind', isSpace c = true) :
    leafText (nl ++ ind ++ t ++ '\n' :: ind') = some t := by
  obtain ⟨c0, t', rfl⟩ : ∃ c0 t', t = c0 :: t' := by
    cases t with
    | nil => exact absurd rfl ht.ne
    | cons a b => exact ⟨a, b, rfl⟩
  have hc0s : isSpace c0 = false := ht.first c0 rfl
  have hc0n : isNlCr c0 = false := ht.noNl c0 (by simp)
  obtain ⟨n0, nl', rfl⟩ : ∃ n0 nl', nl = n0 :: nl' := by
    cases nl with
    | nil => exact absurd rfl hnl
    | cons a b => exact ⟨a, b, rfl⟩
  have hn0 : isNlCr n0 = true := hnl' n0 (by simp)
  have hlead : ((n0 :: nl') ++ ind ++ (c0 :: t') ++ '\n' :: ind').takeWhile isNlCr = n0 :: nl' := by
    cases ind with
    | nil =>
      have : (n0 :: nl') ++ [] ++ (c0 :: t') ++ '\n' :: ind' = (n0 :: nl') ++ c0 :: (t' ++ '\n' :: ind') := by simp
      rw [this]
      exact takeWhile_append_stop' _ c0 _ hnl' hc0n
    | cons i is =>
      have : (n0 :: nl') ++ (i :: is) ++ (c0 :: t') ++ '\n' :: ind' = (n0 :: nl') ++ i :: (is ++ (c0 :: t') ++ '\n' :: ind') := by simp
      rw [this]
      exact takeWhile_append_stop' _ i _ hnl' (hind i (by simp)).2
  have hdrop : ((n0 :: nl') ++ ind ++ (c0 :: t') ++ '\n' :: ind').drop (n0 :: nl').length = ind ++ c0 :: (t' ++ '\n' :: ind') := by
    have : (n0 :: nl') ++ ind ++ (c0 :: t') ++ '\n' :: ind' = (n0 :: nl') ++ (ind ++ c0 :: (t' ++ '\n' :: ind')) := by simp
    rw [this, List.drop_left']
    rfl
  have hsp : (ind ++ c0 :: (t' ++ '\n' :: ind')).takeWhile isSpace = ind :=
    takeWhile_append_stop' ind c0 _ (fun x hx => (hind x hx).1) hc0s
  unfold leafText matchStart
  simp only [List.cons_append, hn0, Bool.not_true, Bool.false_eq_true, if_false]
  simp only [List.cons_append] at hlead hdrop
  rw [hlead, hdrop, hsp]
  have hlt : (n0 :: nl').length + ind.length < (n0 :: (nl' ++ ind ++ c0 :: t' ++ '\n' :: ind')).length := by
    simp; omega
  rw [if_pos hlt]
  simp only
  have hd2 : (n0 :: (nl' ++ ind ++ c0 :: t' ++ '\n' :: ind')).drop ((n0 :: nl').length + ind.length) = c0 :: (t' ++ '\n' :: ind') := by
    have : n0 :: (nl' ++ ind ++ c0 :: t' ++ '\n' :: ind') = ((n0 :: nl') ++ ind) ++ (c0 :: (t' ++ '\n' :: ind')) := by simp
    rw [this, ← List.length_append, List.drop_left']
    rfl
  rw [hd2]
  have hg1 : (c0 :: (t' ++ '\n' :: ind')).takeWhile (· ≠ '\n') = c0 :: t' := by
    have : c0 :: (t' ++ '\n' :: ind') = (c0 :: t') ++ '\n' :: ind' := by simp
    rw [this]
    apply takeWhile_append_stop'
    · intro x hx
      have := ht.noNl x hx
      have hne : x ≠ '\n' := by intro e; subst e; revert this; decide
      simpa using hne
    · simp
  rw [hg1]
  have hd3 : (c0 :: (t' ++ '\n' :: ind')).drop (c0 :: t').length = '\n' :: ind' := by
    have : c0 :: (t' ++ '\n' :: ind') = (c0 :: t') ++ '\n' :: ind' := by simp
    rw [this, List.drop_left']
    rfl
  rw [hd3, splitWs_spaces ('\n' :: ind') (by
    intro c hc
    rcases List.mem_cons.mp hc with e | e
    · subst e; decide
    · exact hind' c e)]
  simp

end PcVerif.XmlText

namespace PcVerif.XmlTree
open Str XmlText

/-- the children of a paragraph of lines: one text leaf per line (`wrap` is how the leaf is spelled in the source), `<br/>`
    elements between them -/
def paraChildren (wrap : Str → Str) : List Str → List XNode
  | [] => []
  | [l] => [.text (wrap l)]
  | l :: m :: ls => .text (wrap l) :: .br :: paraChildren wrap (m :: ls)

/-- the caption nodes of these lines -/
def lineNodes : List Str → List Node
  | [] => []
  | [l] => [.text l]
  | l :: m :: ls => .text l :: .brk :: lineNodes (m :: ls)

theorem paragraph_lines (wrap : Str → Str) : ∀ (lines : List Str), (∀ l ∈ lines, leafText (wrap l) = some l) →
    nodesList (paraChildren wrap lines) = lineNodes lines
  | [], _ => rfl
  | [l], h => by simp [paraChildren, nodesList, XNode.nodes, lineNodes, h l (by simp)]
  | l :: m :: ls, h => by
    have ih := paragraph_lines wrap (m :: ls) (fun x hx => h x (by simp [hx]))
    simp only [paraChildren, nodesList, XNode.nodes, lineNodes, h l (by simp), ih]
    simp

end PcVerif.XmlTree
