/-
  The SAMI reader's end back-filling (`_translate_lang`) against its specification: a cue lasts until the next <p> of
  its language with a different start, the cues of the last sync last `tailMs`.
-/
import PcVerif.Model.SamiTime
namespace PcVerif.Sami

/-- the loop on the reversed caption list (newest first): `backfill` is `backfillRev` there, appending is consing -/
def loopRev : List (Int × Int) → Int → List (Nat × Bool) → List (Int × Int) × Int
  | caps, ms, [] => (caps, ms)
  | caps, _, (m, hasText) :: ps =>
    let start : Int := m * 1000
    let caps := backfillRev start caps
    loopRev (if hasText then (start, 0) :: caps else caps) m ps

theorem loop_eq_loopRev (caps : List (Int × Int)) (ms : Int) (ps : List (Nat × Bool)) :
    ((loop caps ms ps).1.reverse, (loop caps ms ps).2) = loopRev caps.reverse ms ps := by
  induction ps generalizing caps ms with
  | nil => simp [loop, loopRev]
  | cons p ps ih =>
    obtain ⟨m, t⟩ := p
    simp only [loop, loopRev]
    cases t
    · have := ih (backfill ((m : Int) * 1000) caps) (m : Int)
      simpa [backfill] using this
    · have := ih (backfill ((m : Int) * 1000) caps ++ [((m : Int) * 1000, (0 : Int))]) (m : Int)
      simpa [backfill] using this

/-- first later sync time that differs -/
def nextDiff (m : Nat) : List (Nat × Bool) → Option Nat
  | [] => none
  | (m', _) :: ps => if m' ≠ m then some m' else nextDiff m ps

def endFor (m : Nat) (ps : List (Nat × Bool)) : Int :=
  match nextDiff m ps with
  | some n => (n : Int) * 1000
  | none => ((m : Int) + tailMs) * 1000

/-- **specification**: one cue per <p> with text; it ends at the next sync of its language that has a different
    time, or `tailMs` after its own start when there is none -/
def specLang : List (Nat × Bool) → List (Int × Int)
  | [] => []
  | (m, t) :: ps => (if t then [((m : Int) * 1000, endFor m ps)] else []) ++ specLang ps

def SortedFrom : Nat → List (Nat × Bool) → Prop
  | _, [] => True
  | cur, (m, _) :: ps => cur ≤ m ∧ SortedFrom m ps

theorem backfillRev_open (start s : Int) (k : Nat) (closed : List (Int × Int))
    (hc : ∀ c ∈ closed, c.2 ≠ 0) :
    backfillRev start (List.replicate k (s, 0) ++ closed)
      = List.replicate k (if s ≠ start then (s, start) else (s, 0)) ++ closed := by
  induction k with
  | zero =>
    cases closed with
    | nil => simp [backfillRev]
    | cons c cs =>
      obtain ⟨cs1, ce⟩ := c
      have : ce ≠ 0 := hc (cs1, ce) (by simp)
      simp [backfillRev, this]
  | succ k ih =>
    simp only [List.replicate_succ, List.cons_append, backfillRev, ne_eq, not_true_eq_false, if_false]
    rw [ih]

theorem tailRev_open (e s : Int) (k : Nat) (closed : List (Int × Int)) (hc : ∀ c ∈ closed, c.2 ≠ 0) :
    tailRev e (List.replicate k (s, 0) ++ closed) = List.replicate k (s, e) ++ closed := by
  induction k with
  | zero =>
    cases closed with
    | nil => simp [tailRev]
    | cons c cs =>
      obtain ⟨cs1, ce⟩ := c
      have : ce ≠ 0 := hc (cs1, ce) (by simp)
      simp [tailRev, this]
  | succ k ih =>
    simp only [List.replicate_succ, List.cons_append, tailRev, ne_eq, not_true_eq_false, if_false]
    rw [ih]

end PcVerif.Sami

namespace PcVerif.Sami

theorem replicate_snoc {α : Type} (k : Nat) (x : α) : List.replicate (k + 1) x = List.replicate k x ++ [x] :=
  List.replicate_succ'

theorem loopRev_spec (ps : List (Nat × Bool)) (cur k : Nat) (closed : List (Int × Int))
    (hc : ∀ c ∈ closed, c.2 ≠ 0) (hs : SortedFrom cur ps) :
    (tailRev (((loopRev (List.replicate k ((cur : Int) * 1000, 0) ++ closed) cur ps).2 + tailMs) * 1000)
        (loopRev (List.replicate k ((cur : Int) * 1000, 0) ++ closed) cur ps).1).reverse
      = closed.reverse ++ List.replicate k ((cur : Int) * 1000, endFor cur ps) ++ specLang ps := by
  induction ps generalizing cur k closed with
  | nil =>
    simp only [loopRev, specLang, List.append_nil]
    rw [tailRev_open _ _ _ _ hc]
    simp [endFor, nextDiff, List.reverse_append]
  | cons p ps ih =>
    obtain ⟨m, t⟩ := p
    obtain ⟨hle, hs'⟩ := hs
    simp only [loopRev]
    rw [backfillRev_open _ _ _ _ hc]
    by_cases hm : m = cur
    · subst hm
      simp only [ne_eq, not_true_eq_false, if_false]
      have hend : endFor m ((m, t) :: ps) = endFor m ps := by simp [endFor, nextDiff]
      cases t
      · simp only [Bool.false_eq_true, if_false]
        rw [ih m k closed hc hs']
        simp [specLang, hend]
      · simp only [if_true]
        have : ((m : Int) * 1000, (0 : Int)) :: (List.replicate k ((m : Int) * 1000, (0 : Int)) ++ closed)
            = List.replicate (k + 1) ((m : Int) * 1000, (0 : Int)) ++ closed := by simp [List.replicate_succ]
        rw [this, ih m (k + 1) closed hc hs', replicate_snoc]
        simp [specLang, hend]
    · have hlt : cur < m := Nat.lt_of_le_of_ne hle (fun e => hm e.symm)
      have hne : ((cur : Int) * 1000 ≠ (m : Int) * 1000) := by omega
      simp only [ne_eq, hne, not_false_eq_true, if_true]
      have hc' : ∀ c ∈ List.replicate k ((cur : Int) * 1000, (m : Int) * 1000) ++ closed, c.2 ≠ 0 := by
        intro c hcm
        rcases List.mem_append.mp hcm with h | h
        · have := (List.mem_replicate.mp h).2; subst this; simp only; omega
        · exact hc c h
      have hend : endFor cur ((m, t) :: ps) = (m : Int) * 1000 := by
        simp [endFor, nextDiff, hm]
      cases t
      · simp only [Bool.false_eq_true, if_false]
        have := ih m 0 _ hc' hs'
        simp only [List.replicate_zero, List.nil_append] at this
        rw [this]
        simp [specLang, hend, List.reverse_append]
      · simp only [if_true]
        have e1 : ((m : Int) * 1000, (0 : Int)) :: (List.replicate k ((cur : Int) * 1000, (m : Int) * 1000) ++ closed)
            = List.replicate 1 ((m : Int) * 1000, (0 : Int)) ++ (List.replicate k ((cur : Int) * 1000, (m : Int) * 1000) ++ closed) := by
          simp
        rw [e1, ih m 1 _ hc' hs']
        simp [specLang, hend, List.reverse_append]

/-- **C01 (SAMI).** for a language whose <p> elements come in non-decreasing sync order, every cue with text starts at
    its sync time and ends at the next sync of its language that has a different time; the cues of the last sync last
    four seconds — blank syncs and several paragraphs per sync included -/
theorem sami_backfill (ps : List (Nat × Bool)) (hs : SortedFrom 0 ps) : translateLang ps = specLang ps := by
  unfold translateLang
  have h := loop_eq_loopRev [] 0 ps
  simp only [List.reverse_nil] at h
  have hfst : (loop [] 0 ps).1.reverse = (loopRev [] 0 ps).1 := by
    have := congrArg Prod.fst h; simpa using this
  have hsnd : (loop [] 0 ps).2 = (loopRev [] 0 ps).2 := by
    have := congrArg Prod.snd h; simpa using this
  have key := loopRev_spec ps 0 0 [] (by simp) hs
  simp only [List.replicate_zero, List.nil_append, List.reverse_nil] at key
  show (tailRev (((loop [] 0 ps).2 + tailMs) * 1000) (loop [] 0 ps).1.reverse).reverse = specLang ps
  rw [hfst, hsnd]
  simpa using key

end PcVerif.Sami
