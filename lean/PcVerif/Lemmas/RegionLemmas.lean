/-
  C12 / C07: the region map gives every layout a region of its own.
-/
import PcVerif.Props.C07
namespace PcVerif.Regions
variable {L : Type} [DecidableEq L]

theorem orderedSet_mem : ∀ (xs acc : List L) (x : L), x ∈ orderedSet acc xs ↔ x ∈ acc ∨ x ∈ xs := by
  intro xs
  induction xs with
  | nil => intro acc x; simp [orderedSet]
  | cons y ys ih =>
    intro acc x
    unfold orderedSet
    split
    · rename_i hc
      have hy : y ∈ acc := by simpa using hc
      rw [ih]
      constructor
      · rintro (h | h)
        · exact Or.inl h
        · exact Or.inr (List.mem_cons_of_mem _ h)
      · rintro (h | h)
        · exact Or.inl h
        · rcases List.mem_cons.mp h with e | e
          · exact Or.inl (e ▸ hy)
          · exact Or.inr e
    · rw [ih]
      simp only [List.mem_append, List.mem_singleton, List.mem_cons, List.not_mem_nil, or_false]
      constructor
      · rintro ((h | h) | h)
        · exact Or.inl h
        · exact Or.inr (Or.inl h)
        · exact Or.inr (Or.inr h)
      · rintro (h | h | h)
        · exact Or.inl (Or.inl h)
        · exact Or.inl (Or.inr h)
        · exact Or.inr h

theorem orderedSet_nodup : ∀ (xs acc : List L), acc.Nodup → (orderedSet acc xs).Nodup := by
  intro xs
  induction xs with
  | nil => intro acc h; simpa [orderedSet] using h
  | cons y ys ih =>
    intro acc h
    unfold orderedSet
    split
    · exact ih acc h
    · rename_i hc
      have hy : y ∉ acc := by simpa using hc
      apply ih
      rw [List.nodup_append]
      refine ⟨h, by simp, ?_⟩
      intro a ha b hb
      simp only [List.mem_singleton] at hb
      subst hb
      intro e; subst e; exact hy ha

theorem zip_snd_unique {α β : Type} : ∀ (xs : List α) (ys : List β), ys.Nodup → ∀ a b y, (a, y) ∈ xs.zip ys → (b, y) ∈ xs.zip ys → a = b := by
  intro xs
  induction xs with
  | nil => intro ys _ a b y h; simp at h
  | cons x xs ih =>
    intro ys hn a b y h1 h2
    cases ys with
    | nil => simp at h1
    | cons z zs =>
      rw [List.nodup_cons] at hn
      simp only [List.zip_cons_cons, List.mem_cons, Prod.mk.injEq] at h1 h2
      rcases h1 with ⟨e1, e2⟩ | h1
      · rcases h2 with ⟨e3, _⟩ | h2
        · rw [e1, e3]
        · exact absurd (e2 ▸ (List.of_mem_zip h2).2) hn.1
      · rcases h2 with ⟨_, e4⟩ | h2
        · exact absurd (e4 ▸ (List.of_mem_zip h1).2) hn.1
        · exact ih zs hn.2 a b y h1 h2

theorem zip_fst_unique {α β : Type} : ∀ (xs : List α) (ys : List β), xs.Nodup → ∀ x a b, (x, a) ∈ xs.zip ys → (x, b) ∈ xs.zip ys → a = b := by
  intro xs
  induction xs with
  | nil => intro ys _ x a b h; simp at h
  | cons x0 xs ih =>
    intro ys hn x a b h1 h2
    cases ys with
    | nil => simp at h1
    | cons z zs =>
      rw [List.nodup_cons] at hn
      simp only [List.zip_cons_cons, List.mem_cons, Prod.mk.injEq] at h1 h2
      rcases h1 with ⟨e1, e2⟩ | h1
      · rcases h2 with ⟨_, e4⟩ | h2
        · rw [e2, e4]
        · exact absurd (e1 ▸ (List.of_mem_zip h2).1) hn.1
      · rcases h2 with ⟨e3, _⟩ | h2
        · exact absurd (e3 ▸ (List.of_mem_zip h1).1) hn.1
        · exact ih zs hn.2 x a b h1 h2

theorem freshIds_length (taken : List String) : ∀ (n seed : Nat), (freshIds taken n seed).length = n := by
  intro n; induction n with
  | zero => intro _; rfl
  | succ n ih => intro seed; simp [freshIds, ih]

/-- **the region of a layout is its own.** a layout that occurs in the document is assigned the id of the region made for
    exactly this layout — never the default region's fallback — and no other layout shares that region -/
theorem assign_own_region (dflt : String) (taken : List String) (layouts : List L) (l : L) (hl : l ∈ layouts) :
    (l, assign dflt (regionMap taken layouts) (some l)) ∈ regionMap taken layouts ∧
    (∀ l', (l', assign dflt (regionMap taken layouts) (some l)) ∈ regionMap taken layouts → l' = l) ∧
    (∀ l', l' ≠ l → l' ∈ layouts → assign dflt (regionMap taken layouts) (some l') ≠ assign dflt (regionMap taken layouts) (some l)) := by
  have hnd : (orderedSet ([] : List L) layouts).Nodup := orderedSet_nodup layouts [] List.nodup_nil
  have hids : (freshIds taken (orderedSet ([] : List L) layouts).length 0).Nodup := (PcVerif.Props.C07.fresh_ids_spec taken _ 0).2
  have hlen := freshIds_length taken (orderedSet ([] : List L) layouts).length 0
  have own : ∀ k : L, k ∈ layouts → (k, assign dflt (regionMap taken layouts) (some k)) ∈ regionMap taken layouts := by
    intro k hk
    have hmem : k ∈ orderedSet ([] : List L) layouts := (orderedSet_mem layouts [] k).mpr (Or.inr hk)
    obtain ⟨i, hi, hget⟩ := List.getElem_of_mem hmem
    have hi2 : i < (freshIds taken (orderedSet ([] : List L) layouts).length 0).length := by rw [hlen]; exact hi
    have hin : (k, (freshIds taken (orderedSet ([] : List L) layouts).length 0)[i]) ∈ regionMap taken layouts := by
      unfold regionMap
      have : ((orderedSet ([] : List L) layouts).zip (freshIds taken (orderedSet ([] : List L) layouts).length 0))[i]'(by simp [List.length_zip, hlen]; exact hi)
          = (k, (freshIds taken (orderedSet ([] : List L) layouts).length 0)[i]) := by
        rw [List.getElem_zip, hget]
      rw [← this]
      exact List.getElem_mem _
    unfold assign
    simp only
    cases hf : (regionMap taken layouts).find? (fun e => decide (e.1 = k)) with
    | none =>
      have := List.find?_eq_none.mp hf _ hin
      simp at this
    | some e =>
      have h1 := List.mem_of_find?_eq_some hf
      have h2 : e.1 = k := by simpa using List.find?_some hf
      simp only
      rw [← h2]
      exact h1
  refine ⟨own l hl, ?_, ?_⟩
  · intro l' h'
    exact zip_snd_unique _ _ hids l' l _ h' (own l hl)
  · intro l' hne hl' e
    have := own l' hl'
    rw [e] at this
    exact hne (zip_snd_unique _ _ hids l' l _ this (own l hl))

end PcVerif.Regions
