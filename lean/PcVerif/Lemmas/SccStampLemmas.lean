/-
  C17 / C06: the time code the SCC writer prints for an instant, counted in frames, and the instant the reader computes from it.
-/
import PcVerif.Lemmas.SccFileLemmas
import PcVerif.Lemmas.SccTimeLemmas
import Mathlib.Tactic.Linarith
import Mathlib.Tactic.NormNum
import Mathlib.Tactic.Ring
import Mathlib.Tactic.FieldSimp
import Mathlib.Tactic.Positivity
namespace PcVerif.SccW
open Str Scc

theorem floor_nonneg' (x : Rat) (hx : 0 ≤ x) : 0 ≤ x.floor := Rat.le_floor_iff.mpr (by simpa using hx)

theorem toNat_floor_cast (x : Rat) (hx : 0 ≤ x) : ((x.floor.toNat : Nat) : Rat) = ((x.floor : Int) : Rat) := by
  have := floor_nonneg' x hx
  have e : ((x.floor.toNat : Nat) : Int) = x.floor := Int.toNat_of_nonneg this
  exact_mod_cast congrArg (fun z : Int => (z : Rat)) e

/-- hours, minutes, seconds and frames as `_format_timestamp` computes them add up to the whole number of frames -/
theorem stamp_frames (q : Rat) (hq : 0 ≤ q) :
    let h := (q / 3600).floor.toNat
    let s1 := q - h * 3600
    let m := (s1 / 60).floor.toNat
    let s2 := s1 - m * 60
    let s := s2.floor.toNat
    let f := ((s2 - s) * 30).floor.toNat
    (((h * 3600 + m * 60 + s : Nat) : Rat) * 30 + (f : Rat) = (((q * 30).floor.toNat : Nat) : Rat)) ∧ f < 30 := by
  intro h s1 m s2 s f
  -- hours
  have hH : (h : Rat) = (((q / 3600).floor : Int) : Rat) := toNat_floor_cast _ (by positivity)
  have h1 : (h : Rat) ≤ q / 3600 := by rw [hH]; exact Rat.floor_le _
  have h2 : q / 3600 < (h : Rat) + 1 := by
    rw [hH]; have := Rat.lt_floor_add_one (q / 3600); push_cast at this; exact this
  have s1lo : 0 ≤ s1 := by
    show 0 ≤ q - h * 3600
    have : (h : Rat) * 3600 ≤ q := by
      have := mul_le_mul_of_nonneg_right h1 (by norm_num : (0 : Rat) ≤ 3600)
      simpa using this
    linarith
  have s1hi : s1 < 3600 := by
    show q - h * 3600 < 3600
    have : q < ((h : Rat) + 1) * 3600 := by
      have := mul_lt_mul_of_pos_right h2 (by norm_num : (0 : Rat) < 3600)
      simpa using this
    linarith
  -- minutes
  have hM : (m : Rat) = (((s1 / 60).floor : Int) : Rat) := toNat_floor_cast _ (by positivity)
  have m1 : (m : Rat) ≤ s1 / 60 := by rw [hM]; exact Rat.floor_le _
  have m2 : s1 / 60 < (m : Rat) + 1 := by
    rw [hM]; have := Rat.lt_floor_add_one (s1 / 60); push_cast at this; exact this
  have s2lo : 0 ≤ s2 := by
    show 0 ≤ s1 - m * 60
    have : (m : Rat) * 60 ≤ s1 := by
      have := mul_le_mul_of_nonneg_right m1 (by norm_num : (0 : Rat) ≤ 60)
      simpa using this
    linarith
  have s2hi : s2 < 60 := by
    show s1 - m * 60 < 60
    have : s1 < ((m : Rat) + 1) * 60 := by
      have := mul_lt_mul_of_pos_right m2 (by norm_num : (0 : Rat) < 60)
      simpa using this
    linarith
  -- seconds and frames
  have hS : (s : Rat) = ((s2.floor : Int) : Rat) := toNat_floor_cast _ s2lo
  have c1 : (s : Rat) ≤ s2 := by rw [hS]; exact Rat.floor_le _
  have c2 : s2 < (s : Rat) + 1 := by
    rw [hS]; have := Rat.lt_floor_add_one s2; push_cast at this; exact this
  have frlo : 0 ≤ (s2 - s) * 30 := by nlinarith
  have frhi : (s2 - s) * 30 < 30 := by nlinarith
  have hF : (f : Rat) = ((((s2 - s) * 30).floor : Int) : Rat) := toNat_floor_cast _ frlo
  constructor
  · -- q * 30 = (s2 - s) * 30 + an integer
    have hq30 : q * 30 = (s2 - s) * 30 + (((h * 3600 + m * 60 + s : Nat) * 30 : Nat) : Int) := by
      show q * 30 = (s1 - m * 60 - s) * 30 + _
      show q * 30 = (q - h * 3600 - m * 60 - s) * 30 + _
      push_cast
      ring
    have hfl : (q * 30).floor = ((s2 - s) * 30).floor + (((h * 3600 + m * 60 + s : Nat) * 30 : Nat) : Int) := by
      rw [hq30, Rat.floor_add_intCast]
    have hq30nn : 0 ≤ q * 30 := by positivity
    rw [toNat_floor_cast _ hq30nn, hfl, hF]
    push_cast
    ring
  · have : ((s2 - s) * 30).floor < 30 := Rat.floor_lt_iff.mpr (by simpa using frhi)
    have hnn := floor_nonneg' _ frlo
    show ((s2 - s) * 30).floor.toNat < 30
    omega

theorem two_digits (n : Nat) : Digits (two n) ∧ natOfDigits (two n) = n := by
  unfold two
  by_cases h : n < 100
  · exact ⟨(Srt.pad2_digits n h).1, (Srt.pad2_digits n h).2.1⟩
  · unfold Fmt.pad2; rw [if_neg h]; exact ⟨Srt.digits_ofNat n, MicroDvd.natOfDigits_ofNat n⟩

theorem two_length (n : Nat) (h : n < 100) : (two n).length = 2 := by
  unfold two; exact (Srt.pad2_digits n h).2.2

theorem frameUs_value : frameUs = 100100 / 3 := by
  unfold frameUs Scc.frameUs
  have h1 : Generated.Scc.usPerCodewordNum = 100100 := by decide
  have h2 : Generated.Scc.usPerCodewordDen = 3 := by decide
  rw [h1, h2, Rat.mkRat_eq_div]
  norm_num

/-- **the instant of a word on a written line.** for every instant `us ≥ 0` the writer prints a time code from which the
    reader computes, for the `k`-th word of the line, exactly `(⌊frames of us⌋ + k)` frames of 1001/30 ms — the time code is the
    instant rounded down to a whole frame, the reader adds one frame per word, no carry is lost between the fields -/
theorem written_stamp_instant (us : Rat) (hus : 0 ≤ us) (k : Nat) :
    timeOf (String.ofList (formatTimestamp us)) k 0
      = some ((((us / 1000000 * (1000 / 1001) * 30).floor.toNat + k : Nat) : Rat) * frameUs) := by
  have hq : 0 ≤ us / 1000000 * (1000 / 1001) := by positivity
  obtain ⟨hsum, hf⟩ := stamp_frames (us / 1000000 * (1000 / 1001)) hq
  unfold formatTimestamp
  simp only
  generalize hh : (us / 1000000 * (1000 / 1001) / 3600).floor.toNat = h at hsum hf ⊢
  generalize hm : ((us / 1000000 * (1000 / 1001) - (h : Rat) * 3600) / 60).floor.toNat = m at hsum hf ⊢
  generalize hs : (us / 1000000 * (1000 / 1001) - (h : Rat) * 3600 - (m : Rat) * 60).floor.toNat = s at hsum hf ⊢
  generalize hff : ((us / 1000000 * (1000 / 1001) - (h : Rat) * 3600 - (m : Rat) * 60 - (s : Rat)) * 30).floor.toNat = f at hsum hf ⊢
  have e : two h ++ ':' :: two m ++ ':' :: two s ++ ':' :: two f = two h ++ ':' :: (two m ++ ':' :: (two s ++ ':' :: two f)) := by
    simp [List.append_assoc]
  rw [e, timeOf_nondrop (two h) (two m) (two s) (two f) k 0 (two_digits h).1 (two_digits m).1 (two_digits s).1 (two_digits f).1
    (two_length f (by omega))]
  congr 1
  unfold stampValue clampZero
  rw [(two_digits h).2, (two_digits m).2, (two_digits s).2, (two_digits f).2, frameUs_value, Rat.mkRat_eq_div, Rat.mkRat_eq_div]
  have hN : (((us / 1000000 * (1000 / 1001) * 30).floor.toNat : Nat) : Rat) = ((h * 3600 + m * 60 + s : Nat) : Rat) * 30 + (f : Rat) := hsum.symm
  have hval : (((h * 3600 + m * 60 + s : Nat) : Rat) + ((f + k : Nat) : Int) / ((30 : Nat) : Rat)) * ((1001 : Int) / ((1000 : Nat) : Rat)) * 1000000 - 0
      = ((((us / 1000000 * (1000 / 1001) * 30).floor.toNat + k : Nat) : Rat)) * (100100 / 3) := by
    push_cast
    rw [hN]
    push_cast
    ring
  rw [hval]
  have hnn : ¬ ((((us / 1000000 * (1000 / 1001) * 30).floor.toNat + k : Nat) : Rat)) * (100100 / 3) < 0 := by
    have : (0 : Rat) ≤ ((((us / 1000000 * (1000 / 1001) * 30).floor.toNat + k : Nat) : Rat)) * (100100 / 3) := by positivity
    linarith
  rw [if_neg hnn]

/-- the instant the reader attaches to the first word of a line stamped for `us` -/
def lineInstant (us : Rat) : Rat := (((us / 1000000 * (1000 / 1001) * 30).floor.toNat : Nat) : Rat) * frameUs

theorem lineInstant_is (us : Rat) (hus : 0 ≤ us) : timeOf (String.ofList (formatTimestamp us)) 0 0 = some (lineInstant us) := by
  rw [written_stamp_instant us hus 0]; rfl

/-- **time codes keep the order of the instants they are printed for**, are never negative, and never run ahead of the instant:
    `lineInstant` is monotone, `0 ≤ lineInstant us ≤ us`, and it lags by less than one frame -/
theorem lineInstant_monotone (u v : Rat) (hu : 0 ≤ u) (h : u ≤ v) :
    lineInstant u ≤ lineInstant v ∧ 0 ≤ lineInstant u ∧ lineInstant u ≤ u ∧ u < lineInstant u + frameUs := by
  have hF : frameUs = 100100 / 3 := frameUs_value
  have hFpos : (0 : Rat) < frameUs := by rw [hF]; norm_num
  have hv : 0 ≤ v := le_trans hu h
  have e : ∀ x : Rat, x / 1000000 * (1000 / 1001) * 30 = x / frameUs := by intro x; rw [hF]; field_simp; ring
  unfold lineInstant
  rw [e u, e v]
  have hun : 0 ≤ u / frameUs := by rw [hF]; positivity
  have hvn : 0 ≤ v / frameUs := by rw [hF]; positivity
  rw [toNat_floor_cast _ hun, toNat_floor_cast _ hvn]
  have hmono : (u / frameUs).floor ≤ (v / frameUs).floor :=
    Rat.floor_monotone (by exact div_le_div_of_nonneg_right h (le_of_lt hFpos))
  have lo : (((u / frameUs).floor : Int) : Rat) ≤ u / frameUs := Rat.floor_le _
  have hi : u / frameUs < (((u / frameUs).floor : Int) : Rat) + 1 := by
    have := Rat.lt_floor_add_one (u / frameUs); push_cast at this; exact this
  have lo' : (((u / frameUs).floor : Int) : Rat) * frameUs ≤ u := by
    have := mul_le_mul_of_nonneg_right lo (le_of_lt hFpos)
    rwa [div_mul_cancel₀ u (ne_of_gt hFpos)] at this
  have hi' : u < ((((u / frameUs).floor : Int) : Rat) + 1) * frameUs := by
    have := mul_lt_mul_of_pos_right hi hFpos
    rwa [div_mul_cancel₀ u (ne_of_gt hFpos)] at this
  have hfl0 : (0 : Rat) ≤ (((u / frameUs).floor : Int) : Rat) := by exact_mod_cast floor_nonneg' _ hun
  refine ⟨?_, by positivity, lo', by linarith⟩
  have : (((u / frameUs).floor : Int) : Rat) ≤ (((v / frameUs).floor : Int) : Rat) := by exact_mod_cast hmono
  exact mul_le_mul_of_nonneg_right this (le_of_lt hFpos)

end PcVerif.SccW
