/-
  C17 / C06: the start times of the captions re-read from a written file — the instant of each caption's End-Of-Caption word.
-/
import PcVerif.Lemmas.PopOnStore
import PcVerif.Lemmas.SccStampLemmas
import PcVerif.Lemmas.SccFrameLemmas
namespace PcVerif.SccW
open Str Scc PcVerif.Props.C16

/-- the stream words among these strings -/
def validCount (ws : List String) : Nat := (ws.filter fun w => decide ((Str.strip w.toList).length = 4)).length

theorem words_count_all : ∀ (ws : List String) (r : Reader),
    (words r ws).frames = r.frames + validCount ws ∧ (words r ws).tc = r.tc ∧ (words r ws).off = r.off := by
  intro ws
  induction ws with
  | nil => intro r; simp [words, validCount]
  | cons w ws ih =>
    intro r
    by_cases hw : (String.ofList (Str.strip w.toList)).length = 4
    · have hcons : words r (w :: ws) = words (word r (String.ofList (Str.strip w.toList)) ws.head?) ws := by
        conv => lhs; unfold words
        simp only [hw, if_true]
      rw [hcons]
      have h1 := word_counts r (String.ofList (Str.strip w.toList)) ws.head?
      have h2 := ih (word r (String.ofList (Str.strip w.toList)) ws.head?)
      have hw' : (Str.strip w.toList).length = 4 := by simpa using hw
      have hv : validCount (w :: ws) = validCount ws + 1 := by simp [validCount, hw']
      refine ⟨by rw [h2.1, h1.1, hv]; omega, by rw [h2.2.1, h1.2.1], by rw [h2.2.2, h1.2.2]⟩
    · have hcons : words r (w :: ws) = words r ws := by
        conv => lhs; unfold words
        simp only [hw, if_false]
      rw [hcons]
      have hw' : ¬ (Str.strip w.toList).length = 4 := by simpa using hw
      have hv : validCount (w :: ws) = validCount ws := by simp [validCount, hw']
      rw [hv]
      exact ih r

theorem validCount_append (a b : List String) : validCount (a ++ b) = validCount a + validCount b := by
  simp [validCount, List.filter_append]

/-- the reader after a prefix of the words of a line: the frame counter has advanced by the number of words, time code and
    offset are the line's -/
theorem state_after_prefix (r r' : Reader) (P R : List String) (h : words r (P ++ R) = words r' R) :
    r'.frames = r.frames + validCount P ∧ r'.tc = r.tc ∧ r'.off = r.off := by
  obtain ⟨a1, a2, a3⟩ := words_count_all (P ++ R) r
  obtain ⟨b1, b2, b3⟩ := words_count_all R r'
  rw [h] at a1 a2 a3
  rw [validCount_append] at a1
  exact ⟨by omega, by rw [← b2, a2], by rw [← b3, a3]⟩

theorem validCount_four : ∀ (ws : List String), (∀ w ∈ ws, Four w) → validCount ws = ws.length
  | [], _ => rfl
  | w :: ws, h => by
    have hw := h w (by simp)
    have e : (Str.strip w.toList).length = 4 := by
      rw [strip_noSpace _ hw.noSpace]; exact hw.len
    have ih := validCount_four ws (fun x hx => h x (by simp [hx]))
    unfold validCount at ih ⊢
    simp only [List.filter_cons, e, decide_true, if_true, List.length_cons, ih]

/-! ### the time a caption is queued with -/

theorem now_of_timeOf (r : Reader) (t : Rat) (h : timeOf r.tc r.frames r.off = some t) : r.now.2 = t := by
  unfold Reader.now; rw [h]

/-- `caption_exact_S` with the instant: the caption is queued with the time of its End-Of-Caption word — the line's time code
    plus one frame per word before it (four control words, the rows' words, `942c 942c`) -/
theorem caption_exact_T (l0 : List Char) (ls : List (List Char)) (rest : List String) (r : Reader) (hn : ls.length + 1 ≤ 15)
    (hb : ∀ l ∈ l0 :: ls, l ≠ [] ∧ ∀ c ∈ l, Basic c) (hq : Quiet r.lastCmd) (ha : r.active = .pop) (tE : Rat)
    (ht : timeOf r.tc (r.frames + ((rowsWords (16 - (ls.length + 1)) (l0 :: ls)).length + 6)) r.off = some tE) :
    ∃ r', words r (captionWords (l0 :: ls) ++ rest) = words r' rest ∧ r'.lastCmd = "" ∧ r'.active = .pop ∧ r'.pop = {} ∧
      ∃ c t1 t2, r'.queue = r.queue.tail.tail ++ [(c, tE)] ∧ c.coll = bufNodes (16 - (ls.length + 1), 0) (l0 :: ls) ∧
        r'.S = popS (popS r.S r.queue t1) r.queue.tail t2 := by
  have hhex := captionWords_hex (l0 :: ls) (by simpa using hn) (fun l hl => (hb l hl).2)
  unfold captionWords at hhex ⊢
  simp only [List.cons_append, List.append_assoc, List.nil_append, List.length_cons] at hhex ⊢
  obtain ⟨r1, e1, l1, a1, s1, q1, p1⟩ := enm_pair_exact r _ hq ha
  obtain ⟨r2, e2, l2, a2, s2, q2, p2⟩ := rcl_pair_exact r1 _ (Or.inl l1) a1
  have hp2 : r2.pop = {} := by rw [p2, p1]
  obtain ⟨r3, e3, s3, q3, in3⟩ := rows_exact l0 ls (16 - (ls.length + 1)) ("942c" :: "942c" :: "942f" :: "942f" :: rest) r2
    (by omega) (by omega) hb a2 (Or.inl l2) (by rw [hp2]) (by rw [hp2])
  have hfa : (firstCopy r3 "942c").active = .pop := in3.active
  obtain ⟨c1, c2, c3, c4, c5⟩ := command_edm_exact (firstCopy r3 "942c") (some "942c") hfa
  have cS := command_edm_S (firstCopy r3 "942c") (some "942c") hfa
  obtain ⟨r4, e4, l4, a4, s4, q4, p4⟩ := ctl_pair' r3 "942c" ("942f" :: "942f" :: rest) ctl_fixed.2.2.1 in3.quiet (by rw [c2]; rfl)
  have hfa5 : (firstCopy r4 "942f").active = .pop := by show r4.active = .pop; rw [a4, c1]
  have hcoll4 : r4.pop.coll = bufNodes (16 - (ls.length + 1), 0) (l0 :: ls) := by
    rw [p4, c3]; exact in3.coll
  have hne5 : (firstCopy r4 "942f").pop.isEmpty = false :=
    isEmpty_bufNodes r4.pop _ l0 ls (hb l0 (by simp)).1 hcoll4
  obtain ⟨d1, d2, d3, d4⟩ := command_eoc_exact (firstCopy r4 "942f") (some "942f") hfa5 hne5
  have dS := command_eoc_S (firstCopy r4 "942f") (some "942f") hfa5 hne5
  obtain ⟨r5, e5, l5, a5, s5, q5, p5⟩ := ctl_pair' r4 "942f" rest ctl_fixed.2.2.2 (Or.inl l4) (by rw [d2]; rfl)
  have hq3 : r3.queue = r.queue := by rw [q3, q2, q1]
  have hs3 : r3.S = r.S := by rw [s3, s2, s1]
  have hq4 : r4.queue = r.queue.tail := by
    rw [q4, c5]; show r3.queue.tail = _; rw [hq3]
  -- the instant: r4 is the reader after the words before the first 942f
  have hchain : words r (("94ae" :: "94ae" :: "9420" :: "9420" :: (rowsWords (16 - (ls.length + 1)) (l0 :: ls) ++ ["942c", "942c"]))
      ++ ("942f" :: "942f" :: rest)) = words r4 ("942f" :: "942f" :: rest) := by
    simp only [List.cons_append, List.append_assoc, List.nil_append]
    rw [e1, e2, e3, e4]
  obtain ⟨f1, f2, f3⟩ := state_after_prefix r r4 _ _ hchain
  have hcount : validCount ("94ae" :: "94ae" :: "9420" :: "9420" :: (rowsWords (16 - (ls.length + 1)) (l0 :: ls) ++ ["942c", "942c"]))
      = (rowsWords (16 - (ls.length + 1)) (l0 :: ls)).length + 6 := by
    rw [validCount_four]
    · simp
    · intro w hw
      apply (hhex w ?_).four
      simp only [List.mem_cons, List.mem_append, List.not_mem_nil, or_false] at hw ⊢
      rcases hw with h | h | h | h | h | h | h
      · exact Or.inl h
      · exact Or.inr (Or.inl h)
      · exact Or.inr (Or.inr (Or.inl h))
      · exact Or.inr (Or.inr (Or.inr (Or.inl h)))
      · exact Or.inr (Or.inr (Or.inr (Or.inr (Or.inl h))))
      · exact Or.inr (Or.inr (Or.inr (Or.inr (Or.inr (Or.inl h)))))
      · exact Or.inr (Or.inr (Or.inr (Or.inr (Or.inr (Or.inr (Or.inl h))))))
  have hnow : (firstCopy r4 "942f").now.2 = tE := by
    apply now_of_timeOf
    show timeOf r4.tc r4.frames r4.off = some tE
    rw [f1, f2, f3, hcount]; exact ht
  refine ⟨r5, by rw [e1, e2, e3, e4, e5], l5, by rw [a5, d1], by rw [p5, d3], r4.pop,
    (firstCopy r3 "942c").now.2, (firstCopy r4 "942f").now.2, ?_, hcoll4, ?_⟩
  · rw [q5, d4, hnow]
    show r4.queue.tail ++ _ = _
    rw [hq4]
    rfl
  · rw [s5, dS]
    show popS r4.S r4.queue _ = _
    rw [s4, cS, hq4]
    show popS (popS r3.S r3.queue _) _ _ = _
    rw [hs3, hq3]

/-! ### stored captions with their start times -/

/-- a stored caption without its end: nodes, position, start -/
def view3 (c : Cap) : List CNode × Option Pos × Rat := (c.nodes, c.layout, c.start)

theorem map_modify_view3 (f : Cap → Cap) (h : ∀ a, view3 (f a) = view3 a) : ∀ (l : List Cap) (i : Nat), (l.modify i f).map view3 = l.map view3
  | [], _ => by simp
  | a :: l, 0 => by simp [h]
  | a :: l, i + 1 => by simp [map_modify_view3 f h l i]

theorem setEnd_view3 (stash : List Cap) (idxs : List Nat) (e : Rat) : (setEnd stash idxs e).map view3 = stash.map view3 := by
  unfold setEnd
  induction idxs generalizing stash with
  | nil => rfl
  | cons i is ih =>
    simp only [List.foldl_cons]
    rw [ih]
    exact map_modify_view3 (fun c => { c with stop := e }) (fun _ => rfl) stash i

/-- the caption a written buffer is stored as starts at the instant it was queued with; retiming earlier captions changes
    their ends only -/
theorem store_written3 (S : Stash) (c : Creator) (a b : Rat) (p : Pos) (l : Str) (ls : List Str)
    (hc : c.coll = bufNodes p (l :: ls)) (ht : ∀ m ∈ l :: ls, Tidy m) :
    (store S c a b).stash.map view3 = S.stash.map view3 ++ [(capNodes p (l :: ls), some p, a)] := by
  have hne : c.isEmpty = false := isEmpty_bufNodes c p l ls (ht l (by simp)).1 hc
  unfold store
  simp only [hne, Bool.false_eq_true, if_false]
  rw [hc, formatItalics_bufNodes p l ls ht, toCaps_bufNodes a b p l ls (fun m hm => (ht m hm).1)]
  have hf : ([{ start := a, stop := b, nodes := capNodes p (l :: ls), layout := some p }] : List Cap).filter (fun cp => !cp.nodes.isEmpty)
      = [{ start := a, stop := b, nodes := capNodes p (l :: ls), layout := some p }] := by
    simp [capNodes]
  rw [hf]
  simp only [List.map_append, List.map_cons, List.map_nil, view3]
  congr 1
  cases hlb : S.lastBatch.getLast? with
  | none => rfl
  | some li =>
    simp only
    cases hs : S.stash[li]? with
    | none => rfl
    | some lc =>
      simp only
      split
      · exact setEnd_view3 _ _ _
      · rfl

/-- a caption as it comes out of the reader, with its start -/
def capView3 (x : List Str × Rat) : List CNode × Option Pos × Rat :=
  (capNodes (16 - x.1.length, 0) x.1, some (16 - x.1.length, 0), x.2)

/-- `Track` with the start times -/
structure Track3 (r : Reader) (done : List (List Str × Rat)) : Prop where
  lastCmd : r.lastCmd = ""
  active : r.active = .pop
  queued : ∃ qs : List (List Str × Rat), qs.length ≤ 1 ∧ (∀ x ∈ qs, GoodLines x.1) ∧
    r.queue.map (fun q => (q.1.coll, q.2)) = qs.map (fun x => (bufNodes (16 - x.1.length, 0) x.1, x.2)) ∧
    r.S.stash.map view3 ++ qs.map capView3 = done.map capView3

theorem popS_view3 (S : Stash) (q : List (Creator × Rat)) (t : Rat) (qs : List (List Str × Rat)) (hl : qs.length ≤ 1)
    (hg : ∀ x ∈ qs, GoodLines x.1)
    (hq : q.map (fun e => (e.1.coll, e.2)) = qs.map (fun x => (bufNodes (16 - x.1.length, 0) x.1, x.2))) :
    (popS S q t).stash.map view3 = S.stash.map view3 ++ qs.map capView3 ∧ q.tail = [] := by
  cases qs with
  | nil =>
    have : q = [] := by simpa using hq
    subst this
    exact ⟨by simp [popS], rfl⟩
  | cons x rest =>
    have hr : rest = [] := by
      cases rest with
      | nil => rfl
      | cons _ _ => simp at hl
    subst hr
    cases q with
    | nil => simp at hq
    | cons e es =>
      obtain ⟨c, st⟩ := e
      simp only [List.map_cons, List.map_nil, List.cons.injEq, List.map_eq_nil_iff, Prod.mk.injEq] at hq
      obtain ⟨⟨hc, hst⟩, hes⟩ := hq
      subst hes
      obtain ⟨hne, _, ht⟩ := hg x (by simp)
      obtain ⟨l, ls', hx⟩ : ∃ l ls', x.1 = l :: ls' := by
        cases h : x.1 with
        | nil => exact absurd h hne
        | cons a b => exact ⟨a, b, rfl⟩
      refine ⟨?_, rfl⟩
      simp only [popS]
      rw [hx] at hc ht
      rw [store_written3 S c st t _ l ls' hc (fun m hm => (ht m hm).1)]
      simp [capView3, hx, hst]

/-- the instant of a written caption's End-Of-Caption word: its line's time code plus one frame per word before it -/
def FileCap.eoc (c : FileCap) (off : Rat) : Option Rat :=
  timeOf (String.ofList c.ts) ((rowsWords (16 - c.lines.length) c.lines).length + 6) off

theorem fileCap_track3 (c : FileCap) (hc : c.ok) (hg : GoodLines c.lines) (off tE : Rat) (hE : c.eoc off = some tE)
    (r : Reader) (done : List (List Str × Rat)) (hr : Track3 r done) (hoff : r.off = off) :
    Track3 (c.fileLines.foldl translateLine r) (done ++ [(c.lines, tE)]) ∧ (c.fileLines.foldl translateLine r).off = off := by
  obtain ⟨h1, h2, h3, h4⟩ := hc
  obtain ⟨l0, a0, qs, hql, hqg, hqc, hqv⟩ := hr
  obtain ⟨hne, _, hgl⟩ := hg
  obtain ⟨l, ls, hls⟩ : ∃ l ls, c.lines = l :: ls := by
    cases h : c.lines with
    | nil => exact absurd h hne
    | cons a b => exact ⟨a, b, rfl⟩
  have step1 : ∃ r1, translateLine r (c.ts ++ '\t' :: joinWords (captionWords c.lines)) = r1 ∧ r1.lastCmd = "" ∧ r1.active = .pop ∧
      r1.off = off ∧ r1.queue.map (fun q => (q.1.coll, q.2)) = [(bufNodes (16 - c.lines.length, 0) c.lines, tE)] ∧
      r1.S.stash.map view3 = r.S.stash.map view3 ++ qs.map capView3 := by
    rw [translateLine_words r c.ts _ h1 (by simp [captionWords]) (captionWords_hex c.lines h2 h3)]
    have hb : ∀ m ∈ l :: ls, m ≠ [] ∧ ∀ x ∈ m, Basic x := by
      intro m hm
      have := hgl m (by rw [hls]; exact hm)
      exact ⟨this.1.1, this.2⟩
    have hn : ls.length + 1 ≤ 15 := by have := h2; rw [hls] at this; simpa using this
    have hE' : timeOf ({ r with tc := String.ofList c.ts, frames := 0 } : Reader).tc
        (({ r with tc := String.ofList c.ts, frames := 0 } : Reader).frames + ((rowsWords (16 - (ls.length + 1)) (l :: ls)).length + 6))
        ({ r with tc := String.ofList c.ts, frames := 0 } : Reader).off = some tE := by
      show timeOf (String.ofList c.ts) (0 + _) r.off = some tE
      rw [Nat.zero_add, hoff]
      have := hE
      unfold FileCap.eoc at this
      rw [hls] at this
      simpa using this
    obtain ⟨r', e, l', a', _, cc, t1, t2, q', c', s'⟩ := caption_exact_T l ls [] { r with tc := String.ofList c.ts, frames := 0 } hn hb
      (Or.inl l0) a0 tE hE'
    rw [List.append_nil] at e
    obtain ⟨_, _, o'⟩ := state_after_prefix { r with tc := String.ofList c.ts, frames := 0 } r' (captionWords (l :: ls)) [] (by rw [List.append_nil]; exact e)
    rw [hls, e]
    simp only [words]
    obtain ⟨v1, tl1⟩ := popS_view3 r.S r.queue t1 qs hql hqg hqc
    refine ⟨r', rfl, l', a', by rw [o']; exact hoff, ?_, ?_⟩
    · rw [q']
      show (r.queue.tail.tail ++ [(cc, tE)]).map _ = _
      rw [tl1]
      simp [c']
    · rw [s']
      show (popS (popS r.S r.queue t1) r.queue.tail t2).stash.map view3 = _
      rw [tl1]
      simp only [popS]
      exact v1
  obtain ⟨r1, e1, l1, a1, o1, q1, s1⟩ := step1
  have hdone1 : r1.S.stash.map view3 ++ [(c.lines, tE)].map capView3 = (done ++ [(c.lines, tE)]).map capView3 := by
    rw [s1, hqv]; simp
  have hg1 : ∀ x ∈ [(c.lines, tE)], GoodLines x.1 := by
    intro x hx; simp at hx; subst hx; exact ⟨hne, h2, hgl⟩
  unfold FileCap.fileLines
  simp only [List.foldl_append, List.foldl_cons, List.foldl_nil, e1, translateLine_empty]
  cases hcl : c.clear with
  | none =>
    simp only [List.foldl_nil]
    exact ⟨⟨l1, a1, [(c.lines, tE)], by simp, hg1, by simpa using q1, hdone1⟩, o1⟩
  | some t =>
    simp only [List.foldl_cons, List.foldl_nil, translateLine_empty]
    have hx : ∀ w ∈ ["942c", "942c"], HexWord w := by
      intro w hw; apply hexWord_of_B; revert w; decide
    rw [translateLine_words r1 t _ (h4 t hcl) (by simp) hx]
    generalize hrs : ({ r1 with tc := String.ofList t, frames := 0 } : Reader) = rs
    have ls' : rs.lastCmd = "" := by rw [← hrs]; exact l1
    have as' : rs.active = .pop := by rw [← hrs]; exact a1
    have qs' : rs.queue = r1.queue := by rw [← hrs]
    have ss' : rs.S = r1.S := by rw [← hrs]
    have os' : rs.off = off := by rw [← hrs]; exact o1
    have hfa : (firstCopy rs "942c").active = .pop := as'
    obtain ⟨c1, c2, c3, c4, c5⟩ := command_edm_exact (firstCopy rs "942c") (some "942c") hfa
    have cS := command_edm_S (firstCopy rs "942c") (some "942c") hfa
    obtain ⟨r2, e2, l2, a2, s2, q2, p2⟩ := ctl_pair' rs "942c" [] ctl_fixed.2.2.1 (Or.inl ls') (by rw [c2]; rfl)
    obtain ⟨_, _, o2⟩ := state_after_prefix rs r2 ["942c", "942c"] [] e2
    rw [e2]
    simp only [words]
    have hq1' : r1.queue.map (fun q => (q.1.coll, q.2)) = [(c.lines, tE)].map (fun x => (bufNodes (16 - x.1.length, 0) x.1, x.2)) := by
      simpa using q1
    obtain ⟨v, tl⟩ := popS_view3 r1.S r1.queue (firstCopy rs "942c").now.2 [(c.lines, tE)] (by simp) hg1 hq1'
    refine ⟨⟨l2, by rw [a2, c1], [], by simp, by simp, ?_, ?_⟩, by rw [o2]; exact os'⟩
    · rw [q2, c5]
      show (rs.queue.tail).map _ = _
      rw [qs', tl]; rfl
    · rw [s2, cS]
      show (popS rs.S rs.queue _).stash.map view3 ++ _ = _
      rw [ss', qs', v]
      simpa using hdone1

theorem file_track3 (off : Rat) : ∀ (caps : List (FileCap × Rat)),
    (∀ x ∈ caps, x.1.ok ∧ GoodLines x.1.lines ∧ x.1.eoc off = some x.2) → ∀ (r : Reader) (done : List (List Str × Rat)),
    Track3 r done → r.off = off →
    Track3 ((caps.flatMap fun x => x.1.fileLines).foldl translateLine r) (done ++ caps.map (fun x => (x.1.lines, x.2))) := by
  intro caps
  induction caps with
  | nil => intro _ r done hr _; simpa using hr
  | cons c cs ih =>
    intro h r done hr ho
    obtain ⟨hc, hg, hE⟩ := h c (by simp)
    obtain ⟨t1, o1⟩ := fileCap_track3 c.1 hc hg off c.2 hE r done hr ho
    have t2 := ih (fun x hx => h x (by simp [hx])) _ _ t1 o1
    simp only [List.flatMap_cons, List.foldl_append, List.map_cons]
    simpa [List.append_assoc] using t2

/-- **the stored captions of a written file, with their start times.** as `file_stored`, and every caption starts at the
    instant of its End-Of-Caption word -/
theorem file_stored3 (caps : List (FileCap × Rat)) (off : Rat)
    (hok : ∀ x ∈ caps, x.1.ok ∧ GoodLines x.1.lines ∧ x.1.eoc (off * 1000000) = some x.2) :
    (run (fileText (caps.map (·.1))) off).S.stash.map view3 = caps.map (fun x => capView3 (x.1.lines, x.2)) := by
  unfold run fileText
  simp only
  rw [Srt.splitlines_terminated]
  · simp only [List.drop_succ_cons, List.drop_zero, List.foldl_cons, translateLine_empty]
    have h0 : Track3 ({ off := off * 1000000 } : Reader) [] := ⟨rfl, rfl, [], by simp, by simp, rfl, rfl⟩
    have hfl : (caps.map (·.1)).flatMap FileCap.fileLines = caps.flatMap fun x => x.1.fileLines := by
      simp [List.flatMap_map]
    rw [hfl]
    obtain ⟨_, a, qs, hql, hqg, hqc, hqv⟩ := file_track3 (off * 1000000) caps hok _ [] h0 rfl
    generalize (caps.flatMap fun x => x.1.fileLines).foldl translateLine ({ off := off * 1000000 } : Reader) = rf at a hqc hqv
    simp only [List.nil_append, List.map_map] at hqv
    rw [a]
    unfold flush
    simp only
    obtain ⟨v, _⟩ := popS_view3 rf.S rf.queue 0 qs hql hqg hqc
    split
    · rename_i he
      have : rf.queue = [] := List.isEmpty_iff.mp he
      have hq0 : qs = [] := by
        rw [this] at hqc
        simpa using hqc.symm
      rw [hq0] at hqv
      simpa [Function.comp_def] using hqv
    · rw [popOn_S, v, hqv]
      simp [Function.comp_def]
  · intro l hl
    simp only [List.mem_cons, List.mem_flatMap, List.mem_map] at hl
    rcases hl with rfl | rfl | ⟨c, ⟨x, hx, rfl⟩, hl⟩
    · intro y hy
      have : ∀ z ∈ Generated.Scc.header.toList, isLineBreak z = false := by decide
      exact this y hy
    · intro y hy; simp at hy
    · exact fileLines_noBreak x.1 (hok x hx).1 l hl

/-! ### the writer's time codes -/

/-- the instant from which the writer sends a caption: `(words + 8)` frames before its start, not before 0 -/
def codeStart (codeLen : Nat) (start : Rat) : Rat :=
  let x := start - ((codeLen : Rat) / 5 + 8) * frameUs
  if x < 0 then 0 else x

theorem preroll_starts : ∀ (cs done : List Cue),
    (preroll done cs).map (·.start) = done.map (·.start) ++ cs.map (fun c => codeStart c.code.length c.start)
  | [], done => by simp [preroll]
  | c :: cs, done => by
    unfold preroll
    simp only
    rw [preroll_starts cs]
    simp only [List.map_append, List.map_cons, List.map_nil, List.append_assoc, List.singleton_append]
    congr 1
    · cases hl : done.getLast? with
      | none => rfl
      | some p =>
        simp only
        cases hp : p.stop with
        | none => rfl
        | some pe =>
          simp only
          rw [apply_ite (List.map fun x : Cue => x.start)]
          have : (done.dropLast ++ [({ code := p.code, start := p.start, stop := none } : Cue)]).map (·.start) = done.map (·.start) := by
            obtain ⟨ys, rfl⟩ := List.getLast?_eq_some_iff.mp hl
            simp
          rw [this, ite_self]

theorem words_text_length : ∀ (ws : List String), (∀ w ∈ ws, HexWord w) →
    (ws.flatMap fun w => w.toList ++ [' ']).length = 5 * ws.length
  | [], _ => rfl
  | w :: ws, h => by
    have := words_text_length ws (fun x hx => h x (by simp [hx]))
    simp only [List.flatMap_cons, List.length_append, (h w (by simp)).len, List.length_cons, List.length_nil, this]
    omega

theorem textToCode_length (lines : List (List Char)) (hn : lines.length ≤ 15) (hb : ∀ l ∈ lines, ∀ c ∈ l, Basic c) :
    (textToCode lines).length = 5 * (rowsWords (16 - lines.length) lines).length := by
  rw [textToCode_words lines hn hb]
  exact words_text_length _ (rowsWords_hex lines _ (by omega) (by omega) hb)

/-- the instant at which the reader shows a caption the writer sent for `start`: the End-Of-Caption word's instant on a line
    whose time code is the sending instant rounded down to a frame -/
def shownAt (lines : List (List Char)) (start : Rat) : Rat :=
  let W := (rowsWords (16 - lines.length) lines).length
  ((((codeStart (5 * W) start / 1000000 * (1000 / 1001) * 30).floor.toNat + (W + 6) : Nat) : Rat)) * frameUs

theorem codeStart_nonneg (n : Nat) (s : Rat) : 0 ≤ codeStart n s := by
  unfold codeStart
  simp only
  split
  · exact le_refl 0
  · rename_i h; exact not_lt.mp h

/-- **C17 (visible within three frames).** a caption whose start leaves room for its transmission (`start ≥ (words + 8)` frames)
    is shown by the reader not later than its start and less than three frames before it: between two and three frames early -/
theorem shown_within_three_frames (lines : List (List Char)) (start : Rat)
    (h : (((rowsWords (16 - lines.length) lines).length : Rat) + 8) * frameUs ≤ start) :
    2 * frameUs ≤ start - shownAt lines start ∧ start - shownAt lines start < 3 * frameUs := by
  unfold shownAt
  simp only
  generalize (rowsWords (16 - lines.length) lines).length = W at h ⊢
  have hF : frameUs = 100100 / 3 := frameUs_value
  have hcs : codeStart (5 * W) start = start - ((W : Rat) + 8) * frameUs := by
    unfold codeStart
    simp only
    have e : ((5 * W : Nat) : Rat) / 5 = (W : Rat) := by push_cast; ring
    rw [e]
    have : ¬ (start - ((W : Rat) + 8) * frameUs < 0) := by linarith
    rw [if_neg this]
  rw [hcs]
  generalize hu : start - ((W : Rat) + 8) * frameUs = u
  have hu0 : 0 ≤ u := by rw [← hu]; linarith
  have hq : u / 1000000 * (1000 / 1001) * 30 = u / frameUs := by rw [hF]; field_simp; ring
  rw [hq]
  have hqn : 0 ≤ u / frameUs := by rw [hF]; positivity
  have hN := toNat_floor_cast (u / frameUs) hqn
  have lo : (((u / frameUs).floor : Int) : Rat) ≤ u / frameUs := Rat.floor_le _
  have hi : u / frameUs < (((u / frameUs).floor : Int) : Rat) + 1 := by
    have := Rat.lt_floor_add_one (u / frameUs); push_cast at this; exact this
  have hFpos : (0 : Rat) < frameUs := by rw [hF]; norm_num
  have lo' : (((u / frameUs).floor : Int) : Rat) * frameUs ≤ u := by
    have := mul_le_mul_of_nonneg_right lo (le_of_lt hFpos)
    rwa [div_mul_cancel₀ u (ne_of_gt hFpos)] at this
  have hi' : u < ((((u / frameUs).floor : Int) : Rat) + 1) * frameUs := by
    have := mul_lt_mul_of_pos_right hi hFpos
    rwa [div_mul_cancel₀ u (ne_of_gt hFpos)] at this
  have hstart : start = u + ((W : Rat) + 8) * frameUs := by rw [← hu]; ring
  push_cast
  rw [hN, hstart]
  constructor <;> nlinarith

theorem map_pair_eq {α β γ δ : Type} (f : α → γ) (g : α → δ) (f' : β → γ) (g' : β → δ) :
    ∀ (l : List α) (m : List β), l.map f = m.map f' → l.map g = m.map g' →
    l.map (fun x => (f x, g x)) = m.map (fun y => (f' y, g' y))
  | [], [], _, _ => rfl
  | [], _ :: _, h, _ => by simp at h
  | _ :: _, [], h, _ => by simp at h
  | a :: l, b :: m, h1, h2 => by
    simp only [List.map_cons, List.cons.injEq] at h1 h2 ⊢
    exact ⟨by rw [h1.1, h2.1], map_pair_eq f g f' g' l m h1.2 h2.2⟩

/-- `write_is_file` with the time codes: every caption's line is stamped with its sending instant -/
theorem write_is_file_T (caps : List (List Str × Rat × Rat)) (hok : ∀ c ∈ caps, c.1.length ≤ 15 ∧ ∀ l ∈ c.1, ∀ x ∈ l, Basic x) :
    ∃ lcs : List LCue, write caps = fileText (lcs.map LCue.fileCap) ∧ (∀ c ∈ lcs, c.ok) ∧
      lcs.map (fun c => (c.lines, c.start)) = caps.map (fun c => (c.1, codeStart (textToCode c.1).length c.2.1)) := by
  by_cases he : caps.isEmpty = true
  · have : caps = [] := List.isEmpty_iff.mp he
    subst this
    exact ⟨[], by simp [write, fileText], by simp, rfl⟩
  · have hcodes := preroll_codes (caps.map fun c => ({ code := textToCode c.1, start := c.2.1, stop := some c.2.2 } : Cue)) []
    have hstarts := preroll_starts (caps.map fun c => ({ code := textToCode c.1, start := c.2.1, stop := some c.2.2 } : Cue)) []
    simp only [List.map_nil, List.nil_append, List.map_map] at hcodes hstarts
    obtain ⟨lcs, e1, e2⟩ := cues_with_lines _ (caps.map (·.1)) (by rw [hcodes]; simp [List.map_map])
    have hlok : ∀ c ∈ lcs, c.ok := by
      intro c hc
      have : c.lines ∈ lcs.map (·.lines) := List.mem_map.mpr ⟨c, hc, rfl⟩
      rw [e2] at this
      obtain ⟨k, hk, hke⟩ := List.mem_map.mp this
      have := hok k hk
      rw [hke] at this
      exact this
    have hst : lcs.map (·.start) = caps.map (fun c => codeStart (textToCode c.1).length c.2.1) := by
      have : lcs.map (·.start) = (lcs.map LCue.cue).map (·.start) := by simp [List.map_map, Function.comp_def, LCue.cue]
      rw [this, e1, hstarts]
      simp [Function.comp_def]
    refine ⟨lcs, ?_, hlok, map_pair_eq _ _ _ _ lcs caps e2 hst⟩
    unfold write fileText
    simp only [he, Bool.false_eq_true, if_false]
    rw [← e1, writeCues_text lcs hlok]
    simp [List.flatMap_cons, List.append_assoc]

/-- **C17 (write, then read: the same captions at the instants they were sent for).** for every caption set of 1–15 tidy rows of
    basic characters per caption, any times: the reader model (no offset) run on the file the writer model produces stores
    exactly one caption per input caption, in order — rows as lines, first-row position — and each of them starts at
    `shownAt`, the instant of its End-Of-Caption word on a line stamped with the sending instant rounded down to a frame -/
theorem written_file_times (caps : List (List Str × Rat × Rat)) (hg : ∀ c ∈ caps, GoodLines c.1) :
    (run (write caps) 0).S.stash.map view3 = caps.map (fun c => capView3 (c.1, shownAt c.1 c.2.1)) := by
  have hok : ∀ c ∈ caps, c.1.length ≤ 15 ∧ ∀ l ∈ c.1, ∀ x ∈ l, Basic x :=
    fun c hc => ⟨(hg c hc).2.1, fun l hlm x hx => ((hg c hc).2.2 l hlm).2 x hx⟩
  obtain ⟨lcs, e, ok, hp⟩ := write_is_file_T caps hok
  -- the instant of every caption
  let val : List Str × Rat → Rat := fun x =>
    ((((x.2 / 1000000 * (1000 / 1001) * 30).floor.toNat + ((rowsWords (16 - x.1.length) x.1).length + 6) : Nat) : Rat)) * frameUs
  have hmem : ∀ c ∈ lcs, GoodLines c.lines ∧ 0 ≤ c.start := by
    intro c hc
    have : (c.lines, c.start) ∈ lcs.map (fun c => (c.lines, c.start)) := List.mem_map.mpr ⟨c, hc, rfl⟩
    rw [hp] at this
    obtain ⟨k, hk, hke⟩ := List.mem_map.mp this
    simp only [Prod.mk.injEq] at hke
    rw [← hke.1, ← hke.2]
    exact ⟨hg k hk, codeStart_nonneg _ _⟩
  have hstep := file_stored3 (lcs.map fun c => (c.fileCap, val (c.lines, c.start))) 0 (by
    intro x hx
    obtain ⟨c, hc, rfl⟩ := List.mem_map.mp hx
    refine ⟨c.fileCap_ok (ok c hc), (hmem c hc).1, ?_⟩
    show timeOf (String.ofList (formatTimestamp c.start)) ((rowsWords (16 - c.lines.length) c.lines).length + 6) (0 * 1000000) = _
    rw [zero_mul, written_stamp_instant c.start (hmem c hc).2])
  have hm1 : (lcs.map fun c => (c.fileCap, val (c.lines, c.start))).map (·.1) = lcs.map LCue.fileCap := by
    simp [List.map_map, Function.comp_def]
  rw [hm1, ← e] at hstep
  rw [hstep]
  have hm2 : (lcs.map fun c => (c.fileCap, val (c.lines, c.start))).map (fun x => capView3 (x.1.lines, x.2))
      = (lcs.map (fun c => (c.lines, c.start))).map (fun x => capView3 (x.1, val x)) := by
    simp [List.map_map, Function.comp_def, LCue.fileCap]
  rw [hm2, hp, List.map_map]
  apply List.map_congr_left
  intro c hc
  simp only [Function.comp_def]
  congr 2
  show val (c.1, codeStart (textToCode c.1).length c.2.1) = shownAt c.1 c.2.1
  unfold shownAt
  simp only [val]
  rw [textToCode_length c.1 (hok c hc).1 (hok c hc).2]

end PcVerif.SccW
