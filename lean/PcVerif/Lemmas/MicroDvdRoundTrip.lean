/-
  MicroDVD write → read (C08): what `MicroDVDWriter.write` produces for captions made of text lines is a document of
  well-formed subtitle lines in the sense of `MicroDvdDocLemmas`; the reader returns the same lines with the instants
  truncated to whole frames (1/25 s).
-/
import PcVerif.Lemmas.MicroDvdDocLemmas
import PcVerif.Lemmas.SrtRoundTrip
import PcVerif.Lemmas.VttPassLemmas
import PcVerif.Lemmas.VttRoundTrip
namespace PcVerif.MicroDvd
open Str Fmt

theorem natOfDigitsAux_eq (l : Str) (acc : Nat) : natOfDigitsAux acc l = Nat.ofDigitChars 10 l acc := by
  induction l generalizing acc with
  | nil => rfl
  | cons c cs ih =>
    show natOfDigitsAux (acc * 10 + digitVal c) cs = _
    rw [ih, Nat.ofDigitChars_cons]
    congr 1
    show acc * 10 + (c.toNat - 48) = 10 * acc + (c.toNat - '0'.toNat)
    have : '0'.toNat = 48 := by decide
    rw [this]; omega

/-- a written number reads back as itself -/
theorem natOfDigits_ofNat (n : Nat) : natOfDigits (ofNat n) = n := by
  unfold natOfDigits ofNat
  rw [natOfDigitsAux_eq, Nat.toList_repr, Nat.ofDigitChars_ten_toDigits]

/-- text of a caption made of lines: the lines joined by `|` -/
theorem foldl_recreateLine_lines : ∀ (ts : List Str) (acc : Str),
    (ts.flatMap fun x => [Node.brk, Node.text x]).foldl recreateLine acc = acc ++ ts.flatMap (fun x => '|' :: x) := by
  intro ts
  induction ts with
  | nil => intro acc; simp
  | cons t ts ih =>
    intro acc
    simp only [List.flatMap_cons, List.cons_append, List.nil_append, List.foldl_cons, recreateLine]
    rw [ih]; simp

theorem raw_eq_join (t : Str) (ts : List Str) : t ++ ts.flatMap (fun x => '|' :: x) = join ['|'] (t :: ts) := by
  induction ts generalizing t with
  | nil => simp [join]
  | cons u us ih =>
    have := ih u
    simp only [List.flatMap_cons] at this ⊢
    simp [join, ← this]

theorem collapseNewlines_cons_ne (c : Char) (s : Str) (hc : c ≠ '\n') : collapseNewlines (c :: s) = c :: collapseNewlines s := by
  cases s with
  | nil => simp [collapseNewlines]
  | cons d s' =>
    rw [collapseNewlines]
    · intro t e1 _; exact hc e1

theorem collapseNewlines_id (s : Str) (h : '\n' ∉ s) : collapseNewlines (s ++ ['\n']) = s ++ ['\n'] := by
  induction s with
  | nil => simp [collapseNewlines]
  | cons c s ih =>
    have hc : c ≠ '\n' := fun e => h (by simp [e])
    rw [List.cons_append, collapseNewlines_cons_ne c _ hc, ih (fun e => h (by simp [e]))]

theorem dropBars_id : ∀ (s : Str), '\n' ∉ s → (∀ d, s.getLast? = some d → d ≠ '|') →
    dropBarsBeforeNewline (s ++ ['\n']) = s ++ ['\n']
  | [], _, _ => by simp [dropBarsBeforeNewline]
  | c :: s, h, hl => by
    have ih := dropBars_id s (fun e => h (by simp [e])) (by
      intro d hd
      apply hl
      cases s with
      | nil => simp at hd
      | cons x xs => rw [List.getLast?_cons_cons]; exact hd)
    simp only [List.cons_append, dropBarsBeforeNewline, ih]
    by_cases hc : c = '|'
    · subst hc
      cases s with
      | nil => exact absurd rfl (hl '|' rfl)
      | cons x xs =>
        have hx : x ≠ '\n' := fun e => h (by simp [e])
        simp [hx]
    · simp [hc]

/-! ### captions made of text lines -/

structure LineOK (t : Str) : Prop where
  ne : t ≠ []
  edges : Spec.NoEdgeSpace t
  noBar : '|' ∉ t
  noBreak : Srt.NoBreak t

theorem mem_join (sep : Str) : ∀ (ls : List Str) (c : Char), c ∈ join sep ls → c ∈ sep ∨ ∃ l ∈ ls, c ∈ l
  | [], c, h => by simp [join] at h
  | [a], c, h => Or.inr ⟨a, by simp, by simpa [join] using h⟩
  | a :: b :: t, c, h => by
    have e : join sep (a :: b :: t) = a ++ sep ++ join sep (b :: t) := rfl
    rw [e] at h
    rcases List.mem_append.mp h with h1 | h1
    · rcases List.mem_append.mp h1 with h2 | h2
      · exact Or.inr ⟨a, by simp, h2⟩
      · exact Or.inl h2
    · rcases mem_join sep (b :: t) c h1 with h2 | ⟨l, hl, hc⟩
      · exact Or.inl h2
      · exact Or.inr ⟨l, by simp [hl], hc⟩

theorem join_head (sep : Str) (t : Str) (ts : List Str) (h : t ≠ []) : (join sep (t :: ts)).head? = t.head? := by
  cases t with
  | nil => exact absurd rfl h
  | cons c r => cases ts <;> simp [join]

theorem join_last (sep : Str) : ∀ (ls : List Str), ls ≠ [] → (∀ l ∈ ls, l ≠ []) →
    ∃ l, ls.getLast? = some l ∧ (join sep ls).getLast? = l.getLast?
  | [], h, _ => absurd rfl h
  | [a], _, _ => ⟨a, rfl, by simp [join]⟩
  | a :: b :: t, _, hne => by
    obtain ⟨l, h1, h2⟩ := join_last sep (b :: t) (by simp) (fun x hx => hne x (by simp [hx]))
    refine ⟨l, by rw [List.getLast?_cons_cons]; exact h1, ?_⟩
    have e : join sep (a :: b :: t) = (a ++ sep) ++ join sep (b :: t) := rfl
    have hj : join sep (b :: t) ≠ [] := by
      intro e0
      have hb : b ≠ [] := hne b (by simp)
      cases t with
      | nil => simp [join] at e0; exact hb e0
      | cons u us =>
        have : join sep (b :: u :: us) = b ++ sep ++ join sep (u :: us) := rfl
        rw [this] at e0; simp at e0; exact hb e0.1
    rw [e, Spec.gl_append_ne _ _ hj, h2]

theorem cueText_lines (t : Str) (ts : List Str) (hok : ∀ x ∈ t :: ts, LineOK x) :
    cueText (VttW.lineNodes (t :: ts)) = join ['|'] (t :: ts) ++ ['\n'] := by
  have h0 : (VttW.lineNodes (t :: ts)).foldl recreateLine [] = join ['|'] (t :: ts) := by
    simp only [VttW.lineNodes, List.foldl_cons, recreateLine, List.nil_append]
    rw [foldl_recreateLine_lines, raw_eq_join]
  have hne : ∀ l ∈ t :: ts, l ≠ [] := fun l hl => (hok l hl).ne
  have hedge : Spec.NoEdgeSpace (join ['|'] (t :: ts)) := by
    constructor
    · intro c hc
      rw [join_head _ t ts (hok t (by simp)).ne] at hc
      exact (hok t (by simp)).edges.1 c hc
    · intro d hd
      obtain ⟨l, h1, h2⟩ := join_last ['|'] (t :: ts) (by simp) hne
      rw [h2] at hd
      exact (hok l (List.mem_of_getLast? h1)).edges.2 d hd
  have hnl : '\n' ∉ join ['|'] (t :: ts) := by
    intro h
    rcases mem_join _ _ _ h with h1 | ⟨l, hl, hc⟩
    · simp at h1
    · have := (hok l hl).noBreak '\n' hc
      revert this; decide
  have hbar : ∀ d, (join ['|'] (t :: ts)).getLast? = some d → d ≠ '|' := by
    intro d hd e
    obtain ⟨l, h1, h2⟩ := join_last ['|'] (t :: ts) (by simp) hne
    rw [h2] at hd
    subst e
    exact (hok l (List.mem_of_getLast? h1)).noBar (List.mem_of_getLast? hd)
  unfold cueText
  rw [h0, Spec.strip_of_noEdgeSpace _ hedge, collapseNewlines_id _ hnl, dropBars_id _ hnl hbar]

theorem lineNodes_dropLast : ∀ (t : Str) (ts : List Str), (Srt.lineNodes (t :: ts)).dropLast = VttW.lineNodes (t :: ts)
  | t, [] => by simp [Srt.lineNodes, VttW.lineNodes]
  | t, u :: us => by
    have ih := lineNodes_dropLast u us
    simp only [Srt.lineNodes, VttW.lineNodes, List.flatMap_cons, List.cons_append, List.nil_append] at ih ⊢
    rw [List.dropLast_cons₂, List.dropLast_cons₂, ih]

/-- the subtitle line written for a caption -/
def mline (c : VttW.CapIn) : MLine := ⟨ofNat (microToFrames c.1), ofNat (microToFrames c.2.1), c.2.2⟩

structure CapOK (c : VttW.CapIn) : Prop where
  linesNe : c.2.2 ≠ []
  lines : ∀ t ∈ c.2.2, LineOK t
  endFrame : microToFrames c.2.1 ≠ 0          -- `{0}{0}` is the frame-rate line

theorem recreateLang_lines : ∀ (cs : List VttW.CapIn), (∀ c ∈ cs, CapOK c) →
    recreateLang (cs.map VttW.toRCap) = (cs.map fun c => (mline c).line ++ ['\n']).flatten
  | [], _ => rfl
  | c :: cs, hok => by
    have hc := hok c (by simp)
    obtain ⟨a, b, ls⟩ := c
    cases ls with
    | nil => exact absurd rfl hc.linesNe
    | cons t ts =>
      have ih := recreateLang_lines cs (fun x hx => hok x (by simp [hx]))
      simp only [List.map_cons, recreateLang, VttW.toRCap, List.flatten_cons]
      rw [cueText_lines t ts hc.lines, ih]
      simp [MLine.line, mline]

theorem mline_wf (c : VttW.CapIn) (h : CapOK c) : (mline c).WF := by
  refine ⟨Srt.digits_ofNat _, Srt.digits_ofNat _, ?_, h.linesNe, fun t ht => ⟨(h.lines t ht).ne, (h.lines t ht).noBar⟩⟩
  intro ⟨_, h2⟩
  have : natOfDigits (ofNat (microToFrames c.2.1)) = natOfDigits ['0'] := by
    show natOfDigits (mline c).b = _; rw [h2]
  have z : natOfDigits ['0'] = 0 := by decide
  rw [natOfDigits_ofNat, z] at this
  exact h.endFrame this

theorem mline_noBreak (c : VttW.CapIn) (h : CapOK c) : Srt.NoBreak (mline c).line := by
  intro ch hch
  simp only [MLine.line, mline, List.mem_cons, List.mem_append] at hch
  have key : ∀ y, y ∈ ['{', '}', '|'] → isLineBreak y = false := by decide
  rcases hch with rfl | hch | rfl | rfl | hch | rfl | hch
  · exact key _ (by simp)
  · exact Srt.digits_noBreak _ (Srt.digits_ofNat _) ch hch
  · exact key _ (by simp)
  · exact key _ (by simp)
  · exact Srt.digits_noBreak _ (Srt.digits_ofNat _) ch hch
  · exact key _ (by simp)
  · rcases mem_join _ _ _ hch with h1 | ⟨l, hl, hc⟩
    · simp at h1; subst h1; exact key _ (by simp)
    · exact (h.lines l hl).noBreak ch hc

/-- the caption read back for a written one: same lines, instants truncated to whole frames (1/25 s) -/
def readBack (c : VttW.CapIn) : Caption :=
  ⟨((microToFrames c.1 * 40000 : Nat) : Int), ((microToFrames c.2.1 * 40000 : Nat) : Int), VttW.lineNodes c.2.2⟩

open PcVerif.Props.C01 in
/-- **MicroDVD write → read** -/
theorem mdvd_write_read (cs : List VttW.CapIn) (hne : cs ≠ []) (hok : ∀ c ∈ cs, CapOK c) :
    read (write [cs.map VttW.toRCap]) = .ok (cs.map readBack) := by
  have hw : write [cs.map VttW.toRCap] = ((cs.map mline).map MLine.line).flatMap (· ++ ['\n']) := by
    simp only [write, List.map_cons, List.map_nil, List.flatten_cons, List.flatten_nil, List.append_nil]
    rw [recreateLang_lines cs hok]
    simp only [List.flatMap, List.map_map]
    rfl
  rw [hw, microdvd_doc_cues (cs.map mline) (by simpa using hne)
    (by intro L hL; obtain ⟨c, hc, rfl⟩ := List.mem_map.mp hL; exact mline_wf c (hok c hc))
    (by intro L hL; obtain ⟨c, hc, rfl⟩ := List.mem_map.mp hL; exact mline_noBreak c (hok c hc))]
  congr 1
  rw [List.map_map]
  apply List.map_congr_left
  intro c hc
  have h := hok c hc
  obtain ⟨a, b, ls⟩ := c
  cases ls with
  | nil => exact absurd rfl h.linesNe
  | cons t ts =>
    simp only [Function.comp, MLine.caption, mline, readBack, natOfDigits_ofNat, microdvd_frame_25, lineNodes_dropLast]

end PcVerif.MicroDvd
