/-
  XML escaping as the DFXP and SAMI writers use it (`xml.sax.saxutils.escape`): decoding gives the text back, escaped
  text holds no angle bracket.  (Proofs; the statements are restated in `Props/C03.lean`.)
-/
import PcVerif.Spec.TextDecode
import PcVerif.Lemmas.StrLemmas
import PcVerif.Model.TextWriters
namespace PcVerif.XmlEsc
open PcVerif PcVerif.Str PcVerif.TextW PcVerif.Spec

theorem escape_cons (c : Char) (s : Str) : escape (c :: s) = escapeChar c ++ escape s := by
  simp [escape]

theorem escape_length_ge (s : Str) : s.length ≤ (escape s).length := by
  induction s with
  | nil => simp [escape]
  | cons c s ih =>
    rw [escape_cons]
    have : 1 ≤ (escapeChar c).length := by unfold escapeChar; split <;> (try split) <;> (try split) <;> simp
    simp only [List.length_append, List.length_cons]
    omega

/-- **C03 (XML escaping).** for every string, decoding the escaped text with the predefined XML references gives the
    string back — `&`, `<`, `>` and entity-looking or markup-looking substrings included -/
theorem unescape_escape (s : Str) (fuel : Nat) (h : (escape s).length < fuel) : xmlUnescapeF fuel (escape s) = s := by
  induction s generalizing fuel with
  | nil => cases fuel <;> simp [escape, xmlUnescapeF]
  | cons c s ih =>
    rw [escape_cons] at h ⊢
    cases fuel with
    | zero => simp at h
    | succ f =>
      unfold escapeChar at h ⊢
      by_cases h1 : c = '&'
      · subst h1
        simp only [if_true] at h ⊢
        have : "&amp;".toList ++ escape s = '&' :: ("amp;".toList ++ escape s) := rfl
        rw [this, xmlUnescapeF]
        simp only [if_true, dropPrefix?_append]
        rw [ih f (by simp [List.length_append] at h; omega)]
      · by_cases h2 : c = '<'
        · subst h2
          simp only [h1, if_false, if_true] at h ⊢
          have : "&lt;".toList ++ escape s = '&' :: ("lt;".toList ++ escape s) := rfl
          rw [this, xmlUnescapeF]
          have n1 : dropPrefix? ("lt;".toList ++ escape s) "amp;".toList = none := by
            simp [dropPrefix?]
          simp only [if_true, n1, dropPrefix?_append]
          rw [ih f (by simp [List.length_append] at h; omega)]
        · by_cases h3 : c = '>'
          · subst h3
            simp only [h1, h2, if_false, if_true] at h ⊢
            have : "&gt;".toList ++ escape s = '&' :: ("gt;".toList ++ escape s) := rfl
            rw [this, xmlUnescapeF]
            have n1 : dropPrefix? ("gt;".toList ++ escape s) "amp;".toList = none := by simp [dropPrefix?]
            have n2 : dropPrefix? ("gt;".toList ++ escape s) "lt;".toList = none := by simp [dropPrefix?]
            simp only [if_true, n1, n2, dropPrefix?_append]
            rw [ih f (by simp [List.length_append] at h; omega)]
          · simp only [h1, h2, h3, if_false] at h ⊢
            simp only [List.cons_append, List.nil_append, xmlUnescapeF, h1, if_false]
            rw [ih f (by simp at h; omega)]

theorem xmlUnescape_escape (s : Str) : xmlUnescape (escape s) = s :=
  unescape_escape s _ (by omega)

/-- escaped text contains neither `<` nor a bare `>`: it cannot open or close markup -/
theorem escape_no_angle (s : Str) : '<' ∉ escape s ∧ '>' ∉ escape s := by
  induction s with
  | nil => simp [escape]
  | cons c s ih =>
    rw [escape_cons]
    unfold escapeChar
    constructor
    · split
      · simpa using ih.1
      · split
        · simpa using ih.1
        · split
          · simpa using ih.1
          · rename_i h1 h2 h3; simp [ih.1]; exact fun e => h2 e.symm
    · split
      · simpa using ih.2
      · split
        · simpa using ih.2
        · split
          · simpa using ih.2
          · rename_i h1 h2 h3; simp [ih.2]; exact fun e => h3 e.symm

end PcVerif.XmlEsc
