/-
  C17 / C05: a whole pop-on caption as the SCC writer sends it — `94ae 94ae 9420 9420`, for every row its preamble twice and
  the row's character words, `942c 942c 942f 942f` — read by the reader model word by word.
-/
import PcVerif.Lemmas.SccRowLemmas
namespace PcVerif.SccW
open Str Scc PcVerif.Props.C16

/-- a code word as it stands in a file: four characters, no white space -/
structure Four (w : String) : Prop where
  len : w.toList.length = 4
  noSpace : ∀ c ∈ w.toList, isSpace c = false

theorem words_four (r : Reader) (w : String) (ws : List String) (h : Four w) :
    words r (w :: ws) = words (word r w ws.head?) ws := by
  have hw : String.ofList (strip w.toList) = w := by rw [strip_noSpace _ h.noSpace, String.ofList_toList]
  have hl : w.length = 4 := by rw [← String.length_toList]; exact h.len
  conv => lhs; unfold words
  simp only [hw, hl, if_true]

/-- the second copy of a doubled control code is dropped: only the doubling memory and the frame count change -/
theorem word_swallowed (r : Reader) (w : String) (nxt : Option String)
    (hdt : ((w != "94a1" && isCommand w) || isPac w || (special w).isSome) = true) (h : r.lastCmd = w) :
    word r w nxt = { r with dbl := if isCueStarting w then true else r.dbl, lastCmd := "", frames := r.frames + 1 } := by
  have hd : handleDouble r w = (true, { r with dbl := if isCueStarting w then true else r.dbl, lastCmd := "" }) := by
    unfold handleDouble
    have h1 : (w != r.lastCmd) = false := by simp [h]
    have h2 : (w == r.lastCmd) = true := by simp [h]
    by_cases hb : r.dbl = true
    · simp only [hb, if_true, hdt, Bool.true_or, h1, Bool.and_false, Bool.false_eq_true, if_false, h2, Bool.and_self]
    · have hb' : r.dbl = false := by simpa using hb
      simp only [hb', Bool.false_eq_true, if_false, hdt, h1, Bool.and_false, h2, Bool.and_self, if_true]
  unfold word
  rw [hd]
  simp only [if_true]

/-- the doubling memory after the first copy of a control code -/
def firstCopy (r : Reader) (w : String) : Reader :=
  { r with dbl := if isCueStarting w then false else r.dbl, lastCmd := w }

/-- the first copy of a control code or preamble (no tab offset, not a repetition of the word before) is executed -/
theorem word_executed (r : Reader) (w : String) (nxt : Option String)
    (hc : (isCommand w || isPac w) = true) (hne : r.lastCmd ≠ w) (hnt : tabOffset w = none)
    (hpac : (isPac w && Str.contains w.toList r.lastCmd.toList) = false) :
    word r w nxt = { command (firstCopy r w) w nxt with frames := (command (firstCopy r w) w nxt).frames + 1 } := by
  have hd : handleDouble r w = (false, firstCopy r w) := by
    unfold handleDouble firstCopy
    have h1 : (w != r.lastCmd) = true := by simp [Ne.symm hne]
    have h2 : (w == r.lastCmd) = false := by simp [Ne.symm hne]
    by_cases hcs : isCueStarting w = true
    · simp only [hcs, h1, Bool.and_self, if_true, h2, Bool.and_false, Bool.false_eq_true, if_false, hpac, hnt, Option.isSome_none]
    · have hcs' : isCueStarting w = false := by simpa using hcs
      simp only [hcs', h1, Bool.false_and, Bool.false_eq_true, if_false, h2, Bool.and_false, hpac, hnt, Option.isSome_none]
  unfold word
  rw [hd]
  simp only [Bool.false_eq_true, if_false, hc, if_true]

/-! ### what a pop-on reader holds -/

def queueText (q : List (Creator × Rat)) : Str := q.flatMap fun e => itext e.1.coll

/-- visible text a reader holds: the stored captions, then the composed captions waiting to be shown, then the buffer -/
def heldQ (r : Reader) : Str := vis (capsText r.S.stash) ++ vis (queueText r.queue) ++ vis (itext r.buf.coll)

theorem itext_isEmpty (c : Creator) (h : c.isEmpty = true) : itext c.coll = [] := by
  unfold Creator.isEmpty at h
  have hall : ∀ n ∈ c.coll, n.text = [] := by simpa using h
  generalize c.coll = l at hall
  induction l with
  | nil => rfl
  | cons n ns ih =>
    simp only [itext, hall n (by simp), ih (fun m hm => hall m (by simp [hm]))]
    simp

/-- a control code that is no mid-row code, no background colour and not a backspace leaves the text of the buffer alone -/
theorem interpret_text (c : Creator) (t : Tracker) (cmd : String) (nxt : Option String)
    (h1 : isMidRow cmd = false) (h2 : isBackground cmd = false) (h3 : (cmd == "94a1") = false) :
    itext (interpret c t cmd nxt).1.coll = itext c.coll := by
  unfold interpret
  simp only [h1, h2, h3, Bool.false_eq_true, if_false, Bool.false_and]
  repeat' split
  all_goals simp [itext_append, itext]

theorem buf_congr (r r' : Reader) (ha : r'.active = r.active) (h1 : r'.pop = r.pop) (h2 : r'.paint = r.paint) (h3 : r'.roll = r.roll) :
    r'.buf = r.buf := by
  unfold Reader.buf
  rw [ha, h1, h2, h3]

theorem heldQ_congr (r r' : Reader) (hS : r'.S.stash = r.S.stash) (hq : r'.queue = r.queue) (hb : r'.buf = r.buf) : heldQ r' = heldQ r := by
  unfold heldQ; rw [hS, hq, hb]

theorem now_fst (r : Reader) : (r.now.1.S = r.S ∧ r.now.1.queue = r.queue ∧ r.now.1.active = r.active ∧ r.now.1.pop = r.pop ∧
    r.now.1.paint = r.paint ∧ r.now.1.roll = r.roll ∧ r.now.1.lastCmd = r.lastCmd ∧ r.now.1.tr = r.tr) := by
  unfold Reader.now
  split <;> simp

/-- showing the caption at the head of the queue moves its text from the queue to the stored captions: nothing is lost,
    the order stays -/
theorem popOn_held (r : Reader) (stop : Rat) : heldQ (popOn r stop) = heldQ r ∧ (popOn r stop).buf = r.buf ∧
    (popOn r stop).active = r.active ∧ (popOn r stop).lastCmd = r.lastCmd ∧ (popOn r stop).queue = r.queue.tail := by
  unfold popOn
  cases hq : r.queue with
  | nil => simp [hq]
  | cons e q =>
    obtain ⟨c, st⟩ := e
    refine ⟨?_, rfl, rfl, rfl, rfl⟩
    unfold heldQ
    simp only [hq, store_conserves_text, queueText, List.flatMap_cons, vis_append, List.append_assoc]
    rfl

theorem setBuf_fields (r : Reader) (c : Creator) : (r.setBuf c).S = r.S ∧ (r.setBuf c).queue = r.queue ∧ (r.setBuf c).active = r.active ∧
    (r.setBuf c).lastCmd = r.lastCmd ∧ (r.setBuf c).tr = r.tr ∧ (r.setBuf c).frames = r.frames := by
  cases h : r.active <;> simp [Reader.setBuf, h]

theorem buf_update (r : Reader) (c : Creator) (t : Tracker) (e : Bool) :
    Reader.buf { (r.setBuf c) with tr := t, err := e } = c := by
  cases hh : r.active <;> simp [Reader.setBuf, Reader.buf, hh]

/-! ### the control codes of a written caption, executed -/

theorem command_enm (r : Reader) (nxt : Option String) : command r "94ae" nxt = r.setBuf {} := by
  unfold command
  simp

theorem command_rcl (r : Reader) (nxt : Option String) (ha : r.active = .pop) : command r "9420" nxt = r := by
  unfold command setActive
  simp [ha]
  cases r
  simp_all

/-- a code that ends in `interpret`: the doubling memory, the stored captions, the queue and the mode stay, the buffer keeps its text -/
theorem command_interpreted (r : Reader) (w : String) (nxt : Option String)
    (hw : w ≠ "9420" ∧ w ≠ "9429" ∧ w ≠ "9425" ∧ w ≠ "9426" ∧ w ≠ "94a7" ∧ w ≠ "94ae" ∧ w ≠ "942f" ∧ w ≠ "94ad")
    (hq : (w == "942c" && !r.queue.isEmpty) = false)
    (h1 : isMidRow w = false) (h2 : isBackground w = false) (h3 : (w == "94a1") = false) :
    (command r w nxt).S = r.S ∧ (command r w nxt).queue = r.queue ∧ (command r w nxt).active = r.active ∧
    (command r w nxt).lastCmd = r.lastCmd ∧ itext (command r w nxt).buf.coll = itext r.buf.coll := by
  obtain ⟨a1, a2, a3, a4, a5, a6, a7, a8⟩ := hw
  have b1 : (w == "9420") = false := by simp [a1]
  have b2 : (w == "9429") = false := by simp [a2]
  have b3 : (w == "9425") = false := by simp [a3]
  have b4 : (w == "9426") = false := by simp [a4]
  have b5 : (w == "94a7") = false := by simp [a5]
  have b6 : (w == "94ae") = false := by simp [a6]
  have b7 : (w == "942f") = false := by simp [a7]
  have b8 : (w == "94ad") = false := by simp [a8]
  unfold command
  simp only [b1, b2, b3, b4, b5, b6, b7, b8, Bool.or_self, Bool.false_eq_true, if_false, hq]
  obtain ⟨f1, f2, f3, f4, _, _⟩ := setBuf_fields r (interpret r.buf r.tr w nxt).1
  refine ⟨f1, f2, f3, f4, ?_⟩
  rw [buf_update]
  exact interpret_text _ _ _ _ h1 h2 h3

theorem now_buf (r : Reader) : r.now.1.buf = r.buf := by
  obtain ⟨_, _, a, b, c, d, _, _⟩ := now_fst r
  exact buf_congr r r.now.1 a b c d

theorem now_heldQ (r : Reader) : heldQ r.now.1 = heldQ r := by
  obtain ⟨a, b, _⟩ := now_fst r
  exact heldQ_congr r r.now.1 (by rw [a]) b (now_buf r)

/-- `942c` (erase displayed memory): a caption waiting in the queue is shown, nothing else happens to the text -/
theorem command_edm (r : Reader) (nxt : Option String) :
    heldQ (command r "942c" nxt) = heldQ r ∧ (command r "942c" nxt).active = r.active ∧
    (command r "942c" nxt).lastCmd = r.lastCmd ∧ itext (command r "942c" nxt).buf.coll = itext r.buf.coll := by
  by_cases hq : r.queue.isEmpty = true
  · obtain ⟨f1, f2, f3, f4, f5⟩ := command_interpreted r "942c" nxt (by decide) (by simp [hq]) (by decide +kernel) (by decide +kernel) (by decide)
    refine ⟨?_, f3, f4, f5⟩
    unfold heldQ
    rw [f1, f2, f5]
  · have hq' : r.queue.isEmpty = false := by simpa using hq
    have e : command r "942c" nxt = popOn r.now.1 r.now.2 := by
      unfold command
      simp [hq']
    rw [e]
    obtain ⟨g1, g2, g3, g4, _⟩ := popOn_held r.now.1 r.now.2
    obtain ⟨_, _, a, _, _, _, l, _⟩ := now_fst r
    refine ⟨by rw [g1, now_heldQ], by rw [g3, a], by rw [g4, l], by rw [g2, now_buf]⟩

/-- what `942f` does once the time is known -/
def eocStep (r2 : Reader) (t : Rat) : Reader :=
  let r3 := if r2.queue.isEmpty then r2 else popOn r2 t
  if r3.buf.isEmpty then r3 else ({ r3 with queue := r3.queue ++ [(r3.buf, t)] }).setBuf {}

theorem eocStep_held (r2 : Reader) (t : Rat) :
    heldQ (eocStep r2 t) = heldQ r2 ∧ (eocStep r2 t).active = r2.active ∧ (eocStep r2 t).lastCmd = r2.lastCmd ∧
    (eocStep r2 t).buf.isEmpty = true := by
  unfold eocStep
  have r3 : ∃ r3 : Reader, (if r2.queue.isEmpty then r2 else popOn r2 t) = r3 ∧ heldQ r3 = heldQ r2 ∧ r3.active = r2.active ∧ r3.lastCmd = r2.lastCmd := by
    by_cases hq : r2.queue.isEmpty = true
    · exact ⟨r2, by simp [hq], rfl, rfl, rfl⟩
    · obtain ⟨g1, _, g3, g4, _⟩ := popOn_held r2 t
      exact ⟨popOn r2 t, by simp [hq], g1, g3, g4⟩
  obtain ⟨r3, e3, h3, a3, l3⟩ := r3
  simp only [e3]
  by_cases hb : r3.buf.isEmpty = true
  · rw [if_pos hb]
    exact ⟨h3, a3, l3, hb⟩
  · rw [if_neg hb]
    obtain ⟨f1, f2, f3, f4, _, _⟩ := setBuf_fields ({ r3 with queue := r3.queue ++ [(r3.buf, t)] }) {}
    refine ⟨?_, by rw [f3, ← a3], by rw [f4, ← l3], ?_⟩
    · rw [← h3]
      unfold heldQ
      rw [f1, f2, buf_setBuf]
      simp [queueText, vis_append, itext]
      rfl
    · rw [buf_setBuf]; rfl

/-- `942f` (end of caption): the caption shown so far gives way, the composed buffer joins the queue and a fresh buffer
    takes its place — every character the reader held is still held, in the same order -/
theorem command_eoc (r : Reader) (nxt : Option String) :
    heldQ (command r "942f" nxt) = heldQ r ∧ (command r "942f" nxt).active = r.active ∧
    (command r "942f" nxt).lastCmd = r.lastCmd ∧ (command r "942f" nxt).buf.isEmpty = true := by
  have e : command r "942f" nxt = eocStep { r.now.1 with time := r.now.2 } r.now.2 := by
    unfold command eocStep
    simp
  rw [e]
  obtain ⟨n1, n2, n3, n4, n5, n6, n7, _⟩ := now_fst r
  obtain ⟨g1, g2, g3, g4⟩ := eocStep_held { r.now.1 with time := r.now.2 } r.now.2
  have r2h : heldQ ({ r.now.1 with time := r.now.2 } : Reader) = heldQ r := by
    rw [← now_heldQ r]; exact heldQ_congr _ _ rfl rfl (buf_congr _ _ rfl rfl rfl rfl)
  exact ⟨by rw [g1, r2h], by rw [g2]; exact n3, by rw [g3]; exact n7, g4⟩

/-! ### substring test of the doubling memory -/

theorem dropPrefix_length : ∀ (s p r : Str), dropPrefix? s p = some r → s.length = p.length + r.length
  | s, [], r, h => by simp [dropPrefix?] at h; simp [h]
  | [], _ :: _, r, h => by simp [dropPrefix?] at h
  | c :: s, q :: ps, r, h => by
    simp only [dropPrefix?] at h
    split at h
    · have := dropPrefix_length s ps r h
      simp [this]; omega
    · simp at h

theorem dropPrefix_eq : ∀ (s p : Str), dropPrefix? s p = some [] → s = p
  | s, [], h => by simp [dropPrefix?] at h; exact h
  | [], _ :: _, h => by simp [dropPrefix?] at h
  | c :: s, q :: ps, h => by
    simp only [dropPrefix?] at h
    split at h
    · rename_i e
      rw [e, dropPrefix_eq s ps h]
    · simp at h

theorem contains_length_le (a : Str) : ∀ (b : Str), contains a b = true → a.length ≤ b.length
  | [], h => by simp [contains] at h; simp [h]
  | c :: s, h => by
    simp only [contains, Bool.or_eq_true] at h
    rcases h with h | h
    · unfold isPrefix at h
      cases hd : dropPrefix? (c :: s) a with
      | none => simp [hd] at h
      | some r => have := dropPrefix_length _ _ _ hd; omega
    · have := contains_length_le a s h
      simp; omega

/-- a word of the same length is contained only in itself -/
theorem contains_same_length (a b : Str) (hl : a.length = b.length) (h : contains a b = true) : a = b := by
  cases b with
  | nil => simp at hl; simp [hl]
  | cons c s =>
    simp only [contains, Bool.or_eq_true] at h
    rcases h with h | h
    · unfold isPrefix at h
      cases hd : dropPrefix? (c :: s) a with
      | none => simp [hd] at h
      | some r =>
        have hlen := dropPrefix_length _ _ _ hd
        have : r = [] := by
          have : r.length = 0 := by omega
          exact List.length_eq_zero_iff.mp this
        subst this
        exact (dropPrefix_eq _ _ hd).symm
    · have := contains_length_le a s h
      simp at hl; omega

/-! ### a doubled control code -/

/-- what the word before a control code is in a written caption: nothing remembered, or a character word -/
def Quiet (s : String) : Prop := s = "" ∨ ∃ a b, GoodWord s a b

/-- a control code or preamble as the writer sends it -/
structure Ctl (w : String) : Prop where
  four : Four w
  cmd : (isCommand w || isPac w) = true
  noTab : tabOffset w = none
  dt : ((w != "94a1" && isCommand w) || isPac w || (special w).isSome) = true

theorem quiet_ne (s w : String) (hq : Quiet s) (hc : Ctl w) :
    s ≠ w ∧ (isPac w && Str.contains w.toList s.toList) = false := by
  rcases hq with rfl | ⟨a, b, hg⟩
  · constructor
    · intro e
      have := hc.four.len
      rw [← e] at this
      simp at this
    · have : w.toList ≠ [] := by
        intro e; have := hc.four.len; rw [e] at this; simp at this
      cases hw : w.toList with
      | nil => exact absurd hw this
      | cons c cs => simp [Str.contains]
  · have hne : s ≠ w := by
      intro e
      have h1 := hg.basic.notCommand
      have h2 := hg.basic.notPac
      have := hc.cmd
      rw [← e, h1, h2] at this
      simp at this
    refine ⟨hne, ?_⟩
    cases hp : isPac w with
    | false => rfl
    | true =>
      simp only [Bool.true_and]
      cases hcn : Str.contains w.toList s.toList with
      | false => rfl
      | true =>
        have := contains_same_length _ _ (by rw [hc.four.len, hg.len]) hcn
        exact absurd (String.toList_inj.mp this).symm hne

theorem firstCopy_fields (r : Reader) (w : String) : (firstCopy r w).S = r.S ∧ (firstCopy r w).queue = r.queue ∧
    (firstCopy r w).active = r.active ∧ (firstCopy r w).lastCmd = w ∧ (firstCopy r w).buf = r.buf ∧ heldQ (firstCopy r w) = heldQ r := by
  refine ⟨rfl, rfl, rfl, rfl, buf_congr _ _ rfl rfl rfl rfl, heldQ_congr _ _ rfl rfl (buf_congr _ _ rfl rfl rfl rfl)⟩

/-- a control code sent twice after a quiet word: the first copy is executed, the second dropped, and the doubling memory is
    empty again -/
theorem ctl_pair (r : Reader) (w : String) (ws : List String) (hc : Ctl w) (hq : Quiet r.lastCmd)
    (hl : (command (firstCopy r w) w (some w)).lastCmd = w) :
    ∃ r', words r (w :: w :: ws) = words r' ws ∧ r'.lastCmd = "" ∧
      r'.active = (command (firstCopy r w) w (some w)).active ∧ heldQ r' = heldQ (command (firstCopy r w) w (some w)) ∧
      r'.buf = (command (firstCopy r w) w (some w)).buf := by
  obtain ⟨hne, hpac⟩ := quiet_ne _ _ hq hc
  rw [words_four r w _ hc.four, words_four _ w _ hc.four]
  simp only [List.head?_cons]
  rw [word_executed r w (some w) hc.cmd hne hc.noTab hpac]
  generalize command (firstCopy r w) w (some w) = x at hl
  rw [word_swallowed _ w ws.head? hc.dt (by simpa using hl)]
  refine ⟨_, rfl, rfl, rfl, heldQ_congr _ _ rfl rfl (buf_congr _ _ rfl rfl rfl rfl), buf_congr _ _ rfl rfl rfl rfl⟩

/-! ### character words -/

theorem word_basic_more (r : Reader) (w : String) (nxt : Option String) (a b : String) (h : BasicWord w a b) :
    (word r w nxt).queue = r.queue ∧ (word r w nxt).lastCmd = w := by
  have hd : handleDouble r w = (false, { r with lastCmd := w }) := by
    unfold handleDouble
    simp only [h.notCommand, h.notPac, h.notSpecial, h.notExtended, h.notTab, h.notCue, h.notBs, Bool.and_false,
      Bool.or_false, Option.isSome_none, Bool.false_and, Bool.false_eq_true, if_false, ite_self]
  unfold word
  rw [hd]
  simp only [Bool.false_eq_true, if_false, h.notCommand, h.notPac, Bool.or_self, h.notSpecial, h.notExtended, h.first, h.second]
  obtain ⟨_, f2, _, f4, _, _⟩ := setBuf_fields { r with lastCmd := w } (addChars ({ r with lastCmd := w } : Reader).buf r.tr (a.toList ++ b.toList)).1
  exact ⟨f2, f4⟩

theorem word_good_heldQ (r : Reader) (w : String) (nxt : Option String) (a b : String) (h : GoodWord w a b) :
    heldQ (word r w nxt) = heldQ r ++ vis (a.toList ++ b.toList) ∧ (word r w nxt).active = r.active ∧ (word r w nxt).lastCmd = w := by
  obtain ⟨h1, h2, h3⟩ := word_basic r w nxt a b h.basic
  obtain ⟨h4, h5⟩ := word_basic_more r w nxt a b h.basic
  refine ⟨?_, h3, h5⟩
  unfold heldQ
  rw [h1, h2, h4, vis_append]
  simp only [List.append_assoc]

/-- the character words of a row, read with whatever follows them -/
theorem good_words_read : ∀ (ws : List (String × String × String)), (∀ x ∈ ws, GoodWord x.1 x.2.1 x.2.2) →
    ∀ (rest : List String) (r : Reader), Quiet r.lastCmd →
    ∃ r', words r (ws.map (·.1) ++ rest) = words r' rest ∧ Quiet r'.lastCmd ∧ r'.active = r.active ∧
      heldQ r' = heldQ r ++ vis (ws.flatMap fun x => x.2.1.toList ++ x.2.2.toList) := by
  intro ws
  induction ws with
  | nil => intro _ rest r hq; exact ⟨r, rfl, hq, rfl, by simp [vis]⟩
  | cons x ws ih =>
    intro h rest r _
    have hx := h x (by simp)
    obtain ⟨g1, g2, g3⟩ := word_good_heldQ r x.1 ((ws.map (·.1) ++ rest).head?) x.2.1 x.2.2 hx
    obtain ⟨r', e, q, a, t⟩ := ih (fun y hy => h y (by simp [hy])) rest (word r x.1 ((ws.map (·.1) ++ rest).head?))
      (Or.inr ⟨x.2.1, x.2.2, by rw [g3]; exact hx⟩)
    refine ⟨r', ?_, q, by rw [a, g2], ?_⟩
    · simp only [List.map_cons, List.cons_append]
      rw [words_good r x.1 _ x.2.1 x.2.2 hx, e]
    · rw [t, g1]
      simp only [List.flatMap_cons, vis_append, List.append_assoc]

/-! ### the writer's control words -/

/-- the preamble word the writer sends for a row -/
def pacWord (row : Nat) : String := Generated.Scc.pacHighByRow.getD row "" ++ Generated.Scc.pacLowByRowRestricted.getD row ""

def fixedWords : List String := ["9420", "9429", "9425", "9426", "94a7", "94ae", "942f", "94ad", "942c", "94a1"]

def plainPacB (w : String) : Bool :=
  w.toList.length == 4 && w.toList.all (fun c => !isSpace c) && isPac w && (tabOffset w).isNone && !isMidRow w && !isBackground w
    && !fixedWords.contains w

theorem pacs_plain : (List.range 15).all (fun i => plainPacB (pacWord (i + 1))) = true := by decide +kernel

theorem pac_plain (row : Nat) (h1 : 1 ≤ row) (h2 : row ≤ 15) : plainPacB (pacWord row) = true := by
  have := List.all_eq_true.mp pacs_plain (row - 1) (List.mem_range.mpr (by omega))
  have e : row - 1 + 1 = row := by omega
  simpa [e] using this

theorem ctl_of_plain (w : String) (h : plainPacB w = true) : Ctl w ∧ isMidRow w = false ∧ isBackground w = false ∧ ∀ f ∈ fixedWords, w ≠ f := by
  unfold plainPacB at h
  simp only [Bool.and_eq_true, beq_iff_eq, Bool.not_eq_true', Option.isNone_iff_eq_none, List.all_eq_true] at h
  obtain ⟨⟨⟨⟨⟨⟨h1, h2⟩, h3⟩, h4⟩, h5⟩, h6⟩, h7⟩ := h
  refine ⟨⟨⟨h1, fun c hc => by simpa using h2 c hc⟩, by simp [h3], h4, by simp [h3]⟩, h5, h6, ?_⟩
  intro f hf e
  rw [e] at h7
  have : fixedWords.contains f = true := by simpa using hf
  rw [this] at h7
  exact absurd h7 (by decide)

theorem ctl_fixed : Ctl "94ae" ∧ Ctl "9420" ∧ Ctl "942c" ∧ Ctl "942f" := by
  refine ⟨⟨⟨by decide, by decide⟩, by decide +kernel, by decide +kernel, by decide +kernel⟩,
    ⟨⟨by decide, by decide⟩, by decide +kernel, by decide +kernel, by decide +kernel⟩,
    ⟨⟨by decide, by decide⟩, by decide +kernel, by decide +kernel, by decide +kernel⟩,
    ⟨⟨by decide, by decide⟩, by decide +kernel, by decide +kernel, by decide +kernel⟩⟩

/-- a row's preamble, sent twice: the text held stays what it is -/
theorem pac_pair (r : Reader) (row : Nat) (ws : List String) (h1 : 1 ≤ row) (h2 : row ≤ 15) (hq : Quiet r.lastCmd) :
    ∃ r', words r (pacWord row :: pacWord row :: ws) = words r' ws ∧ r'.lastCmd = "" ∧ r'.active = r.active ∧ heldQ r' = heldQ r := by
  obtain ⟨hc, m1, m2, hf⟩ := ctl_of_plain _ (pac_plain row h1 h2)
  have hw := fun f hm => hf f hm
  obtain ⟨c1, c2, c3, c4, c5⟩ := command_interpreted (firstCopy r (pacWord row)) (pacWord row) (some (pacWord row))
    ⟨hw _ (by decide), hw _ (by decide), hw _ (by decide), hw _ (by decide), hw _ (by decide), hw _ (by decide), hw _ (by decide), hw _ (by decide)⟩
    (by have := hw "942c" (by decide); simp [this]) m1 m2 (by have := hw "94a1" (by decide); simp [this])
  obtain ⟨f1, f2, f3, f4, f5, f6⟩ := firstCopy_fields r (pacWord row)
  obtain ⟨r', e, l, a, t, _⟩ := ctl_pair r (pacWord row) ws hc hq (by rw [c4, f4])
  refine ⟨r', e, l, by rw [a, c3, f3], ?_⟩
  rw [t, ← f6]
  unfold heldQ
  rw [c1, c2, c5]

/-- `94ae 94ae`: the buffer being composed is cleared; nothing is lost when it held no text -/
theorem enm_pair (r : Reader) (ws : List String) (hq : Quiet r.lastCmd) (he : itext r.buf.coll = []) :
    ∃ r', words r ("94ae" :: "94ae" :: ws) = words r' ws ∧ r'.lastCmd = "" ∧ r'.active = r.active ∧ heldQ r' = heldQ r ∧
      itext r'.buf.coll = [] := by
  obtain ⟨f1, f2, f3, f4, f5, f6⟩ := firstCopy_fields r "94ae"
  obtain ⟨s1, s2, s3, s4, _, _⟩ := setBuf_fields (firstCopy r "94ae") {}
  obtain ⟨r', e, l, a, t, b⟩ := ctl_pair r "94ae" ws ctl_fixed.1 hq (by rw [command_enm, s4, f4])
  rw [command_enm] at a t b
  refine ⟨r', e, l, by rw [a, s3, f3], ?_, by rw [b, buf_setBuf]; rfl⟩
  rw [t]
  unfold heldQ
  rw [s1, s2, buf_setBuf, f1, f2, he]
  rfl

/-- `9420 9420` in pop-on mode: nothing but the doubling memory changes -/
theorem rcl_pair (r : Reader) (ws : List String) (hq : Quiet r.lastCmd) (ha : r.active = .pop) :
    ∃ r', words r ("9420" :: "9420" :: ws) = words r' ws ∧ r'.lastCmd = "" ∧ r'.active = r.active ∧ heldQ r' = heldQ r ∧
      r'.buf = r.buf := by
  obtain ⟨f1, f2, f3, f4, f5, f6⟩ := firstCopy_fields r "9420"
  have hc := command_rcl (firstCopy r "9420") (some "9420") (by rw [f3, ha])
  obtain ⟨r', e, l, a, t, b⟩ := ctl_pair r "9420" ws ctl_fixed.2.1 hq (by rw [hc, f4])
  rw [hc] at a t b
  exact ⟨r', e, l, by rw [a, f3], by rw [t, f6], by rw [b, f5]⟩

/-- `942c 942c` -/
theorem edm_pair (r : Reader) (ws : List String) (hq : Quiet r.lastCmd) :
    ∃ r', words r ("942c" :: "942c" :: ws) = words r' ws ∧ r'.lastCmd = "" ∧ r'.active = r.active ∧ heldQ r' = heldQ r ∧
      itext r'.buf.coll = itext r.buf.coll := by
  obtain ⟨f1, f2, f3, f4, f5, f6⟩ := firstCopy_fields r "942c"
  obtain ⟨c1, c2, c3, c4⟩ := command_edm (firstCopy r "942c") (some "942c")
  obtain ⟨r', e, l, a, t, b⟩ := ctl_pair r "942c" ws ctl_fixed.2.2.1 hq (by rw [c3, f4])
  exact ⟨r', e, l, by rw [a, c2, f3], by rw [t, c1, f6], by rw [b, c4, f5]⟩

/-- `942f 942f` -/
theorem eoc_pair (r : Reader) (ws : List String) (hq : Quiet r.lastCmd) :
    ∃ r', words r ("942f" :: "942f" :: ws) = words r' ws ∧ r'.lastCmd = "" ∧ r'.active = r.active ∧ heldQ r' = heldQ r ∧
      itext r'.buf.coll = [] := by
  obtain ⟨f1, f2, f3, f4, f5, f6⟩ := firstCopy_fields r "942f"
  obtain ⟨c1, c2, c3, c4⟩ := command_eoc (firstCopy r "942f") (some "942f")
  obtain ⟨r', e, l, a, t, b⟩ := ctl_pair r "942f" ws ctl_fixed.2.2.2 hq (by rw [c3, f4])
  exact ⟨r', e, l, by rw [a, c2, f3], by rw [t, c1, f6], by rw [b]; exact itext_isEmpty _ c4⟩

/-! ### rows and the whole caption -/

/-- the words sent for the rows of a caption, top row first: each row's preamble twice, then its character words -/
def rowsWords : Nat → List (List Char) → List String
  | _, [] => []
  | row, l :: ls => pacWord row :: pacWord row :: (rowWords l ++ rowsWords (row + 1) ls)

/-- the words of one caption as the writer sends them (`_text_to_code` between the fixed control words of `write`);
    rows are bottom aligned -/
def captionWords (lines : List (List Char)) : List String :=
  "94ae" :: "94ae" :: "9420" :: "9420" :: (rowsWords (16 - lines.length) lines ++ ["942c", "942c", "942f", "942f"])

theorem rows_read : ∀ (lines : List (List Char)) (row : Nat), 1 ≤ row → row + lines.length ≤ 16 →
    (∀ l ∈ lines, ∀ c ∈ l, Basic c) → ∀ (rest : List String) (r : Reader), Quiet r.lastCmd →
    ∃ r', words r (rowsWords row lines ++ rest) = words r' rest ∧ Quiet r'.lastCmd ∧ r'.active = r.active ∧
      heldQ r' = heldQ r ++ vis lines.flatten := by
  intro lines
  induction lines with
  | nil => intro row _ _ _ rest r hq; exact ⟨r, rfl, hq, rfl, by simp [vis]⟩
  | cons l ls ih =>
    intro row h1 h2 hb rest r hq
    simp only [List.length_cons] at h2
    simp only [rowsWords, List.cons_append, List.append_assoc]
    obtain ⟨r1, e1, l1, a1, t1⟩ := pac_pair r row (rowWords l ++ (rowsWords (row + 1) ls ++ rest)) h1 (by omega) hq
    obtain ⟨r2, e2, q2, a2, t2⟩ := good_words_read (rowWordsDecoded l) (rowWordsDecoded_good l (hb l (by simp)))
      (rowsWords (row + 1) ls ++ rest) r1 (Or.inl l1)
    rw [rowWordsDecoded_fst] at e2
    rw [rowWordsDecoded_text] at t2
    obtain ⟨r3, e3, q3, a3, t3⟩ := ih (row + 1) (by omega) (by omega) (fun m hm => hb m (by simp [hm])) rest r2 q2
    refine ⟨r3, by rw [e1, e2, e3], q3, by rw [a3, a2, a1], ?_⟩
    rw [t3, t2, t1]
    simp only [List.flatten_cons, vis_append, List.append_assoc]

/-- **a whole written caption, read back.** from a pop-on reader between captions (nothing remembered from the word before or
    a character word, pop-on mode, no text in the buffer being composed): after the words of the caption — and whatever
    words follow — the reader holds every character it held before, then the caption's characters line by line, in order;
    it is between captions again -/
theorem caption_read (lines : List (List Char)) (hn : lines.length ≤ 15) (hb : ∀ l ∈ lines, ∀ c ∈ l, Basic c)
    (rest : List String) (r : Reader) (hq : Quiet r.lastCmd) (ha : r.active = .pop) (he : itext r.buf.coll = []) :
    ∃ r', words r (captionWords lines ++ rest) = words r' rest ∧ r'.lastCmd = "" ∧ r'.active = .pop ∧
      itext r'.buf.coll = [] ∧ heldQ r' = heldQ r ++ vis lines.flatten := by
  unfold captionWords
  simp only [List.cons_append, List.append_assoc, List.nil_append]
  obtain ⟨r1, e1, l1, a1, t1, _⟩ := enm_pair r _ hq he
  obtain ⟨r2, e2, l2, a2, t2, _⟩ := rcl_pair r1 _ (Or.inl l1) (by rw [a1, ha])
  obtain ⟨r3, e3, q3, a3, t3⟩ := rows_read lines (16 - lines.length) (by omega) (by omega) hb
    ("942c" :: "942c" :: "942f" :: "942f" :: rest) r2 (Or.inl l2)
  obtain ⟨r4, e4, l4, a4, t4, _⟩ := edm_pair r3 ("942f" :: "942f" :: rest) q3
  obtain ⟨r5, e5, l5, a5, t5, b5⟩ := eoc_pair r4 rest (Or.inl l4)
  refine ⟨r5, ?_, l5, by rw [a5, a4, a3, a2, a1, ha], b5, by rw [t5, t4, t3, t2, t1]⟩
  rw [e1, e2, e3, e4, e5]

end PcVerif.SccW
