/-
  The SAMI stylesheet declares every language (C14).
-/
import PcVerif.Model.SamiStyle
import PcVerif.Lemmas.DetectLemmas
namespace PcVerif.SamiW
open Str

theorem lang_test_pinned : Generated.samiLangTestPre = some "lang: " ∧ Generated.samiLangTestPost = some ";" := by decide

theorem isPrefix_self_append : ∀ (m post : Str), isPrefix m (m ++ post) = true := by
  intro m; induction m with
  | nil => intro p; exact isPrefix_nil _
  | cons d m ih => intro p; simp [isPrefix_cons_cons, ih p]

theorem contains_self_append (m : Str) (post : Str) : contains m (m ++ post) = true := by
  cases m with
  | nil => cases post <;> simp [contains, isPrefix_nil]
  | cons c m =>
    have := isPrefix_self_append (c :: m) post
    rw [List.cons_append] at this
    simp [contains, this]

theorem declLine_lang (l : Str) : declLine "lang".toList l = ' ' :: (langRule l ++ "\n    ".toList) := by
  have h1 : "lang".toList ++ ": ".toList = optStr Generated.samiLangTestPre := by decide
  have h2 : ";\n    ".toList = optStr Generated.samiLangTestPost ++ "\n    ".toList := by decide
  unfold declLine langRule
  rw [h2, ← h1]
  simp only [List.append_assoc, List.cons_append]

/-- the block written for a language contains the text that is searched for -/
theorem block_has_rule (extra : Str → Str) (l : Str) : contains (langRule l) (langBlock extra l) = true := by
  unfold langBlock
  rw [declLine_lang]
  have e : "\n    .".toList ++ l ++ " {\n    ".toList ++ ' ' :: (langRule l ++ "\n    ".toList) ++ extra l ++ "}\n".toList
      = ("\n    .".toList ++ l ++ " {\n    ".toList ++ [' ']) ++ (langRule l ++ ("\n    ".toList ++ extra l ++ "}\n".toList)) := by
    simp only [List.append_assoc, List.cons_append, List.nil_append]
  rw [e]
  exact contains_of_isPrefix_tail _ _ _ (contains_self_append _ _)

theorem block_has_head (extra : Str → Str) (l : Str) : contains (blockHead l) (langBlock extra l) = true := by
  unfold langBlock blockHead
  have e : "\n    .".toList ++ l ++ " {\n    ".toList ++ declLine "lang".toList l ++ extra l ++ "}\n".toList
      = "\n    ".toList ++ (('.' :: l ++ " {".toList) ++ ("\n    ".toList ++ declLine "lang".toList l ++ extra l ++ "}\n".toList)) := by
    have h1 : "\n    .".toList = "\n    ".toList ++ ['.'] := by decide
    have h2 : " {\n    ".toList = " {".toList ++ "\n    ".toList := by decide
    rw [h1, h2]; simp only [List.append_assoc, List.cons_append, List.nil_append]
  rw [e]
  exact contains_of_isPrefix_tail _ _ _ (contains_self_append _ _)

theorem declareLangs_keeps (test extra labels) (m : Str) : ∀ (ls : List Str) (sheet : Str), contains m sheet = true →
    contains m (declareLangs test extra labels sheet ls) = true := by
  intro ls
  induction ls with
  | nil => intro s h; exact h
  | cons l ls ih =>
    intro s h
    unfold declareLangs
    split
    · exact ih s h
    · exact ih _ (contains_append_right m s _ h)

theorem declares_all (extra : Str → Str) (labels : Str → Bool) : ∀ (ls : List Str) (sheet : Str), ∀ l ∈ ls,
    contains (langRule l) (declareLangs langRule extra labels sheet ls) = true := by
  intro ls
  induction ls with
  | nil => intro _ l hl; simp at hl
  | cons x ls ih =>
    intro sheet l hl
    unfold declareLangs
    rcases List.mem_cons.mp hl with rfl | hl
    · split
      · rename_i hc
        have hc' : contains (langRule l) sheet = true := by
          simp only [Bool.and_eq_true] at hc; exact hc.1
        exact declareLangs_keeps _ _ _ _ ls sheet hc'
      · exact declareLangs_keeps _ _ _ _ ls _ (contains_of_isPrefix_tail _ _ _ (block_has_rule extra l))
    · exact ih _ l hl

/-- a language that labels paragraphs with its own code gets a class of that name -/
theorem labelled_has_class (extra : Str → Str) (labels : Str → Bool) : ∀ (ls : List Str) (sheet : Str), ∀ l ∈ ls, labels l = true →
    contains (blockHead l) (declareLangs langRule extra labels sheet ls) = true := by
  intro ls
  induction ls with
  | nil => intro _ l hl; simp at hl
  | cons x ls ih =>
    intro sheet l hl hlab
    unfold declareLangs
    rcases List.mem_cons.mp hl with rfl | hl
    · split
      · rename_i hc
        simp only [Bool.and_eq_true, Bool.not_eq_true', Bool.and_eq_false_iff, Bool.not_eq_false'] at hc
        rcases hc.2 with h | h
        · rw [hlab] at h; exact absurd h (by decide)
        · exact declareLangs_keeps _ _ _ _ ls sheet h
      · exact declareLangs_keeps _ _ _ _ ls _ (contains_of_isPrefix_tail _ _ _ (block_has_head extra l))
    · exact ih _ l hl hlab

end PcVerif.SamiW
