/-
  WebVTT writer, `_group_cues_by_layout` (C11): every cue the writer produces carries balanced, properly nested
  style tags, whatever layouts split the caption into cues.  The cue text is followed on the level of tokens
  (text / opening tag / closing tag); `render` gives back exactly the strings of `TextW.vttGroups`.
-/
import PcVerif.Model.TextWriters
namespace PcVerif.TextW
open Str

inductive Tok
  | txt (s : Str)
  | op (p : Str × Str)
  | cl (p : Str × Str)
  deriving DecidableEq, Repr

def Tok.render : Tok → Str
  | .txt s => s
  | .op p => p.1
  | .cl p => p.2

def render (ts : List Tok) : Str := ts.flatMap Tok.render

structure TState where
  groups : List (List Tok × Nat) := []
  s : List Tok := []
  cur : Nat := 0
  prevIsText : Bool := false
  first : Bool := true
  openTags : List (Str × Str) := []

def vttStepT (st : TState) : LNode → TState
  | .text t lay =>
    let (groups, s) := if !st.s.isEmpty && st.cur ≠ 0 && lay ≠ st.cur then
        (st.groups ++ [(st.s ++ st.openTags.reverse.map Tok.cl, st.cur)], st.openTags.map Tok.op) else (st.groups, st.s)
    let enc := vttEncode t
    { st with groups := groups, s := s ++ [Tok.txt (if enc.isEmpty then "&nbsp;".toList else enc)], cur := lay, prevIsText := true, first := false }
  | .style start f =>
    let pairs := vttTagPairs start f
    { st with s := st.s ++ (if start then pairs.map Tok.op else pairs.map Tok.cl), prevIsText := false, first := false,
              openTags := if start then st.openTags ++ pairs else pairs.foldl (fun acc t => removeLast t acc) st.openTags }
  | .brk =>
    let s := if !st.first && !st.prevIsText then st.s ++ [Tok.txt "&nbsp;".toList] else st.s
    let s := if st.first then s ++ [Tok.txt "&nbsp;".toList] else s
    { st with s := s ++ [Tok.txt ['\n']], prevIsText := false, first := false }

def vttGroupsT (nodes : List LNode) : List (List Tok × Nat) :=
  let st := nodes.foldl vttStepT {}
  if st.s.isEmpty then st.groups else st.groups ++ [(st.s, st.cur)]

/-! ### the token machine renders to the writer's strings -/

def TState.toG (st : TState) : GState :=
  { groups := st.groups.map (fun g => (render g.1, g.2)), s := render st.s, cur := st.cur, prevIsText := st.prevIsText,
    first := st.first, openTags := st.openTags }

theorem render_append (a b : List Tok) : render (a ++ b) = render a ++ render b := by simp [render]

theorem render_ops (l : List (Str × Str)) : render (l.map Tok.op) = l.flatMap (·.1) := by
  induction l with
  | nil => rfl
  | cons p l ih => simp [render, Tok.render] at ih ⊢; exact ih

theorem render_cls (l : List (Str × Str)) : render (l.map Tok.cl) = l.flatMap (·.2) := by
  induction l with
  | nil => rfl
  | cons p l ih => simp [render, Tok.render] at ih ⊢; exact ih

theorem vttTags_pairs (start : Bool) (f : Flags) :
    vttTags start f = if start then (vttTagPairs start f).flatMap (·.1) else (vttTagPairs start f).flatMap (·.2) := by
  obtain ⟨i, b, u⟩ := f
  cases start <;> cases i <;> cases b <;> cases u <;> decide

/-- tokens without text are rendered empty only if there are none … what matters: a token list is empty iff … -/
def NonEmptyToks (ts : List Tok) : Prop := ∀ t ∈ ts, t.render ≠ []

theorem render_isEmpty (ts : List Tok) (h : NonEmptyToks ts) : (render ts).isEmpty = ts.isEmpty := by
  cases ts with
  | nil => rfl
  | cons t ts =>
    have := h t (by simp)
    simp only [render, List.flatMap_cons, List.isEmpty_cons]
    cases ht : t.render with
    | nil => exact absurd ht this
    | cons _ _ => rfl

theorem pairs_nonempty (start : Bool) (f : Flags) : ∀ p ∈ vttTagPairs start f, p.1 ≠ [] ∧ p.2 ≠ [] := by
  obtain ⟨i, b, u⟩ := f
  cases start <;> cases i <;> cases b <;> cases u <;> decide

/-- invariant needed for the simulation: all tokens render to non-empty strings and the open tags are real tags -/
structure TState.OK (st : TState) : Prop where
  toks : NonEmptyToks st.s
  tags : ∀ p ∈ st.openTags, p.1 ≠ [] ∧ p.2 ≠ []

theorem removeLast_subset (t : Str × Str) (l : List (Str × Str)) : ∀ p ∈ removeLast t l, p ∈ l := by
  intro p hp
  unfold removeLast at hp
  have := List.mem_of_mem_erase (List.mem_reverse.mp hp)
  exact List.mem_reverse.mp this

theorem foldl_removeLast_subset (ps l : List (Str × Str)) : ∀ p ∈ ps.foldl (fun acc t => removeLast t acc) l, p ∈ l := by
  induction ps generalizing l with
  | nil => intro p hp; exact hp
  | cons t ps ih => intro p hp; exact removeLast_subset t l p (ih _ p hp)

theorem step_ok (st : TState) (h : st.OK) (n : LNode) : (vttStepT st n).OK := by
  cases n with
  | text t lay =>
    have hne : (if (vttEncode t).isEmpty then "&nbsp;".toList else vttEncode t) ≠ [] := by
      split
      · decide
      · rename_i he; intro e; simp [e] at he
    refine ⟨?_, h.tags⟩
    simp only [vttStepT]
    split
    · intro x hx
      rcases List.mem_append.mp hx with hx | hx
      · obtain ⟨p, hp, rfl⟩ := List.mem_map.mp hx
        exact (h.tags p hp).1
      · simp only [List.mem_singleton] at hx; subst hx; exact hne
    · intro x hx
      rcases List.mem_append.mp hx with hx | hx
      · exact h.toks x hx
      · simp only [List.mem_singleton] at hx; subst hx; exact hne
  | style start f =>
    refine ⟨?_, ?_⟩
    · simp only [vttStepT]
      intro x hx
      rcases List.mem_append.mp hx with hx | hx
      · exact h.toks x hx
      · cases start
        · simp only [Bool.false_eq_true, if_false] at hx
          obtain ⟨p, hp, rfl⟩ := List.mem_map.mp hx
          exact (pairs_nonempty false f p hp).2
        · simp only [if_true] at hx
          obtain ⟨p, hp, rfl⟩ := List.mem_map.mp hx
          exact (pairs_nonempty true f p hp).1
    · simp only [vttStepT]
      cases start
      · simp only [Bool.false_eq_true, if_false]
        intro p hp
        exact h.tags p (foldl_removeLast_subset _ _ p hp)
      · simp only [if_true]
        intro p hp
        rcases List.mem_append.mp hp with hp | hp
        · exact h.tags p hp
        · exact pairs_nonempty true f p hp
  | brk =>
    refine ⟨?_, h.tags⟩
    simp only [vttStepT]
    intro x hx
    have k1 : (Tok.txt "&nbsp;".toList).render ≠ [] := by decide
    have k2 : (Tok.txt ['\n']).render ≠ [] := by decide
    simp only [List.mem_append, List.mem_singleton] at hx
    rcases hx with hx | rfl
    · split at hx
      · rcases List.mem_append.mp hx with hx | hx
        · split at hx
          · rcases List.mem_append.mp hx with hx | hx
            · exact h.toks x hx
            · simp only [List.mem_singleton] at hx; subst hx; exact k1
          · exact h.toks x hx
        · simp only [List.mem_singleton] at hx; subst hx; exact k1
      · split at hx
        · rcases List.mem_append.mp hx with hx | hx
          · exact h.toks x hx
          · simp only [List.mem_singleton] at hx; subst hx; exact k1
        · exact h.toks x hx
    · exact k2

def encOrNbsp (t : Str) : Str := if (vttEncode t).isEmpty then "&nbsp;".toList else vttEncode t

theorem vttStep_text_split (g : GState) (t : Str) (lay : Nat)
    (hc : (!g.s.isEmpty && decide (g.cur ≠ 0) && decide (lay ≠ g.cur)) = true) :
    vttStep g (.text t lay) = GState.mk (g.groups ++ [(g.s ++ (g.openTags.reverse.flatMap fun x => x.2), g.cur)])
      ((g.openTags.flatMap fun x => x.1) ++ encOrNbsp t) lay true false g.openTags := by
  unfold vttStep encOrNbsp
  simp only [hc, if_true]

theorem vttStep_text_keep (g : GState) (t : Str) (lay : Nat)
    (hc : ¬ (!g.s.isEmpty && decide (g.cur ≠ 0) && decide (lay ≠ g.cur)) = true) :
    vttStep g (.text t lay) = GState.mk g.groups (g.s ++ encOrNbsp t) lay true false g.openTags := by
  have hc' : (!g.s.isEmpty && decide (g.cur ≠ 0) && decide (lay ≠ g.cur)) = false := by simpa using hc
  unfold vttStep encOrNbsp
  simp only [hc', Bool.false_eq_true, if_false]

theorem vttStepT_text_split (g : TState) (t : Str) (lay : Nat)
    (hc : (!g.s.isEmpty && decide (g.cur ≠ 0) && decide (lay ≠ g.cur)) = true) :
    vttStepT g (.text t lay) = TState.mk (g.groups ++ [(g.s ++ g.openTags.reverse.map Tok.cl, g.cur)])
      (g.openTags.map Tok.op ++ [Tok.txt (encOrNbsp t)]) lay true false g.openTags := by
  unfold vttStepT encOrNbsp
  simp only [hc, if_true]

theorem vttStepT_text_keep (g : TState) (t : Str) (lay : Nat)
    (hc : ¬ (!g.s.isEmpty && decide (g.cur ≠ 0) && decide (lay ≠ g.cur)) = true) :
    vttStepT g (.text t lay) = TState.mk g.groups (g.s ++ [Tok.txt (encOrNbsp t)]) lay true false g.openTags := by
  have hc' : (!g.s.isEmpty && decide (g.cur ≠ 0) && decide (lay ≠ g.cur)) = false := by simpa using hc
  unfold vttStepT encOrNbsp
  simp only [hc', Bool.false_eq_true, if_false]

/-- one step of the token machine renders to one step of the writer model -/
theorem step_sim (st : TState) (h : st.OK) (n : LNode) : (vttStepT st n).toG = vttStep st.toG n := by
  have hemp := render_isEmpty st.s h.toks
  cases n with
  | text t lay =>
    by_cases hc : (!st.s.isEmpty && decide (st.cur ≠ 0) && decide (lay ≠ st.cur)) = true
    · have hc2 : (!st.toG.s.isEmpty && decide (st.toG.cur ≠ 0) && decide (lay ≠ st.toG.cur)) = true := by
        show (!(render st.s).isEmpty && decide (st.cur ≠ 0) && decide (lay ≠ st.cur)) = true
        rw [hemp]; exact hc
      rw [vttStepT_text_split st t lay hc, vttStep_text_split st.toG t lay hc2]
      have e1 := render_cls st.openTags.reverse
      have e2 := render_ops st.openTags
      simp only [TState.toG, render_append, e1, e2, List.map_append, List.map_cons, List.map_nil]
      first | done | simp [render, Tok.render]
    · have hc2 : ¬ (!st.toG.s.isEmpty && decide (st.toG.cur ≠ 0) && decide (lay ≠ st.toG.cur)) = true := by
        show ¬ (!(render st.s).isEmpty && decide (st.cur ≠ 0) && decide (lay ≠ st.cur)) = true
        rw [hemp]; exact hc
      rw [vttStepT_text_keep st t lay hc, vttStep_text_keep st.toG t lay hc2]
      simp [TState.toG, render_append, render, Tok.render]
  | style start f =>
    simp only [vttStepT, vttStep, TState.toG, render_append, vttTags_pairs]
    cases start <;> simp [render_ops, render_cls]
  | brk =>
    obtain ⟨groups, s, cur, prev, first, openT⟩ := st
    simp only [vttStepT, vttStep, TState.toG]
    cases first <;> cases prev <;> simp [render_append, render, Tok.render]

theorem foldl_sim (nodes : List LNode) : ∀ (st : TState), st.OK →
    (nodes.foldl vttStepT st).toG = nodes.foldl vttStep st.toG ∧ (nodes.foldl vttStepT st).OK := by
  induction nodes with
  | nil => intro st h; exact ⟨rfl, h⟩
  | cons n ns ih =>
    intro st h
    simp only [List.foldl_cons]
    have := ih (vttStepT st n) (step_ok st h n)
    rw [step_sim st h n] at this
    exact this

/-- **the token machine is the writer model**: rendering its groups gives `vttGroups` -/
theorem groups_render (nodes : List LNode) :
    vttGroups nodes = (vttGroupsT nodes).map (fun g => (render g.1, g.2)) := by
  have h0 : ({} : TState).OK := ⟨by intro t ht; simp at ht, by intro p hp; simp at hp⟩
  obtain ⟨hs, hok⟩ := foldl_sim nodes {} h0
  have e0 : ({} : TState).toG = {} := rfl
  rw [e0] at hs
  unfold vttGroups vttGroupsT
  simp only
  rw [← hs]
  simp only [TState.toG, render_isEmpty _ hok.toks]
  split <;> simp

/-! ### balance -/

/-- stack machine over a cue's tokens: an opening tag is pushed, a closing tag has to close the innermost open tag -/
def runToks : List (Str × Str) → List Tok → Option (List (Str × Str))
  | stk, [] => some stk
  | stk, .txt _ :: ts => runToks stk ts
  | stk, .op p :: ts => runToks (stk ++ [p]) ts
  | stk, .cl p :: ts => if stk.getLast? = some p then runToks stk.dropLast ts else none

/-- balanced and properly nested: every closing tag closes the innermost open tag and nothing stays open -/
def Balanced (ts : List Tok) : Prop := runToks [] ts = some []

theorem runToks_append : ∀ (a b : List Tok) (stk : List (Str × Str)),
    runToks stk (a ++ b) = (runToks stk a).bind (fun s => runToks s b) := by
  intro a
  induction a with
  | nil => intro b stk; rfl
  | cons t a ih =>
    intro b stk
    cases t with
    | txt s => simp only [List.cons_append, runToks]; exact ih b stk
    | op p => simp only [List.cons_append, runToks]; exact ih b _
    | cl p =>
      simp only [List.cons_append, runToks]
      split
      · exact ih b _
      · rfl

theorem run_ops : ∀ (l stk : List (Str × Str)), runToks stk (l.map Tok.op) = some (stk ++ l) := by
  intro l
  induction l with
  | nil => intro stk; simp [runToks]
  | cons p l ih => intro stk; simp only [List.map_cons, runToks]; rw [ih]; simp

theorem run_cls_rev : ∀ (l stk : List (Str × Str)), runToks (stk ++ l) (l.reverse.map Tok.cl) = some stk := by
  intro l
  induction l with
  | nil => intro stk; simp [runToks]
  | cons p l ih =>
    intro stk
    have e : stk ++ p :: l = (stk ++ [p]) ++ l := by simp
    rw [List.reverse_cons, List.map_append, runToks_append, e, ih (stk ++ [p])]
    simp [runToks]

theorem removeLast_concat (t : Str × Str) (l : List (Str × Str)) : removeLast t (l ++ [t]) = l := by
  unfold removeLast
  simp

theorem foldl_removeLast_suffix : ∀ (ps pre : List (Str × Str)),
    ps.reverse.foldl (fun acc t => removeLast t acc) (pre ++ ps) = pre := by
  intro ps
  induction ps with
  | nil => intro pre; simp
  | cons p ps ih =>
    intro pre
    have e : pre ++ p :: ps = (pre ++ [p]) ++ ps := by simp
    rw [List.reverse_cons, List.foldl_append, e, ih (pre ++ [p])]
    simp [removeLast_concat]

theorem pairs_false (f : Flags) : vttTagPairs false f = (vttTagPairs true f).reverse := by
  unfold vttTagPairs; simp

/-- the style nodes of a caption are properly nested: every closing node closes the innermost open span -/
def runNodes : List (Str × Str) → List LNode → Option (List (Str × Str))
  | stk, [] => some stk
  | stk, .style true f :: ns => runNodes (stk ++ vttTagPairs true f) ns
  | stk, .style false f :: ns =>
    let ps := vttTagPairs true f
    let pre := stk.take (stk.length - ps.length)
    if stk = pre ++ ps then runNodes pre ns else none
  | stk, _ :: ns => runNodes stk ns

structure TState.Inv (st : TState) : Prop where
  cur : runToks [] st.s = some st.openTags
  done : ∀ g ∈ st.groups, Balanced g.1

theorem txt_keeps (stk : List (Str × Str)) (ts : List Tok) (r : List (Str × Str)) (x : Str)
    (h : runToks stk ts = some r) : runToks stk (ts ++ [Tok.txt x]) = some r := by
  rw [runToks_append, h]; rfl

theorem step_inv (st : TState) (h : st.Inv) (n : LNode) (stk' : List (Str × Str))
    (hn : runNodes st.openTags [n] = some stk') : (vttStepT st n).Inv ∧ (vttStepT st n).openTags = stk' := by
  cases n with
  | text t lay =>
    have hs : stk' = st.openTags := by simpa [runNodes] using hn.symm
    by_cases hc : (!st.s.isEmpty && decide (st.cur ≠ 0) && decide (lay ≠ st.cur)) = true
    · rw [vttStepT_text_split st t lay hc]
      refine ⟨⟨?_, ?_⟩, hs.symm⟩
      · show runToks [] (st.openTags.map Tok.op ++ [Tok.txt (encOrNbsp t)]) = some st.openTags
        exact txt_keeps _ _ _ _ (by simpa using run_ops st.openTags [])
      · intro g hg
        rcases List.mem_append.mp hg with hg | hg
        · exact h.done g hg
        · simp only [List.mem_singleton] at hg; subst hg
          show runToks [] (st.s ++ st.openTags.reverse.map Tok.cl) = some []
          rw [runToks_append, h.cur]
          simpa using run_cls_rev st.openTags []
    · rw [vttStepT_text_keep st t lay hc]
      exact ⟨⟨txt_keeps _ _ _ _ h.cur, h.done⟩, hs.symm⟩
  | brk =>
    have hs : stk' = st.openTags := by simpa [runNodes] using hn.symm
    refine ⟨⟨?_, h.done⟩, hs.symm⟩
    simp only [vttStepT]
    apply txt_keeps
    split
    · apply txt_keeps
      split
      · exact txt_keeps _ _ _ _ h.cur
      · exact h.cur
    · split
      · exact txt_keeps _ _ _ _ h.cur
      · exact h.cur
  | style start f =>
    cases start with
    | true =>
      have hs : stk' = st.openTags ++ vttTagPairs true f := by simpa [runNodes] using hn.symm
      refine ⟨⟨?_, h.done⟩, by simp [vttStepT, hs]⟩
      simp only [vttStepT, if_true]
      rw [runToks_append, h.cur]
      exact run_ops _ _
    | false =>
      simp only [runNodes] at hn
      split at hn
      · rename_i heq
        have hs : stk' = st.openTags.take (st.openTags.length - (vttTagPairs true f).length) := by simpa [runNodes] using hn.symm
        generalize st.openTags.take (st.openTags.length - (vttTagPairs true f).length) = pre at heq hs
        subst hs
        refine ⟨⟨?_, h.done⟩, ?_⟩
        · simp only [vttStepT, Bool.false_eq_true, if_false, pairs_false]
          rw [runToks_append, h.cur, heq, foldl_removeLast_suffix]
          exact run_cls_rev _ _
        · simp only [vttStepT, Bool.false_eq_true, if_false, pairs_false]
          rw [heq, foldl_removeLast_suffix]
      · simp at hn

theorem runNodes_cons (n : LNode) (ns : List LNode) (stk r : List (Str × Str)) (h : runNodes stk (n :: ns) = some r) :
    ∃ mid, runNodes stk [n] = some mid ∧ runNodes mid ns = some r := by
  cases n with
  | text t lay => exact ⟨stk, by simp [runNodes], by simpa [runNodes] using h⟩
  | brk => exact ⟨stk, by simp [runNodes], by simpa [runNodes] using h⟩
  | style start f =>
    cases start with
    | true => exact ⟨stk ++ vttTagPairs true f, by simp [runNodes], by simpa [runNodes] using h⟩
    | false =>
      simp only [runNodes] at h ⊢
      split at h
      · rename_i heq
        exact ⟨_, by rw [if_pos heq], h⟩
      · simp at h

theorem foldl_inv (nodes : List LNode) : ∀ (st : TState) (r : List (Str × Str)), st.Inv →
    runNodes st.openTags nodes = some r → (nodes.foldl vttStepT st).Inv ∧ (nodes.foldl vttStepT st).openTags = r := by
  induction nodes with
  | nil => intro st r h hr; exact ⟨h, by simpa [runNodes] using hr⟩
  | cons n ns ih =>
    intro st r h hr
    obtain ⟨mid, h1, h2⟩ := runNodes_cons n ns _ _ hr
    obtain ⟨hi, ho⟩ := step_inv st h n mid h1
    simp only [List.foldl_cons]
    exact ih _ r hi (by rw [ho]; exact h2)

/-- **every cue is balanced.** for a caption whose style nodes are properly nested, whatever the layouts of its text
    nodes (that is, however the caption is split into cues), the style tags of every cue are balanced and properly nested -/
theorem groupsT_balanced (nodes : List LNode) (h : runNodes [] nodes = some []) :
    ∀ g ∈ vttGroupsT nodes, Balanced g.1 := by
  have h0 : ({} : TState).Inv := ⟨rfl, by intro g hg; simp at hg⟩
  obtain ⟨hi, ho⟩ := foldl_inv nodes {} [] h0 h
  intro g hg
  unfold vttGroupsT at hg
  simp only at hg
  split at hg
  · exact hi.done g hg
  · rcases List.mem_append.mp hg with hg | hg
    · exact hi.done g hg
    · simp only [List.mem_singleton] at hg; subst hg
      show runToks [] _ = some []
      rw [hi.cur, ho]

end PcVerif.TextW
