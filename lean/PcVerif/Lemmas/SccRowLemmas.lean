/-
  C17, "re-reads to the same words", for one row of text: the words `SCCWriter._text_to_code` emits for a laid-out line of
  basic characters are words of two basic characters for the reader (never a command, preamble, special or extended
  code), and reading them — from any reader state — adds exactly the line's characters to the text the reader holds.
-/
import PcVerif.Lemmas.RollupLemmas
import PcVerif.Props.C16
import PcVerif.Model.Scc.Writer
namespace PcVerif.SccW
open Str Scc

/-! ### table facts (kernel evaluation, linear in the tables) -/

def firstTwo (s : String) : List Char := s.toList.take 2
def basicCodes : List (List Char) := Generated.Scc.charToCode.map (·.2.toList)

theorem tables_avoid_basic :
    Generated.Scc.commands.all (fun e => !basicCodes.contains (firstTwo e)) = true ∧
    Generated.Scc.pacMap.all (fun e => !basicCodes.contains (firstTwo e.1)) = true ∧
    Generated.Scc.specialChars.all (fun e => !basicCodes.contains (firstTwo e.1)) = true ∧
    Generated.Scc.extendedChars.all (fun e => !basicCodes.contains (firstTwo e.1)) = true ∧
    Generated.Scc.tabOffsets.all (fun e => !basicCodes.contains (firstTwo e.1)) = true ∧
    Generated.Scc.cueStarting.all (fun e => !basicCodes.contains (firstTwo e)) = true ∧
    basicCodes.contains (firstTwo "94a1") = false := by
  refine ⟨?_, ?_, ?_, ?_, ?_, ?_, ?_⟩ <;> decide +kernel

theorem basic_codes_shape :
    Generated.Scc.charToCode.all (fun e => e.2.toList.length == 2 && e.2.toList.all (fun c => !isSpace c) &&
      (character e.2 == some e.1)) = true := by decide +kernel

theorem filler_reads_empty : character "80" = some "" ∧ "80".toList.length = 2 ∧ ("80".toList.all fun c => !isSpace c) = true := by
  refine ⟨?_, ?_, ?_⟩ <;> decide +kernel

/-! ### a word that begins with a basic code -/

theorem firstTwo_append (a t : String) (h : a.toList.length = 2) : firstTwo (a ++ t) = a.toList := by
  unfold firstTwo
  rw [String.toList_append, List.take_append_of_le_length (by omega), List.take_of_length_le (by omega)]

theorem not_contains_of_firstTwo (tbl : List String) (w : String)
    (h : tbl.all (fun e => !basicCodes.contains (firstTwo e)) = true) (hw : firstTwo w ∈ basicCodes) : tbl.contains w = false := by
  cases hc : tbl.contains w with
  | false => rfl
  | true =>
    have hm : w ∈ tbl := by simpa using hc
    have := List.all_eq_true.mp h w hm
    have hcn : basicCodes.contains (firstTwo w) = true := by simpa using hw
    rw [hcn] at this; exact absurd this (by decide)

theorem lookup_none_of_firstTwo {β : Type} (tbl : List (String × β)) (w : String)
    (h : tbl.all (fun e => !basicCodes.contains (firstTwo e.1)) = true) (hw : firstTwo w ∈ basicCodes) : lookup tbl w = none := by
  unfold lookup
  cases hf : tbl.find? (fun e => e.1 == w) with
  | none => rfl
  | some e =>
    have hm := List.mem_of_find?_eq_some hf
    have he : e.1 = w := by simpa using List.find?_some hf
    have := List.all_eq_true.mp h e hm
    rw [he] at this
    have hcn : basicCodes.contains (firstTwo w) = true := by simpa using hw
    rw [hcn] at this; exact absurd this (by decide)

/-- a code of the writer's basic table followed by any second byte that the reader decodes: a word of two basic
    characters in the sense of the reader -/
theorem basic_then (e : String × String) (he : e ∈ Generated.Scc.charToCode) (t b : String)
    (ht : t.toList.length = 2) (hb : character t = some b) : BasicWord (e.2 ++ t) e.1 b := by
  have hs := List.all_eq_true.mp basic_codes_shape e he
  simp only [Bool.and_eq_true, beq_iff_eq] at hs
  obtain ⟨⟨hl, _⟩, hc⟩ := hs
  have hl2 : e.2.toList.length = 2 := hl
  have hw : firstTwo (e.2 ++ t) ∈ basicCodes := by
    rw [firstTwo_append _ _ hl2]
    exact List.mem_map.mpr ⟨e, he, rfl⟩
  obtain ⟨t1, t2, t3, t4, t5, t6, t7⟩ := tables_avoid_basic
  refine ⟨?_, ?_, ?_, ?_, ?_, ?_, ?_, ?_, ?_⟩
  · exact not_contains_of_firstTwo _ _ t1 hw
  · unfold isPac pacPos; rw [lookup_none_of_firstTwo _ _ t2 hw]; rfl
  · exact lookup_none_of_firstTwo _ _ t3 hw
  · exact lookup_none_of_firstTwo _ _ t4 hw
  · exact lookup_none_of_firstTwo _ _ t5 hw
  · exact not_contains_of_firstTwo _ _ t6 hw
  · cases hq : (e.2 ++ t == "94a1") with
    | false => rfl
    | true =>
      have : e.2 ++ t = "94a1" := by simpa using hq
      rw [this] at hw
      have : basicCodes.contains (firstTwo "94a1") = true := by simpa using hw
      rw [t7] at this; exact absurd this (by decide)
  · have : hiByte (e.2 ++ t) = e.2 := by
      unfold hiByte
      rw [String.toList_append, List.take_append_of_le_length (by omega), List.take_of_length_le (by omega)]
      simp
    rw [this]; exact hc
  · have : loByte (e.2 ++ t) = t := by
      unfold loByte
      rw [String.toList_append, List.drop_append_of_le_length (by omega), List.drop_of_length_le (by omega)]
      simp
    rw [this]; exact hb

/-! ### the words the writer emits for one laid-out line -/

/-- characters of the writer's basic table -/
def Basic (c : Char) : Prop := ∃ e ∈ Generated.Scc.charToCode, e.1 = String.singleton c

theorem charCode_basic (c : Char) (h : Basic c) :
    ∃ e ∈ Generated.Scc.charToCode, e.1 = String.singleton c ∧ charCode c = e.2.toList := by
  obtain ⟨e0, he0, hk⟩ := h
  unfold charCode lookup
  cases hf : Generated.Scc.charToCode.find? (fun e => e.1 == String.singleton c) with
  | none =>
    have := List.find?_eq_none.mp hf e0 he0
    simp [hk] at this
  | some e =>
    have hm := List.mem_of_find?_eq_some hf
    have he : e.1 = String.singleton c := by simpa using List.find?_some hf
    exact ⟨e, hm, he, rfl⟩

theorem code_len (e : String × String) (he : e ∈ Generated.Scc.charToCode) :
    e.2.toList.length = 2 ∧ (∀ c ∈ e.2.toList, isSpace c = false) ∧ character e.2 = some e.1 := by
  have hs := List.all_eq_true.mp basic_codes_shape e he
  simp only [Bool.and_eq_true, beq_iff_eq, List.all_eq_true, Bool.not_eq_true'] at hs
  exact ⟨hs.1.1, hs.1.2, hs.2⟩

/-- the four-digit words written for a line: two characters per word, a last single character completed by `80` -/
def rowWords : List Char → List String
  | [] => []
  | [a] => [String.ofList (charCode a ++ "80".toList)]
  | a :: b :: rest => String.ofList (charCode a ++ charCode b) :: rowWords rest

/-- **what the writer emits for a line** (after the row's preambles): exactly these words, each followed by a blank -/
theorem line_words : ∀ (line : List Char), (∀ c ∈ line, Basic c) → ∀ (code0 : Str), code0.length % 5 = 0 →
    maybeAlign (line.foldl printChar code0) = code0 ++ (rowWords line).flatMap (fun w => w.toList ++ [' '])
  | [], _, code0, h0 => by
    simp only [List.foldl_nil, rowWords, List.flatMap_nil, List.append_nil]
    unfold maybeAlign
    rw [if_neg (by omega)]
  | [a], hb, code0, h0 => by
    obtain ⟨e, he, _, hc⟩ := charCode_basic a (hb a (by simp))
    have hl := (code_len e he).1
    simp only [List.foldl_cons, List.foldl_nil, rowWords, List.flatMap_cons, List.flatMap_nil, List.append_nil, String.toList_ofList]
    unfold printChar
    simp only [hc, hl, if_true]
    have h1 : (code0 ++ e.2.toList).length % 5 = 2 := by simp [hl]; omega
    unfold maybeSpace
    rw [if_neg (by omega)]
    unfold maybeAlign
    rw [if_pos h1]
    have : "80 ".toList = "80".toList ++ [' '] := by decide
    rw [this]; simp
  | a :: b :: rest, hb, code0, h0 => by
    obtain ⟨e, he, _, hc⟩ := charCode_basic a (hb a (by simp))
    obtain ⟨e', he', _, hc'⟩ := charCode_basic b (hb b (by simp))
    have hl := (code_len e he).1
    have hl' := (code_len e' he').1
    have h1 : (code0 ++ e.2.toList).length % 5 = 2 := by simp [hl]; omega
    have h2 : (code0 ++ e.2.toList ++ e'.2.toList).length % 5 = 4 := by simp [hl, hl']; omega
    have step1 : printChar code0 a = code0 ++ e.2.toList := by
      unfold printChar maybeSpace
      simp only [hc, hl, if_true]
      rw [if_neg (by omega)]
    have step2 : printChar (code0 ++ e.2.toList) b = code0 ++ e.2.toList ++ e'.2.toList ++ [' '] := by
      unfold printChar maybeSpace
      simp only [hc', hl', if_true]
      rw [if_pos h2]
    simp only [List.foldl_cons, step1, step2]
    have h3 : (code0 ++ e.2.toList ++ e'.2.toList ++ [' ']).length % 5 = 0 := by simp [hl, hl']; omega
    rw [line_words rest (fun c hc => hb c (by simp [hc])) _ h3]
    simp only [rowWords, List.flatMap_cons, String.toList_ofList, hc, hc']
    simp

/-! ### reading them -/

theorem lstripBy_noSpace (t : Str) (h : ∀ c ∈ t, isSpace c = false) : lstripBy isSpace t = t := by
  cases t with
  | nil => rfl
  | cons c t => simp [lstripBy, h c (by simp)]

theorem strip_noSpace (t : Str) (h : ∀ c ∈ t, isSpace c = false) : strip t = t := by
  unfold strip stripBy rstripBy
  rw [lstripBy_noSpace t h, lstripBy_noSpace t.reverse (fun c hc => h c (List.mem_reverse.mp hc))]
  simp

/-- a word as the reader wants it: four characters, none of them white space, two basic characters -/
structure GoodWord (w : String) (a b : String) : Prop where
  len : w.toList.length = 4
  noSpace : ∀ c ∈ w.toList, isSpace c = false
  basic : BasicWord w a b

theorem words_good (r : Reader) (w : String) (ws : List String) (a b : String) (h : GoodWord w a b) :
    words r (w :: ws) = words (word r w ws.head?) ws := by
  have hw : String.ofList (strip w.toList) = w := by rw [strip_noSpace _ h.noSpace, String.ofList_toList]
  have hl : w.length = 4 := by rw [← String.length_toList]; exact h.len
  conv => lhs; unfold words
  simp only [hw, hl, if_true]

open PcVerif.Props.C16 in
/-- reading a list of good words extends the held text by their characters -/
theorem words_held : ∀ (ws : List (String × String × String)), (∀ x ∈ ws, GoodWord x.1 x.2.1 x.2.2) → ∀ (r : Reader),
    heldText (words r (ws.map (·.1))) = heldText r ++ vis (ws.flatMap fun x => x.2.1.toList ++ x.2.2.toList) := by
  intro ws
  induction ws with
  | nil => intro _ r; simp [words, vis]
  | cons x ws ih =>
    intro h r
    have hx := h x (by simp)
    simp only [List.map_cons, List.flatMap_cons]
    rw [words_good r x.1 _ x.2.1 x.2.2 hx, ih (fun y hy => h y (by simp [hy])), word_basic_held r x.1 _ x.2.1 x.2.2 hx.basic,
      vis_append, List.append_assoc]
    simp only [vis_append, List.append_assoc]

/-- the words of a line with the characters each of them stands for -/
def rowWordsDecoded : List Char → List (String × String × String)
  | [] => []
  | [a] => [(String.ofList (charCode a ++ "80".toList), String.singleton a, "")]
  | a :: b :: rest => (String.ofList (charCode a ++ charCode b), String.singleton a, String.singleton b) :: rowWordsDecoded rest

theorem rowWordsDecoded_fst : ∀ (line : List Char), (rowWordsDecoded line).map (·.1) = rowWords line
  | [] => rfl
  | [_] => rfl
  | _ :: _ :: rest => by simp [rowWordsDecoded, rowWords, rowWordsDecoded_fst rest]

theorem rowWordsDecoded_text : ∀ (line : List Char),
    (rowWordsDecoded line).flatMap (fun x => x.2.1.toList ++ x.2.2.toList) = line
  | [] => rfl
  | [a] => by simp [rowWordsDecoded]
  | a :: b :: rest => by simp [rowWordsDecoded, rowWordsDecoded_text rest]

theorem rowWordsDecoded_good : ∀ (line : List Char), (∀ c ∈ line, Basic c) → ∀ x ∈ rowWordsDecoded line, GoodWord x.1 x.2.1 x.2.2
  | [], _, x, hx => by simp [rowWordsDecoded] at hx
  | [a], hb, x, hx => by
    simp only [rowWordsDecoded, List.mem_singleton] at hx
    subst hx
    obtain ⟨e, he, hk, hc⟩ := charCode_basic a (hb a (by simp))
    obtain ⟨hl, hns, _⟩ := code_len e he
    obtain ⟨f1, f2, f3⟩ := filler_reads_empty
    have hw : String.ofList (charCode a ++ "80".toList) = e.2 ++ "80" := by
      apply String.toList_inj.mp
      rw [String.toList_ofList, String.toList_append, hc]
    refine ⟨?_, ?_, ?_⟩
    · simp [hc, hl]
    · intro c hcm
      simp only [String.toList_ofList, List.mem_append] at hcm
      rcases hcm with h | h
      · exact hns c (hc ▸ h)
      · have := List.all_eq_true.mp f3 c h
        simpa using this
    · show BasicWord (String.ofList (charCode a ++ "80".toList)) (String.singleton a) ""
      rw [hw, ← hk]
      exact basic_then e he "80" "" f2 f1
  | a :: b :: rest, hb, x, hx => by
    simp only [rowWordsDecoded, List.mem_cons] at hx
    rcases hx with rfl | hx
    · obtain ⟨e, he, hk, hc⟩ := charCode_basic a (hb a (by simp))
      obtain ⟨e', he', hk', hc'⟩ := charCode_basic b (hb b (by simp))
      obtain ⟨hl, hns, _⟩ := code_len e he
      obtain ⟨hl', hns', hch'⟩ := code_len e' he'
      have hw : String.ofList (charCode a ++ charCode b) = e.2 ++ e'.2 := by
        apply String.toList_inj.mp
        rw [String.toList_ofList, String.toList_append, hc, hc']
      refine ⟨?_, ?_, ?_⟩
      · simp [hc, hc', hl, hl']
      · intro c hcm
        simp only [String.toList_ofList, List.mem_append] at hcm
        rcases hcm with h | h
        · exact hns c (hc ▸ h)
        · exact hns' c (hc' ▸ h)
      · show BasicWord (String.ofList (charCode a ++ charCode b)) (String.singleton a) (String.singleton b)
        rw [hw, ← hk, ← hk']
        exact basic_then e he e'.2 e'.1 hl' hch'
    · exact rowWordsDecoded_good rest (fun c hc => hb c (by simp [hc])) x hx

open PcVerif.Props.C16 in
/-- **C17 (a written row re-reads to the same characters).** for every laid-out line of characters of the basic table:
    the words the writer emits for it are read by the reader, from any state, as character words only, and they add
    exactly the line's characters — in order, none lost, doubled or taken for a command — to the text the reader holds -/
theorem written_row_rereads (line : List Char) (hb : ∀ c ∈ line, Basic c) (r : Reader) :
    heldText (words r (rowWords line)) = heldText r ++ vis line := by
  rw [← rowWordsDecoded_fst, words_held _ (rowWordsDecoded_good line hb), rowWordsDecoded_text]

end PcVerif.SccW
