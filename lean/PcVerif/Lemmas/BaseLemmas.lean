import PcVerif.Spec.Base
namespace PcVerif.Base
variable {α : Type}

theorem mergeNodes_acc (brk : α) (acc : List α) (cs : List (Cap α)) (h : acc ≠ []) :
    mergeNodes brk acc cs = acc ++ cs.flatMap (fun c => brk :: c.nodes) := by
  induction cs generalizing acc with
  | nil => simp [mergeNodes]
  | cons c cs ih =>
    have hne : acc.isEmpty = false := by cases acc <;> simp_all
    simp only [mergeNodes, hne, Bool.false_eq_true, if_false]
    rw [ih _ (by simp [h])]
    simp

theorem joinBrk_cons (brk : α) (x : List α) (xs : List (List α)) :
    joinBrk brk (x :: xs) = x ++ xs.flatMap (fun y => brk :: y) := by
  induction xs generalizing x with
  | nil => simp [joinBrk]
  | cons y t ih => simp [joinBrk, ih]

theorem merge1_eq_specCap (brk : α) (c : Cap α) (cs : List (Cap α)) (hc : c.nodes ≠ []) :
    merge1 brk c cs = specCap brk (c, cs) := by
  simp only [merge1, specCap, mergeNodes, List.isEmpty_nil, if_true, List.nil_append, List.map_cons]
  rw [mergeNodes_acc _ _ _ hc, joinBrk_cons]
  simp [List.flatMap_map]

theorem specCap_single (brk : α) (c : Cap α) : specCap brk (c, []) = c := by
  simp [specCap, joinBrk]

/-- the head of the first run of a non-empty list is its first caption -/
theorem runs_cons_head (c : Cap α) (cs : List (Cap α)) :
    ∃ r rest, runs (c :: cs) = (c, r) :: rest := by
  simp only [runs]
  split
  · exact ⟨_, _, rfl⟩
  · split <;> exact ⟨_, _, rfl⟩

theorem runs_same_span (x : Cap α) (xs : List (Cap α)) (p : Rat × Rat)
    (h : ∀ y ∈ x :: xs, y.span = p) : runs (x :: xs) = [(x, xs)] := by
  induction xs generalizing x with
  | nil => simp [runs]
  | cons y ys ih =>
    have hy : ∀ z ∈ y :: ys, z.span = p := fun z hz => h z (List.mem_cons_of_mem _ hz)
    have e : x.span = y.span := by rw [h x (by simp), h y (by simp)]
    rw [runs, ih y hy]
    simp [e]

theorem runs_append_break (x : Cap α) (xs : List (Cap α)) (c : Cap α) (cs : List (Cap α)) (p : Rat × Rat)
    (h : ∀ y ∈ x :: xs, y.span = p) (hc : c.span ≠ p) :
    runs ((x :: xs) ++ c :: cs) = (x, xs) :: runs (c :: cs) := by
  induction xs generalizing x with
  | nil =>
    obtain ⟨r, rest, e⟩ := runs_cons_head c cs
    have hx : x.span = p := h x (by simp)
    have : ¬ x.span = c.span := by rw [hx]; exact fun e => hc e.symm
    simp only [List.cons_append, List.nil_append]
    rw [runs, e]
    simp [this]
  | cons y ys ih =>
    have hy : ∀ z ∈ y :: ys, z.span = p := fun z hz => h z (List.mem_cons_of_mem _ hz)
    have e : x.span = y.span := by rw [h x (by simp), h y (by simp)]
    have := ih y hy
    simp only [List.cons_append] at this ⊢
    rw [runs, this]
    simp [e]

theorem mergeLoop_runs (brk : α) (cs : List (Cap α)) (l x : Cap α) (xs merged : List (Cap α))
    (h : ∀ y ∈ x :: xs, y.span = l.span) :
    mergeLoop brk (some l) (x :: xs) merged cs
      = merged ++ (runs ((x :: xs) ++ cs)).map (fun r => merge1 brk r.1 r.2) := by
  induction cs generalizing l x xs merged with
  | nil =>
    simp only [mergeLoop, List.isEmpty_cons, Bool.false_eq_true, if_false, List.append_nil]
    rw [runs_same_span x xs _ h]
    simp [pushMerged, merge]
  | cons c cs ih =>
    simp only [mergeLoop]
    split
    · rename_i hs
      have h' : ∀ y ∈ x :: (xs ++ [c]), y.span = c.span := by
        intro y hy
        simp only [List.mem_cons, List.mem_append, List.mem_nil_iff, or_false] at hy
        rcases hy with hy | hy | hy
        · rw [hy, h x (by simp), hs]
        · rw [h y (by simp [hy]), hs]
        · rw [hy]
      have := ih c x (xs ++ [c]) merged h'
      simp only [List.cons_append, List.append_assoc, List.nil_append] at this ⊢
      exact this
    · rename_i hs
      have := ih c c [] (pushMerged brk merged (x :: xs)) (by simp)
      rw [this, runs_append_break x xs c cs _ h hs]
      simp [pushMerged, merge]

theorem mergeConcurrent_runs_merge1 (brk : α) (cs : List (Cap α)) :
    mergeConcurrent brk cs = (runs cs).map (fun r => merge1 brk r.1 r.2) := by
  cases cs with
  | nil => simp [mergeConcurrent, mergeLoop, runs]
  | cons c cs =>
    have hl : mergeLoop brk none [] [] (c :: cs) = mergeLoop brk (some c) [c] [] cs := by simp [mergeLoop]
    obtain ⟨r, rest, e⟩ := runs_cons_head c cs
    unfold mergeConcurrent
    rw [hl, mergeLoop_runs brk cs c c [] [] (by simp)]
    simp [e]

theorem runs_head_mem (cs : List (Cap α)) : ∀ r ∈ runs cs, r.1 ∈ cs := by
  induction cs with
  | nil => simp [runs]
  | cons c cs ih =>
    intro r hr
    simp only [runs] at hr
    split at hr
    · simp at hr; simp [hr]
    · rename_i d r' rest e
      split at hr
      · simp only [List.mem_cons] at hr
        rcases hr with hr | hr
        · simp [hr]
        · exact List.mem_cons_of_mem _ (ih r (by rw [e]; simp [hr]))
      · simp only [List.mem_cons] at hr
        rcases hr with hr | hr | hr
        · simp [hr]
        · exact List.mem_cons_of_mem _ (ih r (by rw [e]; simp [hr]))
        · exact List.mem_cons_of_mem _ (ih r (by rw [e]; simp [hr]))

def AdjDistinct : List (Cap α) → Prop
  | [] => True
  | [_] => True
  | a :: b :: t => a.span ≠ b.span ∧ AdjDistinct (b :: t)

theorem specCap_span (brk : α) (r : Cap α × List (Cap α)) : (specCap brk r).span = r.1.span := rfl

theorem runs_adjDistinct (brk : α) (cs : List (Cap α)) : AdjDistinct ((runs cs).map (specCap brk)) := by
  induction cs with
  | nil => simp [runs, AdjDistinct]
  | cons c cs ih =>
    simp only [runs]
    split
    · simp [AdjDistinct]
    · rename_i d r rest e
      rw [e] at ih
      split
      · rename_i hs
        cases rest with
        | nil => simp [AdjDistinct]
        | cons f rest' =>
          simp only [List.map_cons, AdjDistinct] at ih ⊢
          refine ⟨?_, ih.2⟩
          have := ih.1
          simp only [specCap_span] at this ⊢
          rw [hs]; exact this
      · rename_i hs
        simp only [List.map_cons, AdjDistinct] at ih ⊢
        exact ⟨by simpa [specCap_span] using hs, ih⟩

theorem runs_of_adjDistinct (l : List (Cap α)) (h : AdjDistinct l) : runs l = l.map (fun c => (c, [])) := by
  induction l with
  | nil => simp [runs]
  | cons a t ih =>
    cases t with
    | nil => simp [runs]
    | cons b t' =>
      have h2 : AdjDistinct (b :: t') := h.2
      have := ih h2
      rw [runs, this]
      simp [h.1]

theorem specCap_nodes_ne (brk : α) (r : Cap α × List (Cap α)) (h : r.1.nodes ≠ []) :
    (specCap brk r).nodes ≠ [] := by
  simp only [specCap, List.map_cons]
  rw [joinBrk_cons]
  simp [h]

end PcVerif.Base
