/-
  Text conservation in the SCC reader (C16, also C05): `_format_italics` never creates, drops or reorders a visible
  character; storing a buffer (`create_and_store`) appends exactly the buffer's visible characters to the stash; the
  roll-up / paint-on flush moves the buffer's characters into the stash and leaves an empty buffer.
-/
import PcVerif.Model.Scc.Reader
import PcVerif.Lemmas.ItalicsLemmas
namespace PcVerif.Scc
open Str

/-- text carried by instruction nodes -/
def itext : List INode → Str
  | [] => []
  | n :: ns => (if n.kind == .text then n.text else []) ++ itext ns

theorem itext_append (a b : List INode) : itext (a ++ b) = itext a ++ itext b := by
  induction a with
  | nil => rfl
  | cons n ns ih => simp [itext, ih]

theorem itext_cons_nontext (n : INode) (ns : List INode) (h : n.kind ≠ .text) : itext (n :: ns) = itext ns := by
  simp [itext, h]

theorem itext_skipInitialOff : ∀ (can : Bool) (l : List INode), itext (skipInitialOff can l) = itext l
  | _, [] => rfl
  | can, n :: ns => by
    unfold skipInitialOff
    by_cases h1 : n.kind = .ion
    · simp [h1, itext, itext_skipInitialOff true ns]
    · by_cases h2 : n.kind = .ioff
      · cases can <;> simp [h1, h2, itext, itext_skipInitialOff _ ns]
      · simp [h1, h2, itext, itext_skipInitialOff can ns]

theorem itext_skipEmptyText (l : List INode) : itext (skipEmptyText l) = itext l := by
  unfold skipEmptyText
  induction l with
  | nil => rfl
  | cons n ns ih =>
    by_cases h : (n.kind == .text && n.text.isEmpty) = true
    · simp only [List.filter_cons, h, Bool.not_true, Bool.false_eq_true, if_false, ih]
      simp only [Bool.and_eq_true, List.isEmpty_iff] at h
      simp [itext, h.2]
    · simp only [List.filter_cons, h, Bool.not_false, if_true, itext, ih]

theorem itext_skipRedundant : ∀ (st : Option Bool) (l : List INode), itext (skipRedundant st l) = itext l
  | _, [] => rfl
  | st, n :: ns => by
    unfold skipRedundant
    by_cases h : (n.kind == .ion || n.kind == .ioff) = true
    · have hk : n.kind ≠ .text := by
        intro e; rw [e] at h; simp at h
      simp only [h, if_true]
      cases st with
      | none =>
        by_cases ho : (n.kind == .ion) = true
        · simp only [ho, if_true]; simp [itext, hk, itext_skipRedundant _ ns]
        · simp only [ho, if_false]; simp [itext, hk, itext_skipRedundant _ ns]
      | some s =>
        by_cases ho : ((n.kind == .ion) == s) = true
        · simp only [ho, if_true]; simp [itext, hk, itext_skipRedundant _ ns]
        · simp only [ho, if_false]; simp [itext, hk, itext_skipRedundant _ ns]
    · simp only [h, if_false]; simp [itext, itext_skipRedundant st ns]

theorem itext_closeBeforeRepos : ∀ (on : Bool) (p : Pos) (l : List INode), itext (closeBeforeRepos on p l) = itext l
  | _, _, [] => rfl
  | on, p, n :: ns => by
    unfold closeBeforeRepos
    by_cases h1 : n.kind = .ion
    · simp [h1, itext, itext_closeBeforeRepos true n.pos ns]
    · by_cases h2 : n.kind = .ioff
      · simp [h1, h2, itext, itext_closeBeforeRepos false p ns]
      · by_cases h3 : n.kind = .repos ∧ on = true
        · obtain ⟨hr, ho⟩ := h3
          subst ho
          simp [h1, h2, hr, itext, itext_closeBeforeRepos true p ns]
        · have h3' : (n.kind == .repos && on) = false := by
            cases on <;> simp_all
          simp only [kind_beq, h1, h2, decide_false, Bool.false_eq_true, if_false, h3']
          simp [itext, h3, itext_closeBeforeRepos on p ns]

theorem itext_ensureFinalClose (l : List INode) : itext (ensureFinalClose l) = itext l := by
  unfold ensureFinalClose
  split
  rename_i on p _
  cases on <;> simp [itext_append, itext]

theorem itext_removeOnOff : ∀ (tc : Option INode) (l : List INode), (∀ x, tc = some x → x.kind ≠ .text) →
    itext (removeOnOff tc l) = itext l
  | _, [], _ => rfl
  | tc, n :: ns, htc => by
    unfold removeOnOff
    by_cases h1 : n.kind = .ion
    · simp [h1, itext, itext_removeOnOff (some n) ns (by intro x hx; cases hx; simp [h1])]
    · by_cases h2 : n.kind = .ioff
      · cases tc with
        | none => simp [h1, h2, itext, itext_removeOnOff none ns (by simp)]
        | some x => simp [h1, h2, itext, itext_removeOnOff none ns (by simp)]
      · cases tc with
        | none => simp [h1, h2, itext, itext_removeOnOff none ns (by simp)]
        | some x =>
          have hx := htc x rfl
          simp [h1, h2, itext, hx, itext_removeOnOff none ns (by simp)]

theorem itext_removeOffOn : ∀ (tc : Option INode) (l : List INode), (∀ x, tc = some x → x.kind ≠ .text) →
    itext (removeOffOn tc l) = itext l
  | tc, [], htc => by
    unfold removeOffOn
    cases tc with
    | none => rfl
    | some x => simp [itext, htc x rfl]
  | tc, n :: ns, htc => by
    unfold removeOffOn
    by_cases h1 : n.kind = .ioff
    · simp [h1, itext, itext_removeOffOn (some n) ns (by intro x hx; cases hx; simp [h1])]
    · by_cases h2 : n.kind = .ion
      · cases tc with
        | none => simp [h1, h2, itext, itext_removeOffOn none ns (by simp)]
        | some x => simp [h1, h2, itext, itext_removeOffOn none ns (by simp)]
      · cases tc with
        | none => simp [h1, h2, itext, itext_removeOffOn none ns (by simp)]
        | some x =>
          have hx := htc x rfl
          simp [h1, h2, itext, hx, itext_removeOffOn none ns (by simp)]

theorem itext_dropTrailingBreaks : ∀ (l : List INode), itext (dropTrailingBreaks l) = itext l
  | [] => rfl
  | n :: ns => by
    have ih := itext_dropTrailingBreaks ns
    unfold dropTrailingBreaks
    by_cases h : ((dropTrailingBreaks ns).isEmpty && n.kind == .brk) = true
    · simp only [h, if_true]
      simp only [Bool.and_eq_true, List.isEmpty_iff, beq_iff_eq] at h
      rw [h.1] at ih
      simp [itext, h.2, ← ih]
    · simp only [h, if_false]
      simp [itext, ih]

/-! ### visible characters -/

/-- the characters that are not white space -/
def vis (s : Str) : Str := s.filter fun c => !isSpace c

theorem vis_append (a b : Str) : vis (a ++ b) = vis a ++ vis b := by simp [vis]

theorem vis_lstrip (s : Str) : vis (lstripBy isSpace s) = vis s := by
  induction s with
  | nil => rfl
  | cons c s ih =>
    by_cases h : isSpace c = true
    · simp [lstripBy, h, vis] at ih ⊢; exact ih
    · simp [lstripBy, h]

theorem vis_reverse (s : Str) : vis s.reverse = (vis s).reverse := by simp [vis, List.filter_reverse]

theorem vis_rstrip (s : Str) : vis (rstrip s) = vis s := by
  unfold rstrip rstripBy
  rw [vis_reverse, vis_lstrip, vis_reverse, List.reverse_reverse]

theorem ivis_rstripBeforeBreak : ∀ (l : List INode), vis (itext (rstripBeforeBreak l)) = vis (itext l)
  | [] => rfl
  | [n] => by
    unfold rstripBeforeBreak
    by_cases h : n.kind = .text
    · simp [h, itext, vis_rstrip]
    · simp [h, itext]
  | a :: b :: rest => by
    have ih := ivis_rstripBeforeBreak (b :: rest)
    unfold rstripBeforeBreak
    by_cases h : (a.kind == .text && !a.text.isEmpty && b.kind == .brk) = true
    · have ha : a.kind = .text := by
        simp only [Bool.and_eq_true, kind_beq, decide_eq_true_eq] at h; exact h.1.1
      simp only [h, if_true]
      simp only [itext, ha, kind_beq, decide_true, if_true, vis_append, vis_rstrip] at ih ⊢
      rw [ih]
    · have h' : (a.kind == .text && !a.text.isEmpty && b.kind == .brk) = false := by simpa using h
      rw [h']
      simp only [Bool.false_eq_true, if_false]
      simp only [itext, vis_append] at ih ⊢
      rw [ih]

/-- **`_format_italics` keeps the visible characters**: none is created, dropped, duplicated or moved -/
theorem ivis_formatItalics (l : List INode) : vis (itext (formatItalics l)) = vis (itext l) := by
  unfold formatItalics
  rw [ivis_rstripBeforeBreak, itext_dropTrailingBreaks, itext_removeOffOn none _ (by simp),
    itext_removeOnOff none _ (by simp), itext_ensureFinalClose, itext_closeBeforeRepos, itext_skipRedundant,
    itext_skipEmptyText, itext_skipInitialOff]

/-! ### characters enter the buffer exactly once -/

theorem itext_appendToLast (coll : List INode) (chars : Str) (n : INode) (h : coll.getLast? = some n) (hk : n.kind = .text) :
    itext (appendToLast coll chars) = itext coll ++ chars := by
  have hne : coll ≠ [] := by intro e; subst e; simp at h
  have hc : coll = coll.dropLast ++ [n] := by
    have := List.dropLast_concat_getLast hne
    rw [List.getLast?_eq_some_getLast hne] at h
    cases h; exact this.symm
  unfold appendToLast
  rw [h]
  simp only
  conv => rhs; rw [hc]
  simp [itext_append, itext, hk]

/-- **`add_chars`**: whatever the tracker asks for (a break, a repositioning, a fresh node), the text of the buffer grows by
    exactly the characters given -/
theorem itext_addChars (c : Creator) (t : Tracker) (chars : Str) :
    itext (addChars c t chars).1.coll = itext c.coll ++ chars := by
  unfold addChars
  by_cases he : chars.isEmpty = true
  · simp [he, List.isEmpty_iff.mp he]
  · simp only [he, Bool.false_eq_true, if_false]
    have fresh : ∀ (pre : List INode) (p : Pos), itext (appendToLast (pre ++ [⟨.text, [], p⟩]) chars) = itext pre ++ chars := by
      intro pre p
      rw [itext_appendToLast _ chars ⟨.text, [], p⟩ (by simp) rfl]
      simp [itext_append, itext]
    have fresh2 : ∀ (pre : List INode) (x : INode) (p : Pos), x.kind ≠ .text →
        itext (appendToLast (pre ++ [x, ⟨.text, [], p⟩]) chars) = itext pre ++ chars := by
      intro pre x p hx
      have : pre ++ [x, ⟨.text, [], p⟩] = (pre ++ [x]) ++ [⟨.text, [], p⟩] := by simp
      rw [this, fresh]
      simp [itext_append, itext, hx]
    -- the list after the first step: unchanged, or with a fresh empty text node
    have base : ∀ (coll' : List INode), (coll' = c.coll ∨ coll' = c.coll ++ [⟨.text, [], t.cur⟩]) → itext coll' = itext c.coll := by
      intro coll' h
      rcases h with rfl | rfl
      · rfl
      · simp [itext_append, itext]
    cases hl : c.coll.getLast? with
    | none =>
      simp only
      by_cases hb : t.brk = true
      · simp only [hb, if_true]
        rw [fresh2 _ _ _ (by simp)]; simp [itext_append, itext]
      · by_cases hr : t.rep = true
        · simp only [hb, hr, if_true, Bool.false_eq_true, if_false]
          rw [fresh2 _ _ _ (by simp)]; simp [itext_append, itext]
        · simp only [hb, hr, Bool.false_eq_true, if_false]
          rw [fresh]
    | some n =>
      simp only
      by_cases hb : t.brk = true
      · simp only [hb, if_true]
        rw [fresh2 _ _ _ (by simp)]
        split <;> simp [itext_append, itext]
      · by_cases hr : t.rep = true
        · simp only [hb, hr, if_true, Bool.false_eq_true, if_false]
          rw [fresh2 _ _ _ (by simp)]
          split <;> simp [itext_append, itext]
        · simp only [hb, hr, Bool.false_eq_true, if_false, Bool.not_false, Bool.and_true]
          by_cases hk : (n.kind == .text) = true
          · simp only [hk, if_true]
            exact itext_appendToLast _ chars n hl (by simpa using hk)
          · simp only [hk, Bool.false_eq_true, if_false]
            rw [fresh]

/-! ### one word of the stream -/

/-- `w` is a word of two basic characters: no command, preamble, tab offset, special or extended code -/
structure BasicWord (w : String) (a b : String) : Prop where
  notCommand : isCommand w = false
  notPac : isPac w = false
  notSpecial : special w = none
  notExtended : extended w = none
  notTab : tabOffset w = none
  notCue : isCueStarting w = false
  notBs : (w == "94a1") = false
  first : character (hiByte w) = some a
  second : character (loByte w) = some b

theorem buf_setBuf (r : Reader) (c : Creator) : (r.setBuf c).buf = c := by
  cases h : r.active <;> simp [Reader.setBuf, Reader.buf, h]

/-- **a word of basic characters** puts exactly its two characters at the end of the active buffer's text and touches
    neither the stash nor the mode — in every state of the reader (doubling memory, tracker, any buffer content) -/
theorem word_basic (r : Reader) (w : String) (nxt : Option String) (a b : String) (h : BasicWord w a b) :
    itext (word r w nxt).buf.coll = itext r.buf.coll ++ (a.toList ++ b.toList) ∧
    (word r w nxt).S.stash = r.S.stash ∧ (word r w nxt).active = r.active := by
  have hd : handleDouble r w = (false, { r with lastCmd := w }) := by
    unfold handleDouble
    simp only [h.notCommand, h.notPac, h.notSpecial, h.notExtended, h.notTab, h.notCue, h.notBs, Bool.and_false,
      Bool.or_false, Option.isSome_none, Bool.false_and, Bool.false_eq_true, if_false, ite_self]
  unfold word
  rw [hd]
  simp only [Bool.false_eq_true, if_false, h.notCommand, h.notPac, Bool.or_self, h.notSpecial, h.notExtended, h.first, h.second]
  have key : ∀ (r' : Reader), r'.buf = r.buf → r'.S = r.S → r'.active = r.active → r'.tr = r.tr →
      itext ({ (r'.setBuf (addChars r'.buf r'.tr (a.toList ++ b.toList)).1) with tr := (addChars r'.buf r'.tr (a.toList ++ b.toList)).2, frames := r'.frames + 1 } : Reader).buf.coll
        = itext r.buf.coll ++ (a.toList ++ b.toList) := by
    intro r' hb _ ha _
    have : ({ (r'.setBuf (addChars r'.buf r'.tr (a.toList ++ b.toList)).1) with tr := (addChars r'.buf r'.tr (a.toList ++ b.toList)).2, frames := r'.frames + 1 } : Reader).buf
        = (addChars r'.buf r'.tr (a.toList ++ b.toList)).1 := by
      cases hh : r'.active <;> simp [Reader.setBuf, Reader.buf, hh]
    rw [this, itext_addChars, hb]
  refine ⟨?_, ?_, ?_⟩
  · exact key { r with lastCmd := w } (by cases hh : r.active <;> simp [Reader.buf, hh]) rfl rfl rfl
  · cases hh : r.active <;> simp [Reader.setBuf, hh]
  · cases hh : r.active <;> simp [Reader.setBuf, hh]

end PcVerif.Scc
