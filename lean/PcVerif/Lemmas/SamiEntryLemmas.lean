/-
  SAMI writer, all languages (C02): the paragraphs of the written document, with the start of the block they are in, are —
  as a multiset — exactly the per-language plans: one paragraph per cue at its start millisecond, one blank paragraph at
  the previous cue's end millisecond unless the next cue of that language starts in it, nothing after a language's last cue.
-/
import PcVerif.Lemmas.SamiPlanLemmas
namespace PcVerif.SamiW
open List

/-- the paragraphs of a document with the start of their block -/
def entries (b : Body) : List (Nat × PEntry) := b.flatMap fun s => s.ps.map fun p => (s.start, p)

theorem entries_append (a b : Body) : entries (a ++ b) = entries a ++ entries b := by simp [entries]

theorem entries_insertAt (body : Body) (k t : Nat) : entries (insertAt body k ⟨t, []⟩) = entries body := by
  unfold insertAt
  rw [entries_append]
  have : entries (⟨t, []⟩ :: body.drop k) = entries (body.drop k) := by simp [entries]
  rw [this, ← entries_append, List.take_append_drop]

/-- a block is looked up or created: the paragraphs stay as they are -/
theorem entries_recreateSync (body : Body) (prim : Bool) (time : Nat) :
    entries (recreateSync body prim time).1 = entries body := by
  unfold recreateSync
  split
  · simp [entries]
  · split
    · rfl
    · split
      · exact entries_insertAt _ _ _
      · split
        · exact entries_insertAt _ _ _
        · simp [entries]

/-- a paragraph is appended to block `i` -/
theorem entries_appendP : ∀ (body : Body) (i : Nat) (s : Sync) (p : PEntry), body[i]? = some s →
    entries (appendP body (some i) p) ~ (s.start, p) :: entries body := by
  intro body
  induction body with
  | nil => intro i s p h; simp at h
  | cons x xs ih =>
    intro i s p h
    cases i with
    | zero =>
      simp only [List.getElem?_cons_zero, Option.some.injEq] at h
      subst h
      simp only [appendP, List.modify_zero_cons, entries, List.flatMap_cons, List.map_append, List.map_cons, List.map_nil]
      rw [List.append_assoc, List.singleton_append]
      exact (perm_middle (a := (x.start, p)) (l₁ := x.ps.map fun q => (x.start, q))
        (l₂ := xs.flatMap fun s => s.ps.map fun q => (s.start, q)))
    | succ i =>
      simp only [List.getElem?_cons_succ] at h
      have := ih i s p h
      simp only [appendP, List.modify_succ_cons, entries, List.flatMap_cons] at this ⊢
      exact (Perm.append_left _ this).trans (by
        exact (perm_middle (a := (s.start, p)) (l₁ := x.ps.map fun q => (x.start, q))
          (l₂ := xs.flatMap fun s => s.ps.map fun q => (s.start, q))))

/-- one caption: a blank paragraph at the previous end unless this cue starts in that millisecond, then the cue's own -/
def capEntries (lang cap : Nat) (lt : Option Nat) (a : Rat) : List (Nat × PEntry) :=
  (match lt with
   | some e => if ms a ≠ e then [(e, ⟨lang, true, cap⟩)] else []
   | none => []) ++ [(ms a, ⟨lang, false, cap⟩)]

theorem entries_recreateP (body : Body) (lt : Option Nat) (lang : Nat) (prim : Bool) (cap : Nat) (a b : Rat) :
    entries (recreateP body lt lang prim cap a b).1 ~ entries body ++ capEntries lang cap lt a := by
  unfold recreateP capEntries
  simp only
  have step : ∀ (bd : Body) (time : Nat) (p : PEntry),
      entries (appendP (recreateSync bd prim time).1 (recreateSync bd prim time).2 p) ~ (time, p) :: entries bd := by
    intro bd time p
    obtain ⟨i, s, hi, hsi, hst, _⟩ := recreateSync_spec bd prim time
    rw [hi]
    have := entries_appendP _ i s p hsi
    rw [entries_recreateSync, hst] at this
    exact this
  cases lt with
  | none =>
    simp only [List.nil_append]
    exact (step body (ms a) _).trans (perm_append_singleton _ _).symm
  | some e =>
    simp only
    by_cases hne : ms a ≠ e
    · simp only [hne, if_true, ne_eq, not_false_eq_true]
      have h1 := step body e ⟨lang, true, cap⟩
      have h2 := step (appendP (recreateSync body prim e).1 (recreateSync body prim e).2 ⟨lang, true, cap⟩) (ms a) ⟨lang, false, cap⟩
      refine h2.trans ?_
      refine (Perm.cons _ h1).trans ?_
      -- (ms a, real) :: (e, blank) :: entries body  ~  entries body ++ [(e, blank), (ms a, real)]
      have : entries body ++ [(e, (⟨lang, true, cap⟩ : PEntry)), (ms a, ⟨lang, false, cap⟩)]
          ~ (e, ⟨lang, true, cap⟩) :: (ms a, ⟨lang, false, cap⟩) :: entries body := by
        have := perm_append_comm (l₁ := entries body) (l₂ := [(e, (⟨lang, true, cap⟩ : PEntry)), (ms a, ⟨lang, false, cap⟩)])
        simpa using this
      exact (Perm.swap _ _ _).trans this.symm
    · have he : ms a = e := by simpa using hne
      simp only [he, ne_eq, not_true_eq_false, if_false, List.nil_append]
      have := step body e ⟨lang, false, cap⟩
      rw [← he] at this ⊢
      exact this.trans (perm_append_singleton _ _).symm

/-- the plan of one language: what `specPrimary` lists, as entries -/
def langEntries (lang : Nat) : Option Nat → Nat → List (Rat × Rat) → List (Nat × PEntry)
  | _, _, [] => []
  | lt, k, (a, b) :: cs => capEntries lang k lt a ++ langEntries lang (some (ms b)) (k + 1) cs

theorem entries_langLoop (lang : Nat) (prim : Bool) : ∀ (caps : List (Rat × Rat)) (body : Body) (lt : Option Nat) (k : Nat),
    entries (langLoop lang prim body lt k caps) ~ entries body ++ langEntries lang lt k caps := by
  intro caps
  induction caps with
  | nil => intro body lt k; simp [langLoop, langEntries]
  | cons c cs ih =>
    intro body lt k
    obtain ⟨a, b⟩ := c
    simp only [langLoop, langEntries]
    have h1 := entries_recreateP body lt lang prim k a b
    have hlt : (recreateP body lt lang prim k a b).2 = some (ms b) := by unfold recreateP; rfl
    have h2 := ih (recreateP body lt lang prim k a b).1 (recreateP body lt lang prim k a b).2 (k + 1)
    rw [hlt] at h2
    refine h2.trans ?_
    rw [← List.append_assoc]
    exact Perm.append_right _ h1

theorem entries_writeLoop : ∀ (rest : List (List (Rat × Rat))) (body : Body) (li : Nat),
    entries (writeLoop body li rest) ~ entries body ++ (rest.zipIdx li).flatMap (fun p => langEntries p.2 none 0 p.1) := by
  intro rest
  induction rest with
  | nil => intro body li; simp [writeLoop]
  | cons caps rest ih =>
    intro body li
    simp only [writeLoop, List.zipIdx_cons, List.flatMap_cons]
    refine (ih _ (li + 1)).trans ?_
    rw [← List.append_assoc]
    exact Perm.append_right _ (entries_langLoop li _ caps body none 0)

/-- **C02 (SAMI, any number of languages).** the paragraphs of the document — each with the start of the block it sits in —
    are, as a multiset, exactly what the per-language plans list: for every cue one paragraph at its start millisecond; a
    blank paragraph at the previous cue's end millisecond unless this cue starts in that very millisecond; nothing for the
    end of a language's last cue.  Nothing else is written and nothing is lost, whatever the languages' cues are. -/
theorem plan_entries (langs : List (List (Rat × Rat))) :
    entries (plan langs) ~ (langs.zipIdx 0).flatMap (fun p => langEntries p.2 none 0 p.1) := by
  unfold plan
  have := entries_writeLoop langs [] 0
  simpa [entries] using this

end PcVerif.SamiW
