import PcVerif.Spec.Geometry
namespace PcVerif.Geo
open Str

theorem spanDecimals_spec (s : Str) : s = (spanDecimals s).1 ++ (spanDecimals s).2 ∧
    (∀ c ∈ (spanDecimals s).1, isDecimal c = true) := by
  induction s with
  | nil => simp [spanDecimals]
  | cons c s ih =>
    unfold spanDecimals
    split
    · rename_i h
      obtain ⟨e, hd⟩ := ih
      refine ⟨by simpa using e, ?_⟩
      intro x hx
      simp only [List.mem_cons] at hx
      rcases hx with rfl | hx
      · exact h
      · exact hd x hx
    · simp

theorem spanDecimals_append (a rest : Str) (ha : ∀ c ∈ a, isDecimal c = true)
    (hr : ∀ c r, rest = c :: r → isDecimal c = false) : spanDecimals (a ++ rest) = (a, rest) := by
  induction a with
  | nil =>
    cases rest with
    | nil => simp [spanDecimals]
    | cons c r => simp [spanDecimals, hr c r rfl]
  | cons x a ih =>
    have hx : isDecimal x = true := ha x (by simp)
    have := ih (fun c hc => ha c (List.mem_cons_of_mem _ hc))
    simp [spanDecimals, hx, this]

theorem dropPrefix?_spec (s p r : Str) (h : dropPrefix? s p = some r) : s = p ++ r := by
  induction p generalizing s with
  | nil => simp [dropPrefix?] at h; simp [h]
  | cons c p ih =>
    cases s with
    | nil => simp [dropPrefix?] at h
    | cons d s =>
      simp only [dropPrefix?] at h
      split at h
      · rename_i e; subst e; simp [ih s h]
      · simp at h

theorem dropPrefix?_append (p r : Str) : dropPrefix? (p ++ r) p = some r := by
  induction p with
  | nil => cases r <;> simp [dropPrefix?]
  | cons c p ih => simp [dropPrefix?, ih]

theorem matchNumber_spec (s ip fp r : Str) (h : matchNumber s = some (ip, fp, r)) :
    IsDecimals ip ∧ (fp = [] ∨ IsDecimals fp) ∧ s = ip ++ (if fp = [] then [] else '.' :: fp) ++ r := by
  unfold matchNumber at h
  obtain ⟨e1, d1⟩ := spanDecimals_spec s
  generalize spanDecimals s = sp at h e1 d1
  obtain ⟨ip0, r0⟩ := sp
  simp only at h e1 d1
  split at h
  · simp at h
  · rename_i hne
    have hip0 : ip0 ≠ [] := by intro e; simp [e] at hne
    split at h
    · rename_i r' 
      obtain ⟨e2, d2⟩ := spanDecimals_spec r'
      generalize spanDecimals r' = sp2 at h e2 d2
      obtain ⟨fp0, r2⟩ := sp2
      simp only at h e2 d2
      split at h
      · rename_i hfe
        simp only [Option.some.injEq, Prod.mk.injEq] at h
        obtain ⟨rfl, rfl, rfl⟩ := h
        exact ⟨⟨hip0, d1⟩, Or.inl rfl, by simpa using e1⟩
      · rename_i hfe
        have hfp0 : fp0 ≠ [] := by intro e; simp [e] at hfe
        simp only [Option.some.injEq, Prod.mk.injEq] at h
        obtain ⟨rfl, rfl, rfl⟩ := h
        refine ⟨⟨hip0, d1⟩, Or.inr ⟨hfp0, d2⟩, ?_⟩
        simp [hfp0, e1, e2]
    · simp only [Option.some.injEq, Prod.mk.injEq] at h
      obtain ⟨rfl, rfl, rfl⟩ := h
      exact ⟨⟨hip0, d1⟩, Or.inl rfl, by simpa using e1⟩

theorem atDollar_spec (r : Str) (h : atDollar r = true) : ∃ nl : Bool, r = if nl then ['\n'] else [] := by
  unfold atDollar at h
  simp only [Bool.or_eq_true, beq_iff_eq] at h
  rcases h with h | h
  · exact ⟨false, by simp [h]⟩
  · exact ⟨true, by simp [h]⟩

theorem matchUnitDollar_spec (r : Str) (u : Unit) (h : matchUnitDollar r = some u) :
    ∃ nl : Bool, r = u.text ++ (if nl then ['\n'] else []) := by
  unfold matchUnitDollar at h
  have := List.find?_some h
  split at this
  · rename_i r' hd
    obtain ⟨nl, e⟩ := atDollar_spec r' this
    exact ⟨nl, by rw [dropPrefix?_spec _ _ _ hd, e]⟩
  · simp at this

end PcVerif.Geo
