import PcVerif.Spec.Geometry
import PcVerif.Lemmas.StrLemmas
namespace PcVerif.Geo
open Str

theorem matchNumber_spec (s ip fp r : Str) (h : matchNumber s = some (ip, fp, r)) :
    IsDecimals ip ∧ (fp = [] ∨ IsDecimals fp) ∧ s = ip ++ (if fp = [] then [] else '.' :: fp) ++ r := by
  unfold matchNumber at h
  obtain ⟨e1, d1⟩ := spanDecimals_spec s
  generalize spanDecimals s = sp at h e1 d1
  obtain ⟨ip0, r0⟩ := sp
  simp only at h e1 d1
  split at h
  · simp at h
  · rename_i hne
    have hip0 : ip0 ≠ [] := by intro e; simp [e] at hne
    split at h
    · rename_i r' 
      obtain ⟨e2, d2⟩ := spanDecimals_spec r'
      generalize spanDecimals r' = sp2 at h e2 d2
      obtain ⟨fp0, r2⟩ := sp2
      simp only at h e2 d2
      split at h
      · rename_i hfe
        simp only [Option.some.injEq, Prod.mk.injEq] at h
        obtain ⟨rfl, rfl, rfl⟩ := h
        exact ⟨⟨hip0, d1⟩, Or.inl rfl, by simpa using e1⟩
      · rename_i hfe
        have hfp0 : fp0 ≠ [] := by intro e; simp [e] at hfe
        simp only [Option.some.injEq, Prod.mk.injEq] at h
        obtain ⟨rfl, rfl, rfl⟩ := h
        refine ⟨⟨hip0, d1⟩, Or.inr ⟨hfp0, d2⟩, ?_⟩
        simp [hfp0, e1, e2]
    · simp only [Option.some.injEq, Prod.mk.injEq] at h
      obtain ⟨rfl, rfl, rfl⟩ := h
      exact ⟨⟨hip0, d1⟩, Or.inl rfl, by simpa using e1⟩

theorem atDollar_spec (r : Str) (h : atDollar r = true) : ∃ nl : Bool, r = if nl then ['\n'] else [] := by
  unfold atDollar at h
  simp only [Bool.or_eq_true, beq_iff_eq] at h
  rcases h with h | h
  · exact ⟨false, by simp [h]⟩
  · exact ⟨true, by simp [h]⟩

theorem matchUnitDollar_spec (r : Str) (u : Unit) (h : matchUnitDollar r = some u) :
    ∃ nl : Bool, r = u.text ++ (if nl then ['\n'] else []) := by
  unfold matchUnitDollar at h
  have := List.find?_some h
  split at this
  · rename_i r' hd
    obtain ⟨nl, e⟩ := atDollar_spec r' this
    exact ⟨nl, by rw [dropPrefix?_spec _ _ _ hd, e]⟩
  · simp at this

end PcVerif.Geo
